/* Translator back end: prints the .nvm layout constants of /repo's nvm_format.h as JSON. */
#include <stdio.h>
#include <stddef.h>
#include NVM_H_PATH
#include VM_H_PATH
int main(void) {
    printf("{\n");
    printf(" \"magic\": [%d, %d, %d, %d],\n", NVM_MAGIC_0, NVM_MAGIC_1, NVM_MAGIC_2, NVM_MAGIC_3);
    printf(" \"format_version\": %d,\n", NVM_FORMAT_VERSION);
    printf(" \"flag_has_main\": %d, \"flag_needs_extern\": %d, \"flag_debug_info\": %d,\n", NVM_FLAG_HAS_MAIN, NVM_FLAG_NEEDS_EXTERN, NVM_FLAG_DEBUG_INFO);
    printf(" \"sec_code\": %d, \"sec_strings\": %d, \"sec_functions\": %d, \"sec_imports\": %d, \"sec_debug\": %d,\n",
           NVM_SECTION_CODE, NVM_SECTION_STRINGS, NVM_SECTION_FUNCTIONS, NVM_SECTION_IMPORTS, NVM_SECTION_DEBUG);
    printf(" \"header_size\": %d, \"section_entry_size\": %d, \"function_entry_size\": %d, \"debug_entry_size\": %d, \"import_entry_base_size\": %d,\n",
           NVM_HEADER_SIZE, NVM_SECTION_ENTRY_SIZE, NVM_FUNCTION_ENTRY_SIZE, NVM_DEBUG_ENTRY_SIZE, NVM_IMPORT_ENTRY_BASE_SIZE);
    printf(" \"max_sections\": %d, \"max_strings\": %d, \"max_functions\": %d,\n", NVM_MAX_SECTIONS, NVM_MAX_STRINGS, NVM_MAX_FUNCTIONS);
    printf(" \"vm_stack_initial\": %d, \"vm_max_frames\": %d, \"vm_max_globals\": %d,\n", VM_STACK_INITIAL, VM_MAX_FRAMES, VM_MAX_GLOBALS);
    printf(" \"vm_err\": {\"ok\": %d, \"stackOverflow\": %d, \"stackUnderflow\": %d, \"callDepth\": %d, \"invalidOpcode\": %d, \"typeError\": %d, \"outOfBounds\": %d, \"divZero\": %d, \"assertFailed\": %d, \"undefinedGlobal\": %d, \"undefinedFunction\": %d, \"notImplemented\": %d, \"memory\": %d, \"decode\": %d}\n",
           VM_OK, VM_ERR_STACK_OVERFLOW, VM_ERR_STACK_UNDERFLOW, VM_ERR_CALL_DEPTH, VM_ERR_INVALID_OPCODE, VM_ERR_TYPE_ERROR, VM_ERR_OUT_OF_BOUNDS, VM_ERR_DIV_ZERO, VM_ERR_ASSERT_FAILED, VM_ERR_UNDEFINED_GLOBAL, VM_ERR_UNDEFINED_FUNCTION, VM_ERR_NOT_IMPLEMENTED, VM_ERR_MEMORY, VM_ERR_DECODE);
    printf("}\n");
    return 0;
}
