/* Translator back end: prints the daemon wire-protocol constants of /repo's vmd_protocol.h as JSON. */
#include <stdio.h>
#include <stddef.h>
#include VMD_H_PATH
int main(void) {
    printf("{\"version\": %d, \"header_size\": %d, \"sizeof_header\": %d, \"max_payload\": %u,\n", VMD_PROTO_VERSION, VMD_HEADER_SIZE, (int)sizeof(VmdMsgHeader), (unsigned)VMD_MAX_PAYLOAD);
    printf(" \"off_version\": %d, \"off_type\": %d, \"off_flags\": %d, \"off_len\": %d,\n", (int)offsetof(VmdMsgHeader, version), (int)offsetof(VmdMsgHeader, msg_type), (int)offsetof(VmdMsgHeader, flags), (int)offsetof(VmdMsgHeader, payload_len));
    printf(" \"load_exec\": %d, \"ping\": %d, \"status\": %d, \"shutdown\": %d, \"output\": %d, \"exit_code\": %d, \"error\": %d, \"pong\": %d, \"status_rsp\": %d}\n",
           VMD_MSG_LOAD_EXEC, VMD_MSG_PING, VMD_MSG_STATUS, VMD_MSG_SHUTDOWN, VMD_MSG_OUTPUT, VMD_MSG_EXIT_CODE, VMD_MSG_ERROR, VMD_MSG_PONG, VMD_MSG_STATUS_RSP);
    return 0;
}
