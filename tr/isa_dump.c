/* Translator back end: prints the instruction table of /repo's isa.c as Lean source.
 * isa.c is #included so that the static table and the operand-size function are the ones
 * the compiler sees (designated initialisers evaluated by the C compiler, not by a regex). */
#include <stdio.h>
#include ISA_C_PATH

static const char *tname(OperandType t) {
    switch (t) {
        case OPERAND_NONE: return "NONE";
        case OPERAND_U8: return "u8";
        case OPERAND_U16: return "u16";
        case OPERAND_U32: return "u32";
        case OPERAND_I32: return "i32";
        case OPERAND_I64: return "i64";
        case OPERAND_F64: return "f64";
    }
    return "BAD";
}

int main(void) {
    /* JSON, consumed by tr/gen.py */
    printf("{\n \"max_operands\": %d,\n \"max_instruction_size\": %d,\n \"op_count\": %d,\n", MAX_OPERANDS, ISA_MAX_INSTRUCTION_SIZE, (int)OP_COUNT);
    printf(" \"operand_sizes\": {");
    OperandType ts[] = {OPERAND_U8, OPERAND_U16, OPERAND_U32, OPERAND_I32, OPERAND_I64, OPERAND_F64};
    for (int i = 0; i < 6; i++) printf("%s\"%s\": %u", i ? ", " : "", tname(ts[i]), isa_operand_size(ts[i]));
    printf(", \"NONE\": %u},\n", isa_operand_size(OPERAND_NONE));
    printf(" \"tags\": [");
    for (int i = 0; i < TAG_COUNT; i++) printf("%s\"%s\"", i ? ", " : "", isa_tag_name((uint8_t)i));
    printf("],\n \"table\": [\n");
    int first = 1;
    for (int i = 0; i < 256; i++) {
        const InstructionInfo *e = &instruction_table[i];
        if (e->name == NULL) continue;
        printf("%s  {\"index\": %d, \"name\": \"%s\", \"opcode\": %u, \"operand_count\": %u, \"operands\": [", first ? "" : ",\n", i, e->name, e->opcode, e->operand_count);
        first = 0;
        for (int k = 0; k < e->operand_count && k < MAX_OPERANDS; k++) printf("%s\"%s\"", k ? ", " : "", tname(e->operands[k]));
        printf("], \"tail\": [");
        int f2 = 1;
        for (int k = e->operand_count; k < MAX_OPERANDS; k++) { printf("%s\"%s\"", f2 ? "" : ", ", tname(e->operands[k])); f2 = 0; }
        printf("]}");
    }
    printf("\n ]\n}\n");
    return 0;
}
