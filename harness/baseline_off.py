#!/usr/bin/env python3
"""Runs the repository's baseline suite (tests/nanovirt/test_codegen.c, 61 stable tests) on a scratch
copy of /repo's working tree built WITHOUT the verification guard; removes the copy afterwards."""
import os, shutil, subprocess, sys, tempfile
REPO = os.environ.get("VERIF_REPO", "/repo")
td = tempfile.mkdtemp(prefix="nanoverif-baseline-", dir="/var/tmp")
try:
    subprocess.run(["rsync", "-a", "--exclude", ".git", "--exclude", "/obj", "--exclude", "/bin", "--exclude", "/build",
                    REPO + "/", td + "/"], check=True)
    p = subprocess.run(["make", "-f", "Makefile.gnu", "-j16", "test-nanovirt"], cwd=td, stdout=subprocess.PIPE, stderr=subprocess.STDOUT)
    out = p.stdout.decode(errors="replace")
    tail = out.splitlines()[-80:]
    print("\n".join(tail))
    sys.exit(p.returncode)
finally:
    shutil.rmtree(td, ignore_errors=True)
