"""Python view of the .nvm container for the generators: parse, rebuild with arbitrary (also
inconsistent) field values, recompute the checksum.  Layout constants come from the generated
Lean file, the instruction table from the probe (isa.info), so the generators follow the source."""
import os
import re
import struct

from . import build, crcutil


def layout():
    txt = open(os.path.join(build.VERIF, "lean", "NanoVerif", "Gen", "NvmLayout.lean")).read()
    g = lambda k: int(re.search(r"def %s : Nat := (0x[0-9A-Fa-f]+|\d+)" % k, txt).group(1), 0)
    return {k: g(k) for k in ("headerSize", "sectionEntrySize", "functionEntrySize", "debugEntrySize", "importEntryBaseSize",
                              "secCode", "secStrings", "secFunctions", "secImports", "secDebug", "maxSections",
                              "vmMaxGlobals", "vmMaxFrames", "vmStackInitial", "checksumOffset")}


def isa_table():
    """{opcode: (name, [(kind, size)])} read from the generated Lean table"""
    txt = open(os.path.join(build.VERIF, "lean", "NanoVerif", "Gen", "IsaTable.lean")).read()
    sizes = dict(re.findall(r"\.(u8|u16|u32|i32|i64|f64) => (\d+)", re.search(r"def operandSize.*?\n\n", txt, re.S).group(0)))
    tab = {}
    for m in re.finditer(r'\((\d+), \{ name := "(\w+)", opcode := \d+, operands := \[([^\]]*)\] \}\)', txt):
        ops = [o.strip().lstrip(".") for o in m.group(3).split(",") if o.strip()]
        tab[int(m.group(1))] = (m.group(2), [(o, int(sizes[o])) for o in ops])
    return tab


class Mod:
    """a module as independent pieces; nothing forces them to be consistent"""

    def __init__(self):
        self.magic = b"NVM\x01"
        self.version = 1
        self.flags = 1
        self.entry = 0
        self.strings = []      # bytes
        self.code = b""
        self.functions = []    # [name_idx, arity, code_offset, code_length, local_count, upvalue_count]
        self.debug = []        # [off, line]
        self.imports = []      # [mod_idx, fn_idx, param_count, ret_tag, bytes params]
        # overrides applied at build time
        self.section_count = None
        self.dir_override = {}     # section index -> (type, offset, size) partial dict
        self.str_len_override = {}  # string index -> announced length
        self.str_pool = None       # (offset, length) header fields
        self.tail = b""
        self.fix_crc = True
        self.extra_sections = []   # (type, bytes)
        self.order = None          # list of section keys

    def copy(self):
        import copy
        return copy.deepcopy(self)

    def sections(self, L):
        secs = []
        if self.strings:
            b = b""
            for i, s in enumerate(self.strings):
                b += struct.pack("<I", self.str_len_override.get(i, len(s)) & 0xFFFFFFFF) + s
            secs.append(("strings", L["secStrings"], b))
        if self.code:
            secs.append(("code", L["secCode"], self.code))
        if self.functions:
            b = b"".join(struct.pack("<IHIIHH", f[0] & 0xFFFFFFFF, f[1] & 0xFFFF, f[2] & 0xFFFFFFFF, f[3] & 0xFFFFFFFF,
                                     f[4] & 0xFFFF, f[5] & 0xFFFF) for f in self.functions)
            secs.append(("functions", L["secFunctions"], b))
        if self.debug:
            secs.append(("debug", L["secDebug"], b"".join(struct.pack("<II", d[0] & 0xFFFFFFFF, d[1] & 0xFFFFFFFF) for d in self.debug)))
        if self.imports:
            b = b"".join(struct.pack("<IIHB", i[0] & 0xFFFFFFFF, i[1] & 0xFFFFFFFF, i[2] & 0xFFFF, i[3] & 0xFF) + i[4] for i in self.imports)
            secs.append(("imports", L["secImports"], b))
        for t, b in self.extra_sections:
            secs.append(("extra", t, b))
        if self.order:
            key = {k: n for n, k in enumerate(self.order)}
            secs.sort(key=lambda s: key.get(s[0], 99))
        return secs

    def build(self, L=None, C=None):
        L = L or layout()
        secs = self.sections(L)
        n = len(secs)
        off = L["headerSize"] + L["sectionEntrySize"] * n
        d = b""
        body = b""
        sp = (0, 0)
        for i, (k, t, b) in enumerate(secs):
            ent = {"type": t, "offset": off, "size": len(b)}
            ent.update(self.dir_override.get(i, {}))
            d += struct.pack("<III", ent["type"] & 0xFFFFFFFF, ent["offset"] & 0xFFFFFFFF, ent["size"] & 0xFFFFFFFF)
            if k == "strings" and i == 0:
                sp = (off, len(b))
            body += b
            off += len(b)
        if self.str_pool is not None:
            sp = self.str_pool
        cnt = n if self.section_count is None else self.section_count
        hdr = self.magic + struct.pack("<IIIIII", self.version & 0xFFFFFFFF, self.flags & 0xFFFFFFFF, self.entry & 0xFFFFFFFF,
                                       cnt & 0xFFFFFFFF, sp[0] & 0xFFFFFFFF, sp[1] & 0xFFFFFFFF) + b"\0\0\0\0"
        data = hdr + d + body + self.tail
        if self.fix_crc:
            data = crcutil.fix_checksum(data)
        return data


def parse(data, L=None):
    """parse a well-formed file (as written by nvm_serialize) into a Mod; None if it does not look like one"""
    L = L or layout()
    H = L["headerSize"]
    if len(data) < H or data[:4] != b"NVM\x01":
        return None
    m = Mod()
    m.version, m.flags, m.entry, cnt, spo, spl, crc = struct.unpack("<IIIIIII", data[4:32])
    if cnt > 16 or H + 12 * cnt > len(data):
        return None
    for i in range(cnt):
        t, off, sz = struct.unpack("<III", data[H + 12 * i:H + 12 * i + 12])
        if off + sz > len(data):
            return None
        b = data[off:off + sz]
        if t == L["secStrings"]:
            p = 0
            while p + 4 <= sz:
                (l,) = struct.unpack("<I", b[p:p + 4]); p += 4
                if p + l > sz:
                    break
                m.strings.append(b[p:p + l]); p += l
        elif t == L["secCode"]:
            m.code += b
        elif t == L["secFunctions"]:
            for p in range(0, sz - 17, 18):
                m.functions.append(list(struct.unpack("<IHIIHH", b[p:p + 18])))
        elif t == L["secDebug"]:
            for p in range(0, sz - 7, 8):
                m.debug.append(list(struct.unpack("<II", b[p:p + 8])))
        elif t == L["secImports"]:
            p = 0
            while p + 11 <= sz:
                a, f, pc, rt = struct.unpack("<IIHB", b[p:p + 11]); p += 11
                if p + pc > sz:
                    break
                m.imports.append([a, f, pc, rt, b[p:p + pc]]); p += pc
    return m


def decode_stream(code, tab):
    """linear decode: list of (pos, opcode, [operand values]) until the first undecodable byte"""
    out, pos = [], 0
    while pos < len(code):
        op = code[pos]
        if op not in tab:
            break
        p = pos + 1
        vals = []
        ok = True
        for k, sz in tab[op][1]:
            if p + sz > len(code):
                ok = False
                break
            vals.append(int.from_bytes(code[p:p + sz], "little")); p += sz
        if not ok:
            break
        out.append((pos, op, vals))
        pos = p
    return out


def encode_instr(op, vals, tab):
    b = bytes([op])
    for v, (k, sz) in zip(vals, tab[op][1]):
        b += (v & ((1 << (8 * sz)) - 1)).to_bytes(sz, "little")
    return b
