#!/usr/bin/env python3
"""Writes /verif/MANIFEST.json from the table below (so it is always schema-valid)."""
import json, os, subprocess
VERIF = os.path.dirname(os.path.dirname(os.path.abspath(__file__)))

TB = ("Lean 4.33 kernel; axioms propext, Classical.choice, Quot.sound only (audited by #print axioms on every run; no sorry/admit/"
      "native_decide/bv_decide/user axiom); translators tr/gen.py; correspondence harness (probes, generators, canonicaliser); "
      "Lean runtime executing nvdriver for the correspondence only.")

CHECKS = {
    "C01": dict(
        text=("Lean 4 models of the whole NanoVM back end - lexer, parser, bytecode generator (module assembly included) and VM - and an independent reference "
              "semantics `Sem` in a VM and a native configuration. Proved: the two configurations coincide on every operator application except division/modulo "
              "by zero, the one documented point where the engines may differ, and that fault arises only there (cfg_agree_arith, divZero_only_from_zero_divisor, "
              "vm_never_divZero); and, for every construct the reference has - calls and recursion, globals, arrays, structs, for, break / continue / return, builtins - "
              "that the two configurations give the same output and result for every program and every fuel unless the native run ends in the division fault "
              "(reference_cfgs_agree), that an observation other than 'not decided by this much fuel' is the observation for every larger fuel (reference_fuel_stable), "
              "hence decided_outcomes_agree (Lemmas/SemCfg.lean: one induction over the eight mutually recursive evaluators, related under two configurations and two fuel levels). Compiler correctness is proved for the pure expression fragment, with no bound on size or nesting (compile_expr_correct, by induction "
              "over the expression; Lemmas/VmExec.lean, Lemmas/CompileExpr.lean): for integer and boolean literals, local and global variables, unary minus and not, "
              "the eleven strict binary operators and short-circuit and/or, the bytes that compile_expr emits - decoded and dispatched by the VM model's own step "
              "function at any offset of any function of any module below 2 GiB - push exactly the value the reference computes and leave heap, output, globals, "
              "frames and the rest of the stack unchanged; compile_expr_correct_native carries it to the reference's native configuration (native_ok_implies_vm). "
              "compile_stmt_correct and compile_body_correct (Lemmas/CompileStmt.lean) extend this to statements over scalars: assignment to a local, print/println, "
              "if with and without else, while with any number of iterations (induction on the reference's fuel; forward and backward relative jumps), nested blocks, "
              "and let at the level of the function body: the VM model reaches the end of the generated code in a state that represents the reference's final state, "
              "with exactly the same bytes written to standard output. compile_main_correct (Lemmas/CompileMain.lean) closes the loop for whole programs of the form "
              "fn main() { body; return e } with body in that fragment: if the reference runs the program to a normal exit, then execute - the model of vm_execute: flags, "
              "__init__ look-up, frame set-up, dispatch loop, OP_RET in the outermost frame - on the module compileProgram builds (the model that is tied byte for byte to "
              "nano_virt --emit-nvm) ends with VM_OK, has written exactly the reference's output, and leaves main's value, from which the exit status is derived. "
              "Each of the three theorems is instantiated on a concrete program as non-vacuity check. Not covered by these theorems (agreement rests on correspondence only): declarations inside nested "
              "blocks, break/continue/return/for, calls, global variables, strings and containers. The native back end is not modelled as code: it is represented by Sem's native configuration "
              "(tied in C02) and compared directly with the VM: every program is compiled by nanoc and run and run by nano_virt --run, stdout and exit status must be "
              "equal unless the reference says the run performs a partial operation. VM side tied by byte-identical .nvm files from the front-end models."),
        note=TB + " Partial: no theorem covers the C transpiler or the C runtime; the proved statement about the two back ends is at the level of the reference configurations.",
        technique="Lean 4 proof over an executable reference semantics and compiler model + byte-for-byte front-end correspondence + direct two-engine differential oracle",
        category="proof",
        design="6/C01"),
    "C02": dict(
        text=("Lean 4 theorems: the reference semantics `Sem` (an executable transcription of SPECIFICATION.md sections 4-8, independent of every engine) provably "
              "skips the right operand of and/or when the left decides, evaluates operands and call arguments strictly left to right with the state threaded, stops at the "
              "first fault, and keeps integers in the 64-bit range (and_short, or_short, and_right, operands_left_to_right, args_left_to_right, first_*_fault_stops, "
              "wrap64_range); that it assigns ONE outcome to a program - an observation other than 'not decided by this much fuel' is the observation for every larger fuel, "
              "for every construct and either configuration (outcome_stable, outcome_unique, expr_stable, stmts_stable; Lemmas/SemCfg.lean); and for ALL pairs of 64-bit operands the NanoVM handlers of ADD SUB MUL DIV MOD NEG and the comparisons - the binArith/execData' that the "
              "lock-step runs tie to vm.c - compute exactly the reference's result: wrapping, truncating division, INT64_MIN/-1, x/0 = x%0 = 0 (vm_arith_handler, "
              "arith_agree, cmp_agree, via BitVec.toInt lemmas). Each engine is compared with the reference on whole programs: 11 operators x ordered pairs of 26 "
              "boundary values (literal and through a call), unary/abs/min/max, and/or shapes, scoping/loops/globals/recursion, int->string extremes, random typed programs."),
        note=TB + " Partial: the Coq NanoCore relation (formal/Semantics.v) is not re-checked here - its floor division / unbounded integers differ from every engine (F-C02-3, documentation-level finding recorded in DESIGN.md); floats are outside the reference.",
        technique="Lean 4 proof (BitVec/Int arithmetic lemmas for all operands, evaluator laws by unfolding) + differential correspondence of both engines against the executable reference",
        design="6/C02"),
    "C03": dict(
        text=("The compile-time evaluator (src/eval.c) is a third engine; it is not modelled as code. Proved in Lean 4 is the one mechanism in which it differs by design "
              "from compiled code and the specification: it keeps a single symbol stack for all active calls, so a name free in a callee is looked up through the callers' "
              "locals before the globals. scope_agree states exactly when that look-up equals the static one - for every stack of caller frames, every set of globals and "
              "every name - distinct_names_agree gives the program-level sufficient condition, scope_differs exhibits the disagreement (finding F-C03-1). Everything else "
              "is decided by correspondence with the reference semantics and by the property's own oracle on the implementation: generated programs whose shadow blocks "
              "print calls of their function (boundary arguments) and assert the value the reference computed, and whose main performs the same calls and assertions: "
              "nanoc --verbose must accept, and the text printed between 'Testing f...' and PASSED must equal the reference output and the compiled binary's stdout; "
              "families for operators at boundary / near-equal operands, nested loops with continue/break, float conversions."),
        note=TB + " Partial: eval.c is tied to the reference only by these runs; known findings F-C03-1 (dynamic scoping), F-C03-2 (return inside a match arm), F-C03-3 (array_push on literal arrays) are reported on every run; two evaluator defects and one transpiler defect found by this check were repaired.",
        technique="Lean 4 proof (scoping look-up lemma for all frame stacks) + differential correspondence evaluator / reference / compiled binary",
        design="6/C03"),
    "C04": dict(
        text=("Lean 4 theorems over the specification checker Tc and the reference semantics Sem, for ANY environment that mirrors the checker's scope and ANY fuel: "
              "tc_sound_expr - an expression of the operator fragment (literals, variables, unary and binary operators) accepted at type t never ends in a type error or an "
              "undefined-variable error: it yields a value of type t, runs out of fuel, or (native configuration) stops at a division by zero; tc_sound_all / tc_sound_body / "
              "never_stuck - the while-language over that fragment (declarations with block scoping, assignment to locals and globals, if/else, while, break, continue, return, "
              "print, assert, expression statements, nested blocks): a body the checker accepts ends by falling through or by return with a value of the declared type, in a state "
              "that mirrors the checker's resulting scope, or in a permitted fault (budget, division by zero natively, failed assertion) - never in a type error, an undefined "
              "variable or function, an out-of-bounds or unsupported operation, and break/continue never escape a function (progress + preservation by simultaneous induction on "
              "fuel over statements, blocks, sequences and loops). With C02's arith_agree this carries to the VM handlers; with C05's nonvoid_returns_all every accepted non-void "
              "function returns on every path. Not proved: soundness for calls, for-loops, arrays and structs, the two code generators, the C compiler's acceptance of the "
              "generated C - for those the check is a search with the property's outcome classes as oracle: accepted programs (random typed programs, C05 base programs, nested "
              "functions with scoped locals, tuple types, scoping and short-circuit families, struct arrays, functions whose bytecode size sweeps across the 4096/8192 byte marks) "
              "through both pipelines: bytecode generation succeeds, the verifier accepts, VM execution ends normally or in a documented fault, nanoc produces a binary that runs."),
        note=TB + " Partial as designed (staged): the proved fragment is the while-language over the operator fragment. Known findings F-C04-7 (nested functions), F-C04-9 (discarded struct element access) and F-C04-10 (struct / nested array literals) do not compile natively and are reported on every run.",
        technique="Lean 4 proof (type soundness of the while-language: progress and preservation by induction on evaluation fuel) + pipeline-outcome search on both back ends",
        design="6/C04"),

    "C05": dict(
        text=("Lean 4 theorems, one per rule of the property's catalogue, over the specification checker Tc (an executable transcription of the static rules), each in "
              "inversion form so that the contrapositive rejects EVERY violating program whatever the surrounding code: arith/compare/logic/plus/unary operand types, "
              "argument arity and types (args_arity, args_types, call_checked), unknown names, block and if scopes closed (out-of-scope names), set_requires_mut "
              "(immutable let, parameter, global), nonvoid_returns_all and return_type, bool conditions of if/while/assert, field_defined, break_in_loop; and "
              "no_artifact: for each of nanoc, nano_virt --run, nano_virt --emit-nvm a failed check means exit status non-zero, nothing written, nothing run, whatever "
              "the other phases would say. Tie: the Lean checker and the three real tools are run on well-typed base programs and every single-point mutant of the "
              "catalogue: Lean must accept every base and reject every mutant; each tool must exit non-zero with a diagnostic and write no file."),
        note=TB + " Modelled, not verified: src/typechecker.c itself (6k lines) is represented by Tc and tied by accept/reject correspondence only. Two systemic defects found by this check were repaired (diagnostics that did not fail the compilation: 60 % of mutants were accepted by nano_virt); F-C05-4 (extern call in expression position outside unsafe) is a known finding. 'Use of a consumed resource value' is not in the mutation catalogue yet.",
        technique="Lean 4 proof (inversion lemmas for every rule of the checker model; decision-logic theorem for the drivers) + mutation catalogue correspondence on three tools",
        design="6/C05"),
    "C06": dict(
        text=("Lean 4 theorems over the gate logic of run_shadow_tests and phase 5 of compile_file (per shadow block: skipped or not, number of "
              "false assertions counted while its body and callees ran): the run fails iff some executed block saw a false assertion, for "
              "any number and order of blocks (gate_iff, induction over the block list - a later passing block cannot undo a failure); a "
              "failing run exits non-zero before transpilation, a passing run's status is decided by later phases only (driver_gate); every "
              "failing block is named once, in order, with its count (failures_named). The evaluator that produces the counts is not "
              "modelled here; assertion truth values are known by construction of the generated programs. Tie: nanoc's exit status, "
              "'Shadow test .. FAILED: n' lines and existence of the -o file are compared with the model on programs with the false "
              "assertion first/last/in a loop/in a callee/under an if/in a skipped block."),
        note=TB + " Partial: the counts fed to the gate come from eval.c, which is covered by C03's correspondence, not by this proof; imported modules' shadow blocks are not generated yet.",
        technique="Lean 4 proof (fold invariant over the shadow-block list) + differential correspondence against nanoc",
        design="6/C06"),
    "C07": dict(
        text=("Lean 4 theorem over a model of the expression parser (parse_expression / parse_primary / parse_prefix_op / the postfix chain, "
              "with the recursion guard), unbounded: every valid spelling of an expression tree over the 13 binary and 2 unary operators, "
              "literals, variables, field accesses and calls - each operator node written in prefix or in infix form, any mix, any operator "
              "sequence, any nesting the guard admits - is parsed to exactly the tree it denotes (spelling_parses, mutual induction over "
              "styled trees); hence an infix spelling and the fully parenthesised prefix spelling give the same AST (infix_eq_prefix) and the "
              "same bytecode (same_bytecode: the generator is a function of the tree). The side conditions are the language's own rules and "
              "each is exhibited on the model ('( - a + b)' is the prefix form, '(f a -b)' a subtraction, '-y.f' is -(y.f)); upper-case "
              "identifiers before '<' are excluded and reported as known finding F-C07-2. Tie: lexer, parser and code-generator models run on "
              "both spellings of every generated program and must reproduce the file nano_virt --emit-nvm writes byte for byte; oracle on the "
              "implementation: the two spellings compile to identical files and run alike (all 169 operator pairs in both nestings, random "
              "typed trees, 300-level chains, 2400 unary operators in one file)."),
        note=TB + " The theorem is stated for all sufficiently large fuel (fuel exists only in the Lean definitions; the runs count zero fuel exhaustions). Modelled, not verified: the parser of statements/types outside the fragment answers 'unsupported'; cond/if/match expressions, struct literals as operands, tuples are outside the theorem (covered by correspondence where the generator produces them).",
        technique="Lean 4 proof (mutual well-founded induction over styled expression trees, continuation-style lemmas for the postfix and infix loops) + translator (token enum, keyword table, infix operator set, recursion limit) + byte-for-byte differential correspondence",
        design="6/C07"),
    "C08": dict(
        text=("Lean 4 theorems for every array length and every 64-bit index: on each engine's range test an element is produced only for an "
              "index in [0, len) and it is the element at that index, everything else stops (oob_stops); 2^32+k and negative indices are "
              "rejected (no 32-bit narrowing); and for the VM handler itself - the same execData that the lock-step runs tie to vm.c - "
              "OP_ARR_GET raises VM_ERR_OUT_OF_BOUNDS without output for an out-of-range index and pushes exactly es[idx] otherwise "
              "(vm_arr_get; an enum value used as index counts as its number: vm_arr_get_enum_oob); OP_ARR_SET / OP_ARR_REMOVE out of range, OP_ARR_POP on an empty array and STRUCT_GET / UNION_FIELD / TUPLE_GET beyond the field count raise the "
              "error, push nothing, store nothing and print nothing (vm_arr_set_oob, vm_arr_remove_oob, vm_arr_pop_empty, vm_field_oob). The native and interpreter range tests are one-line transcriptions; they are tied to the code by whole-program "
              "runs. Check: NanoVM exhaustively over lengths x 19 boundary indices x get/set/remove/pop/tuple/struct/union field (model vs "
              "implementation + oracle), native binaries and compile-time interpreter on generated programs; element kind (int, float, bool, string, struct, nested array) x "
              "(typed access, discarded access, store, removal, pop on empty) and operand shape (variable, row of a nested array, call result, struct field) natively and on the VM from source; int- and enum-valued indices on the VM."),
        note=TB + " Partial: nativeAccess/interpAccess model only the range test of dyn_array.c / eval.c; abort() and exit(1) behaviour of the host is observed, not modelled.",
        technique="Lean 4 proof (case analysis on exact int64 index arithmetic, handler-level theorem) + exhaustive boundary enumeration + differential correspondence",
        design="6/C08"),
    "C09": dict(
        category="proof",
        text=("Lean 4 theorems for EVERY byte string over the lexer model (tied to tokenize() token for token on valid programs and on token- and byte-level "
              "mutants): each scanning step strictly shortens the input, so the scanner needs at most one step per byte and `lex` is a total function whose only "
              "failures are the three lexical errors (lexStep_progress, lexGo_fuel, lex_total); at most one token per byte plus EOF (lex_token_bound); the token list "
              "ends with EOF (lex_ends_eof); reads are in bounds by construction. For the parser model: nesting beyond the limit regenerated from parser.c is "
              "answered with the depth error for any tokens (expr_depth_guard, block_depth_guard), and the model is a total function. Partial: the C parser's error "
              "RECOVERY (where hangs come from), the type checker and import processing are not modelled; for them the check is a search, not a proof: valid "
              "programs, token- and byte-level mutants, nesting through every recursive construct from 10 to 200000 levels, exact token counts around powers of two and "
              "malformed definitions go through nano_virt --emit-nvm built with ASan+UBSan (and the plain build with the default stack) under a time limit: exit 0 or 1, "
              "no sanitizer report, no signal, a rejection prints a diagnostic and leaves no file."),
        note=TB + " Level partial as designed: totality is proved for the lexer and the nesting guard only. Five front-end defects found by the search were repaired in /repo (parser hang, two memory errors, two stack overflows); the quadratic diagnostic cascade F-C09-3 is a known finding.",
        technique="Lean 4 proof (well-founded progress argument for the scanner, all inputs) + translator + token-for-token correspondence + sanitizer/mutation search for the unmodelled stages",
        design="6/C09"),
    "C10": dict(
        text=("Lean 4 theorems, unbounded: file_roundtrip - for every module whose fields fit their widths (file below 4 GiB) nvm_deserialize accepts "
              "exactly what nvm_serialize wrote (magic, version, section count, CRC over the body, directory with running offsets, every section incl. "
              "debug entries, 'sections end at the end of the file') and rebuilds the module; file_roundtrip_exact - it is the same module when the string "
              "pool is duplicate-free (what nvm_add_string guarantees) and imports are in loader form; stored_runs_alike - hence vm_execute on the reloaded "
              "module is vm_execute on the original. Built from the section theorems strings_roundtrip, functions_roundtrip, imports_roundtrip (any position "
              "in a file, exact little-endian widths, induction over entry lists), the directory-loop lemma loadSections_file and the pool lemmas "
              "(addString_fold_nodup, addString_existing); the exit-status logic of nano_virt --run, nano_vm and the wrapper agrees (exit_agree). "
              "Tie: model bytes == nvm_serialize bytes and reload == original on compiler-produced and directly built modules; programs (incl. hostile string "
              "constants: trigraphs, embedded NUL) are run all three ways."),
        note=TB + " Partial: process exit status, the wrapper's embedding of the image and its linking are observed (three-way execution), not modelled.",
        technique="Lean 4 proof (whole-file round trip by induction over the section directory and the entry lists, little-endian codec lemmas) + translator + differential correspondence + three-way execution",
        design="6/C10"),
    "C11": dict(
        text=("Machine-checked Lean 4 theorems over the instruction table regenerated from isa.c on every run: decode(encode i ++ rest) = i "
              "for every defined opcode, every in-range operand value and every suffix; encode(decode b) = consumed bytes; every undefined "
              "opcode byte and every strict prefix of an encoding is refused; table invariants decided over the whole generated table. "
              "The hand-written codec model is tied to isa_encode/isa_decode by a correspondence run (all 256 opcode bytes x operand slots "
              "x boundary patterns x truncation lengths + random), and the property's own oracle is evaluated on the C functions. "
              "The assembler/disassembler half is checked on the implementation only (oracle asm(disasm m) = m), not proved."),
        note=TB + " Modelled, not verified: isa_encode/isa_decode are represented by NanoVerif.Model.Isa; number formatting of the text form is outside the proof.",
        technique="Lean 4 proof (induction over operand lists, decide over generated table) + translator + differential correspondence",
        design="6/C11"),
    "C12": dict(
        text=("Lean 4 theorems, unbounded: the table-driven CRC-32 of nvm_crc32 (polynomial/init/final xor regenerated from the source) changes under "
              "every error burst of span <= 32 bits at any bit position of any message (crc_burst); any file the loader accepts is refused after "
              "such a burst anywhere after the header (load_rejects_burst), after any non-empty appended tail incl. CRC-preserving ones "
              "(load_rejects_extension), at every truncation length (load_rejects_truncation), and with a bad magic/version/section count. "
              "The hand-written loader model is tied to nvm_deserialize by correspondence on damaged compiler-produced files; the implementation "
              "oracle runs every single-bit flip of every body bit and every truncation length in C, and nano_vm end to end."),
        note=TB + " Modelled, not verified: nvm_deserialize/nvm_crc32 are represented by NanoVerif.Model.{Crc,Nvm}; 'frees and returns NULL' (no partial module) is observed under ASan in the thorough tier, not proved.",
        technique="Lean 4 proof (bit-level CRC linearity/injectivity, induction over section parsers) + translator + differential correspondence",
        design="6/C12"),
    "C13": dict(
        text=("Lean 4 theorems, unbounded: the loader model never reads outside its input for any byte string (load_never_oob, exact uint32 "
              "comparisons, checked reads); the verifier sweep is sound for the positions it walks (verify_sound_walk) and its structural phase "
              "bounds every function inside the code section; on a verified module every reachable VM state keeps a valid frame stack "
              "(<= VM_MAX_FRAMES), a valid current function and fetches only inside the code section, for any instruction budget (run_safe, by "
              "induction over steps; data instructions cannot produce decoder or table-bounds faults by typing); execute_safe: vm_execute on a "
              "verified module (__init__, entry point, any budget) never ends in an out-of-table access and - with C14's invariant, for any module - never touches a freed "
              "or wrongly-typed heap object; integer arithmetic incl. "
              "x/0 and INT64_MIN/-1 is total (vm_arith_total). Termination of loader and verifier is Lean's totality check. The hand-written "
              "loader/verifier/VM models are tied to the C code by running thousands of structure-aware hostile modules through both "
              "(ASan+UBSan build, hook-provided instruction budget) and comparing verdict, output and final state."),
        note=TB + " Partial: memory safety of heap object bodies (strings/arrays) inside libc calls, realloc failure paths, C-stack depth of recursive vm_release on very deep structures, floats, hashmaps, extern calls and linked modules are outside the model (the step answers 'unsupported' and such cases are only observed under sanitizers). Signed-overflow UB of the VM's int64 arithmetic is excluded from the sanitizer build (it wraps with the project's flags).",
        technique="Lean 4 proof (totality, invariants by induction over steps, typing of outcomes) + translator + differential correspondence under sanitizers",
        design="6/C13"),
    "C14": dict(
        text=("Lean 4 theorems, unbounded, over the VM model (values, cells with counts, allocation-order addresses, operand stack, globals, frames): "
              "HeapOk = every live object's count >= number of references to it from the stack/locals, globals, frame closures and live objects; everything "
              "referenced is live; the object behind a value has the value's kind; ids unique and never reused; the model's 'would touch freed memory' flag clear. "
              "heap_ok_init; release_safe (recursive vm_release over any work list, well-founded on heap size); release_then_store (releasing a child while its "
              "container still points at it commutes with storing the new child, because the container cannot be freed by that release - the ARR_SET / ARR_REMOVE / "
              "STRUCT_SET / STORE_UPVALUE pattern); instr_heap_ok: EVERY data opcode of vm_core_execute (all 90: strings with interning, arrays incl. slice, structs, "
              "unions, tuples, closures and upvalues, casts, printing, arithmetic on operands of any kind, also on stack underflow, wrong kinds, indices out of range) "
              "keeps HeapOk; step_heap_ok: one dispatch-loop iteration incl. CALL, CALL_INDIRECT, CLOSURE_CALL (closure reference moves into the frame), RET / implicit "
              "return (frame slots and closure released), decode errors; reachable_heap_ok: HeapOk after any number of steps from any HeapOk state, any module (verified or not); "
              "execute_heap_ok: vm_execute (__init__ then entry point) for any module and any instruction budget; never_dangling: the outcome 'dangling' (C code would "
              "dereference a freed object or find another kind of object) is unreachable; freed_once. Tie: the real VM prints its whole heap (ids, counts, children), stack, "
              "globals and frame closures at every instruction boundary (hook H2); every boundary is audited (count >= in-degree, no dangling reference, no double free) and "
              "compared with the model's boundary, which reproduces every handler's retain/release. Churn family: live objects after the loop are independent of the iteration count."),
        note=TB + " Partial: the invariant is a theorem for every reachable state of the model; that vm.c/heap.c behave like the model is correspondence (lock step, every boundary). "
             "The 'no unbounded growth' half (leak freedom) is decided by the churn family and the audit, not by a theorem (count >= in-degree is the safe direction only); "
             "hashmaps, floats and extern calls are outside the model (the step answers 'unsupported').",
        technique="Lean 4 proof (invariant by induction over all VM steps; well-founded recursion for vm_release; counting and kind invariants) + lock-step differential correspondence with heap audit (hook H2)",
        design="6/C14"),
    "C15": dict(
        text=("Lean 4 theorem, unbounded: for every transferable value (int, float bit pattern, bool, string of any bytes and any length below "
              "4 GiB, opaque handle, void, arbitrarily nested and empty arrays) what cop_serialize_value writes into any buffer it fits decodes with "
              "cop_deserialize_value to exactly that value, consuming exactly those bytes, whatever follows in the buffer (cop_roundtrip, mutual "
              "structural induction over values and element lists, tags regenerated from isa.h). The codec model is tied to the C functions by "
              "correspondence on generated values at buffer sizes around their exact size (succeeds iff it fits) and on hostile decoder inputs; "
              "transparency of --isolate-ffi is checked end to end on extern-calling programs with 0..64 KiB string arguments."),
        note=TB + " Partial: only the value codec is proved; that the client builds requests for any argument size and that both sides call the same function is observed end to end, not modelled.",
        technique="Lean 4 proof (mutual structural induction) + translator + differential correspondence + paired execution",
        design="6/C15"),
    "C16": dict(
        text=("Lean 4 theorems over a protocol-level model of the VM's FFI client (cop_recv_header, the receive half of vm_ffi_call_cop, the "
              "stop-at-first-failed-call harness) with the peer as an arbitrary byte stream per reply and the OS's SIGPIPE behaviour as a "
              "parameter: with SIGPIPE ignored every run ends with status 0 or 1, never by a signal, and 0 only if every call was answered "
              "(contained, by induction over the calls); without it a peer that stopped reading kills the VM (killed_without_sigign); a reply is "
              "accepted exactly when it is a well-formed, fully delivered, decodable FFI_RESULT (reply_ok_iff); announced lengths are bounded "
              "before use (payload_bounded). Tie: a scripted stand-in for nano_cop runs against the real nano_vm --isolate-ffi: the whole "
              "malformed-reply catalogue at each call compared with the model's prediction, and protocol steps x {exit, SIGKILL, close stdin/"
              "stdout} checked against the property's own oracle (exit 0 complete / exit 1 reported with intact prefix, no signal, no orphan)."),
        note=TB + " Partial: process behaviour (fork/exec, waitpid, SIGTERM escalation, pipe buffering and timing) is a parameter or observed, not modelled; a peer that stays alive and silent blocks the VM (outside the property's fault list).",
        technique="Lean 4 proof (decision logic + induction over calls) + scripted-peer fault enumeration against the real binary",
        design="6/C16"),
    "C17": dict(
        text=("Lean 4 theorems over a model of the daemon (wire framing with constants regenerated from vmd_protocol.h, the session handler, the client's reassembly "
              "loop, and a descriptor-level process model in which any number of session threads issue accept/write/close events in an arbitrary interleaving): "
              "isolation - for EVERY interleaving of ANY number of sessions that follow the session discipline (one connection, writes, exactly one close) each client "
              "receives exactly the bytes its own session wrote, in order, although the kernel reuses descriptor numbers (ownership invariant, induction over the "
              "event trace; a double close is shown on the model to deliver one client's output to another); reassembly/transparent - however stdio chops the output "
              "into OUTPUT frames, the client reassembles exactly the standalone output bytes, error text and exit code. Tie and oracle on the real daemon: modules "
              "with unique tags, partial lines, 30 KB lines, run-time errors, deep values and random programs are run standalone and through a private nano_vmd "
              "(hook H3), sequentially and in waves of up to 64 simultaneous clients with jitter, under an LD_PRELOAD scheduling shim and under strace; every "
              "client's view must equal standalone, reply frames must equal the model's, and the strace log must satisfy the discipline the theorem assumes."),
        note=TB + " Partial: data races on process-wide memory below the system-call level (stdio buffers, CRC table initialisation) cannot be exhibited by the model; they are searched for by concurrent runs (and a ThreadSanitizer build is not part of the quick tier). Thread scheduling is an arbitrary interleaving in the model and whatever the kernel plus the shim produce in the runs.",
        technique="Lean 4 proof (invariant over all interleavings of session event traces; framing round trip) + translator + differential correspondence on reply frames + strace trace-conformance + concurrent differential oracle",
        design="6/C17"),
    "C18": dict(
        text=("Lean 4 theorems over the session model `serve`, a function of EVERY byte sequence a peer may have sent before it stopped sending (so every message prefix "
              "and every disconnect point is an input): a session asks the daemon to stop iff its first eight bytes are a valid SHUTDOWN header (shutdown_iff); hence "
              "after ANY sequence of sessions without such a request - garbage, wrong version, oversized or inconsistent length, truncated payload, non-module or "
              "hostile payload, early disconnect - the daemon is still accepting and its client count is unchanged (survives); short, wrong-version and oversized headers "
              "get no reply; every valid LOAD_EXEC ends with exactly one terminal frame after only OUTPUT frames (exec_reply_shape); a well-formed client served after "
              "or between ill-behaved sessions gets the reply of its own program (unaffected). On the real daemon: the catalogue of ill-behaved clients, truncations at "
              "every length class, crafted modules (field mutants with recomputed CRC, 1..129 imports), sessions abandoned mid-output raced against a silent and a normal "
              "client; after EVERY step the pid must be alive, PING answered and a well-formed client served exactly like standalone; replies compared with the model."),
        note=TB + " Partial: a crash inside the loader/VM while serving a crafted module, SIGPIPE on a vanished peer and descriptor exhaustion are behaviours of the process the model cannot exhibit; they are what the runs provoke (thorough tier: ASan+UBSan build of the daemon).",
        technique="Lean 4 proof (decision logic of the session handler over all byte sequences, fold invariant over session lists) + translator + fault-sequence driver with liveness probe after every step + correspondence on replies",
        design="6/C18"),
    "C19": dict(
        category="proof",
        text=("What a proof can say here is limited and stated as such: the Lean models of string-pool construction and serialisation are pure "
              "functions, and the lemmas carry the mechanisms the anchors name - the pool is duplicate-free whatever was inserted "
              "(pool_nodup), contains exactly the inserted strings (pool_mem), indices never move (index_stable, index_correct), and the "
              "serialised size is a function of the section sizes (serialize_length). That the C programs are functions of their input is "
              "decided per run by a configuration sweep: every program (generated, corpus, multi-module repo tests, an ill-typed one) is "
              "compiled under 10 configurations (cwd, relative/absolute path, TMPDIR, environment noise, ASLR off, MALLOC_PERTURB_, "
              "repetition, pid shift) with both nano_virt --emit-nvm and nanoc --keep-c; artifacts and path-normalised diagnostics must be "
              "byte-identical."),
        note=TB + " Partial: absence of uninitialised reads / pointer-keyed iteration in 12k lines of C is not a theorem; the sweep is search. The generated C has no Lean model.",
        technique="Lean 4 lemmas on pool/serialiser determinism + configuration sweep (search, not proof)",
        design="6/C19"),
    "C20": dict(
        text=("Lean 4 theorems: the DynArray model (length, capacity, backing store with stale slots, growth by doubling) refines the abstract "
              "sequence - every operation (push with growth, pop, get, set, remove_at, clear, reserve, clone) preserves len <= cap = |data| and "
              "commutes with abs = data.take len, with exactly the C assertions as preconditions (push_refines ... clone_refines); the GC "
              "bookkeeping model keeps all-objects list, pointer hash set and num_objects in agreement under alloc/retain/release, every live "
              "object has count >= 1, an object leaves all three exactly when its count reaches zero and releasing an unmanaged pointer is a "
              "no-op (gc_*_inv). Tie: operation histories are replayed on the real runtime built with ASan+UBSan, on the model and on an "
              "abstract list. 'Every accepted program is sanitizer-clean' is NOT a theorem: generated programs are built with a sanitizing "
              "NANO_CC and run, which is search."),
        note=TB + " Partial: memory safety of arbitrary generated programs and of the transpiler's scope-cleanup discipline is searched, not proved; strings, structs-in-arrays and cycle collection of gc.c are outside the model.",
        technique="Lean 4 proof (refinement to List, bookkeeping invariants) + differential correspondence under sanitizers + sanitizer search on generated programs",
        design="6/C20"),
}

NOT_APPLICABLE = {
}

ALL = ["C%02d" % i for i in range(1, 21)]


def main():
    checks = []
    for pid in ALL:
        if pid not in CHECKS:
            continue
        c = CHECKS[pid]
        checks.append({
            "property_id": pid,
            "quick_cmd": "./check %s --tier quick" % pid,
            "thorough_cmd": "./check %s --tier thorough" % pid,
            "evidence_file": "/verif/evidence/%s.json" % pid,
            "replay_cmd_template": "./check %s --replay {path}" % pid,
            "engine": "nanoverif-lean",
            "level_claimed": {"category": c.get("category", "proof"), "text": c["text"], "design_ref": "DESIGN.md section " + c["design"]},
            "level_note": c["note"],
            "technique": c["technique"],
        })
    na = [{"property_id": p, "reason": NOT_APPLICABLE.get(p, "check not built yet in this round (planned: Lean proof + correspondence, see DESIGN.md section 6); not claimed")}
          for p in ALL if p not in CHECKS]
    hooks_commits = []
    try:
        out = subprocess.run(["git", "-C", "/repo", "log", "--format=%H %s"], stdout=subprocess.PIPE).stdout.decode()
        hooks_commits = [l.split()[0] for l in out.splitlines() if l.split(" ", 1)[1].startswith("verif-hook:")]
    except Exception:
        pass
    m = {
        "version": 1,
        "setup_cmd": "cd /verif && python3 tr/gen.py && cd lean && lake build NanoVerif nvdriver",
        "hooks": {
            "guard": "NANOLANG_VERIF",
            "enable": "checks copy /repo's working tree to $VERIF_WORK (default /var/tmp/nanoverif/<hash>) and run make -f Makefile.gnu with CFLAGS+=-DNANOLANG_VERIF (harness/build.py)",
            "baseline_off_cmd": "python3 /verif/harness/baseline_off.py",
            "source_commits": hooks_commits,
            "add_only": True,
        },
        "engines": [{"name": "nanoverif-lean", "path": "/verif/lean", "serves_properties": sorted(CHECKS),
                     "kind_free_text": "Lake project: executable Lean 4 models + property theorems (NanoVerif/Props), generated tables (NanoVerif/Gen), compiled line-protocol driver nvdriver; tied to /repo by tr/gen.py and harness/ correspondence runs"}],
        "checks": checks,
        "not_applicable": na,
        "notes": "One entry point ./check <id>; see DESIGN.md. Known findings: /verif/known_findings.json.",
    }
    with open(os.path.join(VERIF, "MANIFEST.json"), "w") as f:
        json.dump(m, f, indent=1)
    try:
        import jsonschema
        jsonschema.validate(m, json.load(open("/root/.vp/MANIFEST.schema.json")))
        print("MANIFEST.json valid; %d checks, %d not claimed" % (len(checks), len(na)))
    except ImportError:
        print("written (jsonschema not available)")


if __name__ == "__main__":
    main()
