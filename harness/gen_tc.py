"""Well-typed base programs with known mutation sites, and the single-point rule-violating mutations of C05's catalogue.

base(rng) -> text;  mutants(text) -> [(rule, description, mutated text)].  Every mutation replaces one site of the base text, so the
mutant differs from a well-typed program in exactly one rule violation."""


def base(rng):
    n = lambda p: "%s%d" % (p, rng.randrange(1000))
    N = {k: n(k) for k in ("add", "name", "flag", "sum", "pt", "k", "m", "inner", "t", "idx", "g")}
    c1, c2, c3 = rng.randint(1, 9), rng.randint(10, 99), rng.randint(2, 5)
    N.update(c1=c1, c2=c2, c3=c3, G="G%d" % rng.randrange(100), S="Pt%d" % rng.randrange(100))
    extra = ""
    if rng.random() < 0.5:
        extra = "    let %s: string = (+ \"v\" (int_to_string %d))\n    (println (str_length %s))\n" % (n("w"), c2, "%s")
        w = extra.split(" ")[5].rstrip(":")
        extra = extra % w
    text = """struct {S} {{ x: int, y: int }}
let {G}: int = {c1}
fn {add}(a: int, b: int) -> int {{
    return (+ a b)
}}
shadow {add} {{ assert (== ({add} 1 2) 3) }}
fn {name}(s: string, n: int) -> string {{
    if (> n 0) {{
        return (+ s "!")
    }} else {{
        return s
    }}
}}
shadow {name} {{ assert (== 1 1) }}
fn {flag}(b: bool) -> bool {{
    return (not b)
}}
shadow {flag} {{ assert (== 1 1) }}
fn {sum}(arr: array<int>) -> int {{
    let mut {t}: int = 0
    let mut {idx}: int = 0
    while (< {idx} (array_length arr)) {{
        set {t} (+ {t} (at arr {idx}))
        set {idx} (+ {idx} 1)
    }}
    return {t}
}}
shadow {sum} {{ assert (== 1 1) }}
fn main() -> int {{
    let {pt}: {S} = {S} {{ x: {c1}, y: {c2} }}
    let {k}: int = ({add} {pt}.x {G})
    let mut {m}: int = 0
    set {m} (+ {m} {k})
    if (< {m} {c2}) {{
        let {inner}: int = {c3}
        (println {inner})
    }} else {{
        (println "big")
    }}
    for i in (range 0 {c3}) {{
        (println (* i {k}))
    }}
    (println ({name} "a" {m}))
    (println ({flag} true))
    assert (== ({sum} [1, 2, 3]) 6)
{extra}    return 0
}}
shadow main {{ assert (== 1 1) }}
""".format(extra=extra, **N)
    return text, N


def mutants(text, N):
    """[(rule, what, text)]"""
    M = []

    def rep(rule, what, old, new, count=1):
        if old in text:
            M.append((rule, what, text.replace(old, new, count)))

    a, nm, fl, sm, pt, k, m, inner, t, idx, G, S = (N[x] for x in ("add", "name", "flag", "sum", "pt", "k", "m", "inner", "t", "idx", "G", "S"))
    # operand of the wrong type
    rep("operand-type", "+ int string", "    return (+ a b)\n", "    return (+ a \"x\")\n")
    rep("operand-type", "not int", "    return (not b)\n", "    return (not 1)\n")
    rep("operand-type", "* int bool", "(println (* i %s))" % k, "(println (* i true))")
    rep("operand-type", "< string int", "if (< %s %d) {" % (m, N["c2"]), "if (< \"s\" %d) {" % N["c2"])
    rep("operand-type", "and int int", "    return (not b)\n", "    return (and 1 2)\n")
    rep("operand-type", "== int string", "assert (== (%s [1, 2, 3]) 6)" % sm, "assert (== (%s [1, 2, 3]) \"6\")" % sm)
    # argument of the wrong type
    rep("argument-type", "string for int", "(%s %s.x %s)" % (a, pt, G), "(%s \"s\" %s)" % (a, G))
    rep("argument-type", "int for string", "(%s \"a\" %s)" % (nm, m), "(%s 1 %s)" % (nm, m))
    rep("argument-type", "int for bool", "(%s true)" % fl, "(%s 1)" % fl)
    rep("argument-type", "int for array", "(%s [1, 2, 3])" % sm, "(%s 3)" % sm)
    # wrong arity
    rep("arity", "too few", "(%s %s.x %s)" % (a, pt, G), "(%s %s.x)" % (a, pt))
    rep("arity", "too many", "(%s %s.x %s)" % (a, pt, G), "(%s %s.x %s 1)" % (a, pt, G))
    rep("arity", "none for one", "(%s true)" % fl, "(%s)" % fl)
    rep("arity", "builtin too many", "(array_length arr)", "(array_length arr 1)")
    # unknown name / function
    rep("unknown-name", "variable", "set %s (+ %s %s)" % (m, m, k), "set %s (+ %s zz_undefined)" % (m, m))
    rep("unknown-name", "function", "(println (%s true))" % fl, "(println (zz_nofn true))")
    rep("unknown-name", "type", "let %s: %s = " % (pt, S), "let %s: ZzNoType = " % pt)
    # out-of-scope name
    rep("out-of-scope", "block local used after the block", "    for i in (range 0", "    (println %s)\n    for i in (range 0" % inner)
    rep("out-of-scope", "loop variable used after the loop", "    (println (%s \"a\" %s))" % (nm, m), "    (println i)\n    (println (%s \"a\" %s))" % (nm, m))
    rep("out-of-scope", "declared in two closed sibling scopes, used after both", "    for i in (range 0",
        "    if true {\n        let %s: int = 1\n        (println %s)\n    }\n    for z9 in (range 0 2) {\n        let %s: int = z9\n        (println %s)\n    }\n    (println %s)\n    for i in (range 0" % (inner, inner, inner, inner, inner))
    rep("out-of-scope", "local of another function", "    return (not b)\n", "    return (== %s 0)\n" % t)
    # assignment to immutable variable or parameter
    rep("immutable", "immutable let", "set %s (+ %s %s)" % (m, m, k), "set %s (+ %s %s)" % (k, m, k))
    rep("immutable", "parameter", "    return (+ a b)\n", "    set a 1\n    return (+ a b)\n")
    rep("immutable", "immutable global", "set %s (+ %s %s)" % (m, m, k), "set %s (+ %s %s)" % (G, m, k))
    # a violation placed after a `return` in the same block (unreachable code is still checked)
    rep("immutable", "parameter, after a return in the same block", "    return (+ a b)\n}", "    return (+ a b)\n    set a 1\n}")
    rep("let-type", "string into int, after a return in the same block", "    return (+ a b)\n}", "    return (+ a b)\n    let zq9: int = \"s\"\n}")
    rep("unknown-name", "variable, after a return inside an if branch", "        return (+ s \"!\")\n", "        return (+ s \"!\")\n        (println zz_undefined)\n")
    # ... of a kind only the type checker can catch (the back ends compile it), in a block that is not the function's last
    rep("immutable", "parameter, after a return inside an if branch", "        return (+ s \"!\")\n", "        return (+ s \"!\")\n        set s \"x\"\n")
    rep("let-type", "string into int, after a return inside an if branch", "        return (+ s \"!\")\n", "        return (+ s \"!\")\n        let zq8: int = \"s\"\n")
    rep("operand-type", "bool plus int, after a return inside an if branch", "        return (+ s \"!\")\n", "        return (+ s \"!\")\n        (println (+ true 1))\n")
    # immutability is a property of the declaration, not of the name: an earlier `let mut` of the same name and type elsewhere
    rep("immutable", "parameter named like an earlier mutable local of another function", "fn main() -> int {",
        "fn late9(%s: int) -> int {\n    set %s 5\n    return %s\n}\nshadow late9 { assert (== 1 1) }\nfn main() -> int {" % (t, t, t))
    rep("immutable", "immutable let named like an earlier mutable local of a closed block", "    return 0\n}\nshadow main",
        "    if true {\n        let mut zz7: int = 1\n        set zz7 2\n    }\n    let zz7: int = 3\n    set zz7 4\n    return 0\n}\nshadow main")
    rep("immutable", "immutable let shadowed by a mutable one in a block that has ended", "    return 0\n}\nshadow main",
        "    let zz8: int = 3\n    if true {\n        let mut zz8: int = 1\n        set zz8 2\n    }\n    set zz8 4\n    return 0\n}\nshadow main")
    rep("operand-type", "name shadowed by another type in a block that has ended", "    return 0\n}\nshadow main",
        "    let zz6: string = \"s\"\n    if true {\n        let zz6: int = 1\n        (println zz6)\n    }\n    (println (+ zz6 1))\n    return 0\n}\nshadow main")
    # missing return on some path
    rep("missing-return", "else branch", "    } else {\n        return s\n    }\n", "    } else {\n        (println s)\n    }\n")
    rep("missing-return", "no return at all", "    return %s\n}" % t, "    (println %s)\n}" % t)
    # return of the wrong type
    rep("return-type", "string from int fn", "    return (+ a b)\n", "    return \"s\"\n")
    rep("return-type", "int from string fn", "        return s\n", "        return 1\n")
    rep("return-type", "value from bool fn", "    return (not b)\n", "    return 0\n")
    # non-bool condition
    rep("non-bool-condition", "if int", "if (< %s %d) {" % (m, N["c2"]), "if %s {" % m)
    rep("non-bool-condition", "while int", "while (< %s (array_length arr)) {" % idx, "while %s {" % idx)
    rep("non-bool-condition", "assert int", "assert (== (%s [1, 2, 3]) 6)" % sm, "assert (%s [1, 2, 3])" % sm)
    rep("non-bool-condition", "else-if string", "    } else {\n        (println \"big\")\n    }", "    } else if \"s\" {\n        (println \"big\")\n    }")
    # undefined field / variant
    rep("undefined-field", "read", "%s.x" % pt, "%s.zz" % pt)
    rep("undefined-field", "literal", "x: %d, y: %d }" % (N["c1"], N["c2"]), "x: %d, q: %d }" % (N["c1"], N["c2"]))
    rep("undefined-field", "field of int", "%s.x" % pt, "%s.x.y" % pt)
    # external call outside an unsafe context
    rep("extern-outside-unsafe", "statement", "struct %s {" % S, "extern fn labs(v: int) -> int\nstruct %s {" % S)
    if M and M[-1][0] == "extern-outside-unsafe":
        r, w, tx = M.pop()
        M.append((r, "call in expression position", tx.replace("let mut %s: int = 0\n    set %s" % (m, m), "let mut %s: int = (labs -3)\n    set %s" % (m, m), 1)))
        M.append((r, "call as statement", tx.replace("    set %s (+ %s %s)" % (m, m, k), "    (labs -3)\n    set %s (+ %s %s)" % (m, m, k), 1)))
        # an earlier unsafe block that returns must not leave the checker in unsafe mode
        M.append((r, "call as statement after an unsafe block that returns",
                  tx.replace("fn %s(b: bool) -> bool {\n    return (not b)\n}" % fl, "fn %s(b: bool) -> bool {\n    unsafe {\n        let q: int = (labs 1)\n        return (not b)\n    }\n}" % fl, 1)
                    .replace("    set %s (+ %s %s)" % (m, m, k), "    (labs -3)\n    set %s (+ %s %s)" % (m, m, k), 1)))
    # break / continue outside a loop
    rep("break-outside-loop", "break", "    (println (%s true))" % fl, "    break\n    (println (%s true))" % fl)
    # let with the wrong declared type
    rep("let-type", "string into int", "let mut %s: int = 0\n    set" % m, "let mut %s: int = \"0\"\n    set" % m)
    return M


RULES = ["operand-type", "argument-type", "arity", "unknown-name", "out-of-scope", "immutable", "missing-return", "return-type", "non-bool-condition",
         "undefined-field", "extern-outside-unsafe", "break-outside-loop", "let-type"]
