"""C16 — a failing FFI co-process is contained by the VM."""
import json
import os
import shutil
import signal
import struct
import subprocess
import tempfile
import time
from concurrent.futures import ThreadPoolExecutor

from .. import build, common, progs

MODULE = "NanoVerif.Props.C16"
LENS = [1, 10000, 3]      # the second call's argument does not fit the client's 8 KiB request buffer (heap-allocated request)
PROG = ("extern fn strlen(s: string) -> int\nfn main() -> int {\n    let mut a: int = 0\n    unsafe {\n"
        + "".join('        (println "call%d")\n        set a (strlen "%s")\n        (println a)\n' % (i, "x" * n) for i, n in enumerate(LENS))
        + "    }\n    (println \"end\")\n    return 0\n}\nshadow main { assert (== 1 1) }\n")


def expected_prefix(ncalls_done, finished):
    out = ""
    for i, n in enumerate(LENS):
        out += "call%d\n" % i
        if i < ncalls_done:
            out += "%d\n" % n
        else:
            return out
    return out + ("end\n" if finished else "")


def hdr(typ, ln, ver=1):
    return struct.pack("<BBHI", ver, typ, 0, ln & 0xFFFFFFFF)


def int_reply(n):
    return hdr(0x10, 9) + b"\x01" + struct.pack("<q", n)


def malformed_catalog(rng, want):
    good = int_reply(want)
    cat = {
        "short-header-4": good[:4],
        "empty": b"",
        "wrong-version": hdr(0x10, 9, ver=2) + good[8:],
        "wrong-type-ready": hdr(0x12, 0),
        "wrong-type-0x55": hdr(0x55, 9) + good[8:],
        "payload-too-long-announced": hdr(0x10, 16 * 1024 * 1024 + 1) + good[8:],
        "payload-max-announced-short-delivery": hdr(0x10, 16 * 1024 * 1024) + good[8:],
        "payload-short": hdr(0x10, 9) + good[8:12],
        "payload-longer-than-value": hdr(0x10, 20) + good[8:] + b"\0" * 11,
        "undecodable-string-len": hdr(0x10, 9) + b"\x05" + struct.pack("<I", 0xFFFFFFFF) + b"abcd",
        "undecodable-array-count": hdr(0x10, 7) + b"\x07\x01" + struct.pack("<I", 0xFFFFFFFF) + b"\x00",
        "deep-nesting": hdr(0x10, 6 * 70 + 9) + (b"\x07\x07" + struct.pack("<I", 1)) * 70 + b"\x01" + struct.pack("<q", 7),
        "ffi-error-short": hdr(0x11, 5) + b"oops!",
        "ffi-error-255": hdr(0x11, 255) + b"e" * 255,
        "ffi-error-9000": hdr(0x11, 9000) + b"E" * 9000,
        "ffi-error-70000": hdr(0x11, 70000) + b"F" * 70000,
        "void-result": hdr(0x10, 0),
        "bool-result": hdr(0x10, 2) + b"\x04\x01",
        "string-result": hdr(0x10, 8) + b"\x05" + struct.pack("<I", 3) + b"abc",
        "good": good,
        "good-with-trailing-garbage": good + b"\xAA\xBB\xCC",
    }
    for k in range(6):
        n = rng.choice([1, 7, 8, 9, 20, 40])
        cat["random-%d" % k] = bytes(rng.getrandbits(8) for _ in range(n))
        cat["random-v1-%d" % k] = b"\x01" + bytes([rng.choice([0x10, 0x11, 0x12, 0x02])]) + b"\0\0" + struct.pack("<I", rng.choice([0, 1, 5, 9, 12])) + bytes(rng.getrandbits(8) for _ in range(rng.choice([0, 3, 9, 12])))
    return cat


def run_script(args):
    tdir, nvm_path, fake_dir, gens, label = args
    wd = tempfile.mkdtemp(prefix="nvc16run", dir="/var/tmp")
    try:
        sf = os.path.join(wd, "script.json")
        json.dump(gens, open(sf, "w"))
        st = os.path.join(wd, "state")
        env = dict(os.environ, PATH=fake_dir + ":" + os.path.join(tdir, "bin") + ":" + os.environ.get("PATH", ""),
                   FAKE_COP_SCRIPT_FILE=sf, FAKE_COP_STATE=st, ASAN_OPTIONS="detect_leaks=0")
        t0 = time.time()
        # stdout/stderr go to files: a pipe would be inherited by the co-process and keep us waiting for an orphan
        fo, fe = open(os.path.join(wd, "out"), "wb"), open(os.path.join(wd, "err"), "wb")
        p = subprocess.Popen([os.path.join(tdir, "bin", "nano_vm"), "--isolate-ffi", nvm_path], stdout=fo, stderr=fe, env=env, stdin=subprocess.DEVNULL)
        try:
            rc = p.wait(timeout=20)
        except subprocess.TimeoutExpired:
            p.kill(); p.wait()
            rc = "timeout"
        fo.close(); fe.close()
        out = open(os.path.join(wd, "out"), "rb").read().decode(errors="replace")
        err = open(os.path.join(wd, "err"), "rb").read().decode(errors="replace")
        pids = []
        if os.path.exists(st + ".pids"):
            pids = [int(x) for x in open(st + ".pids").read().split()]
        orphans = []
        deadline = time.time() + 2.0
        left = list(pids)
        while left and time.time() < deadline:
            left = [q for q in left if _alive(q)]
            if left:
                time.sleep(0.05)
        for q in left:
            orphans.append(q)
            try:
                os.kill(q, signal.SIGKILL)
            except OSError:
                pass
        return label, rc, out, err[-400:], len(pids), orphans
    finally:
        shutil.rmtree(wd, ignore_errors=True)


def _alive(pid):
    try:
        os.kill(pid, 0)
    except OSError:
        return False
    try:
        with open("/proc/%d/stat" % pid) as f:
            return f.read().split()[2] != "Z"
    except OSError:
        return False


HONEST_START = [{"op": "read"}, {"op": "send", "type": 0x12, "payload": ""}]


def run(ctx):
    info = common.prove(ctx, MODULE, ["isa"])
    quick = ctx.tier == "quick"
    flav = "plain" if quick else "asan"
    tdir = build.tree(flav, ("vm",))
    plain = build.tree("plain", ("vm",))
    driver = common.build_driver()
    rng = ctx.rng
    oracle_fail, disagreements = [], []
    comp = progs.compile_sources(plain, [("c16prog", PROG)])
    nvm = comp[0][2]
    assert nvm, comp[0][3]
    work = tempfile.mkdtemp(prefix="nvc16", dir="/var/tmp")
    try:
        nvm_path = os.path.join(work, "p.nvm")
        open(nvm_path, "wb").write(nvm)
        fake_dir = os.path.join(work, "fakebin")
        os.makedirs(fake_dir)
        shutil.copy(os.path.join(build.VERIF, "probes", "fake_cop.py"), os.path.join(fake_dir, "nano_cop"))
        os.chmod(os.path.join(fake_dir, "nano_cop"), 0o755)
        jobs = []
        meta = {}
        # A. deterministic malformed replies at call j (peer keeps reading afterwards, closes stdout so that EOF is delivered)
        for j in range(len(LENS) if not quick else 2):
            cat = malformed_catalog(rng, LENS[j])
            for name, data in cat.items():
                gen = list(HONEST_START)
                for i in range(j):
                    gen += [{"op": "read"}, {"op": "reply_int", "value": LENS[i]}]
                gen += [{"op": "read"}, {"op": "raw", "bytes": data.hex()}, {"op": "close_stdout"}]
                lab = "reply[%d]=%s" % (j, name)
                jobs.append((tdir, nvm_path, fake_dir, [gen], lab))
                replies = [int_reply(LENS[i]) for i in range(j)] + [data] + [b""] * (len(LENS) - j - 1)
                meta[lab] = ("A", replies)
        # B. process-level faults at every protocol step (oracle only: the outcome may legitimately depend on timing)
        faults = {"exit0": [{"op": "exit", "code": 0}], "exit1": [{"op": "exit", "code": 1}], "sigkill": [{"op": "kill"}],
                  "close-stdin": [{"op": "close_stdin"}], "close-stdout": [{"op": "close_stdout"}],
                  "close-both": [{"op": "close_stdin"}, {"op": "close_stdout"}],
                  "close-stdin-then-silent": [{"op": "close_stdin"}, {"op": "sleep", "ms": 300}, {"op": "exit", "code": 0}],
                  # a wedged peer: closes its input (or both pipes) and stays alive - it must be terminated by the VM
                  "close-stdin-then-wedged": [{"op": "close_stdin"}, {"op": "sleep", "ms": 8000}, {"op": "exit", "code": 0}],
                  "close-both-then-wedged": [{"op": "close_stdin"}, {"op": "close_stdout"}, {"op": "sleep", "ms": 8000}, {"op": "exit", "code": 0}]}
        for fname, f in faults.items():
            steps = {"before-init-read": [] + f,
                     "before-ready": [{"op": "read"}] + f,
                     "wrong-ready-then": [{"op": "read"}, {"op": "send", "type": 0x10, "payload": ""}] + f,
                     "after-ready": list(HONEST_START) + f}
            for k in range(len(LENS)):
                pre = list(HONEST_START)
                for i in range(k):
                    pre += [{"op": "read"}, {"op": "reply_int", "value": LENS[i]}]
                steps["on-request-%d-read" % k] = pre + f
                steps["before-reply-%d" % k] = pre + [{"op": "read"}] + f
                steps["mid-reply-%d" % k] = pre + [{"op": "read"}, {"op": "raw", "bytes": int_reply(LENS[k])[:11].hex()}] + f
                steps["after-reply-%d" % k] = pre + [{"op": "read"}, {"op": "reply_int", "value": LENS[k]}] + f
            for sname, script in steps.items():
                lab = "%s@%s" % (fname, sname)
                jobs.append((tdir, nvm_path, fake_dir, [script], lab))
                meta[lab] = ("B", None)
        # a peer that fails the handshake and then just sits there without reading (must still be terminated)
        for tname, first in (("wrong-type", {"op": "send", "type": 0x10, "payload": ""}), ("bad-version", {"op": "send", "type": 0x12, "payload": "", "version": 9})):
            lab = "handshake-%s-then-idle" % tname
            # stays alive (not reading its input) for a while after the bad handshake, then goes away
            jobs.append((tdir, nvm_path, fake_dir, [[first, {"op": "sleep", "ms": 8000}, {"op": "exit", "code": 0}]] * 4, lab))
            meta[lab] = ("B", None)
        jobs.append((tdir, nvm_path, fake_dir, [list(HONEST_START) + [{"op": "serve_strlen"}]], "honest"))
        meta["honest"] = ("B", None)
        if quick:
            keepA = [jb for jb in jobs if meta[jb[4]][0] == "A"]
            keepB = [jb for jb in jobs if meta[jb[4]][0] == "B"]
            rng.shuffle(keepB)
            must = [jb for jb in keepB if "handshake" in jb[4] or jb[4] == "honest" or
                    ("wedged" in jb[4] and jb[4].split("@")[1] in ("after-ready", "before-reply-1", "after-reply-0", "on-request-2-read")) or
                    (jb[4].split("@")[-1] in ("mid-reply-1", "before-reply-1", "mid-reply-0") and jb[4].split("@")[0] in ("exit0", "sigkill", "close-stdout"))]
            jobs = keepA + must + [jb for jb in keepB if jb not in must][:70]
        with ThreadPoolExecutor(12) as ex:
            results = list(ex.map(run_script, jobs))
    finally:
        shutil.rmtree(work, ignore_errors=True)

    # model predictions for family A
    a_labels = [r[0] for r in results if meta[r[0]][0] == "A"]
    lines = ["cop.run 1 " + ",".join("0:" + common.hexs(b) for b in meta[l][1]) for l in a_labels]
    pred = dict(zip(a_labels, common.batch(driver, lines, timeout=600)[0]))
    for label, rc, out, err, launches, orphans in results:
        ctx.case(label)
        ctx.count("family_" + meta[label][0])
        full = expected_prefix(len(LENS), True)
        prefixes = {expected_prefix(k, False): k for k in range(len(LENS))}
        # a well-formed reply of another value type is used as the call's value: result lines are then not the
        # strlen values; compare modulo the result lines
        def shape(t):
            ls = t.split("\n")
            return "\n".join(l if (l.startswith("call") or l in ("end", "")) else "<v>" for l in ls)
        if out not in prefixes and out != full:
            for k in range(len(LENS)):
                if shape(out) == shape(expected_prefix(k, False)):
                    prefixes[out] = k
            if shape(out) == shape(full):
                full = out
        why = None
        if rc not in (0, 1):
            why = "VM ended with status %r (signal, crash or hang)" % (rc,)
        elif rc == 0 and out != full:
            why = "exit 0 but the program output is not the complete output"
        elif rc == 1 and out not in prefixes:
            why = "exit 1 but the output is not the program's own output up to the failing call"
        elif rc == 1 and "FFI call failed" not in err and "error" not in err.lower():
            why = "exit 1 without a reported error"
        elif orphans:
            why = "co-process still running after the VM exited"
        if why:
            oracle_fail.append({"script": label, "why": why, "exit": rc, "stdout": out[-200:], "stderr": err, "launches": launches, "orphans": len(orphans)})
            continue
        if meta[label][0] == "A":
            want = pred[label]
            got = "exit %d %d" % (rc, len(LENS) if rc == 0 else prefixes[out])
            if want != got:
                disagreements.append((label, want, got + " stderr=" + err[-120:]))
    ctx.cov["scripts"] = len(results)
    ctx.cov["outcomes"] = {str(k): sum(1 for r in results if r[1] == k) for k in sorted({str(r[1]) for r in results}, key=str) for k in [k if not k.lstrip("-").isdigit() else int(k)]}
    ctx.cov["disagreements_checked"] = len(disagreements)
    ctx.cov["traces_validated_against_impl"] = len(a_labels)
    ctx.cov["exhaustive"] = not quick
    ctx.sample(results[0][0]); ctx.sample(results[-1][0]); ctx.sample({"theorems": info.get("theorems", [])})
    ctx.cov["rule"] = ("scripted stand-in for nano_cop (first on PATH) against the real nano_vm --isolate-ffi on a 3-call program: (A) every malformed/garbled/oversized/"
                       "truncated reply of the catalogue at call j, outcome compared with the Lean client model; (B) protocol steps x {exit0, exit1, SIGKILL, close stdin, "
                       "close stdout, both, close and stay alive (wedged)}: outcome must be exit 0 with complete output or exit 1 with a reported error and intact output prefix, no signal, no orphan; distinct by script label")
    for f in oracle_fail[:3]:
        ctx.violation({"kind": "oracle", "detail": f})
    if not oracle_fail:
        if not info["ok"]:
            ctx.violation({"kind": "proof-obligation", "theorem_module": MODULE, "broken": info["broken"], "searched": "%d scripts: oracle true on all" % len(results)}, no_input=True)
        elif disagreements:
            ctx.violation({"kind": "correspondence", "which": "client model != nano_vm --isolate-ffi", "first": [list(x) for x in disagreements[:6]], "count": len(disagreements)}, no_input=True)
    return ctx.finish(info["obligations"], info["discharged"])
