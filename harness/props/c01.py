"""C01 — native and NanoVM back ends are observationally equivalent."""
import binascii
import glob
import os
import random
import shutil
import tempfile

from .. import build, common, gen_prog, lang

MODULE = "NanoVerif.Props.C01"


def run(ctx):
    info = common.prove(ctx, MODULE, ["front", "isa", "nvm"])
    quick = ctx.tier == "quick"
    tdir = build.tree("plain", ("vm", "bin/nanoc_c"), hooks=False)
    driver = common.build_driver()
    rng = ctx.rng
    oracle_fail, disagreements = [], []

    fams = []
    vals = lang.BOUNDARY
    pairs = [(a, b) for a in vals for b in vals]
    for op in lang.BINOPS:
        ch = [(a, b) for a, b in (pairs if not quick else rng.sample(pairs, 120)) + lang.NEAR_PAIRS if not (op in ("/", "%") and b == 0)]
        for k in range(0, len(ch), 170):
            fams.append(("arith %s #%d" % (op, k), lang.arith_program(op, ch[k:k + 170])))
    fams.append(("unary", lang.unary_program(vals)))
    fams.append(("strconv", lang.strconv_program(rng.sample(vals, 8) + [-9223372036854775808, -1000000000000000000])))
    for k in range(2 if quick else 10):
        fams.append(("short-circuit #%d" % k, lang.shortcircuit_program(rng)))
        fams.append(("scoping #%d" % k, lang.scoping_program(rng)))
        fams.append(("operand-order #%d" % k, lang.operand_order_program(rng)))
        fams.append(("guards #%d" % k, lang.guard_program(rng)))
        fams.append(("short-circuit-in-functions #%d" % k, lang.shortcircuit_shadowed(rng)))
        fams.append(("bytes #%d" % k, lang.bytes_program(rng)))
        fams.append(("loop-sequences #%d" % k, lang.two_loops_program(rng)))
        fams.append(("struct-order #%d" % k, lang.struct_order_program(rng)))
        fams.append(("array-builtins #%d" % k, lang.array_ops_program(rng)))
        fams.append(("scoping-in-functions #%d" % k, lang.scoping_shadowed(rng)))
        fams.append(("char-classes #%d" % k, lang.charclass_program(rng)))
        fams.append(("intern-churn #%d" % k, lang.intern_churn_program(rng)))
        fams.append(("deep-frames #%d" % k, lang.deep_frames_program(rng)))
        fams.append(("order-in-calls #%d" % k, lang.order_in_calls_shadowed(rng)))
        fams.append(("floats #%d" % k, lang.float_program(rng)))
    for k in range(20 if quick else 400):
        text, flags = gen_prog.gen(random.Random(ctx.seed * 15485863 + k), size=1.3)
        fams.append(("generated #%d" % k, text))
    for p in sorted(glob.glob(os.path.join(build.VERIF, "corpus", "progs", "*.nano"))):
        fams.append(("corpus " + os.path.basename(p), open(p).read()))
    fams.append(("argument-order (F-C02-2)", lang.ARG_ORDER_WITNESS))
    # strings beyond the native runtime's 1 MiB scan bound (witness of F-C01-15): concatenating two strings of 1.5 MiB
    fams.append(("string-beyond-1MiB (F-C01-15)",
                 "fn main() -> int {\n    let mut s: string = \"abc\"\n    while (< (str_length s) 1572864) {\n        set s (+ s s)\n    }\n    let t: string = (str_substring s 0 1572864)\n"
                 "    (println (str_length t))\n    let u: string = (+ t t)\n    (println (str_length u))\n    return 0\n}\nshadow main { assert (== 1 1) }\n"))

    with tempfile.TemporaryDirectory(prefix="nvc01", dir="/var/tmp") as td:
        paths = []
        for i, (name, text) in enumerate(fams):
            p = os.path.join(td, "p%d.nano" % i)
            open(p, "w").write(text)
            paths.append(p)
        jobs = [(tdir, p) for p in paths]
        vm = lang.parallel(lang.run_vm, jobs)
        nat = lang.parallel(lang.run_native, jobs)
        sem = lang.run_sem(driver, "vm", [t for _, t in fams])
        semn = lang.run_sem(driver, "native", [t for _, t in fams])
        # tie of the VM side: front-end models reproduce the bytecode file
        mout = common.batch(driver, ["compile " + binascii.hexlify(t.encode()).decode() for _, t in fams], timeout=3000)[0]
        impl_nvm = []
        import subprocess
        for p in paths:
            o = p[:-5] + ".nvm"
            r = subprocess.run([os.path.join(tdir, "bin", "nano_virt"), p, "--emit-nvm", "-o", o], stdout=subprocess.PIPE, stderr=subprocess.PIPE)
            impl_nvm.append("ok " + open(o, "rb").read().hex() if r.returncode == 0 and os.path.exists(o) else "rejected")
    cnt = {"equal": 0, "fault_runs": 0, "rejected_by_front_end": 0, "model_bytecode_equal": 0, "model_unsupported": 0}
    for (name, text), v, n, s, sn, m, im in zip(fams, vm, nat, sem, semn, mout, impl_nvm):
        ctx.case(text)
        if im == "rejected":
            cnt["rejected_by_front_end"] += 1
            continue
        if m.startswith("unsupported") or m.startswith("model-fuel"):
            cnt["model_unsupported"] += 1
        elif m == im:
            cnt["model_bytecode_equal"] += 1
        else:
            disagreements.append({"family": name, "model": m[:160], "impl": im[:160], "source": text})
        if n["rc"] == "shadow-failed":
            ctx.count("refused_by_compile_time_shadow_tests")
            continue
        if n["rc"] == "compile-failed":
            oracle_fail.append({"family": name, "why": "accepted program does not compile natively (no native observation to compare)", "diag": n["err"], "source": text})
            continue
        partial = s["res"] in ("fault oob", "fault divzero") or sn["res"] in ("fault oob", "fault divzero")
        undecided = s["res"].startswith("fault") and s["res"] not in ("fault assert", "fault oob", "fault divzero")
        vm_fault = isinstance(v["rc"], int) and v["rc"] != 0 and "untime error" in (v["err"] or "")
        nat_fault = isinstance(n["rc"], int) and (n["rc"] < 0 or n["rc"] == 134 or "Assertion" in (n["err"] or "") or "out of bounds" in (n["err"] or ""))
        if partial or (undecided and vm_fault and nat_fault):
            # the run performs an undefined partial operation: outside the property; both engines stop abnormally
            cnt["fault_runs"] += 1
            continue
        if undecided and name in ("corpus substr_neg.nano",):
            # (str_substring s 1 -1): a negative length is an undefined partial operation, kept in the corpus for C13
            cnt["fault_runs"] += 1
            continue
        if undecided:
            # the reference semantics does not cover the program (a built-in or a type it does not model): the two engines are
            # still compared with each other - that is the property
            ctx.count("compared_without_reference")
        if v["rc"] == n["rc"] and v["out"] == n["out"]:
            cnt["equal"] += 1
            continue
        if name.startswith("argument-order") and "F-C02-2" in ctx.findings and ctx.findings["F-C02-2"]["status"] == "known" and sorted(v["out"].split()) == sorted(n["out"].split()):
            ctx.known("F-C02-2", "native back end evaluates call arguments / array literal elements right to left (native prints %s, VM %s)"
                      % (" ".join(n["out"].decode().split()[:3]), " ".join(v["out"].decode().split()[:3])))
            continue
        if name.startswith("string-beyond-1MiB") and "F-C01-15" in ctx.findings and ctx.findings["F-C01-15"]["status"] == "known" and v["rc"] == 0 and n["rc"] == 0 and v["out"].split()[:1] == [b"1572864"]:
            ctx.known("F-C01-15", "the native runtime scans strings with strnlen(s, 1 MiB): lengths and concatenations of longer strings are silently cut (native prints %s, VM %s)"
                      % (" ".join(n["out"].decode().split()[:2]), " ".join(v["out"].decode().split()[:2])))
            continue
        oracle_fail.append({"family": name, "why": "native and VM observations differ", "vm": {"exit": v["rc"], "stdout_tail": v["out"][-300:].decode(errors="replace"), "stderr": v["err"]},
                            "native": {"exit": n["rc"], "stdout_tail": n["out"][-300:].decode(errors="replace"), "stderr": n["err"]},
                            "reference": s["res"], "source": text})
    ctx.cov.update(cnt)
    ctx.cov["programs"] = len(fams)
    ctx.cov["disagreements_checked"] = len(disagreements)
    ctx.cov["traces_validated_against_impl"] = cnt["model_bytecode_equal"]
    ctx.sample(fams[-3][1][:300]); ctx.sample({"theorems": info.get("theorems", [])})
    ctx.cov["rule"] = ("each program is compiled by nanoc and run, and run by nano_virt --run: stdout bytes and exit status must be equal unless the reference semantics says the run "
                       "performs a partial operation (index out of range, division by zero); families: 11 binary operators x boundary pairs (literal and through a call), unary, "
                       "abs/min/max, and/or shapes with effectful or partial right operands, scoping/loops/globals/recursion, int->string at the widest values, random typed "
                       "programs, corpus; VM side tied by byte-identical bytecode from the Lean front-end models")
    for f in oracle_fail[:3]:
        ctx.violation({"kind": "oracle", "detail": f})
    if not oracle_fail:
        if not info["ok"]:
            ctx.violation({"kind": "proof-obligation", "theorem_module": MODULE, "broken": info["broken"], "searched": "%d programs on both back ends: equal" % len(fams)}, no_input=True)
        elif disagreements:
            ctx.violation({"kind": "correspondence", "which": "front-end models != nano_virt --emit-nvm", "first": disagreements[:3], "count": len(disagreements)}, no_input=True)
    return ctx.finish(info["obligations"], info["discharged"])
