"""C15 — isolating external calls in the co-process does not change program behaviour."""
import os
import subprocess
import tempfile
from concurrent.futures import ThreadPoolExecutor

from .. import build, common, progs

MODULE = "NanoVerif.Props.C15"
TAGS = {"int": 1, "float": 3, "bool": 4, "string": 5, "array": 7, "opaque": 14}
F64 = [0, 1 << 63, 0x3FF0000000000000, 0x7FF0000000000000, 0xFFF0000000000000, 0x7FF8000000000001, 0x7FF4000000000000, 0x0000000000000001, 0xC05EDD2F1A9FBE77]
I64 = [0, 1, 0x7F, 0x80, 0xFF, 0xFFFFFFFF, 1 << 32, (1 << 63) - 1, 1 << 63, (1 << 64) - 1, (1 << 64) - 7]


def rand_val(rng, depth=0):
    """(text, size, canonical text after a round trip)"""
    c = rng.random()
    if c < 0.2:
        n = rng.choice(I64); return "i%d" % n, 9, "i%d" % n
    if c < 0.3:
        n = rng.choice(F64); return "f%d" % n, 9, "f%d" % n
    if c < 0.38:
        b = rng.choice("01"); return "b" + b, 2, "b" + b
    if c < 0.45:
        n = rng.choice(I64); return "o%d" % n, 9, "o%d" % n
    if c < 0.5:
        return "v", 1, "v"
    if c < 0.56:
        t = rng.choice([2, 6, 8, 9, 10, 11, 12, 13, 200])      # u8, bstring, struct, enum, ... : tag only, arrives as void
        return "t%d" % t, 1, "v"
    if c < 0.8 or depth >= 3:
        n = rng.choice([0, 0, 1, 2, 7, 100, 4090, 8170, 8181, 8182, 8183, 8186, 8187, 9001] + ([65536] if rng.random() < 0.2 else []))
        b = bytes(rng.randrange(0, 256) for _ in range(min(n, 32))) * (n // 32 + 1)
        b = b[:n]
        t = "s" + (b.hex() if b else "-")
        return t, 5 + n, t
    k = rng.choice([0, 0, 1, 2, 3, 5])
    et = rng.choice([0, 1, 3, 4, 5, 7, 255])
    parts = [rand_val(rng, depth + 1) for _ in range(k)]
    txt = "a%d.%d" % (et, k) + "".join("," + p[0] for p in parts)
    can = "a%d.%d" % (et, k) + "".join("," + p[2] for p in parts)
    return txt, 6 + sum(p[1] for p in parts), can


def e2e_program(rng, k):
    n = rng.choice([0, 1, 5, 100, 4095, 4096, 4097, 8181, 8182, 8183, 9001, 20000, 65536])
    name = "V%d" % k
    body = []
    body.append('        let mut s: string = ""')
    body.append('        let mut unit: string = "%s"' % rng.choice(["a", "ab", "x;#", "é"]))
    body.append("        let mut i: int = 0")
    body.append("        while (< (str_length s) %d) { set s (+ s unit) }" % n)
    body.append("        set a (strlen s)")
    body.append("        (println a)")
    body.append('        set a (nl_cstr_index_of (+ s "Q") "Q")')
    body.append("        (println a)")
    body.append("        set a (labs %d)" % rng.choice([0, -1, 5, -9223372036854775807, 9223372036854775807]))
    body.append("        (println a)")
    body.append('        set t (getenv "%s")' % name)
    body.append("        (println t)")
    body.append('        set t (getenv "C15_UNSET_VARIABLE")')
    body.append('        (println (+ "[" (+ t "]")))')
    body.append("        set a (toupper %d)" % rng.choice([97, 65, 0, 255, 122]))
    body.append("        (println a)")
    body.append("        set f (fabs %s)" % rng.choice(["-2.5", "0.0", "1.0e300", "-0.0"]))
    body.append("        if (>= f 0.0) { (println \"nonneg\") } else { (println \"neg\") }")
    body.append('        set a (atoi "%d")' % rng.randint(-99999, 99999))
    body.append("        (println a)")
    # a string result that comes back through the co-process is an ordinary string: equal to its original, usable in every
    # string operation; a NULL char* result is void on both paths
    body.append("        set a (get_argc)")
    body.append("        (println a)")
    body.append("        set t (get_argv 0)")
    body.append("        (println (str_length t))")
    body.append("        set t (strdup s)")
    body.append('        if (== t s) { (println "copy-eq") } else { (println "copy-ne") }')
    body.append('        if (== (+ t "x") (+ s "x")) { (println "cat-eq") } else { (println "cat-ne") }')
    body.append("        (println (str_length t))")
    body.append('        set t (strstr "hello world" "%s")' % rng.choice(["zz", "lo w", "", "world!"]))
    body.append("        (println t)")
    body.append('        set t (strchr "hello" %d)' % rng.choice([108, 122, 0, 104]))
    body.append("        (println t)")
    src = ("extern fn strlen(s: string) -> int\nextern fn labs(x: int) -> int\nextern fn getenv(name: string) -> string\n"
           "extern fn nl_cstr_index_of(s: string, sub: string) -> int\nextern fn toupper(c: int) -> int\nextern fn fabs(x: float) -> float\n"
           "extern fn atoi(s: string) -> int\nextern fn strdup(s: string) -> string\nextern fn get_argc() -> int\nextern fn get_argv(index: int) -> string\nextern fn strstr(h: string, n: string) -> string\nextern fn strchr(s: string, c: int) -> string\nfn main() -> int {\n    let mut a: int = 0\n    let mut t: string = \"\"\n    let mut f: float = 0.0\n    unsafe {\n"
           + "\n".join(body) + "\n    }\n    return %d\n}\nshadow main { assert (== 1 1) }\n" % rng.choice([0, 0, 3]))
    envval = "".join(rng.choice("abc xyz;#=") for _ in range(rng.choice([0, 1, 10, 300, 9000])))
    return name, src, envval


def run_pair(args):
    tdir, name, nvm, envval, td = args
    vm = os.path.join(tdir, "bin", "nano_vm")
    path = os.path.join(td, name + ".nvm")
    open(path, "wb").write(nvm)
    env = dict(os.environ, PATH=os.path.join(tdir, "bin") + ":" + os.environ.get("PATH", ""), ASAN_OPTIONS="detect_leaks=0")
    env[name] = envval
    out = {}
    for key, cmd in (("inproc", [vm, path]), ("isolated", [vm, "--isolate-ffi", path])):
        try:
            p = subprocess.run(cmd, stdout=subprocess.PIPE, stderr=subprocess.PIPE, env=env, timeout=60, stdin=subprocess.DEVNULL)
            out[key] = (p.returncode, p.stdout, p.stderr[-300:])
        except subprocess.TimeoutExpired:
            out[key] = ("timeout", b"", b"")
    return name, out


def run(ctx):
    info = common.prove(ctx, MODULE, ["isa"])
    quick = ctx.tier == "quick"
    flav = "plain" if quick else "asan"
    tdir = build.tree(flav, ("vm",))
    plain = build.tree("plain", ("vm",))
    probe = build.probe("cop_probe", tdir, ("isa", "vm", "common"), flav)
    driver = common.build_driver()
    env = dict(os.environ, ASAN_OPTIONS="detect_leaks=0")
    rng = ctx.rng
    oracle_fail, disagreements = [], []

    # A. codec: serialise on both sides, decode the implementation's bytes (+ suffix) on both sides
    vals = [rand_val(rng) for _ in range(700 if quick else 12000)]
    ser_lines, meta = [], []
    for txt, size, can in vals:
        for room in {8192, size, size - 1, max(0, size - 5), size + 1, 1 << 20}:
            ser_lines.append("cop.ser %d %s" % (room, txt)); meta.append((txt, size, can, room))
    ms = common.batch(driver, ser_lines, timeout=3000)[0]
    ps = common.batch_robust(probe, ser_lines, timeout=3000, env=env)
    de_lines, de_meta = [], []
    for (txt, size, can, room), a, c in zip(meta, ms, ps):
        ctx.case("ser:%d:%s" % (room, txt[:200]) + str(len(txt)))
        if a != c:
            disagreements.append(("cop.ser %d %s" % (room, txt[:120]), a[:120], c[:120]))
        fits = size <= room
        if c.startswith("CRASH") or (c.startswith("ok ") != fits):
            oracle_fail.append({"value": txt[:300], "room": room, "size": size, "impl": c[:100], "why": "serialisation must succeed exactly when the value fits the buffer"})
        elif fits and room == size:
            sfx = bytes(rng.getrandbits(8) for _ in range(rng.choice([0, 1, 9])))
            de_lines.append("cop.de " + c[3:] + sfx.hex()); de_meta.append((txt, can, size))
    md = common.batch(driver, de_lines, timeout=3000)[0]
    pd = common.batch_robust(probe, de_lines, timeout=3000, env=env)
    for (txt, can, size), a, c in zip(de_meta, md, pd):
        ctx.case("de:" + txt[:200] + str(len(txt)))
        if a != c:
            disagreements.append(("cop.de(ser %s)" % txt[:120], a[:160], c[:160]))
        if c != "ok %d %s" % (size, can):
            oracle_fail.append({"value": txt[:300], "impl": c[:300], "expected": ("ok %d %s" % (size, can))[:300], "why": "deserialize(serialize(v)) != v"})
    ctx.cov["values"] = len(vals)
    # hostile buffers for the decoder
    hostile = []
    for _ in range(300 if quick else 5000):
        k = rng.random()
        if k < 0.4:
            hostile.append(bytes(rng.getrandbits(8) for _ in range(rng.choice([0, 1, 2, 5, 9, 13, 40]))))
        elif k < 0.7:
            ln = rng.choice([0xFFFFFFFF, 0xFFFFFFFA, 0x80000000, 6, 7, 0x10000])
            hostile.append(bytes([5]) + ln.to_bytes(4, "little") + bytes(rng.getrandbits(8) for _ in range(rng.choice([0, 3, 6, 20]))))
        else:
            cnt = rng.choice([0, 1, 2, 3, 0xFFFFFFFF, 0x7FFFFFFF, 70000])
            hostile.append(bytes([7, rng.choice([1, 5])]) + cnt.to_bytes(4, "little") + bytes(rng.choice([1, 4, 5, 0, 7]) for _ in range(rng.choice([0, 1, 9, 30]))))
    # nesting around the decoder's limit (64) and far beyond it
    for d in (1, 63, 64, 65, 66, 200) + (() if quick else (5000, 100000)):
        hostile.append((bytes([7, 7]) + (1).to_bytes(4, "little")) * d + bytes([1]) + (7).to_bytes(8, "little"))
    lines = ["cop.de " + common.hexs(h) for h in hostile]
    mh = common.batch(driver, lines, timeout=3000)[0]
    ph = common.batch_robust(probe, lines, timeout=3000, env=env)
    for h, a, c in zip(hostile, mh, ph):
        ctx.case("hostile:" + h.hex(), nontrivial=c.startswith("ok"))
        if c.startswith("CRASH"):
            oracle_fail.append({"buffer_hex": h.hex(), "impl": c[:300], "why": "decoder crashed on a hostile buffer"})
        elif a != c:
            disagreements.append(("cop.de " + h.hex()[:80], a[:160], c[:160]))
    ctx.cov["hostile_buffers"] = len(hostile)

    # B. programs: nano_vm vs nano_vm --isolate-ffi
    srcs = [e2e_program(rng, k) for k in range(10 if quick else 120)]
    # one run that sends more external calls to the same co-process than any 16-bit counter holds (declared extern and a builtin
    # that the code generator implements as one), results folded into a value that is printed
    for k, ncalls in enumerate((66000,) if quick else (65535, 65536, 65537, 70000, 140000)):
        srcs.append(("MANY%d" % k,
                     "extern fn labs(x: int) -> int\nfn main() -> int {\n    let mut acc: int = 0\n    let mut i: int = 0\n    unsafe {\n        while (< i %d) {\n            set acc (+ acc (labs (- 0 i)))\n"
                     "            if (is_alpha (+ 65 (%% i 60))) {\n                set acc (+ acc 1)\n            } else {\n                set acc (+ acc 0)\n            }\n            set i (+ i 2)\n        }\n    }\n"
                     "    (println acc)\n    (println (char_to_upper 122))\n    (println \"done\")\n    return 0\n}\nshadow main { assert (== 1 1) }\n" % ncalls, ""))
    comp = progs.compile_sources(plain, [(n, s) for n, s, e in srcs])
    with tempfile.TemporaryDirectory(prefix="nvc15", dir="/var/tmp") as td:
        jobs = [(plain, n, b, e, td) for (n, s, e), (_, _, b, err) in zip(srcs, comp) if b]
        with ThreadPoolExecutor(8) as ex:
            res = list(ex.map(run_pair, jobs))
    for name, out in res:
        ctx.case("e2e:" + name + str(out["inproc"][1][:60]))
        a, b = out["inproc"], out["isolated"]
        if (a[0], a[1]) != (b[0], b[1]):
            src = next(s for n, s, e in srcs if n == name)
            oracle_fail.append({"program": src[:1500], "why": "nano_vm and nano_vm --isolate-ffi differ", "inproc": [a[0], a[1][-200:].decode(errors="replace"), a[2].decode(errors="replace")],
                                "isolated": [b[0], b[1][-200:].decode(errors="replace"), b[2].decode(errors="replace")]})
    ctx.cov["programs_both_ways"] = len(res)
    ctx.cov["disagreements_checked"] = len(disagreements)
    ctx.cov["traces_validated_against_impl"] = len(ser_lines) + len(de_lines) + len(hostile)
    ctx.sample(vals[0][0][:200]); ctx.sample(vals[1][0][:200]); ctx.sample({"theorems": info.get("theorems", [])})
    ctx.cov["rule"] = ("random values over all transferable kinds and the tag-only kinds, strings of 0..65536 bytes incl. the 8 KiB boundary, nested/empty arrays; "
                       "each serialised at room = size, size-1, size+1, 8192 on model and implementation, implementation bytes decoded by both; hostile decoder inputs; "
                       "extern-calling programs run with and without --isolate-ffi; distinct by hash of the value text / buffer / program output")
    for f in oracle_fail[:3]:
        ctx.violation({"kind": "oracle", "detail": f})
    if not oracle_fail:
        if not info["ok"]:
            ctx.violation({"kind": "proof-obligation", "theorem_module": MODULE, "broken": info["broken"],
                           "searched": "%d values, %d hostile buffers, %d programs: oracle true on all" % (len(vals), len(hostile), len(res))}, no_input=True)
        elif disagreements:
            ctx.violation({"kind": "correspondence", "which": "cop.ser / cop.de model != implementation", "first": [list(x) for x in disagreements[:5]], "count": len(disagreements)}, no_input=True)
    return ctx.finish(info["obligations"], info["discharged"])
