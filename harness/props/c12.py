"""C12 — a damaged bytecode file is refused, not executed."""
import os
import subprocess
import tempfile

from .. import build, common, corpus, crcutil

MODULE = "NanoVerif.Props.C12"


def run(ctx):
    info = common.prove(ctx, MODULE, ["nvm", "isa"])
    flav = "asan" if ctx.tier == "thorough" else "plain"
    tdir = build.tree(flav, ("vm",))
    probe = build.probe("isa_probe", tdir, ("isa",), flav)
    driver = common.build_driver()
    env = dict(os.environ, ASAN_OPTIONS="detect_leaks=0")
    rng = ctx.rng
    P = crcutil.params()
    C = crcutil.Crc(P["poly"], P["init"], P["final"])
    H = P["header"]

    quick = ctx.tier == "quick"
    files = corpus.nvm_corpus(tdir)
    small = [(s, b) for s, b in files if len(b) <= (3000 if quick else 12000)]
    # distinct contents only
    seen, uniq = set(), []
    for s, b in small:
        if b not in seen:
            seen.add(b); uniq.append((s, b))
    rng.shuffle(uniq)
    nfiles = 20 if quick else 120
    chosen = sorted(uniq[:nfiles], key=lambda x: len(x[1]))
    ctx.cov["files"] = len(chosen)
    ctx.cov["file_sizes"] = [len(b) for _, b in chosen]
    oracle_fail, disagreements = [], []

    # 0. the original files are accepted by model and implementation (non-vacuity of the run)
    lines = ["nvm.load " + b.hex() for _, b in chosen]
    m0 = common.batch(driver, lines, timeout=1200)[0]
    p0 = common.batch_robust(probe, lines, env=env)
    accepted = 0
    for (s, b), a, c in zip(chosen, m0, p0):
        ctx.case("orig:" + b.hex()[:64] + str(len(b)))
        if a != c:
            disagreements.append((("nvm.load <%s>" % os.path.basename(s)), a[:200], c[:200]))
        if c.startswith("ok "):
            accepted += 1
    ctx.cov["originals_accepted"] = accepted
    good = [(s, b) for (s, b), c in zip(chosen, p0) if c.startswith("ok ")]
    # 0a. files whose stored checksum has a special byte (0x00 / 0xFF) in each of its four positions: the last body
    #     byte of a valid file is varied (it lies in a data section; the file stays a module or is refused for another
    #     reason - only accepted variants are kept) until the CRC has that byte.  A comparison of the checksum that stops at
    #     a zero byte, or is made in a narrower or signed type, shows only on such files.
    special = []
    if good:
        s0, b0 = good[0]
        want = [(pos, val) for pos in range(4) for val in (0x00, 0xFF)]
        cand = {}
        for k in range(min(len(b0) - H, 3)):
            for x in range(256):
                d = bytearray(b0); d[len(b0) - 1 - k] = x
                d = crcutil.fix_checksum(bytes(d), P, C)
                cs = d[H - 4:H]
                for pos, val in want:
                    if cs[pos] == val and (pos, val) not in cand:
                        cand[(pos, val)] = d
        cl = list(cand.items())
        okl = common.batch_robust(probe, ["nvm.load " + d.hex() for _, d in cl], env=env)
        for ((pos, val), d), c in zip(cl, okl):
            if c.startswith("ok "):
                special.append(("%s[crc byte %d = %02x]" % (s0, pos, val), d))
        ctx.cov["special_checksum_files"] = len(special)
        good = good + special

    # 0b. nvm_crc32 itself, model vs implementation: all 256 single bytes, all lengths 0..40, file bodies
    clines = ["crc " + common.hexs(bytes([x])) for x in range(256)]
    clines += ["crc " + common.hexs(bytes(rng.getrandbits(8) for _ in range(n))) for n in range(0, 41)]
    clines += ["crc " + common.hexs(bytes([0xFF] * n)) for n in (1, 2, 3, 4, 5, 7, 8)]
    clines += ["crc " + common.hexs(b[H:]) for _, b in good[:8]]
    mc = common.batch(driver, clines, timeout=600)[0]
    pc = common.batch_robust(probe, clines, env=env)
    for l, a, c in zip(clines, mc, pc):
        ctx.case(l)
        if a != c:
            disagreements.append((l[:80], a, c))
    ctx.cov["crc_compared"] = len(clines)

    # 1. implementation oracle, exhaustive single-bit flips + every truncation + sampled bursts
    nb = 2000 if quick else 20000
    lines, meta = [], []
    for s, b in good:
        lines.append("nvm.flipall " + b.hex()); meta.append(("flip", s, b))
        lines.append("nvm.truncall " + b.hex()); meta.append(("trunc", s, b))
        lines.append("nvm.bursts %d %d %s" % (ctx.seed, nb, b.hex())); meta.append(("burst", s, b))
    # every error pattern confined to one byte, every body byte (all aligned bursts <= 8 bits): small files
    # in the quick tier, all files when a proof obligation or the translator broke (search) and in thorough
    deep = (not info["ok"]) or not quick
    for s, b in (good if deep else good[:6]):
        if len(b) <= (1500 if quick and not deep else 6000):
            lines.append("nvm.bytexor " + b.hex()); meta.append(("bytexor", s, b))
    rep = common.batch_robust(probe, lines, timeout=3000, env=env)
    tot = {"flip": 0, "trunc": 0, "burst": 0, "bytexor": 0}
    for (kind, s, b), r in zip(meta, rep):
        w = dict(x.split("=") for x in r.split()) if "=" in r and not r.startswith("CRASH") else None
        if w is None:
            oracle_fail.append({"file": s, "op": kind, "impl": r, "why": "implementation crashed or malformed reply", "file_hex": b.hex()})
            continue
        n = int(w.get("flips", w.get("truncations", w.get("bursts", w.get("bytexor", 0)))))
        tot[kind] += n
        ctx.evals += n
        if int(w["accepted"]) != 0:
            oracle_fail.append({"file": s, "op": kind, "accepted": int(w["accepted"]), "first": w["first"],
                                "why": "damaged file was accepted by nvm_deserialize", "file_hex": b.hex()})
    ctx.cov["single_bit_flips_exhaustive"] = tot["flip"]
    ctx.cov["truncation_lengths_exhaustive"] = tot["trunc"]
    ctx.cov["bursts_sampled"] = tot["burst"]
    ctx.cov["single_byte_patterns_exhaustive"] = tot["bytexor"]
    ctx.cov["exhaustive"] = False

    # 2. correspondence on individual damaged files (model vs implementation), incl. adversarial tails
    cases = []
    for s, b in good:
        body = b[H:]
        per = 6 if quick else 30
        for _ in range(per):
            # single flip
            bit = rng.randrange(H * 8, len(b) * 8)
            d = bytearray(b); d[bit // 8] ^= 1 << (bit % 8)
            cases.append(("flip@%d" % bit, s, bytes(d)))
            # burst
            ln = rng.randint(2, 32)
            off = rng.randrange(0, len(body) * 8 - ln + 1)
            pat = rng.getrandbits(ln) | 1 | (1 << (ln - 1))
            d = bytearray(b)
            for k in range(ln):
                if pat >> k & 1:
                    bb = H * 8 + off + k; d[bb // 8] ^= 1 << (bb % 8)
            cases.append(("burst@%d+%d" % (off, ln), s, bytes(d)))
            # truncation
            cases.append(("trunc", s, b[:rng.randrange(0, len(b))]))
            # random tail
            cases.append(("tail", s, b + bytes(rng.getrandbits(8) for _ in range(rng.choice([1, 2, 4, 7, 32])))))
        # the tail that leaves the CRC register unchanged (4 bytes), also after a random prefix
        reg = C.raw(body)
        t = C.patch(reg, reg)
        if t is not None:
            assert C.crc(body + t) == C.crc(body)
            cases.append(("crc-preserving-tail", s, b + t))
            pre = bytes(rng.getrandbits(8) for _ in range(3))
            t2 = C.patch(C.raw(body + pre), reg)
            cases.append(("crc-preserving-tail", s, b + pre + t2))
        # header faults: one random flip in magic and version per file ...
        d = bytearray(b); d[rng.randrange(0, 4)] ^= 1 << rng.randrange(8); cases.append(("magic", s, bytes(d)))
        d = bytearray(b); d[rng.randrange(4, 8)] ^= 1 << rng.randrange(8); cases.append(("version", s, bytes(d)))
    # ... and exhaustively on the smallest file: all 64 single-bit flips of magic+version, version 0/2/0xFFFFFFFF, section count 17
    if good:
        s, b = good[0]
        for bit in range(64):
            d = bytearray(b); d[bit // 8] ^= 1 << (bit % 8); cases.append(("magic" if bit < 32 else "version", s, bytes(d)))
        for v in (0, 2, 0x100, 0xFFFFFFFF):
            cases.append(("version", s, b[:4] + v.to_bytes(4, "little") + b[8:]))
        for cnt in (17, 255, 0xFFFFFFFF):
            cases.append(("section-count", s, crcutil.fix_checksum(b[:16] + cnt.to_bytes(4, "little") + b[20:], P, C)))
    lines = ["nvm.load " + common.hexs(d) for _, _, d in cases]
    md = common.batch(driver, lines, timeout=3000)[0]
    pd = common.batch_robust(probe, lines, env=env)
    for (kind, s, d), a, c in zip(cases, md, pd):
        ctx.case(kind + d.hex()[-80:] + str(len(d)))
        ctx.count("case_" + kind.split("@")[0])
        if a != c:
            disagreements.append(("nvm.load %s of %s" % (kind, os.path.basename(s)), a[:200], c[:200], d.hex()))
        if c != "err":
            oracle_fail.append({"file": s, "op": kind, "impl": c[:200], "why": "damaged file was not refused", "damaged_hex": d.hex()})
    ctx.sample({"file": os.path.basename(good[0][0]) if good else None, "ops": [k for k, _, _ in cases[:8]]})

    # 3. end to end: nano_vm refuses and prints nothing
    vm = os.path.join(tdir, "bin", "nano_vm")
    e2e = 0
    with tempfile.TemporaryDirectory(prefix="nvc12") as td:
        pick = [c for c in cases if c[0].startswith(("flip", "burst", "crc-pres", "trunc"))]
        rng.shuffle(pick)
        for kind, s, d in pick[:(30 if quick else 200)]:
            fn = os.path.join(td, "d.nvm")
            open(fn, "wb").write(d)
            try:
                p = subprocess.run([vm, fn], stdout=subprocess.PIPE, stderr=subprocess.PIPE, timeout=20, env=env, stdin=subprocess.DEVNULL)
                rc, out = p.returncode, p.stdout
            except subprocess.TimeoutExpired:
                rc, out = "timeout", b""
            e2e += 1
            ctx.evals += 1
            if rc != 1 or out != b"":
                oracle_fail.append({"file": s, "op": kind, "why": "nano_vm did not refuse the damaged file silently",
                                    "exit": rc, "stdout": out[:200].decode(errors="replace"), "damaged_hex": d.hex()})
    ctx.cov["nano_vm_runs"] = e2e
    ctx.cov["disagreements_checked"] = len(disagreements)
    ctx.cov["traces_validated_against_impl"] = len(cases) + len(chosen)
    ctx.cov["rule"] = ("compiler-produced files (repo examples/tests compiled by the rebuilt nano_virt): every single-bit flip of every body bit and "
                       "every truncation length on the implementation; sampled bursts; per-file damaged variants compared model vs implementation "
                       "incl. CRC-preserving 4-byte tails; non-trivial = damage applied to a file the implementation accepts; distinct by hash of the damaged bytes (exhaustive loops counted in evaluations only)")
    ctx.sample({"theorems": info.get("theorems", [])})

    for f in oracle_fail[:3]:
        ctx.violation({"kind": "oracle", "detail": f, "note": "nvm_deserialize / nano_vm accepted a damaged file or crashed"})
    if not oracle_fail:
        if not info["ok"]:
            ctx.violation({"kind": "proof-obligation", "theorem_module": MODULE, "broken": info["broken"],
                           "searched": "flips=%d truncations=%d bursts=%d single-byte-patterns=%d variants=%d on the implementation, none accepted" % (tot["flip"], tot["trunc"], tot["burst"], tot["bytexor"], len(cases))}, no_input=True)
        elif disagreements:
            ctx.violation({"kind": "correspondence", "which": "nvm.load model != implementation",
                           "first": [list(x) for x in disagreements[:5]], "count": len(disagreements)}, no_input=True)
    return ctx.finish(info["obligations"], info["discharged"])
