"""C07 — prefix and infix notation denote the same program."""
import binascii
import os
import subprocess
import tempfile
from concurrent.futures import ThreadPoolExecutor

from .. import build, common, gen_expr

MODULE = "NanoVerif.Props.C07"


def compile_one(args):
    tdir, path = args
    out = path[:-5] + ".nvm"
    try:
        p = subprocess.run([os.path.join(tdir, "bin", "nano_virt"), path, "--emit-nvm", "-o", out], stdout=subprocess.PIPE, stderr=subprocess.PIPE, timeout=60)
    except subprocess.TimeoutExpired:
        return ("timeout", b"", "")
    if p.returncode != 0 or not os.path.exists(out):
        return ("rejected", b"", (p.stdout + p.stderr).decode(errors="replace")[-400:])
    return ("ok", open(out, "rb").read(), "")


def run_one(args):
    tdir, path = args
    try:
        p = subprocess.run([os.path.join(tdir, "bin", "nano_vm"), path[:-5] + ".nvm"], stdout=subprocess.PIPE, stderr=subprocess.PIPE, timeout=60)
        return (p.returncode, p.stdout)
    except subprocess.TimeoutExpired:
        return ("timeout", b"")


def run(ctx):
    info = common.prove(ctx, MODULE, ["front", "isa", "nvm"])
    quick = ctx.tier == "quick"
    tdir = build.tree("plain", ("vm",), hooks=False)
    driver = common.build_driver()
    rng = ctx.rng
    oracle_fail, disagreements = [], []

    # families: (name, [trees], expected well-typed)
    fams = []
    ex = gen_expr.exhaustive_pairs(rng)
    good = [t for t, ok in ex if ok]
    illt = [t for t, ok in ex if not ok]
    for k in range(0, len(good), 30):
        fams.append(("pairs-welltyped-%d" % k, good[k:k + 30], True))
    # ill-typed operator pairs: one expression per program; both spellings must be rejected alike
    ill_sample = illt if not quick else rng.sample(illt, 24)
    for k, t in enumerate(ill_sample):
        fams.append(("pairs-illtyped-%d" % k, [t], False))
    # triples at depth 3: op3 (op2 (op1 a b) c) d in all four nestings, random operators among compatible types
    nrand = 12 if quick else 200
    for k in range(nrand):
        depth = rng.choice([2, 3, 3, 4, 5, 6])
        fams.append(("random-%d" % k, [gen_expr.gen(rng, rng.choice(["int", "bool"]), depth) for _ in range(25)], True))
    # long left-nested chains and deep right nesting (up to a few hundred levels; the parser's limit is 1000)
    for k in range(2 if quick else 12):
        n = rng.choice([50, 120, 300])
        e = ("var", "a", "int")
        for i in range(n):
            e = ("bin", rng.choice(["+", "-", "*"]), e, ("var", rng.choice(gen_expr.INT_VARS), "int"))
        r = ("var", "b", "int")
        for i in range(n):
            r = ("bin", rng.choice(["+", "-", "*"]), ("var", rng.choice(gen_expr.INT_VARS), "int"), r)
        fams.append(("chains-%d" % k, [e, r], True))

    # postfix forms on a call in parentheses - `(mkp e).x`, `(pair a b).1` - in every operand position of every operator
    pf = gen_expr.postfix_positions(rng)
    for k in range(0, len(pf), 20):
        fams.append(("postfix-on-call-%d" % k, pf[k:k + 20], True))
    # runs of one and the same operator (2 .. 400 operators): `t0 op t1 op ... op tn` is the left-nested prefix form
    run_ops = ["+", "*", "-", "and", "or", "==", "/", "%"]
    for n in ([2, 47, 48, 49, 64, 130] if quick else [2, 3, 7, 8, 9, 15, 16, 17, 31, 32, 33, 47, 48, 49, 63, 64, 65, 100, 127, 128, 129, 255, 256, 257, 400]):
        fams.append(("same-operator-run-%d" % n, [gen_expr.same_op_run(rng, op, n) for op in run_ops], True))

    # layout around infix operators: the parse must not depend on where the blanks are (`a -b`, `a- b`, wide, operator on the next line)
    for mode in ("signlike", "tightleft", "wide", "newline"):
        trees = []
        for i in range(30):
            a, b, c = (("var", rng.choice(gen_expr.INT_VARS), "int") for _ in range(3))
            op1, op2 = rng.choice(["+", "-", "*", "/", "%"]), rng.choice(["+", "-", "*"])
            trees.append(("bin", op2, ("bin", op1, a, b), c))
            trees.append(("bin", "-", ("call", "f2", [a, b], "int"), ("call", "h1", [c], "int")))
            trees.append(("bin", rng.choice(["<", "==", ">="]), ("bin", "-", a, b), c))
        fams.append(("spacing-%s" % mode, trees, True, mode))
    # volume: more than MAX_RECURSION_DEPTH small expressions with unparenthesised unary operators in one file - the
    # nesting guard counts nesting, so any per-file residue of it shows here (not in deep nesting)
    vol = []
    for i in range(2400):
        v = ("var", rng.choice(gen_expr.INT_VARS), "int")
        w = ("var", rng.choice(gen_expr.INT_VARS), "int")
        if i % 3 == 0:
            vol.append(("bin", rng.choice(["+", "*", "-"]), w, ("un", "-", v)))
        elif i % 3 == 1:
            vol.append(("un", "-", ("bin", "+", v, w)))
        else:
            vol.append(("bin", "and", ("un", "not", ("var", "p", "bool")), ("un", "not", ("var", "q", "bool"))))
    fams.append(("unary-volume", vol, True))
    with tempfile.TemporaryDirectory(prefix="nvc07", dir="/var/tmp") as td:
        jobs, texts = [], []
        for fam in fams:
            name, trees, wt = fam[:3]
            for style in ("prefix", "infix"):
                src = gen_expr.program(trees, style, bind=(len(trees) <= 200), spacing=(fam[3] if len(fam) > 3 else "normal"))
                p = os.path.join(td, "%s-%s.nano" % (name, style))
                open(p, "w").write(src)
                jobs.append((tdir, p)); texts.append(src)
        with ThreadPoolExecutor(16) as exr:
            res = list(exr.map(compile_one, jobs))
            runs = list(exr.map(run_one, [j for j, r in zip(jobs, res) if r[0] == "ok"]))
        # model: the three front-end models on the same texts
        mlines = ["compile " + binascii.hexlify(t.encode()).decode() for t in texts]
        mout = common.batch(driver, mlines, timeout=3000)[0]
        # known finding probe
        kf = os.path.join(td, "kf.nano")
        open(kf, "w").write("fn main() -> int {\n    let X: int = 1\n    let y: int = 2\n    let b: bool = X < y\n    (println b)\n    return 0\n}\nshadow main { assert (== 1 1) }\n")
        kf_res = compile_one((tdir, kf))
        open(kf, "w").write("fn main() -> int {\n    let X: int = 1\n    let y: int = 2\n    let b: bool = (< X y)\n    (println b)\n    return 0\n}\nshadow main { assert (== 1 1) }\n")
        kf_ctl = compile_one((tdir, kf))

    run_iter = iter(runs)
    nexpr = 0
    both_rejected = 0
    unsupported = 0
    for k, fam in enumerate(fams):
        name, trees, wt = fam[:3]
        rp, ri = res[2 * k], res[2 * k + 1]
        mp, mi = mout[2 * k], mout[2 * k + 1]
        outp = next(run_iter) if rp[0] == "ok" else None
        outi = next(run_iter) if ri[0] == "ok" else None
        nexpr += len(trees)
        for t in trees:
            ctx.case(gen_expr.prefix(t))
        witness = {"family": name, "prefix_source": texts[2 * k], "infix_source": texts[2 * k + 1]}
        if rp[0] != ri[0]:
            oracle_fail.append(dict(witness, why="one spelling is accepted and the other is not", prefix=rp[0], infix=ri[0], diag=(rp[2] or ri[2])))
            continue
        if rp[0] == "rejected":
            both_rejected += 1
            if wt:
                oracle_fail.append(dict(witness, why="a well-typed expression is rejected in both spellings (generator or front end)", diag=rp[2]))
            for m, tag in ((mp, "prefix"), (mi, "infix")):
                if m.startswith("ok") and False:
                    pass
            continue
        if rp[0] == "timeout":
            oracle_fail.append(dict(witness, why="front end does not finish"))
            continue
        if rp[1] != ri[1]:
            oracle_fail.append(dict(witness, why="the two spellings compile to different bytecode", prefix_nvm=rp[1].hex()[:4000], infix_nvm=ri[1].hex()[:4000]))
            continue
        if outp != outi:
            oracle_fail.append(dict(witness, why="the two spellings behave differently", prefix_run=str(outp)[:300], infix_run=str(outi)[:300]))
            continue
        for m, tag, r in ((mp, "prefix", rp), (mi, "infix", ri)):
            if m.startswith("unsupported") or m.startswith("model-fuel"):
                unsupported += 1
            elif m != "ok " + r[1].hex():
                disagreements.append({"family": name, "spelling": tag, "model": m[:200], "impl": ("ok " + r[1].hex())[:200], "source": texts[2 * k + (0 if tag == "prefix" else 1)]})
    if kf_ctl[0] == "ok" and kf_res[0] != "ok":
        if "F-C07-2" in ctx.findings and ctx.findings["F-C07-2"]["status"] == "known":
            ctx.known("F-C07-2", "an identifier that starts with an upper-case letter directly followed by '<' is read as a generic type in the infix spelling: `X < y` is rejected, `(< X y)` accepted")
        else:
            oracle_fail.append({"why": "`X < y` rejected while `(< X y)` is accepted", "diag": kf_res[2]})
    ctx.cov["expressions"] = nexpr
    ctx.cov["programs_per_spelling"] = len(fams)
    ctx.cov["operator_pairs_both_nestings"] = len(ex)
    ctx.cov["illtyped_pairs_rejected_in_both_spellings"] = both_rejected
    ctx.cov["model_unsupported"] = unsupported
    ctx.cov["disagreements_checked"] = len(disagreements)
    ctx.cov["traces_validated_against_impl"] = 2 * len(fams) - unsupported
    ctx.sample(gen_expr.infix(fams[-3][1][0])[:200] if len(fams) > 3 else "")
    ctx.sample(gen_expr.prefix(good[0])); ctx.sample({"theorems": info.get("theorems", [])})
    ctx.cov["rule"] = ("every ordered pair of the 13 binary operators in both nestings (left / right), random typed trees over 13 binary + 2 unary operators, literals, variables, "
                       "field accesses and calls to depth 6, field access / tuple index on a parenthesised call in every operand position of every operator, runs of 2..400 identical operators, left- and right-nested chains to 300 levels; each written in prefix and infix form, both compiled by nano_virt --emit-nvm: "
                       "files must be byte-identical and run alike; the Lean lexer+parser+codegen models must produce the same file for each spelling; distinct by prefix text")
    for f in oracle_fail[:3]:
        ctx.violation({"kind": "oracle", "detail": f})
    if not oracle_fail:
        if not info["ok"]:
            ctx.violation({"kind": "proof-obligation", "theorem_module": MODULE, "broken": info["broken"], "searched": "%d expressions in both spellings: identical bytecode for all" % nexpr}, no_input=True)
        elif disagreements:
            ctx.violation({"kind": "correspondence", "which": "front-end models (lex, parse, codegen) != nano_virt --emit-nvm", "first": disagreements[:3], "count": len(disagreements)}, no_input=True)
    return ctx.finish(info["obligations"], info["discharged"])
