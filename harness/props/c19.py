"""C19 — compilation is a function of the source: outputs are reproducible."""
import glob
import hashlib
import os
import random
import shutil
import subprocess
import tempfile
from concurrent.futures import ThreadPoolExecutor

from .. import build, common, corpus, gen_prog

MODULE = "NanoVerif.Props.C19"


def configs(tdir, work):
    """(name, cwd-kind, env overrides, wrapper argv prefix, path style)"""
    base = {"LANG": "C"}
    return [
        ("baseline", "tree", {}, [], "abs"),
        ("repeat", "tree", {}, [], "abs"),
        ("relative-path", "src", {}, [], "rel"),
        ("other-cwd", "other", {"NANO_HOME": tdir}, [], "abs"),
        ("tmpdir", "tree", {"TMPDIR": os.path.join(work, "tmp2")}, [], "abs"),
        ("env-noise", "tree", {"FOO_%d" % i: "x" * (i * 37 % 200) for i in range(40)}, [], "abs"),
        ("no-aslr", "tree", {}, ["setarch", "x86_64", "-R"], "abs"),
        ("malloc-perturb-165", "tree", {"MALLOC_PERTURB_": "165"}, [], "abs"),
        ("malloc-perturb-90", "tree", {"MALLOC_PERTURB_": "90", "MALLOC_ARENA_MAX": "1"}, [], "abs"),
        ("malloc-perturb-1", "tree", {"MALLOC_PERTURB_": "1"}, [], "abs"),
        ("malloc-perturb-254", "tree", {"MALLOC_PERTURB_": "254"}, [], "abs"),
        ("different-pid-load", "tree", {"C19_SPIN": "1"}, [], "abs"),
    ]


def one(args):
    tdir, work, name, src_path, tool = args
    res = {}
    for cname, cwdk, envo, prefix, style in configs(tdir, work):
        outd = os.path.join(work, "out", name, cname + "-" + tool)
        os.makedirs(outd, exist_ok=True)
        env = dict(os.environ); env.update(envo)
        if "TMPDIR" in envo:
            os.makedirs(envo["TMPDIR"], exist_ok=True)
        cwd = {"tree": tdir, "src": os.path.dirname(src_path), "other": outd}[cwdk]
        sp = os.path.basename(src_path) if style == "rel" else src_path
        if envo.get("C19_SPIN"):
            for _ in range(7):
                subprocess.run(["true"])
        if tool == "virt":
            outp = os.path.join(outd, "o.nvm")
            cmd = prefix + [os.path.join(tdir, "bin", "nano_virt"), sp, "--emit-nvm", "-o", outp]
            arts = [outp]
        else:
            outp = os.path.join(outd, "o.bin")
            cmd = prefix + [os.path.join(tdir, "bin", "nanoc_c"), sp, "-o", outp, "--keep-c"]
            arts = [outp + ".c"]
        try:
            p = subprocess.run(cmd, cwd=cwd, env=env, stdout=subprocess.PIPE, stderr=subprocess.PIPE, timeout=120)
            rc = p.returncode
            diag = (p.stdout + b"\n--\n" + p.stderr)
        except (subprocess.TimeoutExpired, FileNotFoundError) as e:
            rc, diag = "error:" + type(e).__name__, b""
        # normalise paths and pids in diagnostics
        d = diag.replace(src_path.encode(), b"<SRC>").replace(os.path.basename(src_path).encode(), b"<SRCBASE>").replace(outd.encode(), b"<OUT>")
        d = d.replace(tdir.encode(), b"<TREE>").replace(envo.get("TMPDIR", "/tmp").encode(), b"<TMP>").replace(b"/tmp", b"<TMP>")
        import re
        d = re.sub(rb"nanoc_\d+_", b"nanoc_<PID>_", d)
        # a module is named in a diagnostic by its resolved path, which spells the same file relative to the invocation
        d = re.sub(rb"(?:<TREE>/|\./|\.\./)+modules/", b"<TREE>/modules/", d)
        # headers are padded with dashes to a fixed width around the (normalised) path
        d = re.sub(rb"-{3,}", b"---", d).replace(b"<SRCBASE>", b"<SRC>")
        h = []
        for a in arts:
            h.append(hashlib.sha256(open(a, "rb").read()).hexdigest() if os.path.exists(a) else "missing")
        res[cname] = (rc, h, hashlib.sha256(d).hexdigest(), d[-300:].decode(errors="replace"))
        shutil.rmtree(outd, ignore_errors=True)
    return name, tool, res


def write_project(root, k):
    """A three-file project: main imports lib/geo<k>.nano, which imports its sibling shp<k>.nano; main asks for the
    module introspection strings (path, has_ffi) that the compilers copy into their output."""
    os.makedirs(os.path.join(root, "lib"), exist_ok=True)
    open(os.path.join(root, "main.nano"), "w").write(
        'import "lib/geo%d.nano"\n\nextern fn ___module_path_shp%d() -> string\nextern fn ___module_has_ffi_shp%d() -> bool\n\n'
        'fn where() -> string {\n    return (___module_path_shp%d)\n}\n\n'
        'fn main() -> int {\n    (println (int_to_string (double_area %d 4)))\n    (println (where))\n    (println (___module_has_ffi_shp%d))\n    return 0\n}\n'
        % (k, k, k, k, k + 2, k))
    open(os.path.join(root, "lib", "geo%d.nano" % k), "w").write(
        'import "shp%d.nano"\n\npub fn double_area(w: int, h: int) -> int {\n    return (* 2 (rect_area w h))\n}\n\nshadow double_area {\n    assert (== (double_area 2 3) 12)\n}\n' % k)
    open(os.path.join(root, "lib", "shp%d.nano" % k), "w").write(
        'extern fn shp_blit(%s) -> int\n\n' % ", ".join("a%d: int" % i for i in range(17 + k)) +
        'pub fn rect_area(w: int, h: int) -> int {\n    return (* w h)\n}\n\nshadow rect_area {\n    assert (== (rect_area 2 3) 6)\n}\n')


def relocated(tdir, work, k, tool):
    """Same project, same relative command line, two different directories and three heap fill patterns."""
    res = {}
    for cname, sub, envo in (("place-a", "first/place", {}), ("place-b", "second/somewhere/else", {}),
                             ("place-a-perturb85", "first/place", {"MALLOC_PERTURB_": "85"}), ("place-b-perturb170", "second/somewhere/else", {"MALLOC_PERTURB_": "170"})):
        root = os.path.join(work, "reloc%d-%s" % (k, tool), sub, "proj")
        if not os.path.exists(root):
            write_project(root, k)
        env = dict(os.environ); env.update(envo)
        if tool == "virt":
            cmd = [os.path.join(tdir, "bin", "nano_virt"), "main.nano", "--emit-nvm", "-o", "out.nvm"]; art = "out.nvm"
        else:
            cmd = [os.path.join(tdir, "bin", "nanoc_c"), "main.nano", "-o", "out.bin", "--keep-c"]; art = "out.bin.c"
        env["NANO_HOME"] = tdir
        try:
            p = subprocess.run(cmd, cwd=root, env=env, stdout=subprocess.PIPE, stderr=subprocess.PIPE, timeout=120)
            rc = p.returncode
        except subprocess.TimeoutExpired:
            rc = "timeout"
        a = os.path.join(root, art)
        data = open(a, "rb").read() if os.path.exists(a) else b"missing"
        import re
        data = re.sub(rb"nanoc_\d+_", b"nanoc_<PID>_", data)
        res[cname] = (rc, hashlib.sha256(data).hexdigest())
    return "reloc%d" % k, tool, res


def limit_programs():
    """programs that sit at the compilers' internal table sizes (clause / arm / type counts): entries beyond a table, or the
    unused tail of one, are where uninitialised memory gets into an artifact"""
    out = []
    for n in (63, 64, 65, 70, 130):
        L = ["fn pick(x: int) -> int {", "    return (cond"]
        L += ["        ((== x %d) %d)" % (i, i * 10) for i in range(n)]
        L += ["        (else -1))", "}", "shadow pick { assert (== (pick 3) 30) }",
              "fn main() -> int {\n    (println (pick 3))\n    (println (pick %d))\n    (println (pick 1000))\n    return 0\n}\nshadow main { assert (== 1 1) }" % (n - 1)]
        out.append(("cond%d" % n, "\n".join(L) + "\n"))
    for n in (2, 3, 4, 5, 6, 7, 9, 10):
        # n struct types; the one before the last embeds the last-declared one by value (a forward reference the
        # transpiler has to order), the first embeds the second
        L = []
        for i in range(n):
            if i == n - 2:
                L.append("struct S%d { v: int, inner: S%d }" % (i, n - 1))
            elif i == 0 and n > 2:
                L.append("struct S0 { v: int, nxt: S1 }" if n != 3 else "struct S0 { v: int }")
            else:
                L.append("struct S%d { v: int }" % i)
        L.append("fn main() -> int {\n    let z: S%d = S%d { v: 7 }\n    let w: S%d = S%d { v: 1, inner: z }\n    (println w.inner.v)\n    return 0\n}\nshadow main { assert (== 1 1) }" % (n - 1, n - 1, n - 2, n - 2))
        out.append(("structs%d" % n, "\n".join(L) + "\n"))
    # extern declarations wider than any fixed per-declaration table (declared, need not be called)
    for n in (1, 15, 16, 17, 20, 33, 48, 64, 65, 100, 200):
        out.append(("extern%d" % n, "extern fn blit_%d(%s) -> int\nextern fn tagmix_%d(%s) -> string\nfn main() -> int {\n    (println %d)\n    return 0\n}\nshadow main { assert (== 1 1) }\n"
                    % (n, ", ".join("p%d: int" % i for i in range(n)), n, ", ".join("q%d: %s" % (i, ["int", "string", "bool", "float"][i % 4]) for i in range(n)), n)))
    return out


def run(ctx):
    info = common.prove(ctx, MODULE, [])
    quick = ctx.tier == "quick"
    tdir = build.tree("plain", ("vm", "bin/nanoc_c"), hooks=False)
    rng = ctx.rng
    have_setarch = shutil.which("setarch") is not None
    work = tempfile.mkdtemp(prefix="nvc19", dir="/var/tmp")
    oracle_fail = []
    try:
        srcdir = os.path.join(work, "src"); os.makedirs(srcdir)
        names = []
        for k in range(12 if quick else 150):
            text, flags = gen_prog.gen(random.Random(ctx.seed * 7919 + k))
            p = os.path.join(srcdir, "g%d.nano" % k); open(p, "w").write(text); names.append(("g%d" % k, p))
        for p in sorted(glob.glob(os.path.join(build.VERIF, "corpus", "progs", "*.nano"))):
            q = os.path.join(srcdir, os.path.basename(p)); shutil.copy(p, q); names.append((os.path.basename(p)[:-5], q))
        # multi-module programs and error cases from the repo's own tests
        extra = [s for s in corpus.sources(tdir) if "/tests/test_" in s or "/examples/language/nl_" in s]
        rng.shuffle(extra)
        for s in extra[:(10 if quick else 100)]:
            names.append((os.path.basename(s)[:-5], s))
        bad = os.path.join(srcdir, "bad_type.nano")
        open(bad, "w").write('fn main() -> int {\n    let x: int = "s"\n    return y\n}\nshadow main { assert (== 1 1) }\n')
        names.append(("bad_type", bad))
        lim = []
        for nm, text in limit_programs():
            q = os.path.join(srcdir, nm + ".nano"); open(q, "w").write(text); lim.append((nm, q))
        names += lim
        jobs = [(tdir, work, n, p, "virt") for n, p in names]
        nat = names[:(6 if quick else 60)] + [("bad_type", bad)] + [x for x in lim if quick is False or x[0] in ("cond70", "structs2", "structs6", "structs10", "structs4")]
        jobs += [(tdir, work, n, p, "nanoc") for n, p in nat]
        with ThreadPoolExecutor(8) as ex:
            results = list(ex.map(one, jobs))
            rel = list(ex.map(lambda a: relocated(*a), [(tdir, work, k, t) for k in range(2 if quick else 10) for t in ("virt", "nanoc")]))
    finally:
        shutil.rmtree(work, ignore_errors=True)
    nconf = 0
    for name, tool, res in results:
        if not have_setarch:
            res.pop("no-aslr", None)
        ctx.case(name + ":" + tool)
        b = res["baseline"]
        nconf += len(res)
        for cname, r in res.items():
            ctx.evals += 1
            if r[0] != b[0] or r[1] != b[1]:
                oracle_fail.append({"program": name, "tool": tool, "config": cname, "why": "artifact differs from the baseline configuration",
                                    "baseline": [b[0], b[1]], "this": [r[0], r[1]], "diag": r[3]})
                break
            if r[2] != b[2]:
                oracle_fail.append({"program": name, "tool": tool, "config": cname, "why": "diagnostics differ from the baseline configuration (paths, pids normalised)",
                                    "baseline_diag": b[3], "this_diag": r[3]})
                break
    for name, tool, res in rel:
        ctx.case(name + ":" + tool)
        b = res["place-a"]
        for cname, r in res.items():
            ctx.evals += 1
            if r != b:
                oracle_fail.append({"program": name + " (main.nano + lib/geoN.nano + lib/shpN.nano, see harness/props/c19.py write_project)", "tool": tool, "config": cname,
                                    "why": "same project and relative command line, different directory / heap fill pattern: artifact differs", "baseline": list(b), "this": list(r)})
                break
        if b[0] != 0:
            oracle_fail.append({"program": name, "tool": tool, "why": "relocated project does not compile", "rc": b[0]})
    ctx.cov["relocated_projects"] = len(rel)
    ctx.cov["programs"] = len(results)
    ctx.cov["configurations_per_program"] = len(configs("", "")) - (0 if have_setarch else 1)
    ctx.cov["compilations"] = nconf
    ctx.cov["aslr_toggle_available"] = have_setarch
    ctx.cov["disagreements_checked"] = 0
    ctx.sample({"program": results[0][0], "configs": sorted(results[0][2])}); ctx.sample({"theorems": info.get("theorems", [])})
    ctx.cov["rule"] = ("each program (generated, corpus, repo multi-module tests, one ill-typed) compiled under 10 configurations (cwd, relative/absolute path, TMPDIR, 40 unrelated "
                       "environment variables, ASLR off, MALLOC_PERTURB_, repetition, pid shift): sha256 of the .nvm / generated C and of the path-normalised diagnostics must equal the baseline; "
                       "distinct by program x tool")
    for f in oracle_fail[:3]:
        ctx.violation({"kind": "oracle", "detail": f})
    if not oracle_fail and not info["ok"]:
        ctx.violation({"kind": "proof-obligation", "theorem_module": MODULE, "broken": info["broken"], "searched": "%d compilations: all reproducible" % nconf}, no_input=True)
    return ctx.finish(info["obligations"], info["discharged"])
