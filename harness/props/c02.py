"""C02 — every execution engine implements the defined semantics (reference = Lean `Sem`)."""
import os
import random
import tempfile

from .. import build, common, gen_prog, lang

MODULE = "NanoVerif.Props.C02"


def families(ctx, quick):
    rng = ctx.rng
    fams = []        # (name, text, engines)
    # exhaustive: every binary operator x every ordered pair of boundary values (the property's explicit quantifier)
    vals = lang.BOUNDARY
    pairs = [(a, b) for a in vals for b in vals]
    for op in lang.BINOPS:
        chunk = (pairs if not quick else rng.sample(pairs, 160)) + lang.NEAR_PAIRS
        nz = [(a, b) for a, b in chunk if b != 0] if op in ("/", "%") else chunk
        # division by zero is total on the VM and a documented fault natively: the native run gets the non-zero divisors only
        for k in range(0, len(chunk), 170):
            fams.append(("arith %s #%d" % (op, k), lang.arith_program(op, chunk[k:k + 170]), ("vm",)))
        for k in range(0, len(nz), 170):
            fams.append(("arith-nz %s #%d" % (op, k), lang.arith_program(op, nz[k:k + 170]), ("native",) if not quick or k == 0 else ()))
    fams.append(("unary", lang.unary_program(vals), ("vm", "native")))
    for k in range(1 if quick else 6):
        fams.append(("short-circuit #%d" % k, lang.shortcircuit_program(rng), ("vm", "native")))
        fams.append(("scoping #%d" % k, lang.scoping_program(rng), ("vm", "native")))
        fams.append(("operand-order #%d" % k, lang.operand_order_program(rng), ("vm", "native")))
        fams.append(("guards #%d" % k, lang.guard_program(rng), ("vm", "native")))
        fams.append(("short-circuit-in-functions #%d" % k, lang.shortcircuit_shadowed(rng), ("vm", "native")))
        fams.append(("loop-sequences #%d" % k, lang.two_loops_program(rng), ("vm", "native")))
        fams.append(("struct-order #%d" % k, lang.struct_order_program(rng), ("vm", "native")))
        fams.append(("scoping-in-functions #%d" % k, lang.scoping_shadowed(rng), ("vm", "native")))
    fams.append(("argument-order (F-C02-2)", lang.ARG_ORDER_WITNESS, ("vm", "native")))
    fams.append(("array-alias (F-C02-5)", lang.ALIAS_WITNESS, ("vm", "native")))
    fams.append(("strconv", lang.strconv_program(rng.sample(vals, 8) + [-9223372036854775808, -1000000000000000000]), ("vm", "native")))
    n = 40 if quick else 600
    nn = 8 if quick else 150
    for k in range(n):
        text, flags = gen_prog.gen(random.Random(ctx.seed * 104729 + k), size=1.2)
        fams.append(("generated #%d" % k, text, ("vm", "native") if k < nn else ("vm",)))
    return [f for f in fams if f[2]]


def run(ctx):
    info = common.prove(ctx, MODULE, ["front", "isa", "nvm"])
    quick = ctx.tier == "quick"
    tdir = build.tree("plain", ("vm", "bin/nanoc_c"), hooks=False)
    driver = common.build_driver()
    fams = families(ctx, quick)
    oracle_fail = []
    with tempfile.TemporaryDirectory(prefix="nvc02", dir="/var/tmp") as td:
        paths = []
        for i, (name, text, engines) in enumerate(fams):
            p = os.path.join(td, "p%d.nano" % i)
            open(p, "w").write(text)
            paths.append(p)
        sem_vm = lang.run_sem(driver, "vm", [f[1] for f in fams])
        sem_nat = lang.run_sem(driver, "native", [f[1] for f in fams])
        vm_jobs = [(tdir, p) for p, f in zip(paths, fams) if "vm" in f[2]]
        nat_jobs = [(tdir, p) for p, f in zip(paths, fams) if "native" in f[2]]
        vm_res = dict(zip([j[1] for j in vm_jobs], lang.parallel(lang.run_vm, vm_jobs)))
        nat_res = dict(zip([j[1] for j in nat_jobs], lang.parallel(lang.run_native, nat_jobs)))
    cnt = {"vm_ok": 0, "native_ok": 0, "skipped_by_reference": 0, "native_compile_failed": 0}
    for (name, text, engines), p, sv, sn in zip(fams, paths, sem_vm, sem_nat):
        ctx.case(text)
        for eng, res, sem in (("vm", vm_res.get(p), sv), ("native", nat_res.get(p), sn)):
            if res is None:
                continue
            if res["rc"] == "shadow-failed":
                ctx.count("refused_by_compile_time_shadow_tests")
                continue
            if res["rc"] == "compile-failed":
                cnt["native_compile_failed"] += 1
                oracle_fail.append({"family": name, "engine": eng, "why": "accepted program does not compile natively", "diag": res["err"], "source": text})
                continue
            verdict, why = lang.agrees_with_sem(res, sem)
            ctx.evals += 1
            if verdict == "ok":
                cnt[eng + "_ok"] += 1
            elif verdict == "skip":
                cnt["skipped_by_reference"] += 1
                ctx.count("reference:" + why.split(" ")[0])
            elif name.startswith("argument-order") and eng == "native" and "F-C02-2" in ctx.findings and ctx.findings["F-C02-2"]["status"] == "known" \
                    and sorted(res["out"].split()) == sorted(sem["out"].split()) and res["rc"] == 0:
                ctx.known("F-C02-2", "native back end evaluates call arguments / array literal elements right to left (witness prints %s, reference %s)"
                          % (" ".join(res["out"].decode().split()[:3]), " ".join(sem["out"].decode().split()[:3])))
            elif name.startswith("array-alias") and "F-C02-5" in ctx.findings and ctx.findings["F-C02-5"]["status"] == "known" \
                    and res["rc"] == 0 and res["out"].split() == [b"3", b"3"] and sem["out"].split() == [b"2", b"3"]:
                ctx.known("F-C02-5", "`let mut b = a` aliases the array on the %s engine: after (array_push b 3) the length of a is 3 (definition: 2)" % eng)
            else:
                oracle_fail.append({"family": name, "engine": eng, "why": "engine differs from the reference semantics: " + why,
                                    "engine_stdout_tail": res["out"][-200:].decode(errors="replace"), "reference_stdout_tail": sem["out"][-200:].decode(errors="replace"),
                                    "engine_stderr": res["err"], "source": text})
    ctx.cov.update(cnt)
    ctx.cov["programs"] = len(fams)
    ctx.cov["boundary_values"] = len(lang.BOUNDARY)
    ctx.cov["operator_x_boundary_pairs_per_engine"] = len(lang.BINOPS) * (len(lang.BOUNDARY) ** 2 if not quick else 170)
    ctx.cov["disagreements_checked"] = len(oracle_fail)
    ctx.cov["traces_validated_against_impl"] = cnt["vm_ok"] + cnt["native_ok"]
    ctx.sample(fams[0][1][:300]); ctx.sample(fams[-1][1][:400]); ctx.sample({"theorems": info.get("theorems", [])})
    ctx.cov["rule"] = ("each program is run by nano_virt --run and (a subset) compiled by nanoc and run; stdout bytes and exit status must equal what the Lean reference "
                       "semantics (sem command, vm / native configuration) computes from the same source text; families: 11 binary operators x ordered pairs of 26 boundary "
                       "values, as literals and through a function call; unary operators, abs/min/max; and/or with every shape of left operand and a printing or partial right "
                       "operand; block shadowing, loop variables, continue/break, globals, recursion; int->string at the widest values; type-directed random programs")
    for f in oracle_fail[:3]:
        ctx.violation({"kind": "oracle", "detail": f})
    if not oracle_fail and not info["ok"]:
        ctx.violation({"kind": "proof-obligation", "theorem_module": MODULE, "broken": info["broken"],
                       "searched": "%d programs on both engines: all equal to the reference" % len(fams)}, no_input=True)
    return ctx.finish(info["obligations"], info["discharged"])
