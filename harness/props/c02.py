"""C02 — every execution engine implements the defined semantics (reference = Lean `Sem`)."""
import os
import subprocess
import random
import tempfile

from .. import build, common, gen_prog, lang

MODULE = "NanoVerif.Props.C02"


def families(ctx, quick):
    rng = ctx.rng
    fams = []        # (name, text, engines)
    # exhaustive: every binary operator x every ordered pair of boundary values (the property's explicit quantifier)
    vals = lang.BOUNDARY
    pairs = [(a, b) for a in vals for b in vals]
    for op in lang.BINOPS:
        chunk = (pairs if not quick else rng.sample(pairs, 160)) + lang.NEAR_PAIRS
        nz = [(a, b) for a, b in chunk if b != 0] if op in ("/", "%") else chunk
        # division by zero is total on the VM and a documented fault natively: the native run gets the non-zero divisors only
        for k in range(0, len(chunk), 170):
            fams.append(("arith %s #%d" % (op, k), lang.arith_program(op, chunk[k:k + 170]), ("vm",)))
        for k in range(0, len(nz), 170):
            fams.append(("arith-nz %s #%d" % (op, k), lang.arith_program(op, nz[k:k + 170]), ("native",) if not quick or k == 0 else ()))
    fams.append(("unary", lang.unary_program(vals), ("vm", "native")))
    for k in range(1 if quick else 6):
        fams.append(("short-circuit #%d" % k, lang.shortcircuit_program(rng), ("vm", "native")))
        fams.append(("scoping #%d" % k, lang.scoping_program(rng), ("vm", "native")))
        fams.append(("operand-order #%d" % k, lang.operand_order_program(rng), ("vm", "native")))
        fams.append(("guards #%d" % k, lang.guard_program(rng), ("vm", "native")))
        fams.append(("short-circuit-in-functions #%d" % k, lang.shortcircuit_shadowed(rng), ("vm", "native")))
        fams.append(("loop-sequences #%d" % k, lang.two_loops_program(rng), ("vm", "native")))
        fams.append(("struct-order #%d" % k, lang.struct_order_program(rng), ("vm", "native")))
        fams.append(("scoping-in-functions #%d" % k, lang.scoping_shadowed(rng), ("vm", "native")))
        fams.append(("intern-churn #%d" % k, lang.intern_churn_program(rng), ("vm", "native")))
        fams.append(("order-in-calls #%d" % k, lang.order_in_calls_shadowed(rng), ("vm", "native")))
    fams.append(("argument-order (F-C02-2)", lang.ARG_ORDER_WITNESS, ("vm", "native")))
    fams.append(("array-alias (F-C02-5)", lang.ALIAS_WITNESS, ("vm", "native")))
    fams.append(("strconv", lang.strconv_program(rng.sample(vals, 8) + [-9223372036854775808, -1000000000000000000]), ("vm", "native")))
    n = 40 if quick else 600
    nn = 8 if quick else 150
    for k in range(n):
        text, flags = gen_prog.gen(random.Random(ctx.seed * 104729 + k), size=1.2)
        fams.append(("generated #%d" % k, text, ("vm", "native") if k < nn else ("vm",)))
    return [f for f in fams if f[2]]


# ---- trust report: what `nanoc --trust-report` calls "verified" -------------------------------------------------------------

I64 = 1 << 64


def nc_eval(e, env, core):
    """value of a gen_expr tree; core=True: NanoCore as formal/Semantics.v defines it (unbounded Z, Z.div / Z.modulo, i.e.
    floor semantics, division by zero stuck = None); core=False: the language definition (64-bit wrapping, C truncation)"""
    k = e[0]
    if k == "num":
        return e[1]
    if k == "bool":
        return e[1]
    if k == "var":
        return env[e[1]]
    if k == "un":
        v = nc_eval(e[2], env, core)
        if v is None:
            return None
        return (not v) if e[1] == "not" else wrap(-v, core)
    a = nc_eval(e[2], env, core)
    if a is None:
        return None
    op = e[1]
    if op == "and":
        return nc_eval(e[3], env, core) if a else False
    if op == "or":
        return True if a else nc_eval(e[3], env, core)
    b = nc_eval(e[3], env, core)
    if b is None:
        return None
    if op in ("/", "%"):
        if b == 0:
            return None
        if core:
            return a // b if op == "/" else a % b
        q = abs(a) // abs(b) * (1 if (a >= 0) == (b >= 0) else -1)
        return wrap(q, core) if op == "/" else wrap(a - q * b, core)
    if op in ("+", "-", "*"):
        return wrap({"+": a + b, "-": a - b, "*": a * b}[op], core)
    return {"==": a == b, "!=": a != b, "<": a < b, "<=": a <= b, ">": a > b, ">=": a >= b}[op]


def wrap(v, core):
    if core:
        return v
    v &= I64 - 1
    return v - I64 if v >= I64 >> 1 else v


def trust_program(rng, k):
    """functions over (a, b, c: int, p, q: bool) whose bodies are one expression of the NanoCore operator fragment, plus one
    function of each kind that must NOT be labelled verified; main prints every core function at three argument tuples"""
    from .. import gen_expr
    funcs, L = [], []
    L.append("extern fn labs(x: int) -> int")

    def small(ty, depth):
        e = gen_expr.gen(rng, ty, depth)
        def ok(t):
            if t[0] in ("call", "field", "tidx"):
                return False
            if t[0] == "num" and abs(t[1]) > 1000:
                return False
            return all(ok(x) for x in t[2:] if isinstance(x, tuple)) if t[0] in ("un", "bin") else True
        return e if ok(e) else None
    n = 0
    while n < k:
        ty = rng.choice(["int", "int", "bool"])
        e = small(ty, rng.choice([2, 3, 4]))
        if e is None:
            continue
        nm = "t%d" % n
        L.append("fn %s(a: int, b: int, c: int, n: int, p: bool, q: bool) -> %s {\n    return %s\n}\nshadow %s { assert (== 1 1) }" % (nm, ty, gen_expr.prefix(e), nm))
        funcs.append((nm, ty, e))
        n += 1
    noncore = {
        "uses_float": "fn uses_float(x: float) -> float {\n    return (+ x 1.5)\n}\nshadow uses_float { assert (== 1 1) }",
        "uses_for": "fn uses_for(m: int) -> int {\n    let mut s: int = 0\n    for i in (range 0 m) {\n        set s (+ s i)\n    }\n    return s\n}\nshadow uses_for { assert (== (uses_for 3) 3) }",
        "uses_extern": "fn uses_extern(x: int) -> int {\n    let mut r: int = 0\n    unsafe { set r (labs x) }\n    return r\n}\nshadow uses_extern { assert (== 1 1) }",
        "uses_unsafe": "fn uses_unsafe(x: int) -> int {\n    let mut r: int = x\n    unsafe { set r (+ r 1) }\n    return r\n}\nshadow uses_unsafe { assert (== (uses_unsafe 1) 2) }",
        "uses_float_let": "fn uses_float_let(x: int) -> int {\n    let f: float = 2.5\n    if (> f 1.0) { return x } else { return 0 }\n}\nshadow uses_float_let { assert (== (uses_float_let 4) 4) }",
    }
    L += list(noncore.values())
    tuples = [dict(a=17, b=-5, c=3, n=7, p=True, q=False), dict(a=-7, b=2, c=-3, n=1, p=False, q=True), dict(a=0, b=9, c=1, n=-2, p=True, q=True)]
    body = []
    for nm, ty, e in funcs:
        for t in tuples:
            body.append("    (println (%s %d %d %d %d %s %s))" % (nm, t["a"], t["b"], t["c"], t["n"], "true" if t["p"] else "false", "true" if t["q"] else "false"))
    L.append("fn main() -> int {\n" + "\n".join(body) + "\n    return 0\n}\nshadow main { assert (== 1 1) }")
    return "\n".join(L) + "\n", funcs, list(noncore), tuples


def trust_family(ctx, tdir, td, quick):
    """labels of the trust report against the definition of the NanoCore subset, and the values of 'verified' functions
    against the NanoCore semantics"""
    import re
    fails, known_div = [], None
    rng = ctx.rng
    for k in range(2 if quick else 12):
        text, funcs, noncore, tuples = trust_program(rng, 10 if quick else 25)
        p = os.path.join(td, "trust%d.nano" % k)
        open(p, "w").write(text)
        ctx.case(text)
        r = subprocess.run([os.path.join(tdir, "bin", "nanoc_c"), p, "--trust-report"], cwd=tdir, stdout=subprocess.PIPE, stderr=subprocess.PIPE, timeout=120)
        rep = r.stdout.decode(errors="replace")
        labels = dict(re.findall(r"^\s*(\w+)\(.*?\[\s*(\w+)\s*\]", rep, re.M))
        if not labels:
            fails.append({"why": "nanoc --trust-report prints no labels", "stdout": rep[-300:], "stderr": r.stderr.decode(errors="replace")[-300:], "source": text})
            continue
        for nm in noncore:
            if labels.get(nm) == "verified":
                fails.append({"why": "function %s is outside the NanoCore subset (%s) but the trust report labels it 'verified, proven sound'" % (nm, nm.replace("uses_", "uses ")),
                              "report": rep[-1500:], "source": text})
        v = subprocess.run([os.path.join(tdir, "bin", "nano_virt"), p, "--run"], cwd=tdir, stdout=subprocess.PIPE, stderr=subprocess.PIPE, timeout=60)
        out = v.stdout.decode(errors="replace").split("\n")
        i = 0
        for nm, ty, e in funcs:
            for t in tuples:
                got = out[i] if i < len(out) else None
                i += 1
                if labels.get(nm) != "verified":
                    ctx.count("trust_core_function_not_labelled_verified")
                    continue
                core, lang_v = nc_eval(e, t, True), nc_eval(e, t, False)
                show = lambda x: None if x is None else ("true" if x is True else "false" if x is False else str(x))
                ctx.count("trust_verified_values_compared")
                if lang_v is None:
                    continue          # division by zero somewhere: the engines' behaviour there is the subject of the other families
                if got != show(lang_v):
                    fails.append({"why": "a function labelled verified computes %r on the VM; the language definition gives %s" % (got, show(lang_v)), "function": nm, "args": t, "source": text})
                elif show(core) != show(lang_v):
                    known_div = known_div or (nm, t, show(lang_v), show(core), text)
    return fails, known_div


def run(ctx):
    info = common.prove(ctx, MODULE, ["front", "isa", "nvm"])
    quick = ctx.tier == "quick"
    tdir = build.tree("plain", ("vm", "bin/nanoc_c"), hooks=False)
    driver = common.build_driver()
    fams = families(ctx, quick)
    oracle_fail = []
    with tempfile.TemporaryDirectory(prefix="nvc02", dir="/var/tmp") as td:
        paths = []
        for i, (name, text, engines) in enumerate(fams):
            p = os.path.join(td, "p%d.nano" % i)
            open(p, "w").write(text)
            paths.append(p)
        sem_vm = lang.run_sem(driver, "vm", [f[1] for f in fams])
        sem_nat = lang.run_sem(driver, "native", [f[1] for f in fams])
        vm_jobs = [(tdir, p) for p, f in zip(paths, fams) if "vm" in f[2]]
        nat_jobs = [(tdir, p) for p, f in zip(paths, fams) if "native" in f[2]]
        vm_res = dict(zip([j[1] for j in vm_jobs], lang.parallel(lang.run_vm, vm_jobs)))
        nat_res = dict(zip([j[1] for j in nat_jobs], lang.parallel(lang.run_native, nat_jobs)))
        trust_fails, trust_known = trust_family(ctx, tdir, td, quick)
    cnt = {"vm_ok": 0, "native_ok": 0, "skipped_by_reference": 0, "native_compile_failed": 0}
    for (name, text, engines), p, sv, sn in zip(fams, paths, sem_vm, sem_nat):
        ctx.case(text)
        for eng, res, sem in (("vm", vm_res.get(p), sv), ("native", nat_res.get(p), sn)):
            if res is None:
                continue
            if res["rc"] == "shadow-failed":
                ctx.count("refused_by_compile_time_shadow_tests")
                continue
            if res["rc"] == "compile-failed":
                cnt["native_compile_failed"] += 1
                oracle_fail.append({"family": name, "engine": eng, "why": "accepted program does not compile natively", "diag": res["err"], "source": text})
                continue
            verdict, why = lang.agrees_with_sem(res, sem)
            ctx.evals += 1
            if verdict == "ok":
                cnt[eng + "_ok"] += 1
            elif verdict == "skip":
                cnt["skipped_by_reference"] += 1
                ctx.count("reference:" + why.split(" ")[0])
            elif name.startswith("argument-order") and eng == "native" and "F-C02-2" in ctx.findings and ctx.findings["F-C02-2"]["status"] == "known" \
                    and sorted(res["out"].split()) == sorted(sem["out"].split()) and res["rc"] == 0:
                ctx.known("F-C02-2", "native back end evaluates call arguments / array literal elements right to left (witness prints %s, reference %s)"
                          % (" ".join(res["out"].decode().split()[:3]), " ".join(sem["out"].decode().split()[:3])))
            elif name.startswith("array-alias") and "F-C02-5" in ctx.findings and ctx.findings["F-C02-5"]["status"] == "known" \
                    and res["rc"] == 0 and res["out"].split() == [b"3", b"3"] and sem["out"].split() == [b"2", b"3"]:
                ctx.known("F-C02-5", "`let mut b = a` aliases the array on the %s engine: after (array_push b 3) the length of a is 3 (definition: 2)" % eng)
            else:
                oracle_fail.append({"family": name, "engine": eng, "why": "engine differs from the reference semantics: " + why,
                                    "engine_stdout_tail": res["out"][-200:].decode(errors="replace"), "reference_stdout_tail": sem["out"][-200:].decode(errors="replace"),
                                    "engine_stderr": res["err"], "source": text})
    oracle_fail = [dict(f, family="trust-report") for f in trust_fails] + oracle_fail
    if trust_known:
        nm, t, lv, cv, text = trust_known
        if ctx.findings.get("F-C02-6", {}).get("status") == "known":
            ctx.known("F-C02-6", "a function the trust report labels 'verified' computes %s where formal/Semantics.v (Z.div / Z.modulo, unbounded Z) assigns %s: the engines truncate and wrap, the Coq model floors and does not wrap" % (lv, cv))
        else:
            oracle_fail.insert(0, {"family": "trust-report", "why": "a function labelled verified computes %s, formal/Semantics.v assigns %s" % (lv, cv), "function": nm, "args": t, "source": text})
    ctx.cov.update(cnt)
    ctx.cov["programs"] = len(fams)
    ctx.cov["boundary_values"] = len(lang.BOUNDARY)
    ctx.cov["operator_x_boundary_pairs_per_engine"] = len(lang.BINOPS) * (len(lang.BOUNDARY) ** 2 if not quick else 170)
    ctx.cov["disagreements_checked"] = len(oracle_fail)
    ctx.cov["traces_validated_against_impl"] = cnt["vm_ok"] + cnt["native_ok"]
    ctx.sample(fams[0][1][:300]); ctx.sample(fams[-1][1][:400]); ctx.sample({"theorems": info.get("theorems", [])})
    ctx.cov["rule"] = ("each program is run by nano_virt --run and (a subset) compiled by nanoc and run; stdout bytes and exit status must equal what the Lean reference "
                       "semantics (sem command, vm / native configuration) computes from the same source text; families: 11 binary operators x ordered pairs of 26 boundary "
                       "values, as literals and through a function call; unary operators, abs/min/max; and/or with every shape of left operand and a printing or partial right "
                       "operand; block shadowing, loop variables, continue/break, globals, recursion; int->string at the widest values; type-directed random programs; trust report: functions outside the NanoCore subset (float, for, extern, unsafe) must not be labelled verified, "
                       "values of verified one-expression functions against formal/Semantics.v and the language definition")
    for f in oracle_fail[:3]:
        ctx.violation({"kind": "oracle", "detail": f})
    if not oracle_fail and not info["ok"]:
        ctx.violation({"kind": "proof-obligation", "theorem_module": MODULE, "broken": info["broken"],
                       "searched": "%d programs on both engines: all equal to the reference" % len(fams)}, no_input=True)
    return ctx.finish(info["obligations"], info["discharged"])
