"""C04 — accepted programs never get stuck on any backend."""
import os
import random
import re
import subprocess
import tempfile

from .. import build, common, gen_prog, gen_tc, lang

MODULE = "NanoVerif.Props.C04"

INTERNAL = re.compile(r"type error|Type error|TYPE_ERROR|undefined (variable|function|global)|Undefined|decode|Decode|stack (over|under)flow|Stack|invalid opcode|Invalid opcode|not implemented", re.I)


def nested_fn_program(rng):
    """functions defined inside functions, with scoped locals (loop variables, block lets) in the inner body"""
    k = rng.randint(1, 3)
    inner_body = rng.choice([
        "        let mut s: int = 0\n        for i in (range 0 n) {\n            set s (+ s i)\n        }\n        return s\n",
        "        if (> n 0) {\n            let d: int = (* n 2)\n            return d\n        }\n        return 0\n",
        "        let mut s: int = n\n        while (< s 10) {\n            let step: int = 3\n            set s (+ s step)\n        }\n        return s\n",
    ])
    after = rng.choice(["", "    let tail: int = 1\n    (println tail)\n"])
    return ("fn outer(a: int) -> int {\n    fn helper(n: int) -> int {\n%s    }\n    let r: int = (helper (+ a %d))\n%s    return r\n}\nshadow outer { assert (== 1 1) }\n"
            "fn main() -> int {\n    (println (outer 4))\n    (println (outer 0))\n    return 0\n}\nshadow main { assert (== 1 1) }\n" % (inner_body, k, after))


def tuple_program(rng):
    tys = [("int", "7"), ("string", "\"s\""), ("bool", "true")]
    a = rng.choice(tys); b = rng.choice(tys); c = rng.choice(tys); d = rng.choice([t for t in tys if t != c] or tys)
    return ("fn p1() -> (%s, %s, %s) {\n    return (%s, %s, %s)\n}\nshadow p1 { assert (== 1 1) }\n"
            "fn p2() -> (%s, %s, %s) {\n    return (%s, %s, %s)\n}\nshadow p2 { assert (== 1 1) }\n"
            "fn main() -> int {\n    let x: (%s, %s, %s) = (p1)\n    let y: (%s, %s, %s) = (p2)\n    (println x.0)\n    (println y.0)\n    (println x.2)\n    (println y.2)\n    return 0\n}\nshadow main { assert (== 1 1) }\n"
            % (a[0], b[0], c[0], a[1], b[1], c[1], a[0], b[0], d[0], a[1], b[1], d[1], a[0], b[0], c[0], a[0], b[0], d[0]))


def big_function_program(rng, target):
    """one function whose bytecode is about `target` bytes, built from statements of different encoded sizes"""
    kinds = ["    set h (+ (* h 31) %d)\n", "    set h (- h %d)\n", "    set g (% (+ g h) 1000003)\n", "    if (> h 0) { set g (+ g 1) }\n", "    set h (* (+ h g) %d)\n"]
    L = ["fn mix(x: int) -> int {\n    let mut h: int = x\n    let mut g: int = 7\n"]
    est = 0
    while est < target:
        k = rng.choice(kinds)
        L.append(k % rng.randint(1, 99) if "%d" in k else k)
        est += rng.choice([17, 15, 19, 21])
    L.append("    return (+ h g)\n}\nshadow mix { assert (== 1 1) }\nfn main() -> int {\n    (println (mix 3))\n    return 0\n}\nshadow main { assert (== 1 1) }\n")
    return "".join(L)


def run(ctx):
    info = common.prove(ctx, MODULE, ["front"])
    quick = ctx.tier == "quick"
    tdir = build.tree("plain", ("vm", "bin/nanoc_c"), hooks=False)
    rng = ctx.rng
    oracle_fail = []
    progs = []
    for k in range(25 if quick else 400):
        progs.append(("generated", gen_prog.gen(random.Random(ctx.seed * 86028121 + k), size=1.2)[0]))
    for k in range(3 if quick else 30):
        progs.append(("tc-base", gen_tc.base(rng)[0]))
    for k in range(4 if quick else 30):
        progs.append(("nested-fn", nested_fn_program(rng)))
        progs.append(("tuples", tuple_program(rng)))
        progs.append(("scoping", lang.scoping_program(rng)))
        progs.append(("short-circuit", lang.shortcircuit_program(rng)))
        progs.append(("guards", lang.guard_program(rng)))
        progs.append(("loop-sequences", lang.two_loops_program(rng)))
        progs.append(("struct-order", lang.struct_order_program(rng)))
        progs.append(("bytes", lang.bytes_program(rng)))
        progs.append(("array-builtins", lang.array_ops_program(rng)))
        progs.append(("scoping-in-functions", lang.scoping_shadowed(rng)))
    # constant expressions at the boundary operands (a compiler that folds them must fold them as the language defines them) and
    # recursion close to the documented call-depth limit with large frames
    for op in ("/", "%", "*", "+", "-"):
        progs.append(("constant-arith", lang.arith_program(op, [(a, b) for a, b in lang.NEAR_PAIRS + [(7, -2), (-7, 2), (0, -1), (1, 1)] if not (op in ("/", "%") and b == 0)])))
    for k in range(1 if quick else 6):
        progs.append(("deep-frames", lang.deep_frames_program(rng)))
    # element kinds of arrays in value position (literal of structs; an element access whose value is discarded)
    progs.append(("struct-array-literal", "struct Pt { v: int }\nfn main() -> int {\n    let a: array<Pt> = [Pt { v: 1 }, Pt { v: 2 }]\n    (println (array_length a))\n    return 0\n}\nshadow main { assert (== 1 1) }\n"))
    progs.append(("struct-at-discarded", "struct Pt { v: int }\nfn main() -> int {\n    let mut a: array<Pt> = []\n    set a (array_push a Pt { v: 1 })\n    (at a 0)\n    (println (array_length a))\n    return 0\n}\nshadow main { assert (== 1 1) }\n"))
    for k in range(24 if quick else 200):
        progs.append(("big-function", big_function_program(rng, rng.choice([4096, 4096, 8192]) + rng.randint(-60, 60))))
    with tempfile.TemporaryDirectory(prefix="nvc04", dir="/var/tmp") as td:
        paths = []
        for i, (fam, text) in enumerate(progs):
            p = os.path.join(td, "p%d.nano" % i)
            open(p, "w").write(text)
            paths.append(p)
        # acceptance: the front end as the VM tool runs it
        acc = lang.parallel(lambda p: subprocess.run([os.path.join(tdir, "bin", "nano_virt"), p, "--emit-nvm", "-o", p[:-5] + ".nvm"], stdout=subprocess.PIPE, stderr=subprocess.PIPE, timeout=120), paths)
        vm = lang.parallel(lang.run_vm, [(tdir, p) for p in paths])
        nat_sel = [i for i, (fam, _) in enumerate(progs) if fam != "generated" or i < (10 if quick else 150)]
        if quick:
            nat_sel = [i for i in nat_sel if progs[i][0] != "big-function" or i % 4 == 0]
        nat = dict(zip(nat_sel, lang.parallel(lang.run_native, [(tdir, paths[i]) for i in nat_sel])))
        vmr = {}
        for i, p in enumerate(paths):
            o = p[:-5] + ".nvm"
            if os.path.exists(o):
                r = subprocess.run([os.path.join(tdir, "bin", "nano_vm"), o], stdout=subprocess.PIPE, stderr=subprocess.PIPE, timeout=60)
                vmr[i] = (r.returncode, r.stderr.decode(errors="replace")[-300:])
    cls = {}
    for i, ((fam, text), a, v) in enumerate(zip(progs, acc, vm)):
        ctx.case(text)
        err = a.stderr.decode(errors="replace")
        tc_rejected = a.returncode != 0 and ("type check failed" in err or "parser failed" in err or "lexer failed" in err or "module loading failed" in err)
        if tc_rejected:
            cls["rejected-by-front-end"] = cls.get("rejected-by-front-end", 0) + 1
            if fam != "generated":
                oracle_fail.append({"family": fam, "why": "a program of a well-typed family is rejected by the front end (generator or checker)", "diag": err[-400:], "source": text})
            continue
        if a.returncode != 0:
            oracle_fail.append({"family": fam, "why": "accepted by the type checker but bytecode generation fails", "diag": err[-400:], "source": text})
            continue
        if i in vmr:
            rc, e = vmr[i]
            if "verification failed" in e or "invalid .nvm" in e:
                oracle_fail.append({"family": fam, "why": "generated bytecode is refused by the loader / verifier", "diag": e, "source": text})
                continue
            if rc != 0 and INTERNAL.search(e) and "out of range" not in e and "Assertion" not in e:
                oracle_fail.append({"family": fam, "why": "execution on the VM ends in an internal failure", "diag": e, "source": text})
                continue
            c = "normal" if rc == 0 or not e else ("documented-fault" if ("out of range" in e or "Assertion" in e or "call depth" in e.lower()) else "exit-%d" % rc)
            cls["vm:" + c] = cls.get("vm:" + c, 0) + 1
        n = nat.get(i)
        if n is not None:
            if n["rc"] == "shadow-failed":
                cls["native:refused-by-shadow-tests"] = cls.get("native:refused-by-shadow-tests", 0) + 1
            elif n["rc"] == "compile-failed" and fam == "nested-fn" and "F-C04-7" in ctx.findings and ctx.findings["F-C04-7"]["status"] == "known" and "nl_helper" in n["err"]:
                ctx.known("F-C04-7", ctx.findings["F-C04-7"]["what"][:200])
            elif n["rc"] == "compile-failed" and fam == "struct-array-literal" and ctx.findings.get("F-C04-10", {}).get("status") == "known" and "[]){" in n["err"]:
                ctx.known("F-C04-10", ctx.findings["F-C04-10"]["what"][:200])
            elif n["rc"] == "compile-failed" and fam == "struct-at-discarded" and ctx.findings.get("F-C04-9", {}).get("status") == "known" and "dyn_array_get_struct" in n["err"]:
                ctx.known("F-C04-9", ctx.findings["F-C04-9"]["what"][:200])
            elif n["rc"] == "compile-failed":
                oracle_fail.append({"family": fam, "why": "accepted program does not compile natively (generated C rejected or transpilation failed)", "diag": n["err"], "source": text})
            elif isinstance(n["rc"], int) and n["rc"] < 0 and n["rc"] not in (-6, -8):
                oracle_fail.append({"family": fam, "why": "native execution killed by signal %d" % (-n["rc"]), "diag": n["err"], "source": text})
            else:
                cls["native:ran"] = cls.get("native:ran", 0) + 1
    ctx.cov["programs"] = len(progs)
    ctx.cov["pipeline_classes"] = cls
    ctx.cov["disagreements_checked"] = len(oracle_fail)
    ctx.cov["traces_validated_against_impl"] = len(progs)
    ctx.sample(progs[-1][1][:300]); ctx.sample({"theorems": info.get("theorems", [])})
    ctx.cov["rule"] = ("accepted programs (random typed programs, the C05 base programs, nested functions with scoped locals, tuple types, scoping and short-circuit families, functions "
                       "whose bytecode size sweeps across the 4096 and 8192 byte marks) through both pipelines: bytecode generation must succeed, the verifier must accept, VM execution "
                       "must end normally or in a documented fault (never type error / undefined name / decode / stack error), nanoc must produce a binary (generated C accepted) that runs")
    for f in oracle_fail[:3]:
        ctx.violation({"kind": "oracle", "detail": f})
    if not oracle_fail and not info["ok"]:
        ctx.violation({"kind": "proof-obligation", "theorem_module": MODULE, "broken": info["broken"], "searched": "%d accepted programs: none stuck" % len(progs)}, no_input=True)
    return ctx.finish(info["obligations"], info["discharged"])
