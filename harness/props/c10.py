"""C10 — stored and embedded bytecode modules run exactly like the in-memory module."""
import glob
import os
import subprocess
import tempfile
from concurrent.futures import ThreadPoolExecutor

from .. import build, common, corpus

MODULE = "NanoVerif.Props.C10"


def rand_module_text(rng, big=False):
    ns = rng.choice([0, 1, 2, 5, 70]) if not big else 3
    strs = []
    for i in range(ns):
        n = rng.choice([0, 1, 3, 8, 40])
        strs.append(bytes(rng.randrange(1, 256) for _ in range(n)))
    if ns >= 2 and rng.random() < 0.5:
        strs.append(strs[0])            # a duplicate: nvm_add_string must return the first index
        strs.append(strs[1] + b"x")     # same prefix, different length
    ncode = rng.choice([0, 1, 9, 200, 5000]) if not big else rng.choice([66000, 70000, 140000])
    code = bytes(rng.getrandbits(8) for _ in range(min(ncode, 64))) * (ncode // 64 + 1)
    code = code[:ncode]
    nf = rng.choice([0, 1, 2, 33, 65]) if not big else rng.choice([3, 513])
    W16 = [0, 1, 255, 256, 65535]
    W32 = [0, 1, 65535, 65536, 70000, 0x7FFFFFFF, 0xFFFFFFFF, len(code)]
    fns = ["%d.%d.%d.%d.%d.%d" % (rng.choice(W32), rng.choice(W16), rng.choice(W32), rng.choice(W32), rng.choice(W16), rng.choice(W16))
           for _ in range(nf)]
    if big and nf:
        fns[-1] = "0.0.65536.%d.0.0" % (ncode - 65536)
        fns[0] = "0.0.70000.10.1.0" if ncode > 70010 else fns[0]
    nd = rng.choice([0, 0, 1, 300])
    dbg = ["%d.%d" % (rng.choice(W32), rng.choice(W32)) for _ in range(nd)]
    ni = rng.choice([0, 0, 1, 3, 40])
    imps = []
    for _ in range(ni):
        pc = rng.choice([0, 1, 2, 16, 300])
        pt = "N" if (pc == 0 or rng.random() < 0.3) else bytes(rng.randrange(0, 15) for _ in range(pc)).hex()
        imps.append("%d.%d.%d.%d.%s" % (rng.choice(W32), rng.choice(W32), pc, rng.choice([0, 1, 5, 14, 255]), pt))
    return "f=%d;e=%d;s=%s;c=%s;fn=%s;d=%s;i=%s" % (rng.choice([0, 1, 3, 7, 0xFFFFFFFF]), rng.choice(W32),
                                                     ",".join(common.hexs(x) for x in strs), code.hex(), ",".join(fns), ",".join(dbg), ",".join(imps))


def three_ways(args):
    tdir, src, td, env = args
    virt = os.path.join(tdir, "bin", "nano_virt")
    vm = os.path.join(tdir, "bin", "nano_vm")
    base = os.path.join(td, os.path.basename(src)[:-5])
    res = {}

    def run(cmd, key):
        try:
            p = subprocess.run(cmd, stdout=subprocess.PIPE, stderr=subprocess.PIPE, timeout=60, cwd=tdir, env=env, stdin=subprocess.DEVNULL)
            res[key] = (p.returncode, p.stdout, p.stderr[-300:])
        except subprocess.TimeoutExpired:
            res[key] = ("timeout", b"", b"")
    run([virt, src, "--run"], "run")
    p = subprocess.run([virt, src, "--emit-nvm", "-o", base + ".nvm"], stdout=subprocess.PIPE, stderr=subprocess.PIPE, cwd=tdir, env=env)
    if p.returncode == 0:
        run([vm, base + ".nvm"], "file")
    else:
        res["file"] = ("emit-failed", b"", p.stderr[-300:])
    p = subprocess.run([virt, src, "-o", base + ".bin"], stdout=subprocess.PIPE, stderr=subprocess.PIPE, cwd=tdir, env=env, timeout=300)
    if p.returncode == 0 and os.path.exists(base + ".bin"):
        run([base + ".bin"], "wrapper")
    else:
        res["wrapper"] = ("wrapper-build-failed", b"", p.stderr[-300:])
    return src, res


def run(ctx):
    info = common.prove(ctx, MODULE, ["nvm", "isa"])
    quick = ctx.tier == "quick"
    tdir = build.tree("plain", ("vm",))
    probe = build.probe("isa_probe", tdir, ("isa",))
    driver = common.build_driver()
    rng = ctx.rng
    oracle_fail, disagreements = [], []

    # A1. compiler-produced modules: load (both), re-serialise (both), compare with the file
    files = corpus.nvm_corpus(tdir)
    if quick:
        files = [f for f in files if len(f[1]) < 20000]
        rng.shuffle(files)
        files = files[:150]
    lines = ["nvm.load " + b.hex() for _, b in files]
    ml = common.batch(driver, lines, timeout=3000)[0]
    pl = common.batch_robust(probe, lines)
    ser_lines, ser_meta = [], []
    for (s, b), a, c in zip(files, ml, pl):
        ctx.case("load:" + os.path.basename(s) + str(len(b)))
        if a != c:
            disagreements.append(("nvm.load <%s>" % os.path.basename(s), a[:200], c[:200]))
        if c.startswith("ok "):
            ser_lines.append("nvm.ser " + c[3:]); ser_meta.append((s, b))
    ms = common.batch(driver, ser_lines, timeout=3000)[0]
    ps = common.batch_robust(probe, ser_lines)
    for (s, b), a, c in zip(ser_meta, ms, ps):
        ctx.case("ser:" + os.path.basename(s) + str(len(b)))
        if a != c:
            disagreements.append(("nvm.ser <%s>" % os.path.basename(s), a[:120], c[:120]))
        if c != "ok " + b.hex():
            oracle_fail.append({"file": s, "why": "serialize(deserialize(file)) != file (not idempotent)", "impl": c[:200], "file_hex": b.hex()[:400]})
    ctx.cov["compiler_modules"] = len(ser_meta)

    # A2. directly built modules: serialise (both), load the implementation's bytes (both), compare field-wise
    n_direct = 300 if quick else 5000
    texts = [rand_module_text(rng) for _ in range(n_direct)] + [rand_module_text(rng, big=True) for _ in range(4 if quick else 40)]
    texts += ["f=0;e=0;s=;c=;fn=;d=;i=", "f=1;e=0;s=6d61696e;c=053d;fn=0.0.0.2.0.0;d=;i="]
    lines = ["nvm.ser " + t for t in texts]
    ms = common.batch(driver, lines, timeout=3000)[0]
    ps = common.batch_robust(probe, lines)
    load_lines, load_meta = [], []
    for t, a, c in zip(texts, ms, ps):
        ctx.case("direct:" + t[:200] + str(len(t)))
        if a != c:
            disagreements.append(("nvm.ser " + t[:150], a[:150], c[:150]))
        if c.startswith("ok "):
            load_lines.append("nvm.load " + c[3:]); load_meta.append((t, c[3:]))
    ml = common.batch(driver, load_lines, timeout=3000)[0]
    pl = common.batch_robust(probe, load_lines)
    reser = []
    for (t, hx), a, c in zip(load_meta, ml, pl):
        ctx.case("reload:" + hx[-64:] + str(len(hx)))
        if a != c:
            disagreements.append(("nvm.load(ser %s)" % t[:100], a[:200], c[:200]))
        if not c.startswith("ok "):
            oracle_fail.append({"module": t[:400], "why": "a module written by nvm_serialize does not load", "impl": c[:100]})
            continue
        reser.append(("nvm.ser " + c[3:], hx, t))
        # field-wise: what came back must be the module that was written (strings de-duplicated in insertion order,
        # absent parameter tables as zeros, everything else identical)
        want = canon_text(t)
        if c[3:] != want:
            oracle_fail.append({"module": t[:400], "why": "deserialize(serialize(m)) != m field by field", "impl": c[3:][:400], "expected": want[:400]})
    ps2 = common.batch_robust(probe, [x[0] for x in reser])
    for (l, hx, t), c in zip(reser, ps2):
        ctx.case("idem:" + hx[-64:])
        if c != "ok " + hx:
            oracle_fail.append({"module": t[:400], "why": "serialize is not idempotent on a reloaded module", "impl": c[:200]})
    ctx.cov["direct_modules"] = len(texts)

    # B. the three ways to run a program
    progs = sorted(glob.glob(os.path.join(build.VERIF, "corpus", "progs", "*.nano")))
    extra = [s for s, _ in corpus.nvm_corpus(tdir) if "/examples/language/nl_" in s or "/tests/test_" in s]
    # argv[0] is the path of whatever was started: a program that prints its arguments has a different input in each of the three runs
    extra = [s for s in extra if "get_argv" not in open(s, errors="replace").read()]
    rng.shuffle(extra)
    progs += extra[:(8 if quick else 120)]
    env = dict(os.environ)
    env.pop("NANO_CC", None)
    # the wrapper is compiled by nano_virt itself without the verification define, and the hooks add fields to
    # VmState: run the three executables from a build of the same sources with the guard off
    shipped = build.tree("plain", ("vm",), hooks=False)
    with tempfile.TemporaryDirectory(prefix="nvc10", dir="/var/tmp") as td:
        with ThreadPoolExecutor(16) as ex:
            results = list(ex.map(three_ways, [(shipped, p, td, env) for p in progs]))
    nexec = 0
    for src, r in results:
        ctx.case("run3:" + src)
        nexec += 1
        a = r["run"]
        for k in ("file", "wrapper"):
            b = r[k]
            if (a[0], a[1]) != (b[0], b[1]):
                oracle_fail.append({"program": src, "why": "%s differs from nano_virt --run" % ("nano_vm file" if k == "file" else "native wrapper"),
                                    "run": [a[0], a[1][:200].decode(errors="replace")],
                                    k: [b[0], b[1][:200].decode(errors="replace"), b[2].decode(errors="replace")]})
    ctx.cov["programs_run_three_ways"] = nexec
    ctx.cov["exit_statuses_seen"] = sorted({str(r["run"][0]) for _, r in results})
    ctx.sample({"direct_module": texts[0][:200]})
    ctx.sample({"program": os.path.basename(progs[0])})
    ctx.sample({"theorems": info.get("theorems", [])})
    ctx.cov["disagreements_checked"] = len(disagreements)
    ctx.cov["traces_validated_against_impl"] = len(files) + len(texts) * 2
    ctx.cov["rule"] = ("compiler-produced modules (load, re-serialise, compare bytes) + directly built modules with boundary field values, empty sections, duplicate strings, "
                       "0..40 imports with/without parameter tables, >64 KiB code, 513 functions: model bytes == nvm_serialize bytes, reload field-wise == original, re-serialise identical; "
                       "programs run with nano_virt --run / nano_vm file / native wrapper: stdout and exit status compared; distinct by hash of module text or program path")

    for f in oracle_fail[:3]:
        ctx.violation({"kind": "oracle", "detail": f})
    if not oracle_fail:
        if not info["ok"]:
            ctx.violation({"kind": "proof-obligation", "theorem_module": MODULE, "broken": info["broken"],
                           "searched": "%d compiler modules, %d direct modules, %d programs three ways: oracle true on all" % (len(ser_meta), len(texts), nexec)}, no_input=True)
        elif disagreements:
            ctx.violation({"kind": "correspondence", "which": "nvm.ser / nvm.load model != implementation",
                           "first": [list(x) for x in disagreements[:5]], "count": len(disagreements)}, no_input=True)
    return ctx.finish(info["obligations"], info["discharged"])


def canon_text(t):
    """what a module text must look like after serialize+deserialize (the property's field-by-field comparison)"""
    f = dict(x.split("=", 1) for x in t.split(";"))
    strs, seen = [], set()
    for s in [x for x in f["s"].split(",") if x]:
        if s not in seen:
            seen.add(s); strs.append(s)
    imps = []
    for it in [x for x in f["i"].split(",") if x]:
        a, b, pc, rt, pt = it.split(".")
        pc = int(pc) % 65536
        if pc == 0:
            pt = "N"
        elif pt == "N":
            pt = "00" * pc
        imps.append("%s.%s.%d.%d.%s" % (a, b, pc, int(rt) % 256, pt))
    code = f["c"] if f["c"] else "-"
    return "f=%s;e=%s;s=%s;c=%s;fn=%s;d=%s;i=%s" % (f["f"], f["e"], ",".join(strs), code, f["fn"], f["d"], ",".join(imps))
