"""C20 — native programs and their C runtime are memory-safe; containers behave as sequences."""
import os
import random
import stat
import subprocess
import tempfile
from concurrent.futures import ThreadPoolExecutor

from .. import build, common, gen_prog

MODULE = "NanoVerif.Props.C20"


def dyn_history(rng, n):
    """a history whose preconditions hold (tracked on a plain Python list), with the expected results"""
    ops, exp, lst, cap = [], [], [], 8
    for _ in range(n):
        c = rng.random()
        if c < 0.35 or not lst:
            v = rng.choice([0, 1, -1, 7, 2**63 - 1, -2**63, rng.randint(-1000, 1000)])
            ops.append("push:%d" % v); exp.append("-")
            if len(lst) >= cap:
                cap *= 2
            lst.append(v)
        elif c < 0.45:
            ops.append("pop"); exp.append(str(lst.pop()))
        elif c < 0.6:
            i = rng.randrange(len(lst)); ops.append("get:%d" % i); exp.append(str(lst[i]))
        elif c < 0.7:
            i = rng.randrange(len(lst)); v = rng.randint(-99, 99); ops.append("set:%d:%d" % (i, v)); exp.append("-"); lst[i] = v
        elif c < 0.8:
            i = rng.choice([0, len(lst) - 1, rng.randrange(len(lst))]); ops.append("rm:%d" % i); exp.append("-"); del lst[i]
        elif c < 0.83:
            ops.append("clear"); exp.append("-"); lst = []
        elif c < 0.88:
            n2 = rng.choice([0, 1, cap, cap + 1, 3 * cap, 100]); ops.append("reserve:%d" % n2); exp.append("-"); cap = max(cap, n2)
        elif c < 0.92:
            ops.append("clone"); exp.append("-"); cap = max(8, len(lst))
        elif c < 0.96:
            ops.append("len"); exp.append(str(len(lst)))
        else:
            ops.append("cap"); exp.append(str(cap))
    if rng.random() < 0.3 and not lst:
        ops.append("pop"); exp.append("E")
    ops.append("len"); exp.append(str(len(lst)))
    for i, v in enumerate(lst[:12]):
        ops.append("get:%d" % i); exp.append(str(v))
    return ",".join(ops), ",".join(exp)


def gc_history(rng, n):
    ops, rc = [], []
    for _ in range(n):
        c = rng.random()
        if c < 0.35 or not rc:
            ops.append("alloc"); rc.append(1)
        elif c < 0.55:
            k = rng.randrange(len(rc)); ops.append("retain:%d" % k)
            if rc[k] > 0:
                rc[k] += 1
        elif c < 0.9:
            k = rng.randrange(len(rc)); ops.append("release:%d" % k)
            if rc[k] > 0:
                rc[k] -= 1
        else:
            ops.append("stats")
    ops.append("stats")
    exp_final = "n=%d:%s" % (sum(1 for x in rc if x > 0), "".join("1" if x > 0 else "0" for x in rc))
    return ",".join(ops), exp_final


BOUNDARY_INTS = [0, 1, -1, 9, 10, -10, 255, 256, 65535, 2147483647, -2147483648, 4294967296, 999999999999999999, 1000000000000000000,
                 -999999999999999999, -1000000000000000000, 9223372036854775807, -9223372036854775807]


def nano_int(v):
    return str(v) if v >= 0 else "(- 0 %d)" % (-v)


def stdlib_edge_programs(rng, n):
    """Generated-runtime helpers (src/stdlib_runtime.c is emitted into every native program) at boundary arguments:
    widest integers through every int->string path, string slicing at and just inside the ends, array helpers on full
    capacity arrays.  Every call is within its documented precondition."""
    out = []
    for _ in range(n):
        vals = rng.sample(BOUNDARY_INTS, 6) + [-9223372036854775807 - 1]
        body = []
        for i, v in enumerate(vals):
            e = nano_int(v) if v != -9223372036854775807 - 1 else "(- (- 0 9223372036854775807) 1)"
            body.append("    let v%d: int = %s" % (i, e))
            body.append("    let s%d: string = (int_to_string v%d)" % (i, i))
            body.append("    (println s%d)" % i)
            body.append("    (println (str_length s%d))" % i)
            body.append("    (println (+ (+ \"<\" (int_to_string v%d)) \">\"))" % i)
            body.append("    (println (str_substring s%d 0 (str_length s%d)))" % (i, i))
            body.append("    (println (str_substring s%d (- (str_length s%d) 1) 1))" % (i, i))
            body.append("    (println (str_contains s%d \"9\"))" % i)
        ncap = rng.choice([4, 8, 16, 32])
        body.append("    let mut a: array<int> = []")
        body.append("    for i in (range 0 %d) {\n        set a (array_push a (* i i))\n    }" % ncap)
        body.append("    set a (array_remove_at a %d)" % rng.randrange(ncap - 1))
        body.append("    (println (array_length a))")
        body.append("    (println (at a (- (array_length a) 1)))")
        body.append("    let b: array<int> = (array_slice a 0 (array_length a))")
        body.append("    (println (array_length b))")
        body.append("    let mut t: string = \"\"")
        body.append("    for i in (range 0 %d) {\n        set t (+ t (int_to_string (- 0 i)))\n    }" % rng.choice([3, 17, 64]))
        body.append("    (println (str_length t))")
        out.append("fn main() -> int {\n" + "\n".join(body) + "\n    return 0\n}\nshadow main { assert (== 1 1) }\n")
    return out


def list_history(rng, n):
    """history over the generated list type List<int>, preconditions tracked on a Python list; the lengths visit the capacity
    boundaries (8, 16, 32, ... and a chosen initial capacity) so that inserts and pushes meet a full list"""
    ops, exp, lst = [], [], []
    if rng.random() < 0.5:
        c = rng.choice([1, 2, 3, 4, 8, 16])
        ops.append("new:%d" % c); exp.append("-")
    fill = rng.choice([0, 3, 7, 8, 9, 15, 16, 17, 31, 32, 33, 64])
    for k in range(fill):
        ops.append("push:%d" % k); exp.append("-"); lst.append(k)
    for _ in range(n):
        c = rng.random()
        if c < 0.2 or not lst:
            v = rng.choice([0, -1, 2**63 - 1, -2**63, rng.randint(-999, 999)])
            ops.append("push:%d" % v); exp.append("-"); lst.append(v)
        elif c < 0.45:
            i = rng.choice([0, len(lst), len(lst) // 2, rng.randrange(len(lst) + 1)]); v = rng.randint(-99, 99)
            ops.append("ins:%d:%d" % (i, v)); exp.append("-"); lst.insert(i, v)
        elif c < 0.6:
            i = rng.choice([0, len(lst) - 1, rng.randrange(len(lst))]); ops.append("rm:%d" % i); exp.append(str(lst.pop(i)))
        elif c < 0.68:
            ops.append("pop"); exp.append(str(lst.pop()))
        elif c < 0.8:
            i = rng.randrange(len(lst)); ops.append("get:%d" % i); exp.append(str(lst[i]))
        elif c < 0.9:
            i = rng.randrange(len(lst)); v = rng.randint(-99, 99); ops.append("set:%d:%d" % (i, v)); exp.append("-"); lst[i] = v
        elif c < 0.93:
            ops.append("clear"); exp.append("-"); lst = []
        else:
            ops.append("len"); exp.append(str(len(lst)))
    for i in range(len(lst)):
        if i in (0, len(lst) - 1) or rng.random() < 0.2:
            ops.append("get:%d" % i); exp.append(str(lst[i]))
    return ",".join(ops), ",".join(exp)


def san_run(args):
    tdir, td, k, src, cc = args
    p = os.path.join(td, "s%d.nano" % k)
    exe = os.path.join(td, "s%d.bin" % k)
    open(p, "w").write(src)
    env = dict(os.environ, NANO_CC=cc, ASAN_OPTIONS="detect_leaks=0", NANO_GC_THRESHOLD_MB="1")
    try:
        c = subprocess.run([os.path.join(tdir, "bin", "nanoc_c"), p, "-o", exe], cwd=tdir, env=env, stdout=subprocess.PIPE, stderr=subprocess.PIPE, timeout=300)
    except subprocess.TimeoutExpired:
        return ("compile-timeout", "", "")
    if c.returncode != 0 or not os.path.exists(exe):
        return ("compile-failed", "", c.stderr.decode(errors="replace")[-600:])
    renv = dict(os.environ, ASAN_OPTIONS="detect_leaks=0:abort_on_error=0", UBSAN_OPTIONS="halt_on_error=1:print_stacktrace=0", NANO_GC_THRESHOLD_MB="1")
    try:
        r = subprocess.run([exe], stdout=subprocess.PIPE, stderr=subprocess.PIPE, timeout=60, env=renv)
    except subprocess.TimeoutExpired:
        # a slow run on a loaded machine is not a finding: once more with ten times the budget before it is reported as not finishing
        try:
            r = subprocess.run([exe], stdout=subprocess.PIPE, stderr=subprocess.PIPE, timeout=600, env=renv)
        except subprocess.TimeoutExpired:
            return ("run-timeout", "", "")
    err = r.stderr.decode(errors="replace")
    hit = [l for l in err.splitlines() if "AddressSanitizer" in l or "runtime error:" in l or "LeakSanitizer" in l]
    return (r.returncode, r.stdout.decode(errors="replace")[-200:], "\n".join(hit[:3]) + "\n" + err[:1200])


def run(ctx):
    info = common.prove(ctx, MODULE, [])
    quick = ctx.tier == "quick"
    tdir = build.tree("asan", ("vm", "bin/nanoc_c"))
    probe = build.probe("rt_probe", tdir, ("common",), "asan")
    driver = common.build_driver()
    env = dict(os.environ, ASAN_OPTIONS="detect_leaks=0")
    rng = ctx.rng
    oracle_fail, disagreements = [], []

    # A. operation histories: runtime (ASan+UBSan) vs Lean model vs abstract list
    hist = [dyn_history(rng, rng.choice([5, 20, 60, 200])) for _ in range(300 if quick else 5000)]
    lines = ["dyn " + h[0] for h in hist]
    md = common.batch(driver, lines, timeout=3000)[0]
    pd = common.batch_robust(probe, lines, timeout=3000, env=env)
    for (ops, exp), a, c in zip(hist, md, pd):
        ctx.case("dyn:" + ops[:300] + str(len(ops)))
        if a != c:
            disagreements.append(("dyn " + ops[:200], a[:200], c[:200]))
        if c != exp:
            oracle_fail.append({"history": ops[:1500], "impl": c[:600], "expected(abstract list)": exp[:600], "why": "DynArray does not behave like the abstract sequence (or sanitizer report)"})
    gh = [gc_history(rng, rng.choice([5, 30, 120])) for _ in range(200 if quick else 3000)]
    lines = ["gc " + h[0] for h in gh]
    mg = common.batch(driver, lines, timeout=3000)[0]
    pg = common.batch_robust(probe, lines, timeout=3000, env=env)
    for (ops, exp), a, c in zip(gh, mg, pg):
        ctx.case("gc:" + ops[:300] + str(len(ops)))
        if a != c:
            disagreements.append(("gc " + ops[:200], a[-120:], c[-120:]))
        if c.split(",")[-1] != exp:
            oracle_fail.append({"history": ops[:1500], "impl": c[-300:], "expected": exp, "why": "GC bookkeeping (num_objects / managed set) disagrees with the reference counts"})
    # generated list type List<int> (no Lean model: implementation under sanitizers vs the abstract list)
    lh = [list_history(rng, rng.choice([5, 20, 60])) for _ in range(200 if quick else 3000)]
    pl = common.batch_robust(probe, ["list " + h[0] for h in lh], timeout=3000, env=env)
    for (ops, exp), c in zip(lh, pl):
        ctx.case("list:" + ops[:300] + str(len(ops)))
        if c != exp:
            oracle_fail.append({"history": ops[:1500], "impl": c[:600], "expected(abstract list)": exp[:600], "why": "List<int> does not behave like the abstract sequence (or sanitizer report)"})
    ctx.cov["list_int_histories"] = len(lh)
    ctx.cov["dyn_histories"] = len(hist)
    ctx.cov["gc_histories"] = len(gh)

    # B. search (not proof): generated programs built with a sanitizing C compiler
    nprog = 10 if quick else 150
    srcs = []
    for k in range(nprog):
        text, flags = gen_prog.gen(random.Random(ctx.seed * 31337 + k), size=1.5)
        srcs.append(text)
    srcs.append("fn main() -> int {\n    let a: int = 9223372036854775807\n    let b: int = (+ a 1)\n    (println b)\n    (println (* a 3))\n    (println (- (- 0 a) 2))\n    return 0\n}\nshadow main { assert (== 1 1) }\n")
    srcs += stdlib_edge_programs(rng, 2 if quick else 12)
    # minimised past findings (corpus/native): run first in every tier; the GC ones with a 1 MB collection threshold
    import glob as _glob
    for f in sorted(_glob.glob(os.path.join(build.VERIF, "corpus", "native", "*.nano"))):
        srcs.append(open(f).read())
    # strings larger than any fixed-size assumption in the runtime (1 MiB, 2 MiB, just around them), as left and right operand.
    # Not beyond 2 MiB: the native runtime bounds every string scan to 1 MiB on purpose (strnlen(s, 1024*1024) in nl_str_concat and
    # friends), so the doubling loop below cannot pass 2 MiB natively and would never end - a limit of the runtime, not a memory error.
    for tgt in ([1048576, 2097152] if quick else [65536, 1048575, 1048576, 1048577, 2097152]):
        srcs.append("fn main() -> int {\n    let mut s: string = \"x\"\n    while (< (str_length s) %d) {\n        set s (+ s s)\n    }\n    let a: string = (+ \"#\" s)\n    let b: string = (+ s \"#\")\n"
                    "    let c: string = (str_concat a b)\n    (println (str_length a))\n    (println (str_length b))\n    (println (str_length c))\n    (println (str_substring c (- (str_length c) 3) 3))\n"
                    "    (println (str_contains b \"#\"))\n    (println (== a b))\n    return 0\n}\nshadow main { assert (== 1 1) }\n" % tgt)
    # binary strings: every byte-level slice of texts with 1-, 2-, 3- and 4-byte characters, then the UTF-8 views of the slice
    # (a cut inside a character makes the slice invalid; length and char_at must then refuse, not read past the buffer)
    for text in (["price: \u00e9 \u20ac5", "\U0001f600a\u4e2d"] if quick else ["price: \u00e9 \u20ac5", "\U0001f600a\u4e2d", "\u00e9\u00e9", "a\u20ac", "\U0001f600", "ascii only", "\u4e2d\u6587\U0001f4a9!"]):
        srcs.append("fn probe(text: bstring, start: int, len: int) -> int {\n    let head: bstring = (bstr_substring text start len)\n    let n: int = (bstr_utf8_length head)\n    let mut acc: int = (bstr_length head)\n    let mut i: int = 0\n"
                    "    while (< i n) {\n        set acc (+ acc (bstr_utf8_char_at head i))\n        set i (+ i 1)\n    }\n    if (bstr_validate_utf8 head) {\n        set acc (+ acc 1000000)\n    } else {\n        set acc (+ acc (bstr_utf8_char_at head 0))\n    }\n"
                    "    let both: bstring = (bstr_concat head head)\n    set acc (+ acc (bstr_length both))\n    if (> (bstr_length both) 0) {\n        set acc (+ acc (bstr_byte_at both (- (bstr_length both) 1)))\n    } else {\n        set acc acc\n    }\n"
                    "    (bstr_free both)\n    (bstr_free head)\n    return acc\n}\nshadow probe { assert true }\n"
                    "fn main() -> int {\n    let text: bstring = (bstr_new \"%s\")\n    if (bstr_validate_utf8 text) {\n        (println \"source validated\")\n    } else {\n        (println \"source not UTF-8\")\n    }\n    let total: int = (bstr_length text)\n    let mut start: int = 0\n    while (<= start total) {\n        let mut len: int = 0\n"
                    "        while (<= (+ start len) total) {\n            (println (probe text start len))\n            set len (+ len 1)\n        }\n        set start (+ start 1)\n    }\n    (bstr_free text)\n    return 0\n}\nshadow main { assert true }\n" % text)
        srcs.append(srcs[-1].replace("    if (bstr_validate_utf8 text) {\n        (println \"source validated\")\n    } else {\n        (println \"source not UTF-8\")\n    }\n", ""))
    # every arithmetic operator at the boundary pairs (operands arrive as function parameters, so the C compiler cannot fold them)
    from .. import lang
    bpairs = [(a, b) for a in lang.BOUNDARY for b in lang.BOUNDARY]
    for op in ("+", "-", "*", "/", "%"):
        ch = [(a, b) for a, b in rng.sample(bpairs, 40 if quick else 400) + lang.NEAR_PAIRS if not (op in ("/", "%") and b == 0)]
        srcs.append(lang.arith_program(op, ch))
    with tempfile.TemporaryDirectory(prefix="nvc20", dir="/var/tmp") as td:
        cc = os.path.join(td, "sancc")
        open(cc, "w").write("#!/bin/sh\nexec clang-14 -fsanitize=address,undefined -fno-sanitize-recover=undefined -fno-omit-frame-pointer -Wno-error \"$@\"\n")
        os.chmod(cc, os.stat(cc).st_mode | stat.S_IEXEC)
        with ThreadPoolExecutor(16) as ex:
            res = list(ex.map(san_run, [(tdir, td, k, s, cc) for k, s in enumerate(srcs)]))
    clean = 0
    for src, (rc, out, err) in zip(srcs, res):
        ctx.case("san:" + src)
        if rc == "compile-failed":
            ctx.count("sanitizer_build_failed")
            continue
        if rc == -6 and "AddressSanitizer" not in err and "runtime error:" not in err and "DynArray: Index out of bounds" in err:
            # the runtime's own bounds check stopped the program: a defined fault of a partial operation, outside the property's runs
            ctx.count("ended_in_defined_bounds_fault")
            continue
        if "AddressSanitizer" in err or "runtime error:" in err or (isinstance(rc, int) and rc < 0) or rc in ("run-timeout",):
            oracle_fail.append({"why": "sanitizer report / crash in a natively compiled accepted program", "exit": rc, "stderr": err[-800:], "source": src})
        else:
            clean += 1
    ctx.cov["sanitized_programs_clean"] = clean
    ctx.cov["sanitized_programs"] = len(srcs)
    ctx.cov["disagreements_checked"] = len(disagreements)
    ctx.cov["traces_validated_against_impl"] = len(hist) + len(gh)
    ctx.sample(hist[0][0][:300]); ctx.sample(gh[0][0][:200]); ctx.sample({"theorems": info.get("theorems", [])})
    ctx.cov["rule"] = ("operation histories (push/pop/get/set/remove/clear/reserve/clone with valid preconditions; alloc/retain/release) replayed on the real runtime built with "
                       "ASan+UBSan, on the Lean model and on an abstract Python list; generated programs built with NANO_CC = clang -fsanitize=address,undefined and run (search); distinct by history / source text")
    for f in oracle_fail[:3]:
        ctx.violation({"kind": "oracle", "detail": f})
    if not oracle_fail:
        if not info["ok"]:
            ctx.violation({"kind": "proof-obligation", "theorem_module": MODULE, "broken": info["broken"], "searched": "%d histories, %d sanitized programs: oracle true on all" % (len(hist) + len(gh), len(srcs))}, no_input=True)
        elif disagreements:
            ctx.violation({"kind": "correspondence", "which": "dyn / gc model != runtime", "first": [list(x) for x in disagreements[:4]], "count": len(disagreements)}, no_input=True)
    return ctx.finish(info["obligations"], info["discharged"])
