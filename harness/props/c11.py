"""C11 — instruction encoding and the textual assembly form are exact inverses."""
import os
from .. import build, common, corpus

MODULE = "NanoVerif.Props.C11"
PATTERNS64 = [0, 1, 0x7F, 0x80, 0xFF, 0x7FFF, 0x8000, 0xFFFF, 0x7FFFFFFF, 0x80000000, 0xFFFFFFFF,
              0x7FFFFFFFFFFFFFFF, 0x8000000000000000, 0xFFFFFFFFFFFFFFFF,
              0x7FF8000000000001, 0x7FF0000000000000, 0xFFF0000000000000, 0x8000000000000000, 0x7FF4000000000000,
              0x0123456789ABCDEF]


def patterns_for(sz):
    m = (1 << (8 * sz)) - 1
    return sorted(set(p & m for p in PATTERNS64))


def run(ctx):
    info = common.prove(ctx, MODULE, ["isa"])
    tdir = build.tree("plain", ("vm",))
    flav = "asan" if ctx.tier == "thorough" else "plain"
    if flav == "asan":
        tdir = build.tree("asan", ("vm",))
    probe = build.probe("isa_probe", tdir, ("isa",), flav)
    driver = common.build_driver()
    env = dict(os.environ, ASAN_OPTIONS="detect_leaks=0")

    # table as the implementation sees it
    lines = ["isa.info %d" % b for b in range(256)]
    m_info = common.batch(driver, lines)[0]
    p_info = common.batch_robust(probe, lines, env=env)
    table = {}
    disagreements = []
    for b in range(256):
        if m_info[b] != p_info[b]:
            disagreements.append(("isa.info %d" % b, m_info[b], p_info[b]))
        if p_info[b] != "none" and not p_info[b].startswith("CRASH"):
            w = p_info[b].split()
            table[b] = [int(x) for x in w[2:]]
    ctx.cov["defined_opcodes"] = len(table)
    ctx.cov["undefined_opcodes"] = 256 - len(table)

    # ---- generate instructions ------------------------------------------------------
    instrs = []  # (opcode, [vals])
    rng = ctx.rng
    for b, sizes in sorted(table.items()):
        if not sizes:
            instrs.append((b, []))
            continue
        for j, sz in enumerate(sizes):
            for p in patterns_for(sz):
                vals = [(0x0123456789ABCDEF >> (3 * k)) & ((1 << (8 * s)) - 1) for k, s in enumerate(sizes)]
                vals[j] = p
                instrs.append((b, vals))
        nrand = 40 if ctx.tier == "quick" else 4000
        for _ in range(nrand):
            instrs.append((b, [rng.getrandbits(8 * s) for s in sizes]))
    ctx.cov["instructions"] = len(instrs)

    # phase 1: encode on both sides (full buffer and boundary buffer sizes)
    enc_lines = []
    for (b, vals) in instrs:
        enc_lines.append("isa.enc %d 32 %s" % (b, " ".join(map(str, vals))))
    # buffer-size boundaries, wrong operand counts, undefined opcodes
    extra = []
    for b, sizes in sorted(table.items()):
        tot = 1 + sum(sizes)
        vals = [1] * len(sizes)
        for bs in (0, tot - 1, tot, tot + 1):
            extra.append("isa.enc %d %d %s" % (b, bs, " ".join(map(str, vals))))
    for b in range(256):
        if b not in table:
            extra.append("isa.enc %d 32" % b)
    enc_lines += extra
    m_enc = common.batch(driver, enc_lines)[0]
    p_enc = common.batch_robust(probe, enc_lines, env=env)
    for l, a, c in zip(enc_lines, m_enc, p_enc):
        ctx.case(l)
        if a != c:
            disagreements.append((l, a, c))

    # phase 2: decode of the implementation's own bytes (+suffix), every truncation; undefined bytes
    dec_lines = []
    meta = []   # (kind, instr index, k)
    for idx, (b, vals) in enumerate(instrs):
        r = p_enc[idx]
        if not r.startswith("ok "):
            meta.append(("encfail", idx, 0)); dec_lines.append("isa.dec -")
            continue
        hx = r[3:]
        bs = bytes.fromhex(hx)
        suffix = bytes(rng.getrandbits(8) for _ in range(rng.choice([0, 1, 3, 9])))
        dec_lines.append("isa.dec " + common.hexs(bs + suffix)); meta.append(("full", idx, len(bs)))
        for k in range(len(bs)):
            dec_lines.append("isa.dec " + common.hexs(bs[:k])); meta.append(("trunc", idx, k))
    for b in range(256):
        if b not in table:
            for _ in range(3):
                rest = bytes(rng.getrandbits(8) for _ in range(rng.choice([0, 1, 8, 17])))
                dec_lines.append("isa.dec " + common.hexs(bytes([b]) + rest)); meta.append(("undef", b, 0))
    nrb = 2000 if ctx.tier == "quick" else 200000
    for _ in range(nrb):
        n = rng.choice([0, 1, 2, 3, 5, 9, 12, 20])
        dec_lines.append("isa.dec " + common.hexs(bytes(rng.getrandbits(8) for _ in range(n)))); meta.append(("random", 0, 0))
    m_dec = common.batch(driver, dec_lines)[0]
    p_dec = common.batch_robust(probe, dec_lines, env=env)

    oracle_fail = []
    reenc_lines, reenc_expect = [], []
    for l, mt, a, c in zip(dec_lines, meta, m_dec, p_dec):
        ctx.case(l, nontrivial=(mt[0] != "random" or c.startswith("ok")))
        ctx.count("dec_" + mt[0])
        if a != c:
            disagreements.append((l, a, c))
        # the property's own oracle, evaluated on the implementation
        if c.startswith("CRASH"):
            oracle_fail.append({"input": l, "impl": c, "why": "implementation crashed"})
            continue
        if mt[0] == "full":
            b, vals = instrs[mt[1]]
            want = "ok %d %d%s" % (b, mt[2], "".join(" %d" % v for v in vals))
            if c != want:
                oracle_fail.append({"input": l, "impl": c, "expected": want, "why": "decode(encode i) != i",
                                    "instr": [b, vals]})
        elif mt[0] in ("trunc", "undef"):
            if c != "err":
                oracle_fail.append({"input": l, "impl": c, "expected": "err",
                                    "why": "truncated or undefined instruction was not refused"})
        if c.startswith("ok ") and mt[0] in ("random", "full"):
            w = c.split()
            n = int(w[2])
            hx = l.split()[1]
            raw = bytes.fromhex(hx) if hx != "-" else b""
            reenc_lines.append("isa.enc %s 32 %s" % (w[1], " ".join(w[3:])))
            reenc_expect.append(("ok " + common.hexs(raw[:n]), l))
    m_re = common.batch(driver, reenc_lines)[0] if reenc_lines else []
    p_re = common.batch_robust(probe, reenc_lines, env=env) if reenc_lines else []
    for l, (want, src), a, c in zip(reenc_lines, reenc_expect, m_re, p_re):
        ctx.case(l)
        if a != c:
            disagreements.append((l, a, c))
        if c != want:
            oracle_fail.append({"input": src, "reencode": l, "impl": c, "expected": want, "why": "encode(decode b) != b"})
    ctx.cov["reencoded"] = len(reenc_lines)

    # ---- text form: assemble(disassemble(m)) = m on compiler-produced and synthetic modules ----------
    import struct
    mods = []   # (label, hex, layout_in_table_order)
    def layout_ok(fn_entries):
        off = 0
        for (o, l) in fn_entries:
            if o != off:
                return False
            off += l
        return True
    files = corpus.nvm_corpus(tdir)
    if ctx.tier == "quick":
        step = max(1, len(files) // 120)
        files = files[::step]
    lines = ["nvm.load " + b.hex() for _, b in files]
    loaded = common.batch_robust(probe, lines, env=env)
    for (src, b), r in zip(files, loaded):
        if not r.startswith("ok "):
            continue
        fns = dict(x.split("=", 1) for x in r[3:].split(";")).get("fn", "")
        ents = [(int(e.split(".")[2]), int(e.split(".")[3])) for e in fns.split(",") if e]
        mods.append((os.path.basename(src), b.hex(), layout_ok(ents)))
    # synthetic: one function holding every opcode with boundary operands, jump targets on instruction boundaries
    def enc(op, vals):
        out = bytes([op])
        for v, sz in zip(vals, table[op]):
            out += (v & ((1 << (8 * sz)) - 1)).to_bytes(sz, "little")
        return out
    i32_ops = {b for b in table if any(False for _ in ())}
    info_names = {b: m_info[b].split()[0] for b in table}
    optypes = {}
    for b in table:
        optypes[b] = None
    # operand kinds are not in isa.info; jumps are the opcodes named JMP*, MATCH_TAG (i32 operand = last 4-byte slot)
    jump_slot = {b: (len(table[b]) - 1) for b in table if info_names[b] in ("JMP", "JMP_TRUE", "JMP_FALSE", "MATCH_TAG")}
    f64_ops = {b for b in table if info_names[b] == "PUSH_F64"}
    nsyn = 12 if ctx.tier == "quick" else 200
    fvals = [0, 0x8000000000000000, 0x3FF0000000000000, 0x7FEFFFFFFFFFFFFF, 0x0000000000000001, 0x7FF0000000000000,
             0xFFF0000000000000, 0x400921FB54442D18, 0xC05EDD2F1A9FBE77, 0x3FB999999999999A]
    for k in range(nsyn):
        instrs_k = []
        ops = sorted(table)
        rng.shuffle(ops)
        for b in ops + [rng.choice(ops) for _ in range(40)]:
            sizes = table[b]
            if b in f64_ops:
                vals = [rng.choice(fvals)]
            else:
                vals = [rng.choice(patterns_for(sz)) if rng.random() < 0.7 else rng.getrandbits(8 * sz) for sz in sizes]
            instrs_k.append([b, vals])
        # lay out, then point every jump at a random instruction boundary (or the end)
        starts, pos = [], 0
        for b, vals in instrs_k:
            starts.append(pos); pos += 1 + sum(table[b])
        ends = starts + [pos]
        for i, (b, vals) in enumerate(instrs_k):
            if b in jump_slot:
                tgt = rng.choice(ends)
                vals[jump_slot[b]] = (tgt - starts[i]) & 0xFFFFFFFF
        code = b"".join(enc(b, vals) for b, vals in instrs_k)
        strs = [b"f", b"a; b # c", b"line1\nline2\ttab \"q\" \\ back", b"", b"caf\xc3\xa9"] + [("s%d" % j).encode() for j in range(rng.randint(0, 70))]
        # every byte value (control bytes, quotes, backslash, high bytes; NUL is cut by the pool's C strings) in front of characters that
        # an escape syntax could swallow - hex digits, 'x', a backslash, a quote - and at the end of the string
        follow = [b"d", b"0", b"A", b"f9", b"x41", b"\\", b"\"", b"", b" ", b"n", b"8done"]
        fl = follow[k % len(follow)]
        strs += [bytes([bv]) + fl for bv in range(1, 256)] + [bytes([bv]) * 3 + fl for bv in (1, 7, 8, 11, 12, 13, 15, 16, 27, 31, 127, 128, 255)]
        txt = "f=1;e=0;s=%s;c=%s;fn=0.%d.0.%d.%d.%d;d=;i=" % (",".join(common.hexs(x) for x in strs), code.hex(), rng.randint(0, 3), len(code), rng.choice([0, 3, 255, 256, 65535]), rng.choice([0, 1, 300]))
        mods.append(("synthetic-%d" % k, None, True, txt))
    ser_lines = ["nvm.ser " + mm[3] for mm in mods if mm[1] is None]
    ser = common.batch_robust(probe, ser_lines, env=env)
    it = iter(ser)
    final = []
    for mm in mods:
        if mm[1] is None:
            r = next(it)
            if r.startswith("ok "):
                final.append((mm[0], r[3:], True))
        else:
            final.append(mm[:3])
    rt = common.batch_robust(probe, ["asm.rt " + hx for _, hx, _ in final], env=env, timeout=900)
    ctx.cov["text_roundtrip_modules"] = len(final)
    ctx.cov["text_roundtrip_synthetic"] = sum(1 for f in final if f[0].startswith("synthetic"))
    relaid_known = 0
    for (name, hx, inorder), r in zip(final, rt):
        ctx.case("asm.rt:" + name + hx[-64:])
        if r == "same":
            continue
        if r == "relaid" and not inorder and "F-C11-2" in ctx.findings and ctx.findings["F-C11-2"]["status"] == "known":
            relaid_known += 1
            continue
        oracle_fail.append({"input": "asm.rt <%s>" % name, "impl": r, "expected": "same", "module_hex": hx,
                            "why": "assemble(disassemble(m)) differs from m"})
    if relaid_known:
        ctx.known("F-C11-2", "assemble(disassemble(m)) lays function bodies out in table order: %d modules with top-level lets or imports "
                  "(code layout != table order) come back with the same functions but a permuted code section" % relaid_known)
    ctx.cov["text_roundtrip_relaid_known"] = relaid_known
    for s in (enc_lines[17], dec_lines[5], dec_lines[-1]):
        ctx.sample(s)
    ctx.sample({"theorems": info.get("theorems", [])})
    ctx.cov["traces_validated_against_impl"] = ctx.evals
    ctx.cov["disagreements_checked"] = len(disagreements)
    ctx.cov["rule"] = ("all 256 opcode bytes x every operand slot x boundary patterns x every truncation length + random operands "
                       "+ random byte strings; model reply compared with isa_encode/isa_decode; non-trivial = reaches a defined opcode "
                       "or exercises a refusal of a generated (not random) input; distinct by sha1 of the request line")

    # ---- verdict --------------------------------------------------------------------
    for f in oracle_fail[:5]:
        ctx.violation({"kind": "oracle", "detail": f, "replay_with": "echo '<input>' | <probe>",
                       "note": "implementation-side oracle of C11 is false on this input"})
    if not oracle_fail:
        if not info["ok"]:
            ctx.violation({"kind": "proof-obligation", "theorem_module": MODULE, "broken": info["broken"],
                           "searched": "%d instructions, %d decode inputs on the implementation; oracle true on all" % (len(instrs), len(dec_lines))},
                          no_input=True)
        elif disagreements:
            ctx.violation({"kind": "correspondence", "which": "isa.enc/isa.dec model != implementation",
                           "first": [dict(input=l, model=a, impl=c) for l, a, c in disagreements[:10]],
                           "count": len(disagreements)}, no_input=True)
    return ctx.finish(info["obligations"], info["discharged"])
