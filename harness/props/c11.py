"""C11 — instruction encoding and the textual assembly form are exact inverses."""
import os
from .. import build, common

MODULE = "NanoVerif.Props.C11"
PATTERNS64 = [0, 1, 0x7F, 0x80, 0xFF, 0x7FFF, 0x8000, 0xFFFF, 0x7FFFFFFF, 0x80000000, 0xFFFFFFFF,
              0x7FFFFFFFFFFFFFFF, 0x8000000000000000, 0xFFFFFFFFFFFFFFFF,
              0x7FF8000000000001, 0x7FF0000000000000, 0xFFF0000000000000, 0x8000000000000000, 0x7FF4000000000000,
              0x0123456789ABCDEF]


def patterns_for(sz):
    m = (1 << (8 * sz)) - 1
    return sorted(set(p & m for p in PATTERNS64))


def run(ctx):
    info = common.prove(ctx, MODULE, ["isa"])
    tdir = build.tree("plain", ("vm",))
    flav = "asan" if ctx.tier == "thorough" else "plain"
    if flav == "asan":
        tdir = build.tree("asan", ("vm",))
    probe = build.probe("isa_probe", tdir, ("isa",), flav)
    driver = common.build_driver()
    env = dict(os.environ, ASAN_OPTIONS="detect_leaks=0")

    # table as the implementation sees it
    lines = ["isa.info %d" % b for b in range(256)]
    m_info = common.batch(driver, lines)[0]
    p_info = common.batch_robust(probe, lines, env=env)
    table = {}
    disagreements = []
    for b in range(256):
        if m_info[b] != p_info[b]:
            disagreements.append(("isa.info %d" % b, m_info[b], p_info[b]))
        if p_info[b] != "none" and not p_info[b].startswith("CRASH"):
            w = p_info[b].split()
            table[b] = [int(x) for x in w[2:]]
    ctx.cov["defined_opcodes"] = len(table)
    ctx.cov["undefined_opcodes"] = 256 - len(table)

    # ---- generate instructions ------------------------------------------------------
    instrs = []  # (opcode, [vals])
    rng = ctx.rng
    for b, sizes in sorted(table.items()):
        if not sizes:
            instrs.append((b, []))
            continue
        for j, sz in enumerate(sizes):
            for p in patterns_for(sz):
                vals = [(0x0123456789ABCDEF >> (3 * k)) & ((1 << (8 * s)) - 1) for k, s in enumerate(sizes)]
                vals[j] = p
                instrs.append((b, vals))
        nrand = 40 if ctx.tier == "quick" else 4000
        for _ in range(nrand):
            instrs.append((b, [rng.getrandbits(8 * s) for s in sizes]))
    ctx.cov["instructions"] = len(instrs)

    # phase 1: encode on both sides (full buffer and boundary buffer sizes)
    enc_lines = []
    for (b, vals) in instrs:
        enc_lines.append("isa.enc %d 32 %s" % (b, " ".join(map(str, vals))))
    # buffer-size boundaries, wrong operand counts, undefined opcodes
    extra = []
    for b, sizes in sorted(table.items()):
        tot = 1 + sum(sizes)
        vals = [1] * len(sizes)
        for bs in (0, tot - 1, tot, tot + 1):
            extra.append("isa.enc %d %d %s" % (b, bs, " ".join(map(str, vals))))
    for b in range(256):
        if b not in table:
            extra.append("isa.enc %d 32" % b)
    enc_lines += extra
    m_enc = common.batch(driver, enc_lines)[0]
    p_enc = common.batch_robust(probe, enc_lines, env=env)
    for l, a, c in zip(enc_lines, m_enc, p_enc):
        ctx.case(l)
        if a != c:
            disagreements.append((l, a, c))

    # phase 2: decode of the implementation's own bytes (+suffix), every truncation; undefined bytes
    dec_lines = []
    meta = []   # (kind, instr index, k)
    for idx, (b, vals) in enumerate(instrs):
        r = p_enc[idx]
        if not r.startswith("ok "):
            meta.append(("encfail", idx, 0)); dec_lines.append("isa.dec -")
            continue
        hx = r[3:]
        bs = bytes.fromhex(hx)
        suffix = bytes(rng.getrandbits(8) for _ in range(rng.choice([0, 1, 3, 9])))
        dec_lines.append("isa.dec " + common.hexs(bs + suffix)); meta.append(("full", idx, len(bs)))
        for k in range(len(bs)):
            dec_lines.append("isa.dec " + common.hexs(bs[:k])); meta.append(("trunc", idx, k))
    for b in range(256):
        if b not in table:
            for _ in range(3):
                rest = bytes(rng.getrandbits(8) for _ in range(rng.choice([0, 1, 8, 17])))
                dec_lines.append("isa.dec " + common.hexs(bytes([b]) + rest)); meta.append(("undef", b, 0))
    nrb = 2000 if ctx.tier == "quick" else 200000
    for _ in range(nrb):
        n = rng.choice([0, 1, 2, 3, 5, 9, 12, 20])
        dec_lines.append("isa.dec " + common.hexs(bytes(rng.getrandbits(8) for _ in range(n)))); meta.append(("random", 0, 0))
    m_dec = common.batch(driver, dec_lines)[0]
    p_dec = common.batch_robust(probe, dec_lines, env=env)

    oracle_fail = []
    reenc_lines, reenc_expect = [], []
    for l, mt, a, c in zip(dec_lines, meta, m_dec, p_dec):
        ctx.case(l, nontrivial=(mt[0] != "random" or c.startswith("ok")))
        ctx.count("dec_" + mt[0])
        if a != c:
            disagreements.append((l, a, c))
        # the property's own oracle, evaluated on the implementation
        if c.startswith("CRASH"):
            oracle_fail.append({"input": l, "impl": c, "why": "implementation crashed"})
            continue
        if mt[0] == "full":
            b, vals = instrs[mt[1]]
            want = "ok %d %d%s" % (b, mt[2], "".join(" %d" % v for v in vals))
            if c != want:
                oracle_fail.append({"input": l, "impl": c, "expected": want, "why": "decode(encode i) != i",
                                    "instr": [b, vals]})
        elif mt[0] in ("trunc", "undef"):
            if c != "err":
                oracle_fail.append({"input": l, "impl": c, "expected": "err",
                                    "why": "truncated or undefined instruction was not refused"})
        if c.startswith("ok ") and mt[0] in ("random", "full"):
            w = c.split()
            n = int(w[2])
            hx = l.split()[1]
            raw = bytes.fromhex(hx) if hx != "-" else b""
            reenc_lines.append("isa.enc %s 32 %s" % (w[1], " ".join(w[3:])))
            reenc_expect.append(("ok " + common.hexs(raw[:n]), l))
    m_re = common.batch(driver, reenc_lines)[0] if reenc_lines else []
    p_re = common.batch_robust(probe, reenc_lines, env=env) if reenc_lines else []
    for l, (want, src), a, c in zip(reenc_lines, reenc_expect, m_re, p_re):
        ctx.case(l)
        if a != c:
            disagreements.append((l, a, c))
        if c != want:
            oracle_fail.append({"input": src, "reencode": l, "impl": c, "expected": want, "why": "encode(decode b) != b"})
    ctx.cov["reencoded"] = len(reenc_lines)
    for s in (enc_lines[17], dec_lines[5], dec_lines[-1]):
        ctx.sample(s)
    ctx.sample({"theorems": info.get("theorems", [])})
    ctx.cov["traces_validated_against_impl"] = ctx.evals
    ctx.cov["disagreements_checked"] = len(disagreements)
    ctx.cov["rule"] = ("all 256 opcode bytes x every operand slot x boundary patterns x every truncation length + random operands "
                       "+ random byte strings; model reply compared with isa_encode/isa_decode; non-trivial = reaches a defined opcode "
                       "or exercises a refusal of a generated (not random) input; distinct by sha1 of the request line")

    # ---- verdict --------------------------------------------------------------------
    for f in oracle_fail[:5]:
        ctx.violation({"kind": "oracle", "detail": f, "replay_with": "echo '<input>' | <probe>",
                       "note": "implementation-side oracle of C11 is false on this input"})
    if not oracle_fail:
        if not info["ok"]:
            ctx.violation({"kind": "proof-obligation", "theorem_module": MODULE, "broken": info["broken"],
                           "searched": "%d instructions, %d decode inputs on the implementation; oracle true on all" % (len(instrs), len(dec_lines))},
                          no_input=True)
        elif disagreements:
            ctx.violation({"kind": "correspondence", "which": "isa.enc/isa.dec model != implementation",
                           "first": [dict(input=l, model=a, impl=c) for l, a, c in disagreements[:10]],
                           "count": len(disagreements)}, no_input=True)
    return ctx.finish(info["obligations"], info["discharged"])
