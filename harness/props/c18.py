"""C18 — the daemon survives malformed and abandoned client sessions."""
import binascii
import os
import random
import struct
import subprocess
import tempfile
import threading
import time

from .. import build, common, gen_mod, nvm, vmd
from . import c17

MODULE = "NanoVerif.Props.C18"

GOOD = [
    ("hello", "fn main() -> int {\n    (println \"hello\")\n    (println 42)\n    return 7\n}\nshadow main { assert (== 1 1) }\n"),
    ("loop", "fn main() -> int {\n    let mut i: int = 0\n    while (< i 50) {\n        (println (* i i))\n        set i (+ i 1)\n    }\n    return 0\n}\nshadow main { assert (== 1 1) }\n"),
    ("slow-printer", "fn spin(n: int) -> int {\n    let mut s: int = 0\n    let mut i: int = 0\n    while (< i n) {\n        set s (+ s (% (* i 7) 13))\n        set i (+ i 1)\n    }\n    return s\n}\nshadow spin { assert (== (spin 0) 0) }\n"
                     "fn main() -> int {\n    let mut i: int = 0\n    while (< i 400) {\n        (print \"line \")\n        (print i)\n        (print \" \")\n        (println (spin 3000))\n        set i (+ i 1)\n    }\n    return 5\n}\nshadow main { assert (== 1 1) }\n"),
    ("uses-extern", "extern fn labs(x: int) -> int\nextern fn strlen(s: string) -> int\nfn main() -> int {\n    let mut a: int = 0\n    unsafe {\n        set a (+ (labs -41) (strlen \"four\"))\n    }\n    (println a)\n    return 2\n}\nshadow main { assert (== 1 1) }\n"),
    ("assert-fail", "fn main() -> int {\n    (println \"before\")\n    assert (== 1 2)\n    return 0\n}\nshadow main { assert (== 1 1) }\n"),
]


def many_imports(base_blob, n, nparams):
    """a structurally valid module with n (unused) imports: legal, standalone runs it"""
    m = nvm.parse(base_blob)
    for k in range(n):
        mi = len(m.strings); m.strings.append(b"")
        fi = len(m.strings); m.strings.append(b"imp%d" % k)
        m.imports.append([mi, fi, nparams, 1, bytes([1] * nparams) if nparams else b""])
    m.flags |= 2
    return m.build()


def run(ctx):
    info = common.prove(ctx, MODULE, ["vmd"])
    quick = ctx.tier == "quick"
    tdir = build.tree("plain" if quick else "asan", ("vm",))
    envx = {"ASAN_OPTIONS": "detect_leaks=0:abort_on_error=1"} if not quick else None
    driver = common.build_driver()
    rng = ctx.rng
    oracle_fail, disagreements = [], []
    steps = 0
    with tempfile.TemporaryDirectory(prefix="nvc18", dir="/var/tmp") as td:
        mods = c17.compile_all(tdir, td, GOOD)
        for m in mods:
            m["standalone"] = vmd.standalone(tdir, m["path"])
        hello = mods[0]
        # hostile / unusual payloads: field mutants of a valid module with the checksum recomputed, modules with many imports
        hostile = []
        try:
            base = nvm.parse(hello["blob"])
            L = nvm.layout()
            fm = gen_mod.field_mutants(base, L, rng, exhaustive=not quick)
            rng.shuffle(fm)
            for name, mod in fm[: (60 if quick else 600)]:
                hostile.append((name, mod if isinstance(mod, (bytes, bytearray)) else mod.build(L)))
        except Exception as e:          # generator API drift must not hide the rest of the check
            ctx.cov["hostile_generator_error"] = str(e)[:200]
        for n, k in [(1, 0), (31, 1), (32, 0), (33, 0), (33, 2), (64, 1), (129, 0)]:
            try:
                hostile.append(("imports-%d-x%d" % (n, k), many_imports(hello["blob"], n, k)))
            except Exception as e:
                ctx.cov["imports_generator_error"] = str(e)[:200]
        # a module that CALLS an external function the host cannot resolve, under names that end up in the daemon's error reply:
        # format directives, a very long name, bytes above 0x7f (the reply must quote them, not interpret them)
        try:
            extm = next(m for m in mods if m["name"] == "uses-extern")
            for hn in (b"%s%s%s%s%s%s%s%s%s%s%n_", b"%n", b"100%", b"%999999d", b"%%", b"labs_" + b"x" * 300, b"l\xc3\xa9bs", b"%1$s%2$s"):
                pm = nvm.parse(extm["blob"])
                pm.strings = [hn if x == b"labs" else x for x in pm.strings]
                hostile.append(("unresolvable-extern-%s" % hn[:12].decode("latin-1"), pm.build()))
        except Exception as e:
            ctx.cov["extern_name_generator_error"] = str(e)[:200]
        envx = dict(envx or {}, PATH=os.path.join(tdir, "bin") + ":" + os.environ.get("PATH", ""))
        d = vmd.Daemon(tdir, td, env_extra=envx)

        def health(after):
            """daemon alive, answers PING, serves a well-formed client exactly like standalone"""
            nonlocal steps
            steps += 1
            if not d.alive():
                oracle_fail.append({"after": after, "why": "daemon process is gone", "status": d.status(), "stderr": d.stderr_text()[-800:]})
                return False
            if not d.ping():
                oracle_fail.append({"after": after, "why": "daemon does not answer PING", "stderr": d.stderr_text()[-400:]})
                return False
            # the daemon's own bookkeeping: a STATUS session counts itself, so the reported number is at least 1 whatever
            # happened before (sessions still winding down only raise it)
            n = d.active_clients()
            if n is None or n < 1:
                oracle_fail.append({"after": after, "why": "STATUS reports active_clients=%r while this very session is active: the session counter lost count" % n,
                                    "stderr": d.stderr_text()[-400:]})
                return False
            m = rng.choice(mods[:2] + mods[3:])
            got = d.exec_blob(m["blob"])
            st = m["standalone"]
            if "error" in got or got.get("out") != st["out"] or not c17.exit_eq(got.get("exit"), st["exit"]) or c17.norm_err(got.get("err")) != c17.norm_err(st["err"]):
                oracle_fail.append({"after": after, "why": "a well-formed client served after the ill-behaved session does not get its standalone result", "module": m["name"],
                                    "daemon": str({k: got.get(k) for k in ("out", "err", "exit", "error")})[:500], "standalone": str(st)[:500]})
                return False
            return True

        ok = health("start")
        # 1. every kind of ill-behaved client, several times, each followed by the health probe
        kinds = vmd.BAD_KINDS * (2 if quick else 12)
        rng.shuffle(kinds)
        for kind in kinds:
            if not ok:
                break
            blob = rng.choice(mods)["blob"] if kind.startswith("disconnect") else hello["blob"]
            if kind == "disconnect-during-output":
                blob = mods[2]["blob"]
                # a session that really made external calls (a co-process was started and stopped for it) comes first: whatever it
                # changed in the daemon process must not change how the daemon takes the disconnect that follows
                ext = next(m for m in mods if m["name"] == "uses-extern")
                got = d.exec_blob(ext["blob"])
                if "error" in got or got.get("out") != ext["standalone"]["out"] or not c17.exit_eq(got.get("exit"), ext["standalone"]["exit"]):
                    oracle_fail.append({"after": "extern session before a disconnect", "why": "a session using external functions differs from standalone",
                                        "daemon": str({k: got.get(k) for k in ("out", "err", "exit", "error")})[:400], "standalone": str(ext["standalone"])[:400]})
                    ok = False
                    break
            desc = vmd.bad_client(d, kind, blob, rng)
            ctx.case("bad:" + desc)
            ok = health(desc)
        # 2. truncations at every length class of a real payload (header promised N, peer vanished after k bytes)
        if ok:
            L = len(hello["blob"])
            for declared in sorted(set([1, 2, 7, 8, 100, 4095, 4096, 4097, L - 1, L, L + 1, 70000])):
                for sent in sorted(set([0, 1, declared // 2, max(0, declared - 1)])):
                    if sent >= declared or not ok:
                        continue
                    try:
                        s = d.connect(5.0)
                        s.sendall(vmd.header(vmd.MSG_LOAD_EXEC, declared) + (hello["blob"] * 40)[:sent])
                        s.close()
                    except OSError:
                        pass
                    ctx.case("trunc:%d:%d" % (declared, sent))
                    ok = health("truncated payload declared=%d sent=%d" % (declared, sent))
        # 3. hostile and unusual modules as payload: the session may fail, the daemon may not
        if ok:
            for name, blob in hostile:
                got = d.exec_blob(blob, timeout=20.0)
                ctx.case("hostile:" + name)
                steps += 1
                if not d.alive():
                    oracle_fail.append({"after": "module " + name, "why": "daemon process is gone after a crafted module", "status": d.status(), "stderr": d.stderr_text()[-800:],
                                        "module_hex": binascii.hexlify(blob).decode()[:6000]})
                    ok = False
                    break
            if ok:
                ok = health("crafted modules")
        # 4. abandoned sessions while others are being served: A vanishes mid-output, B connects into the window, C is a normal client
        if ok:
            for r in range(3 if quick else 20):
                res = {}

                def a_client():
                    vmd.bad_client(d, "disconnect-during-output", mods[2]["blob"], random.Random(r))

                def b_client():
                    time.sleep(0.02 + 0.03 * (r % 4))
                    try:
                        s = d.connect(20.0)
                        s.settimeout(1.0)
                        early = vmd.recv_exact(s, 1)          # a silent client must not receive anything
                        s.settimeout(20.0)
                        s.sendall(vmd.header(vmd.MSG_LOAD_EXEC, len(hello["blob"])) + hello["blob"])
                        res["b"] = (early, vmd.read_replies(s))
                    except OSError as e:
                        res["b"] = (None, {"error": str(e)})

                def c_client():
                    res["c"] = d.exec_blob(mods[1]["blob"])
                th = [threading.Thread(target=f) for f in (a_client, b_client, c_client)]
                for t in th:
                    t.start()
                for t in th:
                    t.join()
                steps += 1
                early, gb = res.get("b", (None, {"error": "no result"}))
                if early:
                    oracle_fail.append({"after": "abandoned session round %d" % r, "why": "a client that had not sent anything received bytes (another session's reply)", "bytes": repr(early)})
                    ok = False
                for nm, got, m in (("b", gb, hello), ("c", res.get("c", {"error": "no result"}), mods[1])):
                    st = m["standalone"]
                    if "error" in got or got.get("out") != st["out"] or not c17.exit_eq(got.get("exit"), st["exit"]):
                        oracle_fail.append({"after": "abandoned session round %d" % r, "why": "client %s, served while another session was abandoned mid-output, differs from standalone" % nm,
                                            "daemon": str({k: got.get(k) for k in ("out", "err", "exit", "error")})[:400], "standalone": str(st)[:300]})
                        ok = False
                if not ok:
                    break
            if ok:
                ok = health("abandoned sessions")
        # 4b. a session whose FFI co-process dies while the program is busy elsewhere: whatever the session makes of it,
        #     the daemon stays (its writes to the dead co-process must not raise a fatal SIGPIPE)
        if ok:
            os.makedirs(os.path.join(td, "ffi"), exist_ok=True)
            fm = c17.compile_all(tdir, os.path.join(td, "ffi"), [("ffi-spin", 'extern fn labs(x: int) -> int\nfn main() -> int {\n    let mut r: int = 0\n    unsafe { set r (labs -65) }\n'
                                  '    (println r)\n    (println "armed")\n    let mut i: int = 0\n    while (< i 4000000) {\n        set i (+ i 1)\n    }\n    (println "done")\n    return 7\n}\nshadow main { assert (== 1 1) }\n')])
            for rnd in range(1 if quick else 4):
                if not fm or not ok:
                    break
                try:
                    s4 = d.connect(60.0)
                    s4.sendall(vmd.header(vmd.MSG_LOAD_EXEC, len(fm[0]["blob"])) + fm[0]["blob"])
                    time.sleep(0.5 + 0.2 * rnd)
                    kids = subprocess.run(["pgrep", "-P", str(d.proc.pid)], stdout=subprocess.PIPE).stdout.decode().split()
                    killed = 0
                    for k in kids:
                        try:
                            if b"nano_cop" in open("/proc/%s/cmdline" % k, "rb").read():
                                os.kill(int(k), 9); killed += 1
                        except (OSError, ValueError):
                            pass
                    rep4 = vmd.read_replies(s4)
                except OSError as e:
                    rep4, killed = {"error": str(e)}, -1
                ctx.case("coprocess killed mid-session round %d" % rnd)
                ctx.count("coprocess_killed_mid_session" if killed > 0 else "coprocess_not_found")
                ok = health("a session whose FFI co-process was killed while the program was running (killed=%d, session result %s)" % (killed, str({x: rep4.get(x) for x in ("out", "exit", "error")})[:160]))
        alive_end = d.alive()
        d.stop()
        # 5. a daemon with an idle timeout: ill-formed sessions first, then a session that runs longer than the timeout -
        #    it must be served to its end (the idle shutdown is for a daemon without clients)
        if ok:
            spin = os.path.join(td, "spin.nano")
            open(spin, "w").write('fn main() -> int {\n    (println "start")\n    let mut i: int = 0\n    let mut acc: int = 0\n    while (< i 9000000) {\n'
                                  '        set acc (+ acc (% i 7))\n        set i (+ i 1)\n    }\n    (println acc)\n    (println "end")\n    return 3\n}\nshadow main { assert (== 1 1) }\n')
            os.makedirs(os.path.join(td, "spin"), exist_ok=True)
            sm = c17.compile_all(tdir, os.path.join(td, "spin"), [("spin", open(spin).read())])[0]
            for nbad in ((1,) if quick else (1, 2, 3)):
                d3 = vmd.Daemon(tdir, td, env_extra=envx, idle_timeout=2)
                for _ in range(nbad):
                    try:
                        s3 = d3.connect(5.0); s3.sendall(vmd.header(vmd.MSG_PING, 0, version=9)); s3.close()
                    except OSError:
                        pass
                time.sleep(0.2)
                res3 = {}
                ths = [threading.Thread(target=lambda k=k: res3.__setitem__(k, d3.exec_blob(sm["blob"], timeout=120.0))) for k in range(nbad)]
                for t in ths:
                    t.start()
                for t in ths:
                    t.join()
                steps += 1
                ctx.case("idle-timeout after %d ill-formed sessions" % nbad)
                for k in range(nbad):
                    got = res3.get(k, {"error": "no result"})
                    if "error" in got or b"end" not in (got.get("out") or b"") or not c17.exit_eq(got.get("exit"), 3):
                        oracle_fail.append({"after": "%d session(s) with a bad protocol version on a daemon started with --idle-timeout 2" % nbad,
                                            "why": "a session that runs longer than the idle timeout is cut short", "daemon": str({x: got.get(x) for x in ("out", "err", "exit", "error")})[:300],
                                            "stderr": d3.stderr_text()[-300:]})
                        ok = False
                d3.stop()
        # model tie: replies the model predicts for the probes whose replies we read
        probes = [("ping", vmd.header(vmd.MSG_PING, 0)), ("unknown type 9", vmd.header(9, 0)), ("zero-length exec", vmd.header(vmd.MSG_LOAD_EXEC, 0)),
                  ("flags set ping", vmd.header(vmd.MSG_PING, 0, flags=0xffff)), ("wrong version", vmd.header(vmd.MSG_PING, 0, version=2)),
                  ("oversized", vmd.header(vmd.MSG_LOAD_EXEC, vmd.MAX_PAYLOAD + 1)), ("short header", vmd.header(vmd.MSG_PING, 0)[:5]),
                  ("truncated payload", vmd.header(vmd.MSG_LOAD_EXEC, 100) + b"x" * 40), ("non-module", vmd.header(vmd.MSG_LOAD_EXEC, 16) + b"y" * 16)]
        d2 = vmd.Daemon(tdir, td, env_extra=envx)
        real = []
        for name, sent in probes:
            try:
                s = d2.connect(5.0)
                s.sendall(sent)
                s.shutdown(1)
                rep = vmd.read_replies(s)
            except OSError as e:
                rep = {"error": str(e), "frames": []}
            real.append(rep)
        d2.stop()
        lines = ["vmd.serve 1 bad %s" % binascii.hexlify(sent).decode() for _, sent in probes]
        mout = common.batch(driver, lines, timeout=600)[0]
        for (name, sent), mo, rep in zip(probes, mout, real):
            pred = []
            body = mo.split(" ", 1)[1] if " " in mo else "-"
            for part in ([] if body == "-" else body.split("|")):
                pred.append({"O": vmd.MSG_OUTPUT, "E": vmd.MSG_ERROR, "X": vmd.MSG_EXIT, "P": vmd.MSG_PONG, "S": vmd.MSG_STATUS_RSP}[part[0]])
            got = [f[0] for f in rep.get("frames", [])]
            if pred != got:
                disagreements.append({"probe": name, "model": mo[:200], "daemon_frame_types": got, "daemon": str(rep)[:200]})
    ctx.cov["ill_behaved_kinds"] = len(vmd.BAD_KINDS)
    ctx.cov["steps_followed_by_health_probe"] = steps
    ctx.cov["crafted_modules"] = len(hostile)
    ctx.cov["daemon_alive_at_end"] = alive_end
    ctx.cov["build_flavour"] = "plain" if quick else "asan+ubsan"
    ctx.cov["disagreements_checked"] = len(disagreements)
    ctx.cov["traces_validated_against_impl"] = len(probes)
    ctx.sample(vmd.BAD_KINDS); ctx.sample({"theorems": info.get("theorems", [])})
    ctx.cov["rule"] = ("a private nano_vmd is driven through sequences of client behaviours: connect-and-close, header prefixes, header only, truncated payload at every length class, garbage, "
                       "wrong version, unknown type, length over the limit, zero length, non-module and crafted-module payloads (field mutants with recomputed CRC, 1..129 imports), ping, status, "
                       "disconnect before/while output; after EVERY step the pid must be alive, PING answered and a well-formed client served exactly like standalone; abandoned sessions are "
                       "raced against a silent client and a normal client; replies to nine probe messages are compared with the Lean session model")
    for f in oracle_fail[:3]:
        ctx.violation({"kind": "oracle", "detail": f})
    if not oracle_fail:
        if not info["ok"]:
            ctx.violation({"kind": "proof-obligation", "theorem_module": MODULE, "broken": info["broken"], "searched": "%d steps: daemon alive and serving after each" % steps}, no_input=True)
        elif disagreements:
            ctx.violation({"kind": "correspondence", "which": "session model `serve` != nano_vmd replies", "first": disagreements[:3], "count": len(disagreements)}, no_input=True)
    return ctx.finish(info["obligations"], info["discharged"])
