"""C17 — daemon execution is transparent and concurrent clients are isolated."""
import binascii
import os
import random
import re
import subprocess
import tempfile
import threading
import time

from .. import build, common, gen_prog, vmd

MODULE = "NanoVerif.Props.C17"


def special_programs(rng):
    """programs whose interference, if any, is visible: unique tags on every line, partial lines held across
    computation, large outputs, run-time errors, non-zero exit codes, deeply nested values"""
    out = []
    for k in range(6):
        tag = "s%d-%d" % (k, rng.randrange(10 ** 6))
        n = rng.choice([3, 40, 400])
        out.append(("partial-lines-%d" % k,
                    "fn spin(n: int) -> int {\n    let mut s: int = 0\n    let mut i: int = 0\n    while (< i n) {\n        set s (+ s (%% (* i 7) 13))\n        set i (+ i 1)\n    }\n    return s\n}\n"
                    "shadow spin { assert (== (spin 0) 0) }\n"
                    "fn main() -> int {\n    let mut i: int = 0\n    while (< i %d) {\n        (print \"%s-\")\n        (print i)\n        (print \" sum\")\n        (print (spin %d))\n        (println \" end-%s\")\n        set i (+ i 1)\n    }\n    return %d\n}\nshadow main { assert (== 1 1) }\n"
                    % (n, tag, rng.choice([2000, 20000, 60000]), tag, rng.randrange(0, 200))))
    out.append(("assert-fail", "fn main() -> int {\n    (println \"before the failure\")\n    assert (== 1 2)\n    (println \"never\")\n    return 0\n}\nshadow main { assert (== 1 1) }\n"))
    out.append(("oob", "fn main() -> int {\n    let a: array<int> = [1, 2, 3]\n    (println \"before\")\n    (println (at a 9))\n    return 0\n}\nshadow main { assert (== 1 1) }\n"))
    # output that does not end in a newline when the program stops - normally, by a failed assertion, by an out-of-range index
    out.append(("unterminated-then-exit", "fn main() -> int {\n    (println \"start\")\n    (print \"no newline at the end\")\n    return 4\n}\nshadow main { assert (== 1 1) }\n"))
    out.append(("unterminated-then-assert", "fn main() -> int {\n    (println \"start\")\n    (print \"element 7 is ... \")\n    assert (== 1 2)\n    return 0\n}\nshadow main { assert (== 1 1) }\n"))
    out.append(("unterminated-then-oob", "fn main() -> int {\n    let a: array<int> = [1, 2, 3]\n    (print \"a\")\n    (print \"b \")\n    (println (at a 9))\n    return 0\n}\nshadow main { assert (== 1 1) }\n"))
    out.append(("long-lines", "fn main() -> int {\n    let mut s: string = \"\"\n    let mut i: int = 0\n    while (< i 3000) {\n        set s (+ s \"0123456789\")\n        set i (+ i 1)\n    }\n    (println s)\n    (println (str_length s))\n    (print s)\n    (println \"tail\")\n    return 3\n}\nshadow main { assert (== 1 1) }\n"))
    for depth in (500, 4000):
        out.append(("nested-value-%d" % depth,
                    "struct Node { v: int, next: array<Node> }\n"
                    "fn build(n: int) -> Node {\n    let mut cur: Node = Node { v: 0, next: [] }\n    let mut i: int = 1\n    while (<= i n) {\n        set cur Node { v: i, next: [cur] }\n        set i (+ i 1)\n    }\n    return cur\n}\n"
                    "shadow build { assert (== 1 1) }\n"
                    "fn main() -> int {\n    let t: Node = (build %d)\n    (println t.v)\n    return 0\n}\nshadow main { assert (== 1 1) }\n" % depth))
    return out


def compile_all(tdir, td, progs):
    mods = []
    for i, (name, text) in enumerate(progs):
        p = os.path.join(td, "m%d.nano" % i)
        open(p, "w").write(text)
        o = p[:-5] + ".nvm"
        # (a sanitizer build of the compiler reports its own leaks at exit and then fails: leak checking off for the compile step)
        r = subprocess.run([os.path.join(tdir, "bin", "nano_virt"), p, "--emit-nvm", "-o", o], stdout=subprocess.PIPE, stderr=subprocess.PIPE,
                           env=dict(os.environ, ASAN_OPTIONS="detect_leaks=0"))
        if r.returncode == 0 and os.path.exists(o):
            mods.append({"name": name, "path": o, "blob": open(o, "rb").read(), "source": text})
    return mods


def same(a, b):
    return a.get("out") == b.get("out") and a.get("exit") == (b.get("exit") & 0xFFFFFFFF if False else b.get("exit")) and norm_err(a.get("err")) == norm_err(b.get("err"))


def norm_err(e):
    return (e or b"").replace(b"Runtime error", b"runtime error").strip()


def exit_eq(daemon_code, standalone_rc):
    return daemon_code is not None and (daemon_code & 0xFF) == (standalone_rc & 0xFF)


def run_descr(st):
    """standalone observation -> `Run` descriptor for the model (output chunks = lines, as line-buffered stdio flushes them)"""
    out = st["out"]
    chunks = re.findall(rb"[^\n]*\n|[^\n]+$", out)
    err = st["err"].rstrip(b"\n")
    return "ran:%s:%s:%d" % (",".join(binascii.hexlify(c).decode() for c in chunks) or "-", binascii.hexlify(err).decode() if err else "-", st["exit"] & 0xFFFFFFFF)


def fd_discipline(trace_text):
    """per descriptor number: (accept write* close)* - the session discipline `isolation` assumes.  Returns list of violations.
    strace -f splits a call that blocks into an `<unfinished ...>` and a `<... resumed>` line: a close or write takes its place in the
    order when it starts, an accept when it returns (that is when the descriptor number exists)."""
    ev = {}
    pending = {}
    OTHER_OPEN = ("open", "openat", "socket", "dup", "dup2", "dup3", "eventfd2", "epoll_create1")

    def emit(call, fd, ret):
        if call.startswith("accept"):
            if ret is not None and ret >= 0:
                ev.setdefault(ret, []).append(["A"])
            return None
        if call in OTHER_OPEN:
            if ret is not None and ret >= 0:
                ev.setdefault(ret, []).append(["O"])
            return None
        if fd in ev:
            cell = ["C" if call == "close" else "W"]
            ev[fd].append(cell)
            return cell
        return None

    for line in trace_text.splitlines():
        m = re.match(r"^(\d+)\s+(open|openat|socket|dup|dup2|dup3|eventfd2|epoll_create1)\(.*\)\s+=\s+(-?\d+)", line)
        if m:
            emit(m.group(2), None, int(m.group(3)))
            continue
        m = re.match(r"^(\d+)\s+<\.\.\. (open|openat|socket|dup|dup2|dup3|eventfd2|epoll_create1) resumed>.*=\s+(-?\d+)", line)
        if m:
            emit(m.group(2), None, int(m.group(3)))
            continue
        m = re.match(r"^(\d+)\s+pipe2?\(\[(\d+), (\d+)\].*=\s+0", line)
        if m:
            emit("open", None, int(m.group(2))); emit("open", None, int(m.group(3)))
            continue
        m = re.match(r"^(\d+)\s+(accept4?|close|write|sendto)\((\d+)[^)]*\)\s+=\s+(-?\d+)", line)
        if m:
            call, fd, ret = m.group(2), int(m.group(3)), int(m.group(4))
            cell = emit(call, fd, ret)
            if cell is not None and ret < 0:
                cell[0] = cell[0].lower()
            continue
        m = re.match(r"^(\d+)\s+(accept4?|close|write|sendto)\((\d+).*<unfinished \.\.\.>", line)
        if m:
            tid, call, fd = m.group(1), m.group(2), int(m.group(3))
            pending[tid] = (call, fd, None if call.startswith("accept") else emit(call, fd, None))
            continue
        m = re.match(r"^(\d+)\s+<\.\.\. (accept4?|close|write|sendto) resumed>.*=\s+(-?\d+)", line)
        if m:
            tid, call, ret = m.group(1), m.group(2), int(m.group(3))
            pc = pending.pop(tid, None)
            if call.startswith("accept"):
                emit(call, None, ret)
            elif pc and pc[2] is not None and ret < 0:
                pc[2][0] = pc[2][0].lower()
    bad = []
    for fd, s in ev.items():
        t = "".join(c[0] for c in s)
        if not re.fullmatch(r"(AW*C|O[Ww]*C)*(AW*|O[Ww]*)?", t):
            bad.append({"fd": fd, "events": t[:200]})
    return bad


def run(ctx):
    info = common.prove(ctx, MODULE, ["vmd"])
    quick = ctx.tier == "quick"
    tdir = build.tree("plain", ("vm",))
    driver = common.build_driver()
    rng = ctx.rng
    oracle_fail, disagreements = [], []
    with tempfile.TemporaryDirectory(prefix="nvc17", dir="/var/tmp") as td:
        progs = special_programs(rng)
        for k in range(24 if quick else 64):
            text, flags = gen_prog.gen(random.Random(ctx.seed * 2750159 + k), size=1.0)
            progs.append(("generated-%d" % k, text))
        mods = compile_all(tdir, td, progs)
        for m in mods:
            m["standalone"] = vmd.standalone(tdir, m["path"])
        mods = [m for m in mods if "error" not in m["standalone"]]
        shim = os.path.join(td, "shim.so")
        subprocess.run(["cc", "-shared", "-fPIC", "-O1", "-o", shim, os.path.join(build.VERIF, "probes", "sched_shim.c"), "-ldl"], check=True)

        def check(m, got, phase):
            st = m["standalone"]
            ctx.evals += 1
            if "error" in got or not (got.get("out") == st["out"] and exit_eq(got.get("exit"), st["exit"]) and norm_err(got.get("err")) == norm_err(st["err"])):
                oracle_fail.append({"phase": phase, "module": m["name"], "why": "client's view differs from running the module standalone",
                                    "daemon": {"exit": got.get("exit"), "stdout_tail": (got.get("out") or b"")[-300:].decode(errors="replace"), "stderr": (got.get("err") or b"").decode(errors="replace")[-300:], "error": got.get("error")},
                                    "standalone": {"exit": st["exit"], "stdout_tail": st["out"][-300:].decode(errors="replace"), "stderr": st["err"].decode(errors="replace")[-300:]},
                                    "source": m["source"]})
                return False
            return True

        # phase 1: sequential, own client and the shipped client; frames compared with the model
        d = vmd.Daemon(tdir, td)
        seq_frames = []
        for m in mods:
            got = d.exec_blob(m["blob"])
            check(m, got, "sequential")
            seq_frames.append(got.get("frames"))
            ctx.case("seq:" + m["name"] + m["source"])
        for m in mods[:6]:
            g2 = d.exec_via_nano_vm(m["path"])
            ctx.evals += 1
            if not (g2.get("out") == m["standalone"]["out"] and g2.get("exit") == m["standalone"]["exit"]):
                oracle_fail.append({"phase": "nano_vm --daemon", "module": m["name"], "why": "shipped client differs from standalone", "daemon": str(g2)[:400], "standalone": str(m["standalone"])[:400]})
        alive1 = d.alive()
        d.stop()
        if not alive1:
            oracle_fail.append({"phase": "sequential", "why": "daemon died", "status": d.status(), "stderr": d.stderr_text()[-600:]})
        # phase 1b: process-wide state (working directory, environment) changed by one session's external calls is not seen by the
        # next session; phase 1c: a slow consumer gets all of a large output
        os.makedirs(os.path.join(td, "state"), exist_ok=True)
        SETTER = ('extern fn chdir(path: string) -> int\nextern fn setenv(name: string, value: string, overwrite: int) -> int\nfn main() -> int {\n    let mut r: int = 0\n'
                  '    unsafe { set r (chdir "/") }\n    (println (+ "chdir -> " (int_to_string r)))\n    unsafe { set r (setenv "NL_C17_SESSION" "set-by-setter" 1) }\n'
                  '    (println (+ "cwd=" (getcwd)))\n    (println (+ "env=[" (+ (getenv "NL_C17_SESSION") "]")))\n    return 0\n}\nshadow main { assert true }\n')
        READER = 'fn main() -> int {\n    (println (+ "cwd=" (getcwd)))\n    (println (+ "env=[" (+ (getenv "NL_C17_SESSION") "]")))\n    return 0\n}\nshadow main { assert true }\n'
        BULK = ('fn main() -> int {\n    let mut i: int = 0\n    while (< i %d) {\n        (println (+ "line " (+ (int_to_string i) " of the bulk output, padded to some length ......")))\n        set i (+ i 1)\n    }\n    return 7\n}\nshadow main { assert true }\n'
                % (20000 if quick else 60000))
        sm = compile_all(tdir, os.path.join(td, "state"), [("setter", SETTER), ("reader", READER), ("bulk", BULK)])
        if len(sm) == 3:
            d = vmd.Daemon(tdir, td, env_extra={"PATH": os.path.join(tdir, "bin") + ":" + os.environ.get("PATH", "")})
            r1 = d.exec_blob(sm[1]["blob"])
            for rnd in range(2):
                s1 = d.exec_blob(sm[0]["blob"])
                r2 = d.exec_blob(sm[1]["blob"])
                ctx.evals += 1
                ctx.case("state-leak round %d" % rnd)
                if "error" in r1 or "error" in r2 or r1.get("out") != r2.get("out") or not exit_eq(r2.get("exit"), 0):
                    oracle_fail.append({"phase": "process-wide state", "why": "a session sees the working directory / environment another session's external calls set",
                                        "reader_before": str({k: r1.get(k) for k in ("out", "exit", "error")})[:300], "setter": str({k: s1.get(k) for k in ("out", "exit", "error")})[:300],
                                        "reader_after": str({k: r2.get(k) for k in ("out", "exit", "error")})[:300], "source_setter": SETTER, "source_reader": READER})
                    break
            ref = d.exec_blob(sm[2]["blob"], timeout=120.0)
            slow = d.exec_blob(sm[2]["blob"], timeout=120.0, stall=7.0)
            ctx.evals += 1
            ctx.case("slow consumer")
            if "error" in ref or "error" in slow or slow.get("out") != ref.get("out") or not exit_eq(slow.get("exit"), 7) or b"line 0 " not in (ref.get("out") or b""):
                a, b = (ref.get("out") or b""), (slow.get("out") or b"")
                oracle_fail.append({"phase": "slow consumer", "why": "a client that starts reading 7 s late does not receive the complete output (%d of %d bytes, %d of %d lines)" % (len(b), len(a), b.count(b"\n"), a.count(b"\n")),
                                    "exit_prompt": ref.get("exit"), "exit_slow": slow.get("exit"), "error": slow.get("error"), "source": BULK})
            if not d.alive():
                oracle_fail.append({"phase": "process-wide state / slow consumer", "why": "daemon died", "status": d.status(), "stderr": d.stderr_text()[-600:]})
            d.stop()
        # model tie: reply frames predicted by `serve` from the standalone observation
        lines = []
        for m in mods:
            sent = vmd.header(vmd.MSG_LOAD_EXEC, len(m["blob"])) + b"\x00"      # the payload itself does not matter to `serve` (exec is a parameter)
            lines.append("vmd.serve 1 %s %s" % (run_descr(m["standalone"]), binascii.hexlify(vmd.header(vmd.MSG_LOAD_EXEC, 1) + b"\x00").decode()))
        mout = common.batch(driver, lines, timeout=600)[0]
        for m, mo, fr in zip(mods, mout, seq_frames):
            if fr is None:
                continue
            want = [(f[0], f[1]) for f in fr]
            pred = []
            for part in (mo.split(" ", 1)[1].split("|") if " " in mo and mo.split(" ", 1)[1] != "-" else []):
                if part.startswith("O:"):
                    pred.append((vmd.MSG_OUTPUT, len(part[2:]) // 2 if part[2:] != "-" else 0))
                elif part.startswith("E:"):
                    pred.append((vmd.MSG_ERROR, len(part[2:]) // 2))
                elif part.startswith("X:"):
                    pred.append((vmd.MSG_EXIT, 4))
            longline = any(l > 1000 for _, l in want)
            if not longline and pred != want:
                disagreements.append({"module": m["name"], "model_frames": pred[:12], "daemon_frames": want[:12]})
        # phase 2: concurrent waves with arrival jitter, then again under the scheduling shim, and under strace for the discipline
        for phase, env_extra, wrapper in (("concurrent", None, None), ("concurrent+shim", {"LD_PRELOAD": shim, "SCHED_SHIM_SEED": str(ctx.seed)}, None),
                                          ("concurrent+strace", None, ["strace", "-f", "-e", "trace=accept,accept4,close,write,sendto,open,openat,socket,pipe,pipe2,dup,dup2,dup3,eventfd2,epoll_create1", "-o", os.path.join(td, "trace.txt")])):
            if wrapper and quick and False:
                continue
            d = vmd.Daemon(tdir, td, env_extra=env_extra, wrapper=wrapper)
            waves = 2 if quick else 5
            for w in range(waves):
                sel = mods[:] if len(mods) <= 64 else rng.sample(mods, 64)
                rng.shuffle(sel)
                if wrapper:
                    sel = sel[:24]
                res = [None] * len(sel)

                def worker(i, m, delay):
                    time.sleep(delay)
                    res[i] = d.exec_blob(m["blob"])
                th = [threading.Thread(target=worker, args=(i, m, rng.random() * 0.05)) for i, m in enumerate(sel)]
                for t in th:
                    t.start()
                for t in th:
                    t.join()
                for m, got in zip(sel, res):
                    check(m, got or {"error": "no result"}, phase)
                if not d.alive():
                    oracle_fail.append({"phase": phase, "why": "daemon died while serving concurrent clients", "status": d.status(), "stderr": d.stderr_text()[-800:]})
                    break
            d.stop()
            if wrapper:
                try:
                    bad = fd_discipline(open(os.path.join(td, "trace.txt")).read())
                except OSError:
                    bad = [{"error": "no strace output"}]
                ctx.cov["strace_descriptor_discipline_violations"] = len(bad)
                if bad:
                    oracle_fail.append({"phase": phase, "why": "the daemon's system-call trace leaves the session discipline `isolation` assumes (accept, writes, exactly one close per connection)", "descriptors": bad[:5]})
    ctx.cov["modules"] = len(mods)
    ctx.cov["sessions"] = ctx.evals
    ctx.cov["disagreements_checked"] = len(disagreements)
    ctx.cov["traces_validated_against_impl"] = len(mods)
    ctx.sample(mods[0]["source"][:300]); ctx.sample({"theorems": info.get("theorems", [])})
    ctx.cov["rule"] = ("modules (unique tags per line, partial lines held across computation, 30 KB lines, run-time errors, exit codes, values nested 4000 deep, random typed programs) run "
                       "standalone (nano_vm) and through a private nano_vmd: sequentially with own and shipped client, then in waves of up to 64 simultaneous clients with arrival jitter, "
                       "again under an LD_PRELOAD scheduling shim, again under strace; each client's stdout, error text and exit status must equal standalone; reply frames are compared "
                       "with the Lean session model; the strace log must satisfy the per-descriptor discipline (accept write* close)*")
    for f in oracle_fail[:3]:
        ctx.violation({"kind": "oracle", "detail": f})
    if not oracle_fail:
        if not info["ok"]:
            ctx.violation({"kind": "proof-obligation", "theorem_module": MODULE, "broken": info["broken"], "searched": "%d sessions: all equal to standalone" % ctx.evals}, no_input=True)
        elif disagreements:
            ctx.violation({"kind": "correspondence", "which": "session model `serve` != nano_vmd reply frames", "first": disagreements[:3], "count": len(disagreements)}, no_input=True)
    return ctx.finish(info["obligations"], info["discharged"])
