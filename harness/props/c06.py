"""C06 — shadow tests gate compilation."""
import os
import re
import subprocess
import tempfile
from concurrent.futures import ThreadPoolExecutor

from .. import build, common

MODULE = "NanoVerif.Props.C06"


def gen_program(rng, force=None):
    """returns (source, [ (name, usesExtern, falseAsserts) in source order ], missing_shadow_functions)"""
    nfn = rng.randint(1, 5)
    L, runs, missing = [], [], []
    L.append("fn chk(x: int) -> int {\n    assert (> x 0)\n    return x\n}")
    plan_fail = rng.random() < 0.6 if force is None else force
    fail_at = rng.randrange(nfn) if plan_fail else -1
    chk_fails = 0
    L.append("shadow chk {\n    assert (== (chk 5) 5)\n}")
    runs.append(["chk", False, 0])
    if rng.random() < 0.5:
        L.insert(0, "extern fn labs(x: int) -> int")
        if rng.random() < 0.5:
            # direct extern call: contains_extern_calls sees it, the block is skipped and its false assertions do not count
            L.append("fn ext(x: int) -> int {\n    return (labs x)\n}")
            L.append("shadow ext {\n    assert (== (ext -3) 99)\n    assert (== 1 2)\n}")
            runs.append(["ext", True, 2])
        else:
            # extern call inside an unsafe block: not recognised as extern-using, so the block IS executed
            bad = rng.random() < 0.3 or (force is True and rng.random() < 0.5)
            if bad and force is True:
                plan_fail = False
            L.append("fn ext(x: int) -> int {\n    let mut r: int = 0\n    unsafe { set r (labs x) }\n    return r\n}")
            L.append("shadow ext {\n    assert (== (ext -3) %d)\n}" % (99 if bad else 3))
            runs.append(["ext", False, 1 if bad else 0])
    for k in range(nfn):
        a, b = rng.randint(1, 5), rng.randint(-3, 3)
        L.append("fn f%d(x: int) -> int {\n    return (+ (* x %d) %d)\n}" % (k, a, b))
        if rng.random() < 0.12 and k != fail_at:
            missing.append("f%d" % k)
            continue
        body, fails = [], 0
        nas = rng.randint(1, 4)
        bad_pos = rng.randrange(nas) if k == fail_at else -1
        for j in range(nas):
            x = rng.randint(-4, 6)
            true_val = x * a + b
            style = rng.choice(["plain", "plain", "loop", "callee", "nested-if", "after-continue", "after-break", "after-for", "after-block"])
            wrong = (j == bad_pos) or (k == fail_at and rng.random() < 0.25)
            val = true_val + (rng.choice([1, -1, 7]) if wrong else 0)
            if style == "plain":
                body.append("    assert (== (f%d %d) %d)" % (k, x, val)); fails += 1 if wrong else 0
            elif style == "loop":
                n = rng.randint(1, 3)
                i = "i%d_%d" % (k, j)
                body.append("    let mut %s: int = 0\n    while (< %s %d) {\n        assert (== (f%d %d) %d)\n        set %s (+ %s 1)\n    }" % (i, i, n, k, x, val, i, i))
                fails += n if wrong else 0
            elif style == "callee":
                arg = -2 if wrong else 3
                body.append("    let c%d_%d: int = (chk %d)" % (k, j, arg)); fails += 1 if wrong else 0
            elif style == "nested-if":
                body.append("    if (== 1 1) {\n        assert (== (f%d %d) %d)\n    } else {\n        assert (== 1 2)\n    }" % (k, x, val)); fails += 1 if wrong else 0
            else:
                # the assertion comes after control flow in the shadow block itself: a loop whose last executed iteration
                # ends in `continue` / `break`, a for loop with `continue`, a nested block
                i, acc = "i%d_%d" % (k, j), "s%d_%d" % (k, j)
                if style == "after-continue":
                    pre = ("    let mut %s: int = 0\n    let mut %s: int = 0\n    while (< %s 4) {\n        set %s (+ %s 1)\n        if (== (%% %s 2) 0) {\n            continue\n        }\n"
                           "        set %s (+ %s %s)\n    }" % (i, acc, i, i, i, i, acc, acc, i))
                elif style == "after-break":
                    pre = ("    let mut %s: int = 0\n    while (< %s 10) {\n        set %s (+ %s 1)\n        if (== %s 3) {\n            break\n        }\n    }" % (i, i, i, i, i))
                elif style == "after-for":
                    pre = ("    let mut %s: int = 0\n    for %s in (range 0 3) {\n        if (== %s 2) {\n            continue\n        }\n        set %s (+ %s %s)\n    }" % (acc, i, i, acc, acc, i))
                else:
                    pre = "    if (== 1 1) {\n        let %s: int = 1\n    }" % i
                body.append(pre + "\n    assert (== (f%d %d) %d)" % (k, x, val)); fails += 1 if wrong else 0
        L.append("shadow f%d {\n%s\n}" % (k, "\n".join(body)))
        runs.append(["f%d" % k, False, fails])
    # functions without a shadow block, with names that resemble `main` / keywords
    for nm in rng.sample(["main_loop", "mainline", "main2", "xmain", "shadowed", "asserted", "helper"], rng.choice([0, 0, 1, 2])):
        L.append("fn %s(x: int) -> int {\n    return (+ x 1)\n}" % nm)
        missing.append(nm)
    main_bad = plan_fail and rng.random() < 0.3
    main_items = ["fn main() -> int {\n    (println (chk 1))\n    return 0\n}",
                  "shadow main {\n    assert (== 1 1)\n    assert (== (chk 2) %d)\n}" % (7 if main_bad else 2)]
    main_run = ["main", False, 1 if main_bad else 0]
    if rng.random() < 0.3 and len(L) >= 4:
        # main (and its shadow block) first, helpers after it: the failing block may then be the last item of the file
        head = [x for x in L if x.startswith("extern")]
        rest = [x for x in L if not x.startswith("extern")]
        L[:] = head + main_items + rest
        runs.insert(0, main_run)
    else:
        L += main_items
        runs.append(main_run)
    return "\n".join(L) + "\n", runs, missing


def count_programs(quick):
    """numbers of false assertions around the sizes of a process exit status and of small counters, in one block and split
    over several blocks (the gate must not depend on how many assertions failed, only on whether one did)"""
    out = []
    def block(fn, n, good):
        return ("fn %s(x: int) -> int {\n    return (+ x 1)\n}\nshadow %s {\n    let mut i_%s: int = 0\n    while (< i_%s %d) {\n        assert (== (%s i_%s) (+ i_%s %d))\n        set i_%s (+ i_%s 1)\n    }\n}\n"
                % (fn, fn, fn, fn, n, fn, fn, fn, 1 if good else 2, fn, fn))
    MAIN = "fn main() -> int {\n    return 0\n}\nshadow main {\n    assert (== 1 1)\n}\n"
    splits = [[1], [2], [127], [128], [255], [256], [257], [511], [512], [768], [1024], [128, 128], [255, 1], [1, 255], [200, 56], [256, 256], [100, 100, 56], [3, 253]]
    if not quick:
        splits += [[32767], [32768], [65535], [65536], [65537], [131072], [65535, 1], [65280, 256]]
    for sp in splits:
        src, runs = "", []
        for k, n in enumerate(sp):
            src += block("c%d" % k, n, False)
            runs.append(["c%d" % k, False, n])
        src += block("ok", 3, True)
        runs.append(["ok", False, 0])
        out.append((src + MAIN, runs + [["main", False, 0]], []))
    return out


def compile_one(args):
    tdir, td, k, src = args
    p = os.path.join(td, "p%d.nano" % k)
    exe = os.path.join(td, "p%d.bin" % k)
    open(p, "w").write(src)
    try:
        c = subprocess.run([os.path.join(tdir, "bin", "nanoc_c"), p, "-o", exe], cwd=tdir, stdout=subprocess.PIPE, stderr=subprocess.PIPE, timeout=120)
    except subprocess.TimeoutExpired:
        return ("timeout", "", "", False, None)
    ran = None
    if os.path.exists(exe):
        try:
            r = subprocess.run([exe], stdout=subprocess.PIPE, stderr=subprocess.PIPE, timeout=20)
            ran = r.returncode
        except subprocess.TimeoutExpired:
            ran = "timeout"
    return (c.returncode, c.stdout.decode(errors="replace"), c.stderr.decode(errors="replace"), os.path.exists(exe), ran)


def stale_case(args):
    """build a passing program to an output path, then put a failing revision with an OLDER (or equal / newer)
    modification time at the same source path and build to the same output path: the second build must fail"""
    tdir, td, k, good, bad, age = args
    d = os.path.join(td, "stale%d" % k)
    os.makedirs(d, exist_ok=True)
    p, exe = os.path.join(d, "calc.nano"), os.path.join(d, "calc")
    nanoc = os.path.join(tdir, "bin", "nanoc_c")
    open(p, "w").write(good)
    c1 = subprocess.run([nanoc, p, "-o", exe], cwd=tdir, stdout=subprocess.PIPE, stderr=subprocess.PIPE, timeout=120)
    if c1.returncode != 0 or not os.path.exists(exe):
        return ("setup-failed", c1.stdout.decode(errors="replace")[-300:], c1.stderr.decode(errors="replace")[-300:])
    open(p, "w").write(bad)
    st = os.stat(exe)
    os.utime(p, (st.st_atime + age, st.st_mtime + age))
    c2 = subprocess.run([nanoc, p, "-o", exe], cwd=tdir, stdout=subprocess.PIPE, stderr=subprocess.PIPE, timeout=120)
    return (c2.returncode, c2.stdout.decode(errors="replace"), c2.stderr.decode(errors="replace"))


def run(ctx):
    info = common.prove(ctx, MODULE, [])
    quick = ctx.tier == "quick"
    tdir = build.tree("plain", ("vm", "bin/nanoc_c"))
    driver = common.build_driver()
    rng = ctx.rng
    progs = [gen_program(rng) for _ in range(40 if quick else 600)]
    progs += [gen_program(rng, force=True) for _ in range(16 if quick else 200)]
    progs += count_programs(quick)
    with tempfile.TemporaryDirectory(prefix="nvc06", dir="/var/tmp") as td:
        with ThreadPoolExecutor(16) as ex:
            res = list(ex.map(compile_one, [(tdir, td, k, p[0]) for k, p in enumerate(progs)]))
        # rebuild over an existing output
        good = "fn pct(x: int) -> int {\n    return (/ (* x 100) 4)\n}\nshadow pct {\n    assert (== (pct 1) 25)\n}\nfn main() -> int {\n    return 0\n}\nshadow main {\n    assert (== 1 1)\n}\n"
        bad = good.replace("(/ (* x 100) 4)", "(/ (* x 100) 5)")
        ages = [-3 * 86400, -2, 0, 5] if quick else [-30 * 86400, -3 * 86400, -3600, -2, -1, 0, 1, 5, 86400]
        with ThreadPoolExecutor(8) as ex:
            stale = list(ex.map(stale_case, [(tdir, td, k, good, bad, a) for k, a in enumerate(ages)]))
    stale_fail = []
    for a, (rc, out, err) in zip(ages, stale):
        ctx.case("stale-output age=%d" % a)
        if rc == "setup-failed":
            stale_fail.append({"why": "the passing revision does not build", "stdout": out, "stderr": err})
        elif rc == 0 or "Shadow test 'pct' FAILED" not in out:
            stale_fail.append({"why": "a failing revision whose source file is %d s %s than the existing output builds with exit %r and does not name the failing test" % (abs(a), "older" if a < 0 else "newer", rc),
                               "age_seconds": a, "exit": rc, "stdout": out[-300:], "stderr": err[-300:], "good_source": good, "bad_source": bad,
                               "replay": "nanoc good.nano -o calc; write bad revision to the same path with mtime = mtime(calc) + age; nanoc again to the same -o"})
    ctx.cov["stale_output_cases"] = len(ages)
    lines = ["gate 1 " + ",".join("%s:%d:%d" % (n, 1 if e else 0, f) for n, e, f in runs) for _, runs, _ in progs]
    pred = common.batch(driver, lines)[0]
    oracle_fail, disagreements = [], []
    nfail = 0
    for (src, runs, missing), (rc, out, err, exe, ran), pm in zip(progs, res, pred):
        ctx.case(src)
        truth_fail = any((not e) and f > 0 for n, e, f in runs)
        nfail += truth_fail
        ctx.count("programs_with_false_assertion" if truth_fail else "programs_all_true")
        reported = re.findall(r"Shadow test '(\w+)' FAILED: (\d+) assertion", out)
        # the property's own oracle on the implementation
        why = None
        if truth_fail:
            if rc == 0 or exe:
                why = "a shadow assertion is false but nanoc exit=%r and executable exists=%r" % (rc, exe)
            elif not reported:
                why = "failing shadow test is not named"
        else:
            if rc != 0 or not exe:
                why = "all shadow assertions hold but nanoc exit=%r, executable exists=%r" % (rc, exe)
        for m in missing:
            if ("Function '%s' is missing a shadow test" % m) not in err:
                why = why or "function %s without a shadow block is not reported" % m
        if why:
            oracle_fail.append({"why": why, "exit": rc, "stdout": out[-400:], "stderr": err[-400:], "expected_runs": runs, "source": src})
            continue
        # correspondence with the gate model: exit, reached transpilation, failing tests with counts
        w = dict(x.split("=", 1) for x in pm.split())
        got_fail = ",".join("%s:%s" % (n, k) for n, k in reported)
        got = "exit=%d transpile=%s failures=%s" % (0 if rc == 0 else 1, "true" if exe else "false", got_fail)
        want = "exit=%s transpile=%s failures=%s" % (w["exit"], w["transpile"], w["failures"])
        if got != want:
            disagreements.append((want, got, src))
    ctx.cov["programs"] = len(progs)
    ctx.cov["disagreements_checked"] = len(disagreements)
    ctx.cov["traces_validated_against_impl"] = len(progs)
    ctx.sample(progs[0][0][:600]); ctx.sample({"runs": progs[1][1]}); ctx.sample({"theorems": info.get("theorems", [])})
    ctx.cov["rule"] = ("generated programs with 2-8 shadow blocks: a false assertion (known by construction) first / last / inside a loop (counted per iteration) / after passing ones / "
                       "in a callee / under an if / after a loop whose last iteration ends in continue or break, after a for loop with continue, after a nested block / in a skipped extern-using block; rebuild of a failing revision over an existing output with older, equal and newer source time stamps; plus all-true controls and functions without shadow block; nanoc exit status, FAILED lines and "
                       "existence of the -o file compared with the Lean gate model and with the property's iff; distinct by source text")
    oracle_fail = stale_fail + oracle_fail
    for f in oracle_fail[:3]:
        ctx.violation({"kind": "oracle", "detail": f})
    if not oracle_fail:
        if not info["ok"]:
            ctx.violation({"kind": "proof-obligation", "theorem_module": MODULE, "broken": info["broken"], "searched": "%d programs: oracle true on all" % len(progs)}, no_input=True)
        elif disagreements:
            ctx.violation({"kind": "correspondence", "which": "gate model != nanoc", "first": [list(x) for x in disagreements[:3]], "count": len(disagreements)}, no_input=True)
    return ctx.finish(info["obligations"], info["discharged"])
