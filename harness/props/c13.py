"""C13 — no bytecode input can make the loader, verifier or VM misbehave."""
import os

from .. import build, common, corpus, gen_mod, nvm

MODULE = "NanoVerif.Props.C13"


def classify(reply):
    """(class, res, out) of a vm.run reply"""
    if reply.startswith("CRASH"):
        return ("crash", None, None)
    if not reply.startswith("R "):
        return (reply.split()[0] if reply else "empty", None, None)
    w = dict(x.split("=", 1) for x in reply[2:].split())
    return ("run", w.get("res"), w.get("out"))


def run(ctx):
    info = common.prove(ctx, MODULE, ["nvm", "isa"])
    quick = ctx.tier == "quick"
    tdir = build.tree("asan", ("vm",))
    probe = build.probe("vm_probe", tdir, ("isa", "vm", "common"), "asan")
    driver = common.build_driver()
    env = dict(os.environ, ASAN_OPTIONS="detect_leaks=0:abort_on_error=0", UBSAN_OPTIONS="print_stacktrace=0")
    rng = ctx.rng
    L = nvm.layout()
    tab = nvm.isa_table()
    fuel = 4000

    plain = build.tree("plain", ("vm",))     # compiler-produced files come from the ordinary build
    files = [(s, b) for s, b in corpus.nvm_corpus(plain) if len(b) <= (4000 if quick else 20000)]
    seen, uniq = set(), []
    for s, b in files:
        if b not in seen:
            seen.add(b); uniq.append((s, b))
    rng.shuffle(uniq)
    bases = uniq[:(10 if quick else 60)]
    cases = []   # (label, bytes)
    for s, b in bases:
        m = nvm.parse(b, L)
        if m is None:
            continue
        nm = os.path.basename(s)
        cases.append((nm + ":orig", b))
        for lab, d in gen_mod.field_mutants(m, L, rng, exhaustive=not quick, per_field=2 if quick else 3):
            cases.append((nm + ":" + lab, d))
        for lab, d in gen_mod.code_mutants(m, L, tab, rng, count=25 if quick else 150):
            cases.append((nm + ":" + lab, d))
    # capacity boundaries on two small modules
    for s, b in sorted(bases, key=lambda x: len(x[1]))[:2]:
        m = nvm.parse(b, L)
        if m:
            for lab, d in gen_mod.capacity_mutants(m, L, rng):
                cases.append((os.path.basename(s) + ":" + lab, d))
    # minimised past disagreements run first in every tier
    import glob
    for f in sorted(glob.glob(os.path.join(build.VERIF, "corpus", "modules", "*.hex"))):
        cases.append(("corpus:" + os.path.basename(f), bytes.fromhex(open(f).read().strip())))
    # every integer operation at every pair of boundary operands (1872 tiny modules; all tiers)
    for lab, d in gen_mod.arith_boundary_modules(L, tab):
        cases.append((lab, d))
    # values that contain themselves (array, hashmap as value / key / ring, struct), printed, compared, converted, dropped
    for lab, d in gen_mod.short_stack_call_modules(L, tab):
        cases.append((lab, d))
    for lab, d in gen_mod.cyclic_modules(L, tab):
        cases.append((lab, d))
    # synthetic instruction soups
    nsyn = 400 if quick else 6000
    for k in range(nsyn):
        m = gen_mod.synthetic(L, tab, rng, n_instr=rng.choice([4, 8, 15, 30]))
        cases.append(("synthetic-%d" % k, m.build(L)))
        m = gen_mod.typed_program(L, tab, rng, n_steps=rng.choice([10, 25, 50]))
        cases.append(("typed-%d" % k, m.build(L)))
    # raw bytes (with and without a valid header / checksum)
    from .. import crcutil
    for k in range(150 if quick else 3000):
        n = rng.choice([0, 1, 31, 32, 33, 44, 60, 100, 300])
        raw = bytes(rng.getrandbits(8) for _ in range(n))
        cases.append(("random-%d" % k, raw))
        if n >= 32:
            hdr = b"NVM\x01" + (1).to_bytes(4, "little") + raw[8:16] + rng.choice([0, 1, 2, 3, 16, 17]).to_bytes(4, "little") + raw[20:]
            cases.append(("random-hdr-%d" % k, crcutil.fix_checksum(hdr)))
    ctx.cov["bases"] = len(bases)
    ctx.cov["cases"] = len(cases)
    # values nested up to 100000 containers deep: the instruction budget is generous (millions), so these run on the implementation
    # only (the list-based model would need hours); the oracle is the property's own: a normal result or a reported error, no crash
    deep = gen_mod.deep_value_modules(L, tab)
    dl = ["vm.run %d 0 %s" % (fu, common.hexs(d)) for _, d, fu in deep]
    dp = common.batch_robust(probe, dl, timeout=3000, env=env)
    deep_fail = []
    for (lab, d, fu), c in zip(deep, dp):
        ctx.case(lab)
        if classify(c)[0] == "crash" or "dangling=true" in c or not c.startswith("R "):
            deep_fail.append({"case": lab, "impl": c[:300], "why": "a value nested that deep makes the implementation crash (C stack exhausted by a recursive walk) or misbehave",
                              "module_hex": d.hex(), "fuel": fu})
    ctx.cov["deep_value_modules"] = len(deep)

    lines = ["vm.run %d 0 %s" % (fuel, common.hexs(d)) for _, d in cases]
    md = common.batch(driver, lines, timeout=3000)[0]
    pd = common.batch_robust(probe, lines, timeout=3000, env=env)
    oracle_fail, disagreements = list(deep_fail), []
    klass = {}
    for (lab, d), a, c in zip(cases, md, pd):
        ca, cc = classify(a), classify(c)
        key = cc[0] if cc[0] != "run" else "run:" + str(cc[1])[:24]
        klass[key] = klass.get(key, 0) + 1
        nontriv = cc[0] in ("run", "verifyfail", "has-imports") or lab.endswith(":orig")
        ctx.case(lab.split(":")[-1] + d.hex()[-48:] + str(len(d)), nontrivial=nontriv)
        if cc[0] == "crash":
            oracle_fail.append({"case": lab, "impl": c[:300], "model": a[:200], "why": "implementation crashed / sanitizer report", "module_hex": d.hex()})
            continue
        if cc[0] == "run" and cc[1] in ("13", "4"):
            # a verified module made the VM report a decode / invalid-opcode error: allowed only off the verifier's walk
            w = dict(x.split("=", 1) for x in c[2:].split())
            mm = nvm.parse(d, L)
            try:
                f = mm.functions[int(w["efn"])]
                rel = int(w["eip"]) - f[2]
                body = mm.code[f[2]:f[2] + f[3]]
                walked = {p for p, _, _ in nvm.decode_stream(body, tab)}
                on_walk = (cc[1] == "13" and rel in walked) or (cc[1] == "4" and any(p < rel <= p + 1 + sum(sz for _, sz in tab[o][1]) for p, o, _ in nvm.decode_stream(body, tab) if p + 1 + sum(sz for _, sz in tab[o][1]) == rel))
            except Exception:
                on_walk = False
            if on_walk:
                oracle_fail.append({"case": lab, "impl": c[:300], "why": "verifier accepted the module but the VM reports a decode/invalid-opcode error at a position the verifier walked", "module_hex": d.hex()})
                continue
        if "dangling=true" in c:
            oracle_fail.append({"case": lab, "impl": c[:300], "why": "implementation touched a freed heap object", "module_hex": d.hex()})
            continue
        if a.startswith(("load-oob",)) or "OOB(" in a or "DANGLING(" in a:
            # the model says the code would leave its own tables: report with the implementation's behaviour
            oracle_fail.append({"case": lab, "impl": c[:300], "model": a[:300], "why": "model predicts an out-of-bounds / dangling access", "module_hex": d.hex()})
            continue
        if ca[0] == "run" and ca[1] is not None and ca[1].startswith("unsupported(") and ca[1] != "unsupported(fuel)":
            ctx.count("unsupported_by_model")
            continue
        if ca[0] != cc[0]:
            disagreements.append((lab, a[:200], c[:200], d.hex()))
        elif ca[0] == "run":
            same = (ca[1] == cc[1] and ca[2] == cc[2]) if ca[1] != "0" else (a == c)
            if not same:
                disagreements.append((lab, a[:300], c[:300], d.hex()))
    ctx.cov["verdict_classes"] = dict(sorted(klass.items(), key=lambda x: -x[1])[:16])
    for lab, d in cases[:1] + cases[len(cases) // 2:len(cases) // 2 + 2]:
        ctx.sample({"case": lab, "bytes": len(d)})
    ctx.sample({"theorems": info.get("theorems", [])})
    ctx.cov["disagreements_checked"] = len(disagreements)
    ctx.cov["traces_validated_against_impl"] = len(cases)
    ctx.cov["rule"] = ("structure-aware mutants of compiler-produced modules (every header/directory/function/string/import field at boundary values, "
                       "operand/splice/reorder/truncate/mid-instruction-jump mutations, capacity crossings), synthetic instruction sequences over all opcodes, "
                       "random bytes; each run through nvm_deserialize -> nvm_verify -> vm_execute(fuel) built with ASan+UBSan and through the Lean model; "
                       "non-trivial = reaches the verifier or the VM; distinct by label+tail hash")

    for f in oracle_fail[:3]:
        ctx.violation({"kind": "oracle", "detail": f, "replay_with": "echo 'vm.run %d 0 <module_hex>' | <vm_probe built with ASan>" % fuel})
    if not oracle_fail:
        if not info["ok"]:
            ctx.violation({"kind": "proof-obligation", "theorem_module": MODULE, "broken": info["broken"],
                           "searched": "%d hostile modules on the implementation under ASan+UBSan: no crash, no sanitizer report" % len(cases)}, no_input=True)
        elif disagreements:
            ctx.violation({"kind": "correspondence", "which": "vm.run model != implementation",
                           "first": [dict(case=l, model=a, impl=c, module_hex=h) for l, a, c, h in disagreements[:5]], "count": len(disagreements)}, no_input=True)
    return ctx.finish(info["obligations"], info["discharged"])
