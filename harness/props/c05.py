"""C05 — ill-formed programs are never turned into a runnable artifact."""
import binascii
import collections
import os
import subprocess
import tempfile
from concurrent.futures import ThreadPoolExecutor

from .. import build, common, gen_tc

MODULE = "NanoVerif.Props.C05"


def run_tool(args):
    tdir, tool, path = args
    outp = path + "." + tool + ".out"
    if tool == "nanoc":
        cmd = [os.path.join(tdir, "bin", "nanoc_c"), path, "-o", outp]
    elif tool == "virt-run":
        cmd = [os.path.join(tdir, "bin", "nano_virt"), path, "--run"]
    else:
        cmd = [os.path.join(tdir, "bin", "nano_virt"), path, "--emit-nvm", "-o", outp]
    try:
        p = subprocess.run(cmd, cwd=tdir, stdout=subprocess.PIPE, stderr=subprocess.PIPE, timeout=120)
        art = os.path.exists(outp)
        if art:
            os.unlink(outp)
        return {"rc": p.returncode, "artifact": art, "stdout": p.stdout[-300:], "diag": len(p.stderr) + len(p.stdout) > 0, "err": (p.stderr[-300:] + p.stdout[-200:]).decode(errors="replace")}
    except subprocess.TimeoutExpired:
        return {"rc": "timeout", "artifact": False, "stdout": b"", "diag": False, "err": ""}


def run(ctx):
    info = common.prove(ctx, MODULE, ["front"])
    quick = ctx.tier == "quick"
    tdir = build.tree("plain", ("vm", "bin/nanoc_c"), hooks=False)
    driver = common.build_driver()
    rng = ctx.rng
    oracle_fail, disagreements = [], []
    cases = []       # (kind, rule, what, text)
    for b in range(3 if quick else 40):
        text, N = gen_tc.base(rng)
        cases.append(("base", "-", "well-typed base %d" % b, text))
        for rule, what, mt in gen_tc.mutants(text, N):
            cases.append(("mutant", rule, what, mt))
    # the same rules violated inside an imported module: the importing program is well typed, the module is not
    modfiles = {}
    for b in range(2 if quick else 12):
        mname = "mod%d_%d" % (b, rng.randrange(10 ** 6))
        good = ("pub fn twice(a: int) -> int {\n    return (+ a a)\n}\nshadow twice { assert (== (twice 2) 4) }\n"
                "pub fn tag(s: string) -> string {\n    return (+ s \"!\")\n}\nshadow tag { assert (== 1 1) }\n")
        main = ("from \"%s.nano\" import twice, tag\nfn main() -> int {\n    (println (twice %d))\n    (println (tag \"a\"))\n    return 0\n}\nshadow main { assert (== 1 1) }\n"
                % (mname, rng.randint(1, 99)))
        variants = [("base", "-", "well-typed module %d" % b, good)]
        for rule, what, old, new in [("operand-type", "module: + int string", "(+ a a)", "(+ a \"x\")"), ("return-type", "module: string from int fn", "return (+ a a)", "return \"s\""),
                                     ("unknown-name", "module: variable", "(+ a a)", "(+ a zz_undefined)"), ("unknown-name", "module: function", "(+ a a)", "(zz_nofn a)"),
                                     ("missing-return", "module: no return", "    return (+ s \"!\")\n", "    (println s)\n"), ("arity", "module: too many", "(+ a a)", "(twice a a)"),
                                     ("non-bool-condition", "module: if int", "    return (+ a a)\n", "    if a {\n        return 1\n    }\n    return (+ a a)\n")]:
            variants.append(("mutant", rule, what, good.replace(old, new, 1)))
        for v, (kind, rule, what, mtext) in enumerate(variants):
            mn = "%s_v%d" % (mname, v)
            cases.append((kind, rule, what, main.replace(mname, mn)))
            modfiles[len(cases) - 1] = (mn + ".nano", mtext)
    # fixed witnesses: rule violations in the places a single-point mutation of the base program does not reach
    W = [("missing-return", "conditional without else in last position",
          "fn f(a: int) -> int {\n    if (> a 0) {\n        return 1\n    }\n}\nshadow f {\n    assert (== (f 1) 1)\n}\nfn main() -> int {\n    (println (f 0))\n    return 0\n}\nshadow main {\n    assert (== 1 1)\n}\n"),
         ("missing-return", "while loop in last position",
          "fn f(a: int) -> int {\n    let mut i: int = 0\n    while (< i a) {\n        set i (+ i 1)\n    }\n}\nshadow f {\n    assert true\n}\nfn main() -> int {\n    (println (f 3))\n    return 0\n}\nshadow main {\n    assert (== 1 1)\n}\n"),
         ("missing-return", "for loop in last position, returns only inside it",
          "fn f(a: int) -> int {\n    for k in (range 0 a) {\n        if (> k 1) {\n            return k\n        }\n    }\n}\nshadow f {\n    assert true\n}\nfn main() -> int {\n    (println (f 1))\n    return 0\n}\nshadow main {\n    assert (== 1 1)\n}\n"),
         ("immutable", "set inside a block arm of a match used as an expression",
          "union R {\n    Ok { value: int },\n    Err { error: string }\n}\nfn main() -> int {\n    let r: R = R.Ok { value: 42 }\n    let k: int = 5\n    let y: int = match r {\n        Ok(v) => {\n            set k 9\n            return v.value\n        }\n"
          "        Err(e) => {\n            return 0\n        }\n    }\n    (println y)\n    (println k)\n    return 0\n}\nshadow main {\n    assert (== 1 1)\n}\n"),
         ("argument-type", "built-in without parameter record: (str_length 5)",
          "fn main() -> int {\n    let n: int = (str_length 5)\n    (println n)\n    return 0\n}\nshadow main { assert (== 1 1) }\n"),
         ("argument-type", "built-in without parameter record: (at arr \"x\")",
          "fn main() -> int {\n    let arr: array<int> = [1, 2, 3]\n    let i: string = \"x\"\n    let v: int = (at arr i)\n    (println v)\n    return 0\n}\nshadow main { assert (== 1 1) }\n"),
         ("arity", "call inside a shadow block",
          "fn f(a: int) -> int { return (+ a 1) }\nshadow f {\n    assert (== (f 1 2) 2)\n}\nfn main() -> int {\n    (println (f 1))\n    return 0\n}\nshadow main { assert (== 1 1) }\n"),
         ("arity", "call through a function-typed parameter",
          "fn inc(a: int) -> int { return (+ a 1) }\nshadow inc { assert (== (inc 1) 2) }\nfn app(g: fn(int) -> int, v: int) -> int {\n    return (g v v)\n}\nshadow app { assert (== 1 1) }\nfn main() -> int {\n    (println (app inc 1))\n    return 0\n}\nshadow main { assert (== 1 1) }\n")]
    # values the checker cannot type by itself - an element of an array that is a call result - in every position that has an
    # expected type; rule violations in the initialiser of a top-level constant, followed by well-typed functions
    SC = "fn scores() -> array<int> {\n    return [10, 20, 30]\n}\nshadow scores { assert (== (array_length (scores)) 3) }\nfn banner(title: string) -> int {\n    return (str_length title)\n}\nshadow banner { assert (== (banner \"ab\") 2) }\n"
    MAINT = "fn main() -> int {\n%s    return 0\n}\nshadow main { assert (== 1 1) }\n"
    W += [("argument-type", "argument is (at <call> i) of the wrong element type", SC + MAINT % "    (println (banner (at (scores) 0)))\n"),
          ("return-type", "returned value is (at <call> i) of the wrong element type", SC + "fn pick() -> string {\n    return (at (scores) 1)\n}\nshadow pick { assert (== 1 1) }\n" + MAINT % "    (println (pick))\n"),
          ("let-type", "initialiser is (at <call> i) of the wrong element type", SC + MAINT % "    let s: string = (at (scores) 2)\n    (println s)\n"),
          ("operand-type", "operand is (array_get <call> i) of the wrong element type", SC + MAINT % "    let b: bool = (and true (array_get (scores) 0))\n    (println b)\n")]
    for k, (rule, init) in enumerate([("operand-type", "(< limit \"20\")"), ("operand-type", "(and limit true)"), ("operand-type", "(== limit \"10\")"), ("operand-type", "(not limit)")]):
        W.append((rule, "top-level constant initialiser %s" % init,
                  "let limit: int = 10\nlet strict: bool = %s\nfn clamp(n: int) -> int {\n    if (> n limit) {\n        return limit\n    }\n    return n\n}\nshadow clamp { assert (== (clamp 50) 10) }\n" % init
                  + MAINT % "    if strict {\n        (println \"strict\")\n    } else {\n        (println \"lax\")\n    }\n"))
    # consumed resources: the first consumption sits in every control-flow position, the second use follows it
    RES = ("resource struct FileHandle {\n    fd: int\n}\nfn open_file(fd: int) -> FileHandle {\n    return FileHandle { fd: fd }\n}\nshadow open_file { assert true }\n"
           "fn close_file(f: FileHandle) -> void {\n    (println \"File closed\")\n}\nshadow close_file { assert true }\n"
           "fn peek(f: FileHandle) -> int {\n    return 1\n}\nshadow peek { assert true }\n")
    FIRST = [("straight line", "    (close_file f)\n"),
             ("then-branch", "    if (> limit 2) {\n        (close_file f)\n    }\n"),
             ("else-branch", "    if (> limit 2) {\n        (println 1)\n    } else {\n        (close_file f)\n    }\n"),
             ("both branches", "    if (> limit 2) {\n        (close_file f)\n    } else {\n        (close_file f)\n    }\n    (println 0)\n"),
             ("loop body", "    while (< i limit) {\n        (close_file f)\n        set i (+ i limit)\n    }\n"),
             ("branch ending in break", "    while (< i limit) {\n        if (== i 2) {\n            (close_file f)\n            break\n        }\n        set i (+ i 1)\n    }\n"),
             ("branch ending in continue", "    while (< i limit) {\n        set i (+ i 1)\n        if (== i 2) {\n            (close_file f)\n            continue\n        }\n    }\n"),
             ("else-branch ending in break", "    while (< i limit) {\n        if (< i 2) {\n            set i (+ i 1)\n        } else {\n            (close_file f)\n            break\n        }\n    }\n"),
             ("for body with break", "    for k in (range 0 limit) {\n        if (== k 1) {\n            (close_file f)\n            break\n        }\n    }\n"),
             ("nested block", "    {\n        (close_file f)\n    }\n"),
             ("nested conditionals", "    if (> limit 1) {\n        if (> limit 2) {\n            (close_file f)\n        }\n    }\n")]
    FIRST.append(("straight line, then a block that shadows the name", "    (close_file f)\n    if (> limit 0) {\n        let f: int = 3\n        (println f)\n    }\n"))
    SECOND = [("consumed again", "    (close_file f)\n"), ("passed on", "    (println (peek f))\n"),
              ("consumed again in a branch", "    if (> limit 0) {\n        (close_file f)\n    }\n")]
    for fw, ftxt in FIRST:
        for sw, stxt in SECOND:
            W.append(("consumed-resource", "first consumption in %s, then %s" % (fw, sw),
                      RES + "fn scan(limit: int) -> int {\n    let f: FileHandle = (open_file 3)\n    let mut i: int = 0\n" + ftxt + stxt
                      + "    return i\n}\nshadow scan { assert true }\n" + MAINT % "    (println (scan 5))\n"))
    for rule, what, text in W:
        cases.append(("witness", rule, what, text))
    try:
        cases.append(("witness", "consumed-resource", "use after consume (tests/test_resource_use_after_consume.nano)", open(os.path.join(tdir, "tests", "test_resource_use_after_consume.nano")).read()))
    except OSError:
        pass
    # the repository's own negative tests: every one of them names a compile-time rule (the two listed ones are run-time errors)
    import glob as _glob
    for f in sorted(_glob.glob(os.path.join(tdir, "tests", "negative", "**", "*.nano"), recursive=True)):
        if os.path.basename(f) in ("array_negative_index.nano",):
            continue
        cases.append(("witness", "negative-corpus", "tests/negative/" + os.path.relpath(f, os.path.join(tdir, "tests", "negative")), open(f).read()))
    tools = ["virt-run", "virt-emit", "nanoc"]
    with tempfile.TemporaryDirectory(prefix="nvc05", dir="/var/tmp") as td:
        jobs = []
        for i, (kind, rule, what, text) in enumerate(cases):
            p = os.path.join(td, "c%d.nano" % i)
            open(p, "w").write(text)
            if i in modfiles:
                open(os.path.join(td, modfiles[i][0]), "w").write(modfiles[i][1])
            for t in tools:
                if t == "nanoc" and quick and kind == "mutant" and i % 3 != 0:
                    jobs.append(None)
                else:
                    jobs.append((tdir, t, p))
        with ThreadPoolExecutor(16) as ex:
            res = list(ex.map(lambda j: run_tool(j) if j else None, jobs))
        # the specification checker is single-file: for the module cases it judges the module text
        mout = common.batch(driver, ["tc " + binascii.hexlify((modfiles[i][1].replace("pub fn", "fn") + "fn main() -> int {\n    return 0\n}\nshadow main { assert (== 1 1) }\n" if i in modfiles else c[3]).encode()).decode()
                                     for i, c in enumerate(cases)], timeout=3000)[0]
    per_rule = collections.Counter()
    accepted_by = collections.Counter()
    known_used = set()
    for i, (kind, rule, what, text) in enumerate(cases):
        ctx.case(text)
        model = mout[i]
        rs = res[3 * i: 3 * i + 3]
        if kind == "base":
            if model != "accept":
                disagreements.append({"program": what, "model": model, "impl": "well-typed by construction", "source": text})
            for t, r in zip(tools, rs):
                if r and r["rc"] != 0:
                    oracle_fail.append({"why": "well-typed base program rejected by %s (the mutation catalogue would be vacuous)" % t, "diag": r["err"], "source": text})
            continue
        per_rule[rule] += 1
        if kind != "witness" and model not in ("reject", "parse-error") and not (model == "unsupported" and rule == "extern-outside-unsafe"):
            disagreements.append({"rule": rule, "what": what, "model": model, "expected": "reject", "source": text})
        for t, r in zip(tools, rs):
            if r is None:
                continue
            ctx.evals += 1
            bad = None
            if r["rc"] == 0:
                bad = "accepted (exit 0)"
            elif r["artifact"]:
                bad = "exit %s but an output file was written" % r["rc"]
            elif not r["diag"]:
                bad = "rejected without a diagnostic"
            elif t == "virt-run" and r["rc"] != 0 and b"big" in r["stdout"] and False:
                bad = "program output"
            if not bad:
                continue
            accepted_by[(rule, t)] += 1
            fid = None
            for k, f in ctx.findings.items():
                if f.get("status") == "known" and f.get("match_rule") == rule and (not f.get("match_what") or what in f["match_what"]) and (not f.get("match_tools") or t in f["match_tools"]):
                    fid = k
            if fid:
                if fid not in known_used:
                    ctx.known(fid, ctx.findings[fid]["what"][:220])
                    known_used.add(fid)
                continue
            oracle_fail.append({"rule": rule, "what": what, "tool": t, "why": "rule-violating program is " + bad, "module": modfiles.get(i), "artifact": r["artifact"], "stdout_tail": r["stdout"].decode(errors="replace"),
                                "diag_tail": r["err"], "source": text})
    ctx.cov["base_programs"] = sum(1 for c in cases if c[0] == "base")
    ctx.cov["mutants"] = sum(1 for c in cases if c[0] == "mutant")
    ctx.cov["mutants_per_rule"] = dict(per_rule)
    ctx.cov["accepted_by_rule_and_tool"] = {"%s/%s" % k: v for k, v in accepted_by.items()}
    ctx.cov["disagreements_checked"] = len(disagreements)
    ctx.cov["traces_validated_against_impl"] = len(cases)
    ctx.sample(cases[1][3][:400]); ctx.sample({"theorems": info.get("theorems", [])})
    ctx.cov["rule"] = ("well-typed base programs (random names, constants, optional statements) x every applicable single-point mutation of the rule catalogue (operand/argument type, arity, "
                       "unknown and out-of-scope names, immutable variable/parameter/global, missing return, return type, non-bool condition, undefined field, extern outside unsafe, break "
                       "outside loop, let type), and the same violations placed in an imported module of a well-typed program: nanoc, nano_virt --run and nano_virt --emit-nvm must each exit non-zero with a diagnostic and write no file; the Lean specification "
                       "checker must reject every mutant and accept every base")
    for f in oracle_fail[:3]:
        ctx.violation({"kind": "oracle", "detail": f})
    ctx.cov["oracle_failures"] = len(oracle_fail)
    if not oracle_fail:
        if not info["ok"]:
            ctx.violation({"kind": "proof-obligation", "theorem_module": MODULE, "broken": info["broken"], "searched": "%d mutants x 3 tools: all rejected" % ctx.cov["mutants"]}, no_input=True)
        elif disagreements:
            ctx.violation({"kind": "correspondence", "which": "specification checker (Lean) vs rule catalogue", "first": disagreements[:3], "count": len(disagreements)}, no_input=True)
    return ctx.finish(info["obligations"], info["discharged"])
