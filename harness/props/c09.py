"""C09 — the front end is total: every input ends in acceptance or a diagnostic."""
import binascii
import glob
import os
import random
import re
import subprocess
import tempfile
from concurrent.futures import ThreadPoolExecutor

from .. import build, common, corpus, gen_prog

MODULE = "NanoVerif.Props.C09"
TIME_LIMIT = 20

KEYWORDS = ["fn", "let", "mut", "set", "if", "else", "while", "for", "in", "return", "break", "continue", "assert", "shadow", "struct", "enum", "union", "match",
            "import", "unsafe", "extern", "pub", "module", "from", "use", "as", "cond", "requires", "ensures", "array", "int", "bool", "string", "void", "float",
            "and", "or", "not", "true", "false", "resource", "opaque"]
PUNCT = ["(", ")", "{", "}", "[", "]", ",", ":", "::", "->", "=>", "=", "==", "!=", "<", "<=", ">", ">=", "+", "-", "*", "/", "%", ".", "\"", "'", "#", "/*", "*/", "\\", "@", "$", "!", "~"]

TOKEN_RE = re.compile(rb'"(?:\\.|[^"\\])*"|\'(?:\\.|[^\'\\])\'|[A-Za-z_][A-Za-z0-9_]*|-?\d+(?:\.\d+)?|::|->|=>|==|!=|<=|>=|\S')


def tokens_of(b):
    return TOKEN_RE.findall(b)


def token_mutant(rng, src):
    t = tokens_of(src)
    if not t:
        return src
    n = rng.choice([1, 1, 1, 2, 3])
    for _ in range(n):
        k = rng.randrange(len(t)) if t else 0
        c = rng.random()
        if c < 0.25 and t:
            del t[k]
        elif c < 0.45:
            t.insert(k, rng.choice(KEYWORDS + PUNCT).encode())
        elif c < 0.6 and t:
            t[k] = rng.choice(KEYWORDS + PUNCT).encode()
        elif c < 0.7 and len(t) > 1:
            j = rng.randrange(len(t)); t[k], t[j] = t[j], t[k]
        elif c < 0.8 and t:
            t.insert(k, t[k])
        elif c < 0.9 and t:
            a, b = sorted((rng.randrange(len(t)), rng.randrange(len(t)))); del t[a:b]
        else:
            t = t[:k]
    return b" ".join(t) + b"\n"


def byte_mutant(rng, src):
    b = bytearray(src)
    n = rng.choice([1, 1, 2, 5])
    for _ in range(n):
        if not b:
            break
        k = rng.randrange(len(b))
        c = rng.random()
        if c < 0.3:
            b[k] = rng.randrange(256)
        elif c < 0.5:
            b[k] ^= 1 << rng.randrange(8)
        elif c < 0.65:
            del b[k]
        elif c < 0.8:
            b.insert(k, rng.choice(b'(){}[]"\'\\#/*-<>=:., \n\t\x00\x7f\x80\xff'))
        elif c < 0.9:
            b = b[:k]
        else:
            j = rng.randrange(len(b)); b[k:k] = b[j:j + rng.randrange(1, 40)]
    return bytes(b)


def nesting_inputs(rng, quick):
    """deep and wide inputs around the documented limits (parser 1000 levels, type checker 2000)"""
    out = []
    depths = [10, 500, 999, 1000, 1001, 1500, 2100] + ([] if quick else [5000, 20000, 200000])
    for d in depths:
        out.append(("parens-%d" % d, ("fn main() -> int {\n    return " + "(+ 1 " * d + "1" + ")" * d + "\n}\nshadow main { assert (== 1 1) }\n").encode()))
        out.append(("blocks-%d" % d, ("fn main() -> int {\n" + "if true { " * d + "(println 1)" + " }" * d + "\n    return 0\n}\nshadow main { assert (== 1 1) }\n").encode()))
        out.append(("not-chain-%d" % d, ("fn main() -> int {\n    let b: bool = " + "not " * d + "true\n    return 0\n}\nshadow main { assert (== 1 1) }\n").encode()))
        out.append(("neg-chain-%d" % d, ("fn main() -> int {\n    let x: int = 3\n    let y: int = " + "- " * d + "x\n    return 0\n}\nshadow main { assert (== 1 1) }\n").encode()))
        out.append(("array-type-%d" % d, ("fn main() -> int {\n    let a: " + "array<" * d + "int" + ">" * d + " = []\n    return 0\n}\nshadow main { assert (== 1 1) }\n").encode()))
        out.append(("infix-chain-%d" % d, ("fn main() -> int {\n    let x: int = 1" + " + 1" * d + "\n    return 0\n}\nshadow main { assert (== 1 1) }\n").encode()))
        out.append(("else-if-chain-%d" % d, ("fn main() -> int {\n    let x: int = 1\n    if (== x 0) { (println 0) }" + " else if (== x 1) { (println 1) }" * min(d, 3000) + "\n    return 0\n}\nshadow main { assert (== 1 1) }\n").encode()))
        out.append(("unclosed-parens-%d" % d, ("fn main() -> int {\n    return " + "(+ 1 " * d).encode()))
        out.append(("nested-fn-%d" % d, ("fn main() -> int {\n" + "".join("fn h%d() -> int {\n" % i for i in range(d)) + "return 1\n" + "}\n" * d + "    return 0\n}\nshadow main { assert (== 1 1) }\n").encode()))
    # nested element-wise array arithmetic: checking time must stay linear in the nesting depth
    for d in (8, 24, 32, 48, 64, 200):
        out.append(("array-arith-nest-%d" % d, ("fn main() -> int {\n    let a: array<int> = [1, 2, 3]\n    let r: array<int> = " + "(+ " * d + "a" + " a)" * d + "\n    (println (array_length r))\n    return 0\n}\nshadow main { assert (== 1 1) }\n").encode()))
        out.append(("array-arith-nest-right-%d" % d, ("fn main() -> int {\n    let a: array<int> = [1, 2, 3]\n    let r: array<int> = " + "(* a " * d + "a" + ")" * d + "\n    (println (array_length r))\n    return 0\n}\nshadow main { assert (== 1 1) }\n").encode()))
    # beyond every limit, through each recursive construct (cheap on a front end that stops at its nesting limit)
    big = 30000
    out.append(("nested-fn-%d" % big, ("fn main() -> int {\n" + "".join("fn h%d() -> int {\n" % i for i in range(big)) + "return 1\n" + "}\n" * big + "    return 0\n}\n").encode()))
    out.append(("parens-%d" % big, ("fn main() -> int {\n    return " + "(+ 1 " * big + "1" + ")" * big + "\n}\n").encode()))
    out.append(("blocks-%d" % big, ("fn main() -> int {\n" + "if true { " * big + "(println 1)" + " }" * big + "\n    return 0\n}\n").encode()))
    out.append(("not-chain-%d" % big, ("fn main() -> int {\n    let b: bool = " + "not " * big + "true\n    return 0\n}\n").encode()))
    out.append(("array-type-%d" % big, ("fn main() -> int {\n    let a: " + "array<" * big + "int" + ">" * big + " = []\n    return 0\n}\n").encode()))
    # exact token counts around powers of two
    for n in (63, 64, 65, 127, 128, 129, 255, 256, 257, 511, 512, 513, 1023, 1024, 1025, 4096):
        body = "fn main() -> int {\n    return 0\n}\nshadow main { assert (== 1 1) }\n"
        base = len(tokens_of(body.encode()))
        pad = n - base
        if pad >= 0:
            k = pad // 6
            rest = pad - 6 * k
            src = "".join("let g%d: int = %d\n" % (i, i) for i in range(k)) + body
            src = src.replace("return 0", "return " + "(+ 0 " * (rest // 4) + "0" + ")" * (rest // 4)) if rest >= 4 else src
            out.append(("tokens-%d" % n, src.encode()))
    # names and parameter lists around every plausible fixed buffer size, in each naming position (front end: the type checker
    # mangles names of generic instantiations, modules, struct/enum/union members into fixed buffers)
    def nm(prefix, n):
        return (prefix + "A" * n)[:n] if n >= len(prefix) else prefix[:max(1, n)]
    SH = "shadow %s { assert (== 1 1) }\n"
    for n in (31, 63, 64, 127, 128, 255, 256, 300, 505, 506, 511, 512, 513, 520, 1023, 1024, 1100, 2048, 4100):
        A, B = nm("Sensor", n), nm("Sample", max(40, n // 13))
        out.append(("long-generic-arg-%d" % n, ("struct %s {\n    id: int\n}\nstruct %s {\n    reading: int\n}\nunion Either<L, R> {\n    Left { value: L },\n    Right { value: R }\n}\n"
                    "fn pick(id: int) -> Either<%s, %s> {\n    let s: %s = %s { id: id }\n    let e: Either<%s, %s> = Either<%s, %s>.Left { value: s }\n    return e\n}\n" % (A, B, A, B, A, A, A, B, A, B)
                    + SH % "pick" + "fn main() -> int {\n    let e: Either<%s, %s> = (pick 7)\n    (println \"ok\")\n    return 0\n}\n" % (A, B) + SH % "main").encode()))
        out.append(("long-generic-union-name-%d" % n, ("union %s<T> {\n    Some { value: T },\n    None { }\n}\nfn pick(id: int) -> %s<int> {\n    return %s<int>.Some { value: id }\n}\n" % (nm("Opt", n), nm("Opt", n), nm("Opt", n))
                    + SH % "pick" + "fn main() -> int {\n    let e: %s<int> = (pick 7)\n    (println \"ok\")\n    return 0\n}\n" % nm("Opt", n) + SH % "main").encode()))
        V = nm("value", n)
        out.append(("long-names-%d" % n, ("struct %s {\n    %s: int\n}\nenum %s {\n    %s = 1,\n    %s = 2\n}\nunion %s {\n    %s { %s: int },\n    %s { }\n}\n" % (nm("Str", n), nm("fld", n), nm("Enm", n), nm("Va", n), nm("Vb", n), nm("Uni", n), nm("Ka", n), nm("pay", n), nm("Kb", n))
                    + "fn %s(%s: int) -> int {\n    let %s: %s = %s { %s: %s }\n    let u: %s = %s.%s { %s: 2 }\n    match u {\n        %s(w) => { (println w.%s) }\n        %s(w) => { (println 0) }\n    }\n    (println %s.%s)\n    return %s.%s\n}\n"
                      % (nm("fun", n), nm("par", n), V, nm("Str", n), nm("Str", n), nm("fld", n), nm("par", n), nm("Uni", n), nm("Uni", n), nm("Ka", n), nm("pay", n), nm("Ka", n), nm("pay", n), nm("Kb", n), nm("Enm", n), nm("Vb", n), V, nm("fld", n))
                    + SH % nm("fun", n) + "fn main() -> int {\n    (println (%s 5))\n    return 0\n}\n" % nm("fun", n) + SH % "main").encode()))
    for k in (1, 2, 8, 16, 31, 32, 33, 40, 41, 42, 60, 64, 65, 100, 128, 129, 256, 300):
        for arg in ("int", "array<string>", "array<array<int>>"):
            params = ", ".join("T%d" % i for i in range(k))
            variants = ",\n".join("    Col%d { value: T%d }" % (i, i) for i in range(k))
            args = ", ".join([arg] * k)
            val = {"int": "1", "array<string>": "[name]", "array<array<int>>": "[[1]]"}[arg]
            out.append(("many-type-params-%d" % k, ("union Row<%s> {\n%s\n}\nfn first(name: string) -> Row<%s> {\n    return Row<%s>.Col0 { value: %s }\n}\n" % (params, variants, args, args, val)
                        + SH % "first" + "fn main() -> int {\n    let r: Row<%s> = (first \"id\")\n    (println \"ok\")\n    return 0\n}\n" % args + SH % "main").encode()))
        ps = ", ".join("p%d: int" % i for i in range(k))
        out.append(("many-params-%d" % k, ("fn wide(%s) -> int {\n    return p0\n}\n" % ps + SH % "wide" + "fn main() -> int {\n    (println (wide %s))\n    return 0\n}\n" % " ".join(str(i) for i in range(k)) + SH % "main").encode()))
        out.append(("many-fields-%d" % k, ("struct Wide {\n%s\n}\nfn main() -> int {\n    let w: Wide = Wide { %s }\n    (println w.f0)\n    return 0\n}\n" % (",\n".join("    f%d: int" % i for i in range(k)), ", ".join("f%d: %d" % (i, i) for i in range(k))) + SH % "main").encode()))
    # malformed definitions
    for name, s in [("enum-double-comma", "enum Color { Red,, Green }\nfn main() -> int { return 0 }\nshadow main { assert (== 1 1) }\n"),
                    ("enum-leading-comma", "enum Color { , Red }\nfn main() -> int { return 0 }\n"),
                    ("enum-number", "enum Color { Red, 5 Green }\nfn main() -> int { return 0 }\n"),
                    ("struct-double-comma", "struct P { x: int,, y: int }\nfn main() -> int { return 0 }\n"),
                    ("struct-no-type", "struct P { x: , y }\nfn main() -> int { return 0 }\n"),
                    ("union-broken", "union R { Ok { v: int }, , Err { }\nfn main() -> int { return 0 }\n"),
                    ("shadow-unterminated", "fn g() -> int { return 1 }\nshadow g {\n    assert (== (g else fn) 1)\n"),
                    ("prefix-op-keyword", "fn main() -> int {\n    return (+ 1 else 2)\n}\n"),
                    ("call-keyword-arg", "fn f(a: int) -> int { return a }\nfn main() -> int {\n    return (f let)\n}\n"),
                    ("array-unterminated", "fn main() -> int {\n    let a: array<int> = [1, 2,\n"),
                    ("match-broken", "fn main() -> int {\n    match x {\n        A(v) => {\n"),
                    ("import-self", "import \"self.nano\"\nfn main() -> int { return 0 }\n"),
                    ("only-open-braces", "{{{{{{{{{{{{{{{{{{{{{{{{{{{{{{{{{{{{{{{{"),
                    ("only-fn", "fn fn fn fn fn fn fn fn fn"),
                    ("empty", ""), ("nul", "fn main() -> int {\x00 return 0 }\n"), ("high-bytes", "fn m\xe9in() -> int { return 0 }\n")]:
        out.append((name, s.encode("latin-1")))
    return out


FEATURE_BASES = [
    # tuples held in variables, indexed
    "fn pair() -> (int, string, bool) {\n    return (7, \"s\", true)\n}\nshadow pair { assert (== 1 1) }\nfn main() -> int {\n    let t: (int, string, bool) = (pair)\n    (println t.0)\n    (println t.1)\n    let u: (int, int) = (3, 4)\n    (println (+ u.0 u.1))\n    return 0\n}\nshadow main { assert (== 1 1) }\n",
    # named struct literals, nested
    "struct Point { x: int, y: int }\nstruct Seg { a: Point, b: Point }\nfn main() -> int {\n    let p: Point = Point { x: 1, y: 2 }\n    let s: Seg = Seg { a: p, b: Point { x: 3, y: 4 } }\n    (println s.b.y)\n    return 0\n}\nshadow main { assert (== 1 1) }\n",
    # unions and match
    "union Shape { Sq { s: int }, Rect { w: int, h: int } }\nfn area(sh: Shape) -> int {\n    match sh {\n        Sq(v) => { return (* v.s v.s) }\n        Rect(v) => { return (* v.w v.h) }\n    }\n    return 0\n}\nshadow area { assert (== 1 1) }\nfn main() -> int {\n    (println (area Shape.Sq { s: 3 }))\n    return 0\n}\nshadow main { assert (== 1 1) }\n",
    # contracts
    "struct P { x: int, y: int }\nfn mk(a: int) -> P\n    requires (> a 0)\n    ensures (> result.x 0)\n{\n    return P { x: a, y: 1 }\n}\nshadow mk { assert (== 1 1) }\nfn inc(a: int) -> int\n    ensures (> result a)\n{\n    return (+ a 1)\n}\nshadow inc { assert (== 1 1) }\nfn main() -> int {\n    (println (inc 2))\n    return 0\n}\nshadow main { assert (== 1 1) }\n",
    # first-class functions and enums
    "enum Color { Red = 1, Green = 2 }\nfn dbl(x: int) -> int {\n    return (* x 2)\n}\nshadow dbl { assert (== 1 1) }\nfn app(f: fn(int) -> int, v: int) -> int {\n    return (f v)\n}\nshadow app { assert (== 1 1) }\nfn main() -> int {\n    (println (app dbl 4))\n    (println Color.Green)\n    return 0\n}\nshadow main { assert (== 1 1) }\n",
]


def feature_inputs(rng, quick):
    """programs using tuples, struct literals, unions/match, contracts, function values and imports, with targeted damage"""
    out = []
    for i, b in enumerate(FEATURE_BASES):
        out.append(("feature-valid-%d" % i, b.encode()))
    t = FEATURE_BASES[0]
    for idx in ["-1", "3", "99", "255", "65536", "2147483647", "2147483648", "4294967295", "4294967296", "9223372036854775807", "18446744073709551615", "00", "1.5", "x"]:
        out.append(("feature-tuple-index-%s" % idx, t.replace("t.1", "t." + idx).encode()))
        out.append(("feature-tuple-index2-%s" % idx, t.replace("u.0", "u." + idx).encode()))
    s = FEATURE_BASES[1]
    for old, new in [("Point { x: 1, y: 2 }", "Point { x: , y: 2 }"), ("Point { x: 1, y: 2 }", "Point { x: 1, y: }"), ("Point { x: 1, y: 2 }", "Point { x: 1, y:"),
                     ("Point { x: 3, y: 4 }", "Point { x: 3 y: 4 }"), ("Point { x: 3, y: 4 }", "Point { : 3, y: 4 }"), ("Point { x: 3, y: 4 }", "Point { x: 3, y: 4, }"),
                     ("Point { x: 3, y: 4 }", "Point { x: 3, x: 4 }"), ("Point { x: 3, y: 4 }", "Point { }"), ("Seg { a: p,", "Seg { a: ,"), ("s.b.y", "s.b."), ("s.b.y", "s..y")]:
        out.append(("feature-struct-literal", s.replace(old, new).encode()))
        out.append(("feature-struct-literal-cut", s[: s.index(old) + len(new) // 2 + 8].encode()) if old in s else ("feature-struct-literal", s.encode()))
    m = FEATURE_BASES[2]
    for old, new in [("Sq(v) =>", "Sq() =>"), ("Sq(v) =>", "Sq(v)"), ("Rect(v) => { return (* v.w v.h) }", ""), ("match sh {", "match {"), ("Shape.Sq { s: 3 }", "Shape.Sq { s: }"), ("Shape.Sq { s: 3 }", "Shape.Nope { s: 3 }"),
                     ("Sq { s: int }", "Sq { s: }"), ("Sq { s: int },", "Sq { s: int },,")]:
        out.append(("feature-match", m.replace(old, new).encode()))
    c = FEATURE_BASES[3]
    for old, new in [("ensures (> result.x 0)", "ensures (> result.zz 0)"), ("ensures (> result.x 0)", "ensures (> result.x.y 0)"), ("ensures (> result.x 0)", "ensures"), ("requires (> a 0)", "requires (> b 0)"),
                     ("ensures (> result a)", "ensures (> result.x a)"), ("ensures (> result a)", "ensures result"), ("requires (> a 0)", "requires (")]:
        out.append(("feature-contract", c.replace(old, new).encode()))
    # imports: cycle, self-import, directory, missing file, module with a syntax error (companion files are written next to the inputs)
    for name, imp in [("cycle", "cyc_a.nano"), ("self", "SELF"), ("directory", "/tmp"), ("directory-rel", "."), ("missing", "no_such_module.nano"), ("broken", "broken_mod.nano"), ("empty", "empty_mod.nano")]:
        out.append(("feature-import-%s" % name, ("import \"%s\"\nfn main() -> int {\n    return 0\n}\nshadow main { assert (== 1 1) }\n" % imp).encode()))
    return out


COMPANIONS = {
    "cyc_a.nano": "import \"cyc_b.nano\"\npub fn fa() -> int { return 1 }\nshadow fa { assert (== 1 1) }\n",
    "cyc_b.nano": "import \"cyc_a.nano\"\npub fn fb() -> int { return 2 }\nshadow fb { assert (== 1 1) }\n",
    "broken_mod.nano": "pub fn fa( -> int { return 1 \n",
    "empty_mod.nano": "",
}


def _big_stack():
    import resource
    try:
        resource.setrlimit(resource.RLIMIT_STACK, (1 << 30, resource.getrlimit(resource.RLIMIT_STACK)[1]))
    except (ValueError, OSError):
        pass


def front_end(args):
    tdir, path, env = args
    out = path + ".nvm"
    try:
        # the sanitizer build's frames are several times larger: it gets a 1 GB stack so that what it reports is memory errors, not
        # its own inflated stack use; stack depth itself is judged on the plain build with the default 8 MB
        p = subprocess.run([os.path.join(tdir, "bin", "nano_virt"), path, "--emit-nvm", "-o", out], stdout=subprocess.PIPE, stderr=subprocess.PIPE, timeout=TIME_LIMIT, env=env,
                           cwd=os.path.dirname(path), preexec_fn=_big_stack if env else None)
        err = p.stderr.decode(errors="replace")
        san = [l for l in err.splitlines() if "AddressSanitizer" in l or "runtime error:" in l or "LeakSanitizer" in l]
        return {"rc": p.returncode, "stderr_len": len(err), "stdout_len": len(p.stdout), "san": san[:2], "tail": err[-300:], "artifact": os.path.exists(out)}
    except subprocess.TimeoutExpired:
        return {"rc": "timeout", "stderr_len": 0, "stdout_len": 0, "san": [], "tail": "", "artifact": False}
    finally:
        try:
            os.unlink(out)
        except OSError:
            pass


def run(ctx):
    info = common.prove(ctx, MODULE, ["front"])
    quick = ctx.tier == "quick"
    tdir = build.tree("asan", ("vm",), hooks=False)
    ptree = build.tree("plain", ("vm", "bin/nanoc_c"))
    ptree_nohook = build.tree("plain", ("vm",), hooks=False)
    probe = build.probe("front_probe", ptree, ("common",), "plain")
    driver = common.build_driver()
    rng = ctx.rng
    env = dict(os.environ, ASAN_OPTIONS="detect_leaks=0:abort_on_error=0:allocator_may_return_null=1", UBSAN_OPTIONS="halt_on_error=1:print_stacktrace=0")
    oracle_fail, disagreements = [], []

    seeds = []
    for k in range(20 if quick else 200):
        seeds.append(gen_prog.gen(random.Random(ctx.seed * 32452843 + k), size=1.0)[0].encode())
    for p in sorted(glob.glob(os.path.join(build.VERIF, "corpus", "progs", "*.nano"))):
        seeds.append(open(p, "rb").read())
    extra = [s for s in corpus.sources(ptree)]
    rng.shuffle(extra)
    for s in extra[:(10 if quick else 120)]:
        try:
            b = open(s, "rb").read()
            if len(b) < 20000:
                seeds.append(b)
        except OSError:
            pass
    inputs = [("valid-%d" % i, s) for i, s in enumerate(seeds)]
    nm = 300 if quick else 6000
    for k in range(nm):
        s = rng.choice(seeds)
        if k % 2 == 0:
            inputs.append(("token-mutant-%d" % k, token_mutant(rng, s)))
        else:
            inputs.append(("byte-mutant-%d" % k, byte_mutant(rng, s)))
    inputs += feature_inputs(rng, quick)
    for k in range(100 if quick else 1500):
        b = rng.choice(FEATURE_BASES).encode()
        inputs.append(("feature-token-mutant-%d" % k, token_mutant(rng, b)))
    inputs += nesting_inputs(rng, quick)
    known = ctx.findings

    with tempfile.TemporaryDirectory(prefix="nvc09", dir="/var/tmp") as td:
        jobs = []
        nest_names = set(n for n, _ in inputs[-1:0:-1] if False)
        first_nest = len(inputs) - len(nesting_inputs(random.Random(0), quick))
        for cn, ct in COMPANIONS.items():
            open(os.path.join(td, cn), "w").write(ct)
        for i, (name, data) in enumerate(inputs):
            p = os.path.join(td, "i%d.nano" % i)
            open(p, "wb").write(data.replace(b"SELF", b"i%d.nano" % i) if name == "feature-import-self" else data)
            # nesting / size families: plain build with the default stack (and once more under the sanitizer when small)
            jobs.append((ptree_nohook, p, None) if i >= first_nest else (tdir, p, env))
        with ThreadPoolExecutor(16) as ex:
            res = list(ex.map(front_end, jobs))
    # multi-file projects: modules that import each other (legal: the module cache breaks the cycle), the same module imported under
    # two spellings, every way of writing the paths (plain, "./", "../dir/") and of naming the entry file on the command line
    with tempfile.TemporaryDirectory(prefix="nvc09p", dir="/var/tmp") as pd:
        pjobs = []
        for sp_name, pre in (("plain", ""), ("dot", "./"), ("updir", "../proj_updir/")):
            d = os.path.join(pd, "proj_" + sp_name)
            os.makedirs(d)
            open(os.path.join(d, "shapes.nano"), "w").write('import "%sunits.nano"\npub fn shape_area(w: int, h: int) -> int {\n    return (* w (* h (unit_scale)))\n}\nshadow shape_area { assert (== 1 1) }\n' % pre)
            open(os.path.join(d, "units.nano"), "w").write('import "%sshapes.nano"\npub fn unit_scale() -> int {\n    return 1\n}\nshadow unit_scale { assert (== (unit_scale) 1) }\n' % pre)
            open(os.path.join(d, "main.nano"), "w").write('import "%sshapes.nano"\nimport "%sunits.nano"\nfn main() -> int {\n    return (- (shape_area 3 4) 12)\n}\nshadow main { assert (== 1 1) }\n' % (pre, pre))
            open(os.path.join(d, "selfimp.nano"), "w").write('import "%sselfimp.nano"\nfn main() -> int {\n    return 0\n}\nshadow main { assert (== 1 1) }\n' % pre)
            for entry in ("main.nano", "selfimp.nano"):
                for cwd, arg in ((d, entry), (d, "./" + entry), (pd, "proj_%s/%s" % (sp_name, entry)), (pd, "./proj_%s/%s" % (sp_name, entry)), (pd, os.path.join(d, entry))):
                    pjobs.append((sp_name, entry, cwd, arg))

        def run_project(j):
            sp_name, entry, cwd, arg = j
            try:
                p = subprocess.run([os.path.join(ptree_nohook, "bin", "nano_virt"), arg, "--emit-nvm", "-o", os.path.join(pd, "out_%d.nvm" % (hash(j) & 0xffffff))], cwd=cwd,
                                   stdout=subprocess.PIPE, stderr=subprocess.PIPE, timeout=TIME_LIMIT)
                return (p.returncode, len(p.stderr), p.stderr.decode(errors="replace")[-300:])
            except subprocess.TimeoutExpired:
                return ("timeout", 0, "")
        with ThreadPoolExecutor(8) as ex:
            pres = list(ex.map(run_project, pjobs))
    for (sp_name, entry, cwd, arg), (rc, elen, tail) in zip(pjobs, pres):
        ctx.case("project:%s:%s:%s" % (sp_name, entry, arg if not arg.startswith("/") else "<abs>"))
        why = None
        if rc == "timeout":
            why = "front end does not finish within %d s" % TIME_LIMIT
        elif not isinstance(rc, int) or rc not in (0, 1):
            why = "front end ends with status %s (signal / abort)" % rc
        elif rc == 1 and elen == 0:
            why = "rejected without any diagnostic"
        if why:
            oracle_fail.append({"input": "project with modules importing each other, paths written with prefix %r, entry %s given as %r" % ({"plain": "", "dot": "./", "updir": "../proj_updir/"}[sp_name], entry, arg if not arg.startswith("/") else "<absolute path>"),
                                "why": why, "exit": rc, "stderr_tail": tail})
    ctx.cov["project_invocations"] = len(pjobs)
    classes = {}
    for (name, data), r in zip(inputs, res):
        ctx.case(data)
        fam = re.sub(r"-?\d+$", "", name)
        why = None
        if r["rc"] == "timeout":
            why = "front end does not finish within %d s" % TIME_LIMIT
        elif r["san"]:
            why = "sanitizer report in the front end: " + r["san"][0][:200]
        elif not isinstance(r["rc"], int) or r["rc"] not in (0, 1):
            why = "front end ends with status %s (signal / abort)" % r["rc"]
        elif r["rc"] == 1 and r["stderr_len"] == 0:
            why = "rejected without any diagnostic"
        elif r["rc"] == 1 and r["artifact"]:
            why = "rejected but an output file was written"
        cls = "accepted" if r["rc"] == 0 else ("diagnosed" if r["rc"] == 1 else str(r["rc"]))
        classes[cls] = classes.get(cls, 0) + 1
        if why:
            kf = None
            for fid, f in known.items():
                if f.get("status") == "known" and f.get("match_family") and fam in f["match_family"] and (not f.get("match_why") or f["match_why"] in why):
                    kf = fid
            if kf:
                ctx.known(kf, "%s (input family %s)" % (known[kf]["what"][:160], fam))
            else:
                oracle_fail.append({"input": name, "why": why, "exit": r["rc"], "stderr_tail": r["tail"], "input_hex": binascii.hexlify(data[:3000]).decode(), "input_len": len(data)})
    # lexer correspondence: model `lex` == tokenize, token for token, on inputs small enough for one protocol line
    small = [(n, d) for n, d in inputs if len(d) < 30000][: (400 if quick else 4000)]
    lines = ["lex " + (binascii.hexlify(d).decode() or "-") for _, d in small]
    mo = common.batch(driver, lines, timeout=3000)[0]
    po = common.batch_robust(probe, lines, timeout=3000)
    for (n, d), a, b in zip(small, mo, po):
        am = re.sub(r"^ok u=\d+ ", "ok ", a)
        am = "err" if am.startswith("err") else am
        if am != b:
            disagreements.append({"input": n, "model": am[:200], "tokenize": b[:200], "input_hex": binascii.hexlify(d[:400]).decode()})
    ctx.cov["inputs"] = len(inputs)
    ctx.cov["outcome_classes"] = classes
    ctx.cov["lexer_streams_compared"] = len(small)
    ctx.cov["disagreements_checked"] = len(disagreements)
    ctx.cov["traces_validated_against_impl"] = len(small)
    ctx.cov["time_limit_s"] = TIME_LIMIT
    ctx.sample(inputs[len(seeds) + 1][1][:200].decode(errors="replace")); ctx.sample({"theorems": info.get("theorems", [])})
    ctx.cov["rule"] = ("valid programs (generated, corpus, repository examples), token-level mutants (delete/insert/replace/swap/duplicate/cut/truncate with keywords and punctuation), "
                       "byte-level mutants (incl. NUL and high bytes), nesting of parentheses, blocks, unary chains, types, else-if chains, nested functions and infix chains from 10 to "
                       "200000 levels, exact token counts around powers of two, malformed enum/struct/union/match/import; feature programs (tuples with boundary and malformed indices, "
                       "named struct literals with missing values, unions/match, contracts on result fields, function values, import cycle / self / directory / missing / broken module) "
                       "and their token mutants; each through nano_virt --emit-nvm built with ASan+UBSan under a "
                       "time limit: exit status must be 0 or 1, no sanitizer report, a rejection must print a diagnostic and leave no file; tokenize() compared token for token with the Lean lexer")
    for f in oracle_fail[:3]:
        ctx.violation({"kind": "oracle", "detail": f})
    ctx.cov["oracle_failures"] = len(oracle_fail)
    if not oracle_fail:
        if not info["ok"]:
            ctx.violation({"kind": "proof-obligation", "theorem_module": MODULE, "broken": info["broken"], "searched": "%d inputs: all accepted or diagnosed" % len(inputs)}, no_input=True)
        elif disagreements:
            ctx.violation({"kind": "correspondence", "which": "Lean lexer != tokenize()", "first": disagreements[:3], "count": len(disagreements)}, no_input=True)
    return ctx.finish(info["obligations"], info["discharged"])
