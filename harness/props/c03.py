"""C03 — compile-time shadow-test evaluation agrees with the compiled program."""
import os
import random
import re
import subprocess
import tempfile

from .. import build, common, gen_prog, lang

MODULE = "NanoVerif.Props.C03"


def run_nanoc_verbose(args):
    tdir, path = args
    exe = path[:-5] + ".bin"
    try:
        c = subprocess.run([os.path.join(tdir, "bin", "nanoc_c"), path, "-o", exe, "--verbose"], cwd=tdir, stdout=subprocess.PIPE, stderr=subprocess.PIPE, timeout=300)
    except subprocess.TimeoutExpired:
        return {"rc": "timeout", "transcript": b"", "native": None, "log": ""}
    out = c.stdout
    m = re.search(rb"Running shadow tests\.\.\.\n(.*?)(?:All shadow tests passed|Shadow tests failed|\xe2\x9c\x93 Shadow tests passed|$)", out, flags=re.S)
    seg = m.group(1) if m else b""
    # "Testing <fn>... <output>PASSED\n" / "FAILED ..."
    parts = re.split(rb"Testing [A-Za-z_][A-Za-z0-9_]*\.\.\. ", seg)
    transcript = b""
    verdicts = []
    for part in parts[1:]:
        mm = re.search(rb"(PASSED|FAILED)[^\n]*\n?$", part.rstrip(b"\n") + b"\n")
        k = part.rfind(b"PASSED")
        kf = part.rfind(b"FAILED")
        cut = max(k, kf)
        verdicts.append("PASSED" if k > kf else "FAILED")
        transcript += part[:cut] if cut >= 0 else part
    res = {"rc": c.returncode, "transcript": transcript, "verdicts": verdicts, "log": (c.stdout + c.stderr).decode(errors="replace")[-700:], "native": None}
    if c.returncode == 0 and os.path.exists(exe):
        try:
            p = subprocess.run([exe], stdout=subprocess.PIPE, stderr=subprocess.PIPE, timeout=60)
            res["native"] = {"rc": p.returncode, "out": p.stdout}
        except subprocess.TimeoutExpired:
            res["native"] = {"rc": "timeout", "out": b""}
        try:
            os.unlink(exe)
        except OSError:
            pass
    return res


WITNESSES = {
    # F-C03-1: free variables are resolved in the caller's scope by the evaluator (dynamic scoping); compiled code and the
    # specification (8.1) resolve them statically
    "F-C03-1": ("let x: int = 1\nfn g() -> int {\n    return x\n}\nshadow g {\n    (println (g))\n    assert (== 1 1)\n}\n"
                "fn f() -> int {\n    let x: int = 2\n    return (+ (g) (* 0 x))\n}\nshadow f {\n    (println (f))\n    assert (== 1 1)\n}\n"
                "fn main() -> int {\n    (println (g))\n    (println (f))\n    return 0\n}\nshadow main { assert (== 1 1) }\n"),
    # F-C03-3: array_push on an array that came from a non-empty literal fails in the evaluator ("requires a dynamic array")
    "F-C03-3": ("fn total(a: array<int>) -> int {\n    let mut b: array<int> = a\n    set b (array_push b 4)\n    let mut s: int = 0\n    let mut i: int = 0\n"
                "    while (< i (array_length b)) {\n        set s (+ s (at b i))\n        set i (+ i 1)\n    }\n    return s\n}\n"
                "shadow total {\n    (println (total [1, 2, 3]))\n    assert (== 1 1)\n}\nfn main() -> int {\n    (println (total [1, 2, 3]))\n    return 0\n}\nshadow main { assert (== 1 1) }\n"),
    # F-C03-2: `return` inside a match arm ends the function in compiled code, only the arm in the evaluator
    "F-C03-2": ("union Shape { Sq { s: int }, Rect { w: int, h: int } }\nfn area(sh: Shape) -> int {\n    match sh {\n        Sq(v) => { return (* v.s v.s) }\n        Rect(v) => { return (* v.w v.h) }\n    }\n    return -1\n}\n"
                "shadow area {\n    (println (area Shape.Sq { s: 3 }))\n    assert (== 1 1)\n}\nfn main() -> int {\n    (println (area Shape.Sq { s: 3 }))\n    return 0\n}\nshadow main { assert (== 1 1) }\n"),
}


def with_asserts(text, calls, values):
    """add `assert (== call value)` after every printed call whose value the reference computed - in the shadow block and, so
    that the compiled program performs the very same evaluations, in main"""
    i = text.index("fn main() -> int {")
    head, main = text[:i], text[i:]
    for (fn, call), v in zip(calls, values):
        if v is None:
            continue
        a = "    (println %s)\n" % call
        b = "    (println %s)\n    assert (== %s %s)\n" % (call, call, v)
        head = head.replace(a, "\x00", 1)
        main = main.replace(a, "\x00", 1)
        head = head.replace("\x00", b.replace("println", "println\x01"))
        main = main.replace("\x00", b.replace("println", "println\x01"))
    return (head + main).replace("\x01", "")


def run(ctx):
    info = common.prove(ctx, MODULE, ["front"])
    quick = ctx.tier == "quick"
    tdir = build.tree("plain", ("vm", "bin/nanoc_c"), hooks=False)
    driver = common.build_driver()
    rng = ctx.rng
    oracle_fail = []
    progs = []
    n = 30 if quick else 500
    k = 0
    while len(progs) < n and k < n * 4:
        text, calls = gen_prog.gen_shadowed(random.Random(ctx.seed * 49979687 + k), size=rng.choice([0.6, 1.0, 1.4]))
        k += 1
        if calls:
            progs.append((text, calls))
    # pass 1: the reference computes every call's value (markers separate the calls)
    marked = []
    for text, calls in progs:
        i = text.index("fn main() -> int {")
        marked.append(text[:i] + "fn main() -> int {\n" + "".join("    (println \"@@\")\n    (println %s)\n" % c for _, c in calls) + "    (println \"@@\")\n    return 0\n}\nshadow main { assert (== 1 1) }\n")
    sem1 = lang.run_sem(driver, "native", marked)
    final = []
    for (text, calls), s in zip(progs, sem1):
        values = [None] * len(calls)
        if s["res"] == "exit 0":
            segs = s["out"].split(b"@@\n")[1:-1]
            if len(segs) == len(calls):
                for j, ((fn, call), seg) in enumerate(zip(calls, segs)):
                    last = seg.rstrip(b"\n").split(b"\n")[-1].decode(errors="replace")
                    rty = re.search(r"fn %s\([^)]*\) -> (\w+)" % fn, text).group(1)
                    if rty == "int" and re.fullmatch(r"-?\d+", last) and last != "-9223372036854775808":
                        values[j] = last
                    elif rty == "string" and '"' not in last and "\\" not in last and "\t" not in last:
                        values[j] = '"%s"' % last
        final.append((with_asserts(text, calls, values), calls, sum(v is not None for v in values)))
    # targeted families: operators at boundary operands inside shadow tests, nested loops with continue/break, float conversions
    vals = lang.BOUNDARY
    pairs = [(a, b) for a in vals for b in vals]
    for op in lang.BINOPS:
        ch = [(a, b) for a, b in rng.sample(pairs, 60 if quick else 400) + lang.NEAR_PAIRS if not (op in ("/", "%") and b == 0)]
        final.append((lang.shadow_arith_program(op, ch), [], 0))
    for _ in range(4 if quick else 40):
        final.append((lang.loops_program(rng), [], 0))
    for _ in range(2 if quick else 20):
        final.append((lang.guard_program(rng), [], 0))
        final.append((lang.shortcircuit_shadowed(rng), [], 0))
        final.append((lang.two_loops_program(rng), [], 0))
        final.append((lang.bytes_program(rng), [], 0))
        final.append((lang.scoping_shadowed(rng), [], 0))
        final.append((lang.charclass_program(rng), [], 0))
        final.append((lang.array_ops_program(rng), [], 0))
        final.append((lang.order_in_calls_shadowed(rng), [], 0))
        final.append((lang.intern_churn_program(rng), [], 0))
    nofloat = len(final)
    for _ in range(2 if quick else 10):
        final.append((lang.float_program(rng), [], 0))
        final.append((lang.nan_program(rng), [], 0))
        final.append((lang.alias_program(rng), [], 0))      # handle semantics of arrays: outside the (value) reference model too
    wit = [(w, WITNESSES[w]) for w in sorted(WITNESSES)]
    texts = [t for t, _, _ in final] + [t for _, t in wit]
    sem = lang.run_sem(driver, "native", texts)
    with tempfile.TemporaryDirectory(prefix="nvc03", dir="/var/tmp") as td:
        jobs = []
        for i, t in enumerate(texts):
            p = os.path.join(td, "p%d.nano" % i)
            open(p, "w").write(t)
            jobs.append((tdir, p))
        res = lang.parallel(run_nanoc_verbose, jobs)
    cnt = {"agree": 0, "partial_runs": 0, "assertions_with_reference_values": 0}
    for idx, (t, r, s) in enumerate(zip(texts, res, sem)):
        ctx.case(t)
        wid = wit[idx - len(final)][0] if idx >= len(final) else None
        if idx < len(final):
            cnt["assertions_with_reference_values"] += final[idx][2]
        if nofloat <= idx < len(final):
            # floats are outside the reference model: the property's own oracle (evaluator == compiled program) decides alone
            s = {"res": "exit 0", "out": r["transcript"]} if r["rc"] == 0 else s
        if wid == "F-C03-2":
            s = {"res": "exit 0", "out": b"9\n"}           # unions are outside the reference model: expected transcript written by hand
        if not s["res"].startswith("exit"):
            if s["res"] in ("fault assert", "fault oob", "fault divzero", "fault fuel") or r["rc"] != 0 and "hadow" in r["log"] and s["res"].startswith("fault"):
                cnt["partial_runs"] += 1
                continue
            # outside the reference model (a builtin it does not know): the property's own oracle decides - what the shadow blocks print at
            # compile time must be what the compiled program prints
            cnt["outside_reference_model"] = cnt.get("outside_reference_model", 0) + 1
            s = {"res": "exit 0", "out": r["native"]["out"] if r.get("native") else r["transcript"]}
        why = None
        if r["rc"] == "timeout":
            why = "nanoc does not finish"
        elif r["rc"] != 0:
            why = "a correct program is refused at compile time (reference: every assertion true)" if "Shadow test" in r["log"] or "shadow" in r["log"].lower() else "nanoc fails on an accepted program"
        elif r["transcript"] != s["out"]:
            why = "what the shadow blocks print at compile time differs from the reference"
        elif r["native"] is None or r["native"]["out"] != r["transcript"] or r["native"]["rc"] != 0:
            why = "what the shadow blocks print at compile time differs from what the compiled program prints for the same calls"
        if why is None:
            cnt["agree"] += 1
            continue
        if wid and wid in ctx.findings and ctx.findings[wid]["status"] == "known":
            ctx.known(wid, ctx.findings[wid]["what"][:200])
            continue
        oracle_fail.append({"why": why, "witness": wid, "nanoc_exit": r["rc"], "compile_time_transcript_tail": r["transcript"][-300:].decode(errors="replace"),
                            "reference_tail": s["out"][-300:].decode(errors="replace"), "native": None if not r["native"] else {"rc": r["native"]["rc"], "tail": r["native"]["out"][-300:].decode(errors="replace")},
                            "log_tail": r["log"][-500:], "source": t})
    ctx.cov.update(cnt)
    ctx.cov["programs"] = len(texts)
    ctx.cov["disagreements_checked"] = len(oracle_fail)
    ctx.cov["traces_validated_against_impl"] = cnt["agree"]
    ctx.sample(texts[0][:500]); ctx.sample({"theorems": info.get("theorems", [])})
    ctx.cov["rule"] = ("generated programs whose shadow blocks print calls of their function with literal arguments (incl. boundary integers) and assert the value the reference semantics "
                       "computes, and whose main performs the same calls in the same order: nanoc --verbose must accept, the text printed between 'Testing f... ' and PASSED must equal the "
                       "reference output and the compiled binary's stdout; witnesses for the listed findings run every time")
    for f in oracle_fail[:3]:
        ctx.violation({"kind": "oracle", "detail": f})
    if not oracle_fail and not info["ok"]:
        ctx.violation({"kind": "proof-obligation", "theorem_module": MODULE, "broken": info["broken"], "searched": "%d programs: compile-time and compiled transcripts equal" % len(texts)}, no_input=True)
    return ctx.finish(info["obligations"], info["discharged"])
