"""C14 — the VM heap never frees or loses count of an object that is still referenced."""
import glob
import os
import random
import re

from .. import build, common, corpus, gen_mod, gen_prog, nvm, progs

MODULE = "NanoVerif.Props.C14"
REF = re.compile(r"[saSUTHC]@(\w+)")
CELL = re.compile(r"(\d+)=(\d+)/(\w+)\[([^\]]*)\]")


def audit(line):
    """rc >= in-degree and no dangling reference at one instruction boundary; returns a message or None"""
    parts = line.split(":", 6)
    if len(parts) < 7:
        return None
    stack, globs, clos, heap = parts[3], parts[4], parts[5], parts[6]
    if "DANGLING" in line:
        return "dangling reference printed by the registry"
    indeg = {}
    for m in REF.finditer(stack + "," + globs + "," + clos):
        indeg[m.group(1)] = indeg.get(m.group(1), 0) + 1
    cells = {}
    for m in CELL.finditer(heap):
        cells[m.group(1)] = int(m.group(2))
        for k in REF.finditer(m.group(4)):
            indeg[k.group(1)] = indeg.get(k.group(1), 0) + 1
    for a, n in indeg.items():
        if a == "NULL":
            continue
        if a not in cells:
            return "object %s is referenced but not live" % a
        if cells[a] < n:
            return "object %s has ref_count %d < in-degree %d" % (a, cells[a], n)
    return None


def run(ctx):
    info = common.prove(ctx, MODULE, ["nvm", "isa"])
    quick = ctx.tier == "quick"
    flav = "plain" if quick else "asan"
    plain = build.tree("plain", ("vm",))
    tdir = build.tree(flav, ("vm",))
    probe = build.probe("vm_probe", tdir, ("isa", "vm", "common"), flav)
    driver = common.build_driver()
    env = dict(os.environ, ASAN_OPTIONS="detect_leaks=0")
    rng = ctx.rng
    L, tab = nvm.layout(), nvm.isa_table()

    cases = []     # (label, nvm bytes)
    for s, b in corpus.nvm_corpus(plain):
        if len(b) < (5000 if quick else 30000):
            cases.append(("corpus:" + os.path.basename(s), b))
    srcs = []
    for k in range(60 if quick else 1500):
        text, flags = gen_prog.gen(random.Random(ctx.seed * 100003 + k))
        srcs.append(("gen-%d" % k, text))
    for n, t, b, e in progs.compile_sources(plain, srcs):
        if b:
            cases.append((n, b))
        else:
            ctx.count("generated_program_rejected")
    for k in range(150 if quick else 3000):
        cases.append(("typed-%d" % k, gen_mod.typed_program(L, tab, rng, n_steps=rng.choice([10, 25, 50, 80])).build(L)))
    idi = gen_mod.heap_idioms(L, tab)
    if quick:
        rng.shuffle(idi)
        idi = idi[:500]
    cases += idi
    hmi = gen_mod.hashmap_idioms(L, tab)
    if quick:
        rng.shuffle(hmi)
        hmi = hmi[:90]
    cases += hmi
    ctx.cov["hashmap_idiom_programs"] = len(hmi)
    ctx.cov["idiom_programs"] = len(idi)
    ctx.cov["programs"] = len(cases)

    # frames that grow the operand stack past its initial capacity: compared by their output and final state only (a trace of
    # 9000 stack slots at each of 9000 boundaries would be 81 million values)
    bigs = gen_mod.big_frame_modules(L, tab)
    blines = ["vm.run 40000 0 %s" % b.hex() for _, b in bigs]
    bm = common.batch(driver, blines, timeout=3000)[0]
    bp = common.batch_robust(probe, blines, timeout=3000, env=env)
    big_fail = []
    for (lab, b), a, c in zip(bigs, bm, bp):
        ctx.case(lab)
        if a != c or "dangling=true" in c or c.startswith("CRASH"):
            big_fail.append({"case": lab, "why": "a frame that grew the operand stack past its initial capacity ends differently from the model (value lost, count lost or crash)",
                             "model": a[-300:], "impl": c[-300:], "module_hex": b.hex()[:4000]})
    ctx.cov["big_frame_programs"] = len(bigs)
    fuel = 2500
    lines = ["vm.run %d 1 %s" % (fuel, b.hex()) for _, b in cases]
    md = common.batch(driver, lines, timeout=3000)[0]
    pd = common.batch_robust(probe, lines, timeout=3000, env=env)
    oracle_fail, disagreements = list(big_fail), []
    boundaries = 0
    heapsteps = 0
    for (lab, b), a, c in zip(cases, md, pd):
        if c.startswith("CRASH"):
            oracle_fail.append({"case": lab, "impl": c[:300], "why": "implementation crashed", "module_hex": b.hex()})
            continue
        if not (c.startswith("R ") or "|" in c):
            ctx.case(lab, nontrivial=False)
            continue
        tc = c.split("|")
        ta = a.split("|")
        ctx.case(lab + c[-40:])
        # implementation-side oracle: audit every boundary of the real VM's trace
        for i, ln in enumerate(tc[:-1]):
            boundaries += 1
            if "=" in ln.rsplit(":", 1)[-1]:
                heapsteps += 1
            msg = audit(ln)
            if msg:
                oracle_fail.append({"case": lab, "step": i, "why": msg, "boundary": ln[:400], "module_hex": b.hex()})
                break
        if "dangling=true" in tc[-1]:
            oracle_fail.append({"case": lab, "why": "use of a freed object / double free seen by the registry", "impl": tc[-1], "module_hex": b.hex()})
        # correspondence: same trace, step by step (up to the point where the model leaves its fragment)
        unsupported = "unsupported(" in ta[-1] and "unsupported(fuel)" not in ta[-1]
        if unsupported:
            ctx.count("unsupported_by_model")
            if ta[:-1] != tc[:len(ta) - 1]:
                k = next(i for i, (x, y) in enumerate(zip(ta, tc)) if x != y)
                disagreements.append((lab, "step %d" % k, ta[k][:300], tc[k][:300], b.hex()))
        elif a != c:
            k = next((i for i, (x, y) in enumerate(zip(ta, tc)) if x != y), min(len(ta), len(tc)) - 1)
            # after a run-time error the final summary may differ in top/live; the trace itself must not
            if not (k == len(ta) - 1 == len(tc) - 1 and ta[k].split()[1] == tc[k].split()[1] and ta[k].split()[1] != "res=0"):
                disagreements.append((lab, "step %d of %d/%d" % (k, len(ta), len(tc)), ta[k][:300], tc[k][:300], b.hex()))
    ctx.cov["instruction_boundaries_audited"] = boundaries
    ctx.cov["boundaries_with_live_objects"] = heapsteps

    # churn: live objects after k iterations must not depend on k
    churn_src = [("churn-%s-%d" % (kind, k), gen_prog.churn(kind, k)) for kind in gen_prog.CHURN_KINDS for k in (10, 100) + (() if quick else (1000,))]
    comp = progs.compile_sources(plain, churn_src)
    lines = ["vm.run 200000 0 " + b.hex() for n, t, b, e in comp if b]
    names = [n for n, t, b, e in comp if b]
    pc = common.batch_robust(probe, lines, timeout=3000, env=dict(env, VM_PROBE_RUN_VM_EXTERNS="1"))
    mc = common.batch(driver, lines, timeout=3000)[0]
    live = {}
    for n, a, c in zip(names, mc, pc):
        ctx.case(n)
        w = dict(x.split("=", 1) for x in c[2:].split()) if c.startswith("R ") else {}
        kind = n.split("-")[1]
        live.setdefault(kind, []).append((int(n.split("-")[2]), w.get("live"), w.get("res")))
        if ("unsupported(" in a and "unsupported(fuel)" not in a) or a.strip() == "has-imports":
            ctx.count("unsupported_by_model")       # e.g. element-wise array arithmetic, extern calls: judged by the live-object count alone
        elif a != c:
            disagreements.append((n, "final", a[:200], c[:200], ""))
    ctx.cov["churn"] = {k: v for k, v in live.items()}
    for kind, v in live.items():
        if len({x[1] for x in v}) > 1 or any(x[2] != "0" for x in v):
            fid = "F-C14-churn-" + kind
            if fid in ctx.findings and ctx.findings[fid]["status"] == "known":
                ctx.known(fid, "live objects grow with the iteration count in churn family '%s': %s" % (kind, v))
            else:
                oracle_fail.append({"case": "churn-" + kind, "why": "live-object count after the loop depends on the iteration count", "runs(k, live, res)": v,
                                    "source": gen_prog.churn(kind, 10)})

    # wide fan-in: one object referenced from tens of thousands of places at once (a count that does not fit 8 or 16 bits), then
    # references dropped one by one; implementation only (the model's list-based arrays are quadratic here): registry + output
    fan_src = []
    for k in (300, 66000):
        fan_src.append(("fanin-%d" % k,
            "fn main() -> int {\n    let s: string = (+ \"he\" \"llo\")\n    let mut arr: array<string> = []\n    let mut i: int = 0\n    while (< i %d) {\n        set arr (array_push arr s)\n        set i (+ i 1)\n    }\n"
            "    (println (array_length arr))\n    set arr (array_remove_at arr 0)\n    set arr (array_remove_at arr 0)\n    let t: string = (int_to_string 12345)\n    (println t)\n    (println s)\n    (println (at arr 7))\n"
            "    (println (at arr %d))\n    let mut j: int = 0\n    while (< j %d) {\n        set arr (array_remove_at arr 0)\n        set j (+ j 1)\n    }\n    (println (array_length arr))\n    (println s)\n    return 0\n}\nshadow main { assert (== 1 1) }\n"
            % (k, k - 3, k - 2)))
    compf = progs.compile_sources(plain, fan_src)
    flines = ["vm.run 20000000 0 " + b.hex() for n, t, b, e in compf if b]
    fnames = [n for n, t, b, e in compf if b]
    pf = common.batch_robust(probe, flines, timeout=3000, env=env)
    for n, c in zip(fnames, pf):
        ctx.case(n)
        k = int(n.split("-")[1])
        want = ("%d\n12345\nhello\nhello\nhello\n0\nhello\n" % k).encode().hex()
        w = dict(x.split("=", 1) for x in c[2:].split()) if c.startswith("R ") else {}
        if w.get("res") != "0" or w.get("out") != want or w.get("dangling") != "false":
            oracle_fail.append({"case": n, "why": "an object referenced from %d places at once is freed early / double freed / the program misbehaves" % k,
                                "impl": c[:300], "expected_out_hex": want})
    ctx.cov["fanin_runs"] = len(fnames)
    if len(fnames) != len(fan_src):
        oracle_fail.append({"case": "fanin", "why": "fan-in program rejected by the compiler", "diag": [e for n, t, b, e in compf if not b][:1]})

    ctx.cov["disagreements_checked"] = len(disagreements)
    ctx.cov["traces_validated_against_impl"] = len(cases)
    ctx.sample({"case": cases[0][0]}); ctx.sample({"case": cases[-1][0]})
    ctx.sample({"theorems": info.get("theorems", [])})
    ctx.cov["rule"] = ("compiler-produced modules (repo examples, generated well-typed programs), typed random bytecode over every heap opcode, churn family; "
                       "the real VM prints stack, globals, frame closures and every live object (allocation-order id, ref_count, children) at every instruction boundary "
                       "(hook H2); each boundary is audited (ref_count >= in-degree, no dangling reference) and compared with the Lean model's boundary; "
                       "non-trivial = the run reached the VM; distinct by label + final summary")
    for f in oracle_fail[:3]:
        ctx.violation({"kind": "oracle", "detail": f, "replay_with": "echo 'vm.run %d 1 <module_hex>' | <vm_probe>" % fuel})
    if not oracle_fail:
        if not info["ok"]:
            ctx.violation({"kind": "proof-obligation", "theorem_module": MODULE, "broken": info["broken"],
                           "searched": "%d boundaries of %d runs audited on the implementation: invariant holds" % (boundaries, len(cases))}, no_input=True)
        elif disagreements:
            ctx.violation({"kind": "correspondence", "which": "vm.run trace model != implementation",
                           "first": [dict(case=l, where=w, model=a, impl=c, module_hex=h) for l, w, a, c, h in disagreements[:4]], "count": len(disagreements)}, no_input=True)
    return ctx.finish(info["obligations"], info["discharged"])
