"""C08 — out-of-range operations stop the program and never yield a value."""
import os
import subprocess
import tempfile
from concurrent.futures import ThreadPoolExecutor

from .. import build, common, nvm

MODULE = "NanoVerif.Props.C08"
I64MIN, I64MAX = -(1 << 63), (1 << 63) - 1


def indices(n):
    s = {-1, 0, 1, n - 1, n, n + 1, 2**31 - 1, 2**31, 2**32 - 1, 2**32, 2**32 + 1, 2**32 + max(0, n - 1), 2**33, I64MIN, I64MAX, -(2**32), -(2**32) + 1, -n, 2**32 * 3 + 2}
    return sorted(s)


def vm_array_prog(L, tab, n, idx, op):
    names = {nm: o for o, (nm, ops) in tab.items()}
    E = lambda nm, *vals: nvm.encode_instr(names[nm], [v & ((1 << 64) - 1) for v in vals], tab)
    m = nvm.Mod()
    m.strings = [b"main", b"before", b"after"]
    pre = E("ARR_NEW", 1) + E("STORE_LOCAL", 0) + E("PUSH_I64", 0) + E("STORE_LOCAL", 1)
    loop_body = E("LOAD_LOCAL", 0) + E("LOAD_LOCAL", 1) + E("PUSH_I64", 1000) + E("ADD") + E("ARR_PUSH") + E("STORE_LOCAL", 0) + \
        E("LOAD_LOCAL", 1) + E("PUSH_I64", 1) + E("ADD") + E("STORE_LOCAL", 1)
    cond = E("LOAD_LOCAL", 1) + E("PUSH_I64", n) + E("LT")
    jf = 5
    back = len(cond) + jf + len(loop_body)
    loop = cond + E("JMP_FALSE", jf + len(loop_body) + 5) + loop_body + E("JMP", (-back) & 0xFFFFFFFF)
    body = pre + loop + E("PUSH_STR", 1) + E("PRINTLN") + E("LOAD_LOCAL", 0)
    if op.endswith("-enum"):
        # the index is an enum value (what `(at a Color.Blue)` compiles to)
        push_idx = E("ENUM_VAL", 0, idx)
        body += push_idx + {"get-enum": E("ARR_GET") + E("PRINTLN"), "set-enum": E("PUSH_I64", 77) + E("ARR_SET") + E("PRINTLN"),
                            "remove-enum": E("ARR_REMOVE") + E("ARR_LEN") + E("PRINTLN")}[op]
    elif op == "get":
        body += E("PUSH_I64", idx) + E("ARR_GET") + E("PRINTLN")
    elif op == "set":
        body += E("PUSH_I64", idx) + E("PUSH_I64", 77) + E("ARR_SET") + E("PRINTLN")
    elif op == "remove":
        body += E("PUSH_I64", idx) + E("ARR_REMOVE") + E("ARR_LEN") + E("PRINTLN")
    elif op == "pop":
        body += E("ARR_POP") + E("POP") + E("PRINTLN")
    body += E("PUSH_STR", 2) + E("PRINTLN") + E("PUSH_I64", 0) + E("RET")
    m.code = body
    m.functions = [[0, 0, 0, len(body), 2, 0]]
    return m.build(L)


def vm_field_prog(L, tab, n, fidx, kind):
    names = {nm: o for o, (nm, ops) in tab.items()}
    E = lambda nm, *vals: nvm.encode_instr(names[nm], [v & ((1 << 64) - 1) for v in vals], tab)
    m = nvm.Mod()
    m.strings = [b"main", b"before", b"after"]
    body = b"".join(E("PUSH_I64", 1000 + i) for i in range(n))
    body += {"tuple": E("TUPLE_NEW", n), "struct": E("STRUCT_LITERAL", 0, n), "union": E("UNION_CONSTRUCT", 0, 1, n)}[kind]
    body += E("PUSH_STR", 1) + E("PRINTLN")
    body += {"tuple": E("TUPLE_GET", fidx), "struct": E("STRUCT_GET", fidx), "union": E("UNION_FIELD", fidx)}[kind]
    body += E("PRINTLN") + E("PUSH_STR", 2) + E("PRINTLN") + E("PUSH_I64", 0) + E("RET")
    m.code = body
    m.functions = [[0, 0, 0, len(body), 0, 0]]
    return m.build(L)


def lit(idx):
    """source text for an int64 (INT64_MIN cannot be written as one literal)"""
    return "(- -9223372036854775807 1)" if idx == I64MIN else str(idx)


def src_native(n, idx, op):
    arr = "[" + ", ".join(str(1000 + i) for i in range(n)) + "]" if n else None
    decl = "    let mut a: array<int> = %s\n" % arr if arr else "    let mut a: array<int> = (array_new 0 0)\n"
    acc = {"get": "    let x: int = (at a %s)\n    (println x)\n" % lit(idx),
           "set": "    (array_set a %s 77)\n    (println (array_length a))\n" % lit(idx),
           "remove": "    set a (array_remove_at a %s)\n    (println (array_length a))\n" % lit(idx),
           "pop": "    let x: int = (array_pop a)\n    (println x)\n"}[op]
    return ("fn main() -> int {\n" + decl + '    (println "before")\n' + acc + '    (println "after")\n    return 0\n}\nshadow main { assert (== 1 1) }\n')


def src_interp(n, idx, op, elem="int", built="literal"):
    """the access happens inside a shadow block, i.e. in the compile-time interpreter"""
    ty = {"int": "int", "string": "string", "struct": "Pt"}[elem]
    val = {"int": lambda i: str(1000 + i), "string": lambda i: '"s%d"' % i, "struct": lambda i: "Pt { v: %d }" % (1000 + i)}[elem]
    if built == "literal":
        decl = "    let mut a: array<%s> = [%s]\n" % (ty, ", ".join(val(i) for i in range(n)))
    else:
        decl = "    let mut a: array<%s> = []\n" % ty + "".join("    set a (array_push a %s)\n" % val(i) for i in range(n))
    if op == "pop":
        acc = {"int": "    let x: int = (array_pop a)\n    (println x)\n    return 1\n", "string": "    let x: string = (array_pop a)\n    (println x)\n    return 1\n",
               "struct": "    let x: Pt = (array_pop a)\n    (println x.v)\n    return 1\n"}[elem]
    elif op == "get":
        acc = {"int": "    let x: int = (at a i)\n    (println x)\n    return x\n",
               "string": "    let x: string = (at a i)\n    (println x)\n    return (str_length x)\n",
               "struct": "    let x: Pt = (at a i)\n    (println x.v)\n    return x.v\n"}[elem]
    else:
        acc = "    (array_set a i %s)\n    return (array_length a)\n" % val(7)
    return ("struct Pt { v: int }\nfn f(i: int) -> int {\n%s    (println \"before\")\n%s}\n"
            "shadow f {\n    let r: int = (f %s)\n    (println \"after\")\n    assert (== 1 1)\n}\n"
            "fn main() -> int { return 0 }\nshadow main { assert (== 1 1) }\n" % (decl, acc, lit(idx)))


ELEMS = {"int": ("int", lambda i: str(1000 + i)), "float": ("float", lambda i: "%d.5" % i), "bool": ("bool", lambda i: "true"),
         "string": ("string", lambda i: '"s%d"' % i), "struct": ("Pt", lambda i: "Pt { v: %d }" % (1000 + i)),
         "nested": ("array<int>", lambda i: "[%d, %d]" % (i, i + 1))}


def src_kind(elem, op, idx, n=2):
    """whole program, element kind x operation: typed access, access whose result is discarded (expression
    statement), store, removal, pop on an empty array"""
    ty, val = ELEMS[elem]
    if op == "pop":
        decl = "    let mut a: array<%s> = []\n" % ty
    elif elem in ("struct", "nested"):      # literals of these kinds do not compile natively (F-C04-10)
        decl = "    let mut a: array<%s> = []\n" % ty + "".join("    set a (array_push a %s)\n" % val(i) for i in range(n))
    else:
        decl = "    let mut a: array<%s> = [%s]\n" % (ty, ", ".join(val(i) for i in range(n)))
    acc = {"get": "    let x: %s = (at a %s)\n" % (ty, lit(idx)),
           "get-discarded": "    (at a %s)\n" % lit(idx),
           "set": "    (array_set a %s %s)\n" % (lit(idx), val(7)),
           "remove": "    set a (array_remove_at a %s)\n" % lit(idx),
           "pop": "    let x: %s = (array_pop a)\n" % ty}[op]
    return ("struct Pt { v: int }\nfn main() -> int {\n" + decl + '    (println "before")\n' + acc +
            '    (println (array_length a))\n    (println "after")\n    return 0\n}\nshadow main { assert (== 1 1) }\n')


def src_shape(shape, op, idx):
    """the array operand is not a variable: a row of a nested array, the result of a call, a struct field"""
    pre = ("struct Holder { items: array<int> }\n"
           "fn mk(n: int) -> array<int> {\n    let mut r: array<int> = []\n    let mut i: int = 0\n    while (< i n) {\n        set r (array_push r (+ 1000 i))\n        set i (+ i 1)\n    }\n    return r\n}\nshadow mk { assert (== (array_length (mk 2)) 2) }\n")
    decl = ("    let mut rows: array<array<int>> = []\n    set rows (array_push rows (mk 2))\n    set rows (array_push rows (mk 0))\n"
            "    let h: Holder = Holder { items: (mk 2) }\n    let e: Holder = Holder { items: (mk 0) }\n")
    full = {"row": "(at rows 0)", "call": "(mk 2)", "field": "h.items"}[shape]
    empty = {"row": "(at rows 1)", "call": "(mk 0)", "field": "e.items"}[shape]
    acc = {"get": "    (println (+ 1 (at %s %s)))\n" % (full, lit(idx)),
           "set": "    (array_set %s %s 7)\n" % (full, lit(idx)),
           "remove": "    let b: array<int> = (array_remove_at %s %s)\n    (println (array_length b))\n" % (full, lit(idx)),
           "pop": "    let x: int = (array_pop %s)\n    (println x)\n" % (full if idx == 1 else empty)}[op]
    return (pre + "fn main() -> int {\n" + decl + '    (println "before")\n' + acc + '    (println (array_length rows))\n    (println (array_length h.items))\n    (println (array_length e.items))\n    (println "after")\n    return 0\n}\nshadow main { assert (== 1 1) }\n')


def run_vm_src(args):
    tdir, td, k, src = args
    p = os.path.join(td, "v%d.nano" % k)
    open(p, "w").write(src)
    try:
        r = subprocess.run([os.path.join(tdir, "bin", "nano_virt"), p, "--run"], cwd=tdir, stdout=subprocess.PIPE, stderr=subprocess.PIPE, timeout=20)
    except subprocess.TimeoutExpired:
        return ("run-timeout", b"", b"", None)
    return (r.returncode, r.stdout, r.stderr[-300:], None)


def run_native(args):
    tdir, td, k, src, mode = args
    p = os.path.join(td, "p%d.nano" % k)
    exe = os.path.join(td, "p%d.bin" % k)
    open(p, "w").write(src)
    cmd = [os.path.join(tdir, "bin", "nanoc_c"), p, "-o", exe] + (["--verbose"] if mode == "interp" else [])
    try:
        c = subprocess.run(cmd, cwd=tdir, stdout=subprocess.PIPE, stderr=subprocess.PIPE, timeout=120)
    except subprocess.TimeoutExpired:
        return ("compile-timeout", b"", b"", None)
    if mode == "interp":
        return (c.returncode, c.stdout, c.stderr[-400:], os.path.exists(exe))
    if c.returncode != 0 or not os.path.exists(exe):
        return ("compile-failed", c.stdout[-200:], c.stderr[-400:], None)
    try:
        r = subprocess.run([exe], stdout=subprocess.PIPE, stderr=subprocess.PIPE, timeout=20)
    except subprocess.TimeoutExpired:
        return ("run-timeout", b"", b"", None)
    return (r.returncode, r.stdout, r.stderr[-300:], None)


def run(ctx):
    info = common.prove(ctx, MODULE, ["isa", "nvm"])
    quick = ctx.tier == "quick"
    tdir = build.tree("plain", ("vm", "bin/nanoc_c"))
    probe = build.probe("vm_probe", tdir, ("isa", "vm", "common"))
    driver = common.build_driver()
    rng = ctx.rng
    L, tab = nvm.layout(), nvm.isa_table()
    oracle_fail, disagreements = [], []

    # 1. NanoVM, exhaustive over lengths x boundary indices x operations
    cases = []
    for n in ([0, 1, 2, 3, 8, 64] if quick else [0, 1, 2, 3, 4, 5, 6, 7, 8, 64, 1000]):
        for idx in indices(n):
            for op in ("get", "set", "remove"):
                cases.append(("vm:%s len=%d idx=%d" % (op, n, idx), vm_array_prog(L, tab, n, idx, op), 0 <= idx < n, n, idx, op))
        cases.append(("vm:pop len=%d" % n, vm_array_prog(L, tab, n, 0, "pop"), n > 0, n, n - 1, "pop"))
        for idx in sorted({0, 1, n - 1 if n else 0, n, n + 1, 5, 255, 65535}):
            for op in ("get", "set", "remove"):
                cases.append(("vm:%s-enum len=%d idx=%d" % (op, n, idx), vm_array_prog(L, tab, n, idx, op + "-enum"), 0 <= idx < n, n, idx, op))
    for kind in ("tuple", "struct", "union"):
        for n in (0, 1, 3):
            for f in sorted({0, 1, n - 1 if n else 0, n, n + 1, 255, 256, 65535}):
                cases.append(("vm:%s n=%d field=%d" % (kind, n, f), vm_field_prog(L, tab, n, f, kind), f < n, n, f, "field"))
    lines = ["vm.run 200000 0 " + b.hex() for _, b, _, _, _, _ in cases]
    md = common.batch(driver, lines, timeout=3000)[0]
    pd = common.batch_robust(probe, lines, timeout=3000)
    for (lab, b, inr, n, idx, op), a, c in zip(cases, md, pd):
        ctx.case(lab)
        if a != c:
            disagreements.append((lab, a[:200], c[:200]))
        w = dict(x.split("=", 1) for x in c[2:].split()) if c.startswith("R ") else {}
        out = bytes.fromhex(w["out"]).decode(errors="replace") if w.get("out", "-") != "-" else ""
        if inr:
            exp_val = {"get": str(1000 + idx), "set": None, "remove": str(n - 1), "pop": None, "field": str(1000 + idx)}[op]
            ok = w.get("res") == "0" and out.startswith("before\n") and out.endswith("after\n") and (exp_val is None or ("\n" + exp_val + "\n") in out)
        else:
            ok = w.get("res") == "6" and out == "before\n"
        if not ok:
            oracle_fail.append({"engine": "NanoVM", "case": lab, "in_range": inr, "impl": c[:300], "why": "out-of-range access must stop the run with a run-time error; in-range access must yield that element", "module_hex": b.hex()})
    ctx.cov["vm_cases_exhaustive"] = len(cases)

    # 2. native binary and compile-time interpreter on whole programs
    progs = []
    lens = [0, 3] if quick else [0, 1, 3, 8]
    for n in lens:
        for idx in ([-1, n, 2**32 + (1 if n > 1 else 0), I64MIN, max(0, n - 1)] if quick else indices(n)):
            for op in (("get",) if quick and n == 0 else ("get", "set", "remove")):
                progs.append(("native", n, idx, op, src_native(n, idx, op)))
        progs.append(("native", n, 0, "pop", src_native(n, 0, "pop")))
    for n in ([3] if quick else [1, 3, 8]):
        for idx in ([-1, n, 2**32 + 1, n - 1] if quick else indices(n)):
            for op in ("get", "set"):
                progs.append(("interp", n, idx, op, src_interp(n, idx, op)))
    # interpreter: every element kind x literal / push-built arrays at the boundary indices
    for elem in ("int", "string", "struct"):
        for built in ("literal", "push"):
            if elem == "struct" and built == "literal":
                continue      # the interpreter does not support struct array literals at all (recorded under C03)
            for idx in ((2, 1) if quick else (-1, 0, 1, 2, 3, 2**32)):
                progs.append(("interp", 2, idx, "get", src_interp(2, idx, "get", elem, built)))
    # every element kind x operation (typed access, access whose value is discarded, store, removal, pop on empty),
    # natively compiled and on the VM from source
    for elem in ELEMS:
        for op in ("get", "get-discarded", "set", "remove", "pop"):
            for idx in ((2,) if quick else (2, -1, 3, 2**32)):
                if op == "pop" and idx != 2:
                    continue
                for mode in ("native", "vmsrc"):
                    progs.append((mode, 2, idx, op + "/" + elem, src_kind(elem, op, idx)))
            if not quick or elem in ("int", "nested"):
                for mode in ("native", "vmsrc"):
                    if op != "pop":
                        progs.append((mode, 2, 1, op + "/" + elem, src_kind(elem, op, 1)))
    # operand shapes: a row of a nested array, a call result, a struct field (in-range control with idx 1)
    for shape in ("row", "call", "field"):
        for op in ("get", "set", "remove", "pop"):
            for idx in ((2, 1) if quick else (2, 1, -1, 3, 2**32)):
                if op == "pop" and idx not in (1, 2):
                    continue
                for mode in ("native", "vmsrc"):
                    if op == "pop":
                        # label "popfull" for the in-range control so that the judge below treats only the empty case as out of range
                        progs.append((mode, 2, 1 if idx == 1 else 2, ("popfull/" if idx == 1 else "pop/") + shape, src_shape(shape, op, idx)))
                    else:
                        progs.append((mode, 2, idx, op + "/" + shape, src_shape(shape, op, idx)))
    # interpreter: pop on an empty array (literal-built and push-built), every element kind
    for elem in ("int", "string", "struct"):
        for built in ("literal", "push"):
            if elem == "struct" and built == "literal":
                continue
            progs.append(("interp", 0, 0, "pop", src_interp(0, 0, "pop", elem, built)))
    progs.append(("interp", 2, 0, "pop", src_interp(2, 0, "pop", "int", "push")))
    with tempfile.TemporaryDirectory(prefix="nvc08", dir="/var/tmp") as td:
        with ThreadPoolExecutor(16) as ex:
            res = list(ex.map(lambda kp: run_vm_src((tdir, td, kp[0], kp[1][4])) if kp[1][0] == "vmsrc" else run_native((tdir, td, kp[0], kp[1][4], kp[1][0])), enumerate(progs)))
    for (mode, n, idx, op, src), (rc, out, err, exe) in zip(progs, res):
        lab = "%s:%s len=%d idx=%d" % (mode, op, n, idx)
        ctx.case(lab)
        inr = (0 <= idx < n) if not op.startswith("pop") else ((n > 0 and "/" not in op) or op.startswith("popfull"))
        text = out.decode(errors="replace")
        if mode in ("native", "vmsrc"):
            ok = (rc == 0 and "after" in text) if inr else (isinstance(rc, int) and rc != 0 and "after" not in text)
        else:
            ok = (rc == 0 and "after" in text) if inr else (isinstance(rc, int) and rc != 0 and "after" not in text and not exe)
        if "/" in op and rc == 1 and b"type check failed" in err:
            ctx.count("kind_family_rejected_by_type_checker")
            continue
        if rc == "compile-failed" and "/" in op:
            ctx.count("kind_family_not_compiled_natively")      # an accepted program that does not compile is C04's subject
            continue
        if not ok:
            fid = "F-C08-3"
            if mode == "native" and op == "pop" and not inr and fid in ctx.findings and ctx.findings[fid]["status"] == "known" and rc == 0:
                ctx.known(fid, "native array_pop on an empty array yields a default value and the program continues (exit 0)")
                continue
            oracle_fail.append({"engine": mode, "case": lab, "in_range": inr, "exit": rc, "stdout": text[-200:], "stderr": err.decode(errors="replace")[-300:],
                                "why": "out-of-range access must end the run with a non-zero status and nothing after it; in-range access must succeed", "source": src})
    ctx.cov["native_and_interpreter_programs"] = len(progs)
    ctx.cov["disagreements_checked"] = len(disagreements)
    ctx.cov["traces_validated_against_impl"] = len(cases)
    ctx.cov["exhaustive"] = True
    ctx.sample(cases[5][0]); ctx.sample(cases[-1][0]); ctx.sample({"theorems": info.get("theorems", [])})
    ctx.cov["rule"] = ("NanoVM: every array length in the list x 19 boundary indices (negative, len, len+1, 2^31, 2^32+k, INT64_MIN/MAX) x get/set/remove, pop, tuple/struct/union field; "
                       "model and implementation compared, implementation oracle: in range => that element and the run continues, else VM_ERR_OUT_OF_BOUNDS and nothing printed after the access; "
                       "native binaries and the compile-time interpreter on whole programs; element kind (int, float, bool, string, struct, nested array) x (typed access, discarded access, store, removal, pop on empty) natively and on the VM from source; distinct by case label")
    for f in oracle_fail[:3]:
        ctx.violation({"kind": "oracle", "detail": f})
    if not oracle_fail:
        if not info["ok"]:
            ctx.violation({"kind": "proof-obligation", "theorem_module": MODULE, "broken": info["broken"],
                           "searched": "%d VM cases and %d native/interpreter programs: oracle true on all" % (len(cases), len(progs))}, no_input=True)
        elif disagreements:
            ctx.violation({"kind": "correspondence", "which": "vm.run model != implementation", "first": [list(x) for x in disagreements[:5]], "count": len(disagreements)}, no_input=True)
    return ctx.finish(info["obligations"], info["discharged"])
