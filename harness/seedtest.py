#!/usr/bin/env python3
"""Apply a seeded change to /repo, run one check, undo.  usage: seedtest.py <patch.diff> <PROP> [tier]"""
import subprocess, sys, os, json
patch, prop = os.path.abspath(sys.argv[1]), sys.argv[2]
tier = sys.argv[3] if len(sys.argv) > 3 else "quick"
st = subprocess.run(["git", "-C", "/repo", "status", "--porcelain", "--untracked-files=no"], stdout=subprocess.PIPE).stdout.decode().strip()
if st:
    print("refusing: /repo has uncommitted changes:\n" + st); sys.exit(2)
subprocess.run(["git", "-C", "/repo", "apply", patch], check=True)
try:
    p = subprocess.run(["./check", prop, "--tier", tier], cwd="/verif", stdout=subprocess.PIPE, stderr=subprocess.PIPE)
    out = p.stdout.decode()
    print("rc=%d" % p.returncode)
    print(out[-1500:])
    if p.returncode not in (0, 1):
        print(p.stderr.decode()[-2000:])
    for l in out.splitlines():
        if l.startswith("VIOLATION"):
            rp = l.split("replay=")[1].split()[0]
            d = json.load(open(rp))
            s = json.dumps(d)[:700]
            print("  replay:", s)
            break
finally:
    subprocess.run(["git", "-C", "/repo", "checkout", "--", "."], check=True)
