#!/bin/bash
# Runs every claimed check (quick tier) on the current /repo and prints one line per check.
cd /verif
st=$(git -C /repo status --porcelain --untracked-files=no)
[ -n "$st" ] && { echo "/repo has uncommitted changes"; exit 2; }
for id in $(python3 -c "import json;print(' '.join(c['property_id'] for c in json.load(open('MANIFEST.json'))['checks']))"); do
  s=$(date +%s)
  out=$(VERIF_SEED=${VERIF_SEED:-1} ./check $id --tier ${1:-quick} 2>/tmp/runall_$id.err); rc=$?
  e=$(date +%s)
  echo "$id rc=$rc $((e-s))s $(echo "$out" | grep -c '^VIOLATION') violations $(echo "$out" | grep -c '^KNOWN-FINDING') known"
done
