"""Shared machinery of the language-level checks (C01, C02, C03, C04): program families and engine runners.

Engines: the NanoVM back end (`nano_virt --run`), the native back end (`nanoc` + the produced binary), the compile-time
evaluator (`nanoc --verbose`, shadow blocks), and the Lean reference semantics (`sem` command of nvdriver)."""
import binascii
import os
import subprocess
from concurrent.futures import ThreadPoolExecutor

from . import common

BOUNDARY = [0, 1, -1, 2, -2, 3, 7, -7, 10, 255, 256, -256, 65535, 2147483647, -2147483648, 2147483648, 4294967295, 4294967296,
            9007199254740992, 9007199254740993, -9007199254740993, 4611686018427387904, -4611686018427387904, 6000000000000000000, -6000000000000000000, 9223372036854775806,
            9223372036854775807, -9223372036854775807, -9223372036854775808]
BINOPS = ["+", "-", "*", "/", "%", "==", "!=", "<", "<=", ">", ">="]
# pairs of distinct integers that collapse under a lossy representation (double, 32-bit): always part of the comparison families
NEAR_PAIRS = [(9007199254740992, 9007199254740993), (9007199254740993, 9007199254740992), (9223372036854775807, 9223372036854775806),
              (9223372036854775000, 9223372036854775807), (-9007199254740993, -9007199254740992), (4294967296, 0), (4294967297, 1),
              (2147483648, -2147483648), (-9223372036854775807, 9223372036854775807), (6000000000000000000, -6000000000000000000),
              (-9223372036854775808, -1), (-9223372036854775808, 1), (9223372036854775807, -1)]


def lit(v):
    if v == -9223372036854775808:
        return "(- (- 0 9223372036854775807) 1)"
    return str(v)


def arith_program(op, pairs, through_call=True):
    """prints (op a b) for every pair, once on literals and once through a function (so neither compiler can fold it)"""
    rt = "int" if op in ("+", "-", "*", "/", "%") else "bool"
    L = ["fn f(a: int, b: int) -> %s {\n    return (%s a b)\n}\nshadow f { assert (== 1 1) }\n" % (rt, op), "fn main() -> int {\n"]
    for a, b in pairs:
        L.append("    (println (%s %s %s))\n" % (op, lit(a), lit(b)))
        if through_call:
            L.append("    (println (f %s %s))\n" % (lit(a), lit(b)))
    L.append("    return 0\n}\nshadow main { assert (== 1 1) }\n")
    return "".join(L)


def unary_program(vals):
    L = ["fn ng(a: int) -> int {\n    return (- a)\n}\nshadow ng { assert (== 1 1) }\nfn ab(a: int) -> int {\n    return (abs a)\n}\nshadow ab { assert (== 1 1) }\n"
         "fn nt(a: bool) -> bool {\n    return (not a)\n}\nshadow nt { assert (== 1 1) }\nfn main() -> int {\n"]
    for v in vals:
        L.append("    (println (ng %s))\n    (println (- %s))\n    (println (ab %s))\n" % (lit(v), lit(v), lit(v)))
        L.append("    (println (min %s %s))\n    (println (max %s %s))\n" % (lit(v), lit(-v if v != -9223372036854775808 else 0), lit(v), lit(7)))
    L.append("    (println (nt true))\n    (println (nt false))\n    (println (not (nt true)))\n    return 0\n}\nshadow main { assert (== 1 1) }\n")
    return "".join(L)


def shortcircuit_program(rng):
    """and/or with every shape of left operand and an effectful (printing) or partial (guarded array access) right operand"""
    L = ["fn noisy(tag: int, r: bool) -> bool {\n    (println tag)\n    return r\n}\nshadow noisy { assert (== 1 1) }\n"
         "fn idb(b: bool) -> bool {\n    return b\n}\nshadow idb { assert (== 1 1) }\n"
         "fn main() -> int {\n    let a: array<int> = [5, 6, 7]\n    let t: bool = true\n    let f: bool = false\n    let mut n: int = 0\n"]
    k = 0
    lefts = [("t", True), ("f", False), ("true", True), ("false", False), ("(== 1 1)", True), ("(< 2 1)", False), ("(idb true)", True), ("(idb false)", False),
             ("(not f)", True), ("(and t f)", False), ("(or f t)", True)]
    rng.shuffle(lefts)
    for ls, lv in lefts:
        for op in ("and", "or"):
            for rv in ("true", "false"):
                k += 1
                L.append("    (println (%s %s (noisy %d %s)))\n" % (op, ls, k, rv))
                if rng.random() < 0.5:
                    L.append("    if (%s %s (noisy %d %s)) { set n (+ n 1) } else { set n (+ n 100) }\n" % (op, ls, 1000 + k, rv))
            # guarded partial operation: the right operand would be out of range when the left one decides
            idx = 7
            if op == "and" and not lv:
                L.append("    (println (and %s (== (at a %d) 1)))\n" % (ls, idx))
            if op == "or" and lv:
                L.append("    (println (or %s (== (at a %d) 1)))\n" % (ls, idx))
    L.append("    (println n)\n    return 0\n}\nshadow main { assert (== 1 1) }\n")
    return "".join(L)


def operand_order_program(rng):
    """every binary operator with two effectful operands (printing calls), and with a left operand that reads a global the right
    operand's call updates: strict left-to-right evaluation (specification 4.9) fixes both the printed order and the value"""
    L = ["let mut level: int = 5\n"
         "fn p(x: int) -> int {\n    (println x)\n    return x\n}\nshadow p { assert (== 1 1) }\n"
         "fn pb(x: int, r: bool) -> bool {\n    (println x)\n    return r\n}\nshadow pb { assert (== 1 1) }\n"
         "fn bump() -> int {\n    set level (+ level 10)\n    return level\n}\nshadow bump { assert (== 1 1) }\n"
         "fn ps(x: int) -> string {\n    (println x)\n    return (int_to_string x)\n}\nshadow ps { assert (== 1 1) }\n"
         "fn add3(a: int, b: int, c: int) -> int {\n    return (+ (* a 100) (+ (* b 10) c))\n}\nshadow add3 { assert (== 1 1) }\n"
         "fn pair2(a: int, b: int) -> int {\n    return (+ (* a 1000) b)\n}\nshadow pair2 { assert (== 1 1) }\n"
         "fn main() -> int {\n"]
    k = 100
    ops = ["+", "-", "*", "/", "%", "==", "!=", "<", "<=", ">", ">="]
    rng.shuffle(ops)
    for op in ops:
        a, b = rng.randint(1, 9), rng.randint(1, 9)
        k += 2
        L.append("    (println (%s (p %d) (p %d)))\n" % (op, k * 10 + a, k * 10 + 10 + b))
        L.append("    (println (%s level (bump)))\n" % op)
        L.append("    (println (%s (bump) level))\n" % op)
        L.append("    (println (%s (+ 1 (p %d)) (* 2 (p %d))))\n" % (op, k * 10 + 1, k * 10 + 2))
    # an operand that makes the result independent of the other one (x*0, x%1, x-x ...) or leaves it unchanged (x+0, x*1) does not
    # make the other operand's evaluation optional
    for op, lt in (("*", 0), ("*", 1), ("+", 0), ("-", 0), ("/", 1), ("%", 1), ("*", -1), ("/", -1), ("%", -1)):
        k += 2
        L.append("    (println (%s (p %d) %d))\n" % (op, k * 10 + 1, lt))
        L.append("    (println (%s (bump) %d))\n" % (op, lt))
        if op in ("*", "+"):
            L.append("    (println (%s %d (p %d)))\n" % (op, lt, k * 10 + 2))
            L.append("    (println (%s %d (bump)))\n" % (op, lt))
    L.append("    (println (- 0 (p 21)))\n    (println (- (p 22) (p 22)))\n")
    # string operators, calls, array literals and array builtins with effectful arguments
    L.append("    (println (+ (ps %d) (ps %d)))\n" % (k * 10 + 3, k * 10 + 4))
    L.append("    (println (== (ps %d) (ps %d)))\n" % (k * 10 + 5, k * 10 + 6))
    L.append("    (println (!= (ps %d) (+ (ps %d) (ps %d))))\n" % (k * 10 + 7, k * 10 + 8, k * 10 + 9))
    L.append("    (println (add3 (p 1) (p 2) (p 3)))\n")
    L.append("    (println (add3 level (bump) level))\n")
    L.append("    (println (add3 (add3 (p 4) 0 (p 5)) (p 6) (add3 (p 7) (p 8) (bump))))\n")
    # the effect in the LAST argument, everything before it only reads: right-to-left evaluation shows in the values read
    L.append("    (println (add3 level level (bump)))\n")
    L.append("    (println (add3 0 level (bump)))\n")
    L.append("    (println (pair2 level (bump)))\n")
    L.append("    (println (pair2 (+ level 1) (bump)))\n")
    L.append("    (println (pair2 (bump) level))\n")
    L.append("    let arr: array<int> = [(p 11), (p 12), (bump), level]\n    (println arr)\n")
    L.append("    (println (at [(p 13), (p 14)] (p 1)))\n")
    L.append("    let mut arr2: array<int> = [1, 2, 3]\n    set arr2 (array_push arr2 (p 15))\n    (println arr2)\n    (array_set arr2 (p 2) (p 16))\n")
    L.append("    (println (str_concat (ps 17) (ps 18)))\n")
    L.append("    (println (max (p 19) (p 20)))\n")
    for op in ("and", "or"):
        for la in ("true", "false"):
            for rb in ("true", "false"):
                k += 2
                L.append("    (println (%s (pb %d %s) (pb %d %s)))\n" % (op, k, la, k + 1, rb))
                # right operand is an operator expression whose *second* operand has the effect
                L.append("    (println (%s (pb %d %s) (== 3 (p %d))))\n" % (op, k + 1000, la, 3))
                L.append("    (println (%s (pb %d %s) (not (pb %d %s))))\n" % (op, k + 2000, la, k + 2001, rb))
                L.append("    (println (%s (pb %d %s) (%s (== 1 1) (pb %d %s))))\n" % (op, k + 3000, la, rng.choice(["and", "or"]), k + 3001, rb))
    L.append("    (println level)\n    return 0\n}\nshadow main { assert (== 1 1) }\n")
    return "".join(L)


def shadowed(fn_defs, calls):
    """program text: function definitions, one shadow block per function printing its calls, and a main doing the same calls in order"""
    L = []
    allcalls = []
    for name, text in fn_defs:
        cs = [c for n, c in calls if n == name]
        allcalls += cs
        L.append(text)
        L.append("shadow %s {\n%s    assert (== 1 1)\n}\n" % (name, "".join("    (println %s)\n" % c for c in cs)))
    L.append("fn main() -> int {\n%s    return 0\n}\nshadow main { assert (== 1 1) }\n" % "".join("    (println %s)\n" % c for c in allcalls))
    return "".join(L)


def shadow_arith_program(op, pairs):
    rt = "int" if op in ("+", "-", "*", "/", "%") else "bool"
    return shadowed([("f", "fn f(a: int, b: int) -> %s {\n    return (%s a b)\n}\n" % (rt, op))], [("f", "(f %s %s)" % (lit(a), lit(b))) for a, b in pairs])


def loops_program(rng):
    """nested for/while loops with continue and break at chosen iterations (first, middle, last), statements after the inner loop,
    loops inside if-branches: the control-flow signals must stay inside the loop they belong to"""
    fns, calls = [], []
    for k in range(3):
        n, m = rng.randint(2, 4), rng.randint(2, 4)
        ci, bi = rng.choice([0, m - 1, m - 1, rng.randrange(m)]), rng.choice([-1, -1, m - 1, rng.randrange(m)])
        inner_kind = rng.choice(["for", "for", "while"])
        outer_kind = rng.choice(["for", "while", "if"])
        if inner_kind == "for":
            inner = ("            for j in (range 0 %d) {\n                if (== j %d) { continue }\n                if (== j %d) { break }\n                set acc (+ acc (+ (* i 100) j))\n            }\n" % (m, ci, bi))
        else:
            inner = ("            let mut j: int = 0\n            while (< j %d) {\n                set j (+ j 1)\n                if (== j %d) { continue }\n                if (== j %d) { break }\n                set acc (+ acc (+ (* i 100) j))\n            }\n" % (m, ci + 1, bi + 1))
        after = "            set acc (+ acc 1000000)\n            (println acc)\n"
        if outer_kind == "for":
            body = "        for i in (range 0 %d) {\n%s%s        }\n" % (n, inner, after)
        elif outer_kind == "while":
            body = "        let mut i: int = 0\n        while (< i %d) {\n%s%s            set i (+ i 1)\n        }\n" % (n, inner, after)
        else:
            body = "        let i: int = %d\n        if (> x 0) {\n%s%s        } else {\n            set acc -1\n        }\n" % (rng.randint(1, 3), inner, after)
        name = "lp%d" % k
        fns.append((name, "fn %s(x: int) -> int {\n    let mut acc: int = x\n    if true {\n%s    }\n    set acc (+ acc 7)\n    return acc\n}\n" % (name, body)))
        for x in rng.sample([0, 1, 5, -3], 2):
            calls.append((name, "(%s %d)" % (name, x)))
    return shadowed(fns, calls)


def float_program(rng):
    """float -> int conversions and float comparisons (floats are compared and converted, never printed)"""
    vals = [0.5, 2147483647.5, 2147483648.0, -2147483649.0, 4294967296.0, 9007199254740992.0, 1.0e15, -7.75, 123456.789, 3000000000.0]
    fns = [("whole", "fn whole(x: float) -> int {\n    return (cast_int x)\n}\n"),
           ("scaled", "fn scaled(x: float) -> int {\n    return (cast_int (* x 1000.0))\n}\n"),
           ("fless", "fn fless(a: float, b: float) -> bool {\n    return (< a b)\n}\n"),
           ("tofl", "fn tofl(n: int) -> bool {\n    return (< (cast_float n) 4000000000.0)\n}\n")]
    calls = []
    for v in rng.sample(vals, 6):
        calls.append(("whole", "(whole %r)" % v))
        calls.append(("scaled", "(scaled %r)" % (v if abs(v) < 1e12 else 2147483.648)))
    for _ in range(4):
        a, b = rng.choice(vals), rng.choice(vals)
        calls.append(("fless", "(fless %r %r)" % (a, b)))
    for n in (0, 3999999999, 4000000001, -5):
        calls.append(("tofl", "(tofl %d)" % n))
    # literals that need 16-17 significant digits: a sum compared with its exact spelling and with the neighbouring doubles
    import math
    fns.append(("fsum", "fn fsum(a: float, b: float, want: float) -> int {\n    let s: float = (+ a b)\n    if (== s want) {\n        return 1\n    }\n    if (< s want) {\n        return 0\n    }\n    return 2\n}\n"))
    def fl(x):
        r = repr(x)
        return r if "e" not in r and "." in r else "%.17f" % x
    for _ in range(5):
        a, b = rng.choice([0.1, 0.2, 0.3, 0.7, rng.random(), rng.random() / 8]), rng.choice([0.2, 0.1, 0.6, rng.random(), rng.random() / 16])
        w = a + b
        for want in (w, math.nextafter(w, 2.0), math.nextafter(w, -1.0)):
            calls.append(("fsum", "(fsum %s %s %s)" % (fl(a), fl(b), fl(want))))
    # top-level float constants (inlined by the native back end): whole values and 17-digit values
    k1, k2 = rng.choice([1.0, 3.0, 7.0]), rng.choice([2.0, 4.0, 8.0])
    c3 = 0.1 + 0.2
    pre = "let FC_A: float = %s\nlet FC_B: float = %s\nlet FC_C: float = %s\n" % (fl(k1), fl(k2), fl(c3))
    fns.append(("fconst", "fn fconst(x: float) -> int {\n    let mut r: int = 0\n    if (> (/ FC_A FC_B) 0.1) {\n        set r (+ r 1)\n    }\n    if (== (+ x 0.2) FC_C) {\n        set r (+ r 10)\n    }\n    if (< (* (/ FC_A FC_B) FC_B) FC_A) {\n        set r (+ r 100)\n    }\n    return (+ r (cast_int (* (/ FC_A FC_B) 1000.0)))\n}\n"))
    calls += [("fconst", "(fconst 0.1)"), ("fconst", "(fconst 0.10000000000000002)")]
    return pre + shadowed(fns, calls)


def strconv_program(vals):
    L = ["fn main() -> int {\n"]
    for i, v in enumerate(vals):
        L.append("    let v%d: int = %s\n    let s%d: string = (int_to_string v%d)\n    (println s%d)\n    (println (str_length s%d))\n" % (i, lit(v), i, i, i, i))
        L.append("    (println (+ \"v=\" (int_to_string (* v%d 1))))\n    (println v%d)\n" % (i, i))
    L.append("    return 0\n}\nshadow main { assert (== 1 1) }\n")
    return "".join(L)


def scoping_program(rng):
    """block shadowing, loop variables, continue/break in both loop kinds, globals, recursion"""
    x0, x1, x2 = rng.randint(1, 9), rng.randint(10, 19), rng.randint(20, 29)
    return ("let g: int = %d\nlet mut h: int = 0\n"
            "fn bump(k: int) -> int {\n    set h (+ h k)\n    return h\n}\nshadow bump { assert (== 1 1) }\n"
            "fn fact(n: int) -> int {\n    if (<= n 1) { return 1 } else { return (* n (fact (- n 1))) }\n}\nshadow fact { assert (== (fact 5) 120) }\n"
            "fn main() -> int {\n    let x: int = %d\n    if (> x 0) {\n        let x: int = %d\n        (println x)\n        if (> x 0) {\n            let x: int = %d\n            (println x)\n        }\n        (println x)\n    }\n    (println x)\n"
            "    for x in (range 0 6) {\n        if (== x 1) { continue }\n        if (== x 4) { break }\n        (println x)\n    }\n    (println x)\n"
            "    let mut i: int = 0\n    while (< i 6) {\n        set i (+ i 1)\n        if (== i 2) { continue }\n        if (== i 5) { break }\n        let x: int = (* i 10)\n        (println x)\n    }\n    (println x)\n"
            "    (println (+ (bump 1) (bump 10)))\n    (println h)\n    (println (+ g (fact %d)))\n    return %d\n}\nshadow main { assert (== 1 1) }\n"
            % (rng.randint(1, 50), x0, x1, x2, rng.randint(1, 12), rng.randint(0, 300)))


# F-C02-5: `let mut b = a` aliases the array on both engines; the definition (Coq E_ArrayPush, value semantics) leaves a unchanged
ALIAS_WITNESS = """fn main() -> int {
    let a: array<int> = [1, 2]
    let mut b: array<int> = a
    set b (array_push b 3)
    (println (array_length a))
    (println (array_length b))
    return 0
}
shadow main { assert (== 1 1) }
"""

# ------------------------------------------------------------------------------------------------
# families in "shadowed" form: every function's shadow block prints calls of it, main performs the same calls in the same order.
# One program therefore exercises the compile-time evaluator, the VM, the native back end and the reference at once.

def guard_program(rng):
    """if / else-if / else whose then-branch ends in a nested `if c { return e }` (may fall through), returns in every position:
    exactly one branch of an if statement runs"""
    fns, calls = [], []
    fns.append(("pick", "fn pick(a: bool, b: bool) -> int {\n    if a {\n        (println \"then\")\n        if b { return 1 }\n    } else {\n        (println \"else\")\n        return 2\n    }\n    (println \"after\")\n    return 3\n}\n"))
    for a in ("true", "false"):
        for b in ("true", "false"):
            calls.append(("pick", "(pick %s %s)" % (a, b)))
    t1, t2, t3 = sorted(rng.sample(range(1, 900), 3))
    fns.append(("grade", "fn grade(n: int) -> int {\n    let mut r: int = 0\n    if (> n %d) {\n        set r (+ r 7)\n        if (> n 100000) { return 99 }\n    } else if (> n %d) {\n        set r (+ r 20)\n        if (== n %d) { return 55 }\n    } else if (> n %d) {\n        return 4\n    } else {\n        set r (+ r 1000)\n    }\n    return r\n}\n" % (t3, t2, t2 + 1, t1)))
    for n in [0, t1, t1 + 1, t2, t2 + 1, t2 + 2, t3, t3 + 1, 100001]:
        calls.append(("grade", "(grade %d)" % n))
    fns.append(("loopguard", "fn loopguard(n: int) -> int {\n    let mut i: int = 0\n    while (< i n) {\n        if (> i 2) {\n            if (== i %d) { return i }\n        } else {\n            (println i)\n        }\n        set i (+ i 1)\n    }\n    return -1\n}\n" % rng.randint(3, 6)))
    for n in (0, 2, 4, 9):
        calls.append(("loopguard", "(loopguard %d)" % n))
    # void functions whose last statement is a conditional with a return in one arm: the path that skips the return must come
    # back to the caller (the implicit return is not the last emitted byte)
    fns.append(("vnote1", "fn vnote1(c: bool) -> void {\n    (println \"n1\")\n    if c {\n        return\n    }\n}\n"))
    fns.append(("vnote2", "fn vnote2(c: bool) -> void {\n    if c {\n        (println \"n2\")\n    } else {\n        return\n    }\n}\n"))
    fns.append(("vnote3", "fn vnote3(c: bool, d: bool) -> void {\n    (println \"n3\")\n    if c {\n        if d {\n            return\n        }\n    } else {\n        if d {\n            (println \"n3d\")\n        } else {\n            return\n        }\n    }\n}\n"))
    fns.append(("vnote4", "fn vnote4(n: int) -> void {\n    let mut i: int = 0\n    while (< i n) {\n        if (== i 2) {\n            return\n        }\n        set i (+ i 1)\n    }\n}\n"))
    fns.append(("vback", "fn vback(c: bool, d: bool) -> int {\n    (vnote1 c)\n    (println \"b1\")\n    (vnote2 c)\n    (println \"b2\")\n    (vnote3 c d)\n    (println \"b3\")\n    (vnote4 1)\n    (vnote4 5)\n    return %d\n}\n" % rng.randint(1, 99)))
    for a in ("true", "false"):
        for b in ("true", "false"):
            calls.append(("vback", "(vback %s %s)" % (a, b)))
    return shadowed(fns, calls)


def shortcircuit_shadowed(rng):
    """and/or inside functions that shadow blocks call: the right operand prints or is a partial operation (guarded index)"""
    fns = [("noisy", "fn noisy(tag: int, r: bool) -> bool {\n    (println tag)\n    return r\n}\n")]
    calls = []
    k = rng.randint(10, 90)
    fns.append(("both", "fn both(a: bool, b: bool) -> bool {\n    return (and (noisy %d a) (noisy %d b))\n}\n" % (k, k + 1)))
    fns.append(("either", "fn either(a: bool, b: bool) -> bool {\n    return (or (noisy %d a) (noisy %d b))\n}\n" % (k + 2, k + 3)))
    fns.append(("plainl", "fn plainl(a: bool, b: bool) -> bool {\n    return (and a (noisy %d b))\n}\n" % (k + 4)))
    fns.append(("plainr", "fn plainr(a: bool, b: bool) -> bool {\n    return (or a (noisy %d b))\n}\n" % (k + 5)))
    n = rng.randint(2, 5)
    fns.append(("firstzero", "fn firstzero(n: int) -> int {\n    let a: array<int> = [%s]\n    let mut i: int = 0\n    while (and (< i %d) (!= (at a i) 0)) {\n        set i (+ i 1)\n    }\n    return i\n}\n"
                % (", ".join(str(rng.randint(1, 9)) for _ in range(n)), n)))
    fns.append(("safeat", "fn safeat(i: int) -> bool {\n    let a: array<int> = [4, 5, 6]\n    return (or (>= i 3) (== (at a i) 5))\n}\n"))
    for f in ("both", "either", "plainl", "plainr"):
        for a in ("true", "false"):
            for b in ("true", "false"):
                calls.append((f, "(%s %s %s)" % (f, a, b)))
    calls.append(("firstzero", "(firstzero 0)"))
    for i in (0, 1, 2, 3, 7):
        calls.append(("safeat", "(safeat %d)" % i))
    return shadowed(fns, calls)


def bytes_program(rng):
    """string builtins on strings with bytes >= 0x80 (UTF-8 text) and on every ASCII class: a byte is 0..255"""
    words = ["\u00e9", "na\u00efve", "\u00fcber", "\u65e5\u672c", "plain", "caf\u00e9 au lait", "\u00ff\u0080", "A\u00c5Z"]
    rng.shuffle(words)
    fns = [("bytesum", "fn bytesum(s: string) -> int {\n    let mut t: int = 0\n    let mut i: int = 0\n    while (< i (str_length s)) {\n        set t (+ t (char_at s i))\n        set i (+ i 1)\n    }\n    return t\n}\n"),
           ("firstb", "fn firstb(s: string) -> int {\n    return (char_at s 0)\n}\n"),
           ("isasc", "fn isasc(s: string) -> bool {\n    let mut i: int = 0\n    while (< i (str_length s)) {\n        if (> (char_at s i) 127) { return false }\n        set i (+ i 1)\n    }\n    return true\n}\n"),
           ("lenb", "fn lenb(s: string) -> int {\n    return (str_length s)\n}\n")]
    # a string assembled at run time must equal the same text written as a literal, and find it as a map key
    fns += [("joined", "fn joined(a: string, b: string, whole: string) -> int {\n    let j: string = (+ a b)\n    let mut r: int = 0\n    if (== j whole) {\n        set r (+ r 1)\n    }\n    if (str_equals (str_concat a b) whole) {\n        set r (+ r 10)\n    }\n"
                       "    if (== (+ (+ a \"\") b) (+ a (+ \"\" b))) {\n        set r (+ r 100)\n    }\n    if (str_contains j b) {\n        set r (+ r 1000)\n    }\n    return r\n}\n"),
            ("looked", "fn looked(a: string, b: string, whole: string) -> int {\n    let hm: HashMap<string, int> = (map_new)\n    (map_put hm whole 7)\n    (map_put hm \"plain\" 1)\n    let k: string = (+ a b)\n    return (+ (* (map_get hm k) 2) (map_get hm \"plain\"))\n}\n")]
    calls = []
    for w in words[:5]:
        for f in ("bytesum", "firstb", "isasc", "lenb"):
            calls.append((f, '(%s "%s")' % (f, w)))
    for w in words[:6]:
        cut = rng.randrange(len(w) + 1)
        calls.append(("joined", '(joined "%s" "%s" "%s")' % (w[:cut], w[cut:], w)))
        calls.append(("joined", '(joined "%s" "%s" "%s")' % (w[:1], w[1:], w)))
    for w in words[:4]:
        calls.append(("looked", '(looked "%s" "%s" "%s")' % (w[:len(w) // 2], w[len(w) // 2:], w)))
    return shadowed(fns, calls)


def two_loops_program(rng):
    """several loops with continue/break one after the other at the same nesting depth, in one function and across functions"""
    def loop(kind, var, lim, skip, stop):
        if kind == "for":
            return ("    for %s in (range 0 %d) {\n        if (== %s %d) { continue }\n        if (== %s %d) { break }\n        set acc (+ (* acc 3) %s)\n    }\n" % (var, lim, var, skip, var, stop, var))
        return ("    let mut %s: int = 0\n    while (< %s %d) {\n        set %s (+ %s 1)\n        if (== %s %d) { continue }\n        if (== %s %d) { break }\n        set acc (+ (* acc 3) %s)\n    }\n" % (var, var, lim, var, var, var, skip + 1, var, stop + 1, var))
    fns, calls = [], []
    for k in range(3):
        body = ""
        for j in range(rng.randint(2, 4)):
            lim = rng.randint(3, 6)
            body += loop(rng.choice(["for", "for", "while"]), "v%d_%d" % (k, j), lim, rng.randrange(lim), rng.choice([lim + 5, rng.randrange(lim)]))
            body += "    (println acc)\n"
        name = "seq%d" % k
        fns.append((name, "fn %s(x: int) -> int {\n    let mut acc: int = x\n%s    return acc\n}\n" % (name, body)))
        calls.append((name, "(%s %d)" % (name, rng.randint(0, 5))))
    return shadowed(fns, calls)


def scoping_shadowed(rng):
    """block-local declarations that shadow an outer variable, inside functions called from shadow blocks: after the block the
    name means the outer variable again (if / else / while / for bodies, nested)"""
    a, b, c = rng.randint(1, 9), rng.randint(10, 99), rng.randint(100, 999)
    fns = [("sh1", "fn sh1(c: bool) -> int {\n    let x: int = %d\n    if c {\n        let x: int = %d\n        (println x)\n    } else {\n        let x: int = %d\n        (println x)\n    }\n    return x\n}\n" % (a, b, c)),
           ("sh2", "fn sh2(n: int) -> int {\n    let x: int = %d\n    let mut i: int = 0\n    while (< i n) {\n        let x: int = (* i %d)\n        (println x)\n        set i (+ i 1)\n    }\n    return (+ x i)\n}\n" % (a, b)),
           ("sh3", "fn sh3(n: int) -> int {\n    let mut x: int = %d\n    for k in (range 0 n) {\n        let x: int = (+ k %d)\n        if (> x %d) {\n            let x: int = -1\n            (println x)\n        }\n        (println x)\n    }\n    set x (+ x 1)\n    return x\n}\n" % (a, b, b)),
           ("sh4", "fn sh4(x: int) -> int {\n    if (> x 0) {\n        let x: int = (* x %d)\n        (println x)\n    }\n    return x\n}\n" % b)]
    # the range of a for loop belongs to the enclosing scope: a loop variable named like a variable the bounds mention
    fns += [("sh5", "fn sh5(n: int) -> int {\n    let mut s: int = 0\n    for n in (range 0 n) {\n        set s (+ s n)\n    }\n    return (+ s (* n %d))\n}\n" % c),
            ("sh6", "fn sh6(lo: int, width: int) -> int {\n    let hi: int = (+ lo width)\n    let mut count: int = 0\n    for hi in (range lo (+ hi 1)) {\n        set count (+ count 1)\n        (println hi)\n    }\n    for lo in (range (- lo %d) lo) {\n        set count (+ count lo)\n    }\n    return (+ count hi)\n}\n" % a)]
    calls = [("sh1", "(sh1 true)"), ("sh1", "(sh1 false)"), ("sh2", "(sh2 0)"), ("sh2", "(sh2 3)"), ("sh3", "(sh3 0)"), ("sh3", "(sh3 3)"), ("sh4", "(sh4 2)"), ("sh4", "(sh4 -2)"),
             ("sh5", "(sh5 0)"), ("sh5", "(sh5 %d)" % rng.randint(2, 6)), ("sh6", "(sh6 %d %d)" % (rng.randint(0, 5), rng.randint(0, 3))), ("sh6", "(sh6 -2 4)")]
    return shadowed(fns, calls)


def charclass_program(rng):
    """character-class builtins at ASCII boundaries and at values that collapse onto them under 32-bit narrowing"""
    fns = [(f, "fn c_%s(n: int) -> bool {\n    return (%s n)\n}\n" % (f, f)) for f in ("is_digit", "is_alpha", "is_alnum", "is_whitespace", "is_upper", "is_lower")]
    fns = [("c_" + f, t) for f, t in fns]
    vals = [47, 48, 57, 58, 64, 65, 90, 91, 96, 97, 122, 123, 32, 9, 10, 0, -1, 255, 256 + 65, 4294967296 + 48, 4294967296 + 97, 4294967296 + 32, -4294967296 + 65, 9223372036854775807]
    calls = []
    for f, _ in fns:
        for v in rng.sample(vals, 8) + [4294967296 + 48, 4294967296 + 97]:
            calls.append((f, "(%s %d)" % (f, v)))
    return shadowed(fns, calls)


def array_ops_program(rng):
    """array builtins whose argument conventions the engines must share (slice by start and length, remove, pop, set) and a
    for loop whose range expression reads a variable the body changes (the range is evaluated once)"""
    n = rng.randint(4, 9)
    fns = [("slsum", "fn slsum(st: int, ln: int) -> int {\n    let a: array<int> = [%s]\n    let b: array<int> = (array_slice a st ln)\n    let mut t: int = (* 1000 (array_length b))\n    let mut i: int = 0\n    while (< i (array_length b)) {\n        set t (+ t (at b i))\n        set i (+ i 1)\n    }\n    (println b)\n    return t\n}\n"
                     % ", ".join(str(10 + k) for k in range(n))),
           ("grow", "fn grow(n: int) -> int {\n    let mut k: int = n\n    let mut c: int = 0\n    for i in (range 0 k) {\n        set k (+ k 1)\n        set c (+ c 1)\n        if (> c 60) { break }\n    }\n    return (+ (* c 100) k)\n}\n"),
           ("edit", "fn edit(i: int) -> int {\n    let mut a: array<int> = [1, 2, 3, 4, 5]\n    set a (array_remove_at a i)\n    (array_set a 0 (+ (at a 0) 40))\n    let last: int = (array_pop a)\n    (println a)\n    return (+ last (array_length a))\n}\n")]
    fns.append(("wslice", "fn wslice(v: int) -> int {\n    let mut a: array<int> = [1, 2, 3, 4]\n    let mut b: array<int> = (array_slice a 0 4)\n    (array_set b 0 v)\n    set b (array_push b 7)\n    (array_set a 1 55)\n"
                          "    let last: int = (array_pop a)\n    (println a)\n    (println b)\n    return (+ (* (at a 0) 1000) (+ (* (at b 1) 10) (+ (array_length a) (+ last (array_length b)))))\n}\n"))
    calls = [("wslice", "(wslice 99)"), ("wslice", "(wslice -3)")]
    for st, ln in [(0, 0), (0, n), (1, 3), (n - 1, 1), (2, n - 2), (1, 1), (0, 1)] + [(rng.randrange(n), 1)]:
        calls.append(("slsum", "(slsum %d %d)" % (st, ln)))
    for k in (0, 1, 4):
        calls.append(("grow", "(grow %d)" % k))
    for i in (0, 2, 4):
        calls.append(("edit", "(edit %d)" % i))
    return shadowed(fns, calls)


def intern_churn_program(rng):
    """hundreds of distinct run-time strings, most of which die at once; the kept ones are later rebuilt from scratch and
    compared: equal text is equal, whatever the string table went through in between"""
    n = rng.choice([300, 600, 900])
    step = rng.choice([2, 3, 5])
    pre = rng.choice(["k", "key-", "", "id"])
    fns = [("churn", ("fn churn(n: int) -> int {\n    let mut keep: array<string> = [\"first\"]\n    let mut recent: array<string> = [\"r0\", \"r1\", \"r2\", \"r3\", \"r4\", \"r5\", \"r6\", \"r7\", \"r8\", \"r9\", \"r10\", \"r11\", \"r12\", \"r13\", \"r14\", \"r15\", \"r16\", \"r17\", \"r18\", \"r19\", \"r20\", \"r21\", \"r22\", \"r23\", \"r24\", \"r25\", \"r26\", \"r27\", \"r28\", \"r29\", \"r30\", \"r31\", \"r32\", \"r33\", \"r34\", \"r35\", \"r36\", \"r37\", \"r38\", \"r39\"]\n    let mut i: int = 0\n    while (< i n) {\n        let s: string = (+ \"%s\" (int_to_string i))\n"
                      "        (array_set recent (%% i 40) s)\n        if (== (%% i %d) 0) {\n            set keep (array_push keep s)\n        }\n        set i (+ i 1)\n    }\n    let mut eq: int = 0\n    let mut j: int = 0\n"
                      "    while (< j (- (array_length keep) 1)) {\n        let t: string = (+ \"%s\" (int_to_string (* j %d)))\n        if (== t (at keep (+ j 1))) {\n            set eq (+ eq 1)\n        }\n"
                      "        if (str_equals t (at keep (+ j 1))) {\n            set eq (+ eq 1000)\n        }\n        if (!= t (at keep (+ j 1))) {\n            (println t)\n        }\n        set j (+ j 1)\n    }\n    return eq\n}\n") % (pre, step, pre, step))]
    return shadowed(fns, [("churn", "(churn %d)" % n), ("churn", "(churn 40)")])


def order_in_calls_shadowed(rng):
    """a mutable top-level variable read in one argument and advanced by a function called in a later (or earlier) argument of the
    same call, inside functions that shadow tests run: the compile-time result and the compiled program must agree"""
    fns = [("span", "let mut next_id: int = %d\nfn fresh() -> int {\n    set next_id (+ next_id 1)\n    return next_id\n}\nshadow fresh { assert (== 1 1) }\n"
                     "fn span(a: int, b: int) -> int {\n    return (+ (* a 100) b)\n}\n" % rng.randint(0, 5)),
           ("span3", "fn span3(a: int, b: int, c: int) -> int {\n    return (+ (* a 10000) (+ (* b 100) c))\n}\n"),
           ("take", "fn take() -> int {\n    return (span next_id (fresh))\n}\n"),
           ("take2", "fn take2() -> int {\n    return (span (fresh) next_id)\n}\n"),
           ("take3", "fn take3() -> int {\n    return (span3 next_id next_id (fresh))\n}\n"),
           ("take4", "fn take4() -> int {\n    return (span3 next_id (fresh) next_id)\n}\n"),
           ("take5", "fn take5() -> int {\n    return (+ next_id (fresh))\n}\n"),
           ("take6", "fn take6() -> int {\n    return (span (+ next_id 1) (fresh))\n}\n")]
    calls = [("span", "(span 1 2)"), ("span3", "(span3 1 2 3)")]
    for nm in ("take", "take2", "take3", "take4", "take5", "take6"):
        calls += [(nm, "(%s)" % nm), (nm, "(%s)" % nm)]
    return shadowed(fns, calls)


def nan_program(rng):
    """floats that are not numbers: a NaN differs from itself, in conditions and in assertions, at compile time and in the binary"""
    fns = [("rootc", "fn rootc(x: float) -> int {\n    let r: float = (sqrt x)\n    if (!= r r) {\n        return -1\n    } else {\n        return (cast_int r)\n    }\n}\n"),
           ("selfeq", "fn selfeq(x: float) -> bool {\n    let r: float = (sqrt x)\n    return (== r r)\n}\n"),
           ("guarded", "fn guarded(x: float) -> int {\n    let r: float = (sqrt x)\n    if (< x 0.0) {\n        assert (!= r r)\n        assert (not (== r r))\n        assert (not (<= r r))\n        return -1\n    } else {\n        assert (== r r)\n        assert (>= r r)\n        return (cast_int r)\n    }\n}\n")]
    calls = []
    for v in (16.0, -1.0, 0.0, -4.5, 2.25):
        for nm in ("rootc", "selfeq", "guarded"):
            calls.append((nm, "(%s %r)" % (nm, v)))
    return shadowed(fns, calls)


def deep_frames_program(rng):
    """recursion close to the documented call-depth limit (1024 frames) with frames of up to a hundred local slots: inside the
    documented resource limits, so it runs to its end on every engine"""
    nloc = rng.choice([40, 96, 120])
    depth = rng.choice([600, 900, 1000])
    L = ["fn deep(n: int) -> int {\n"]
    for i in range(nloc):
        L.append("    let v%d: int = (+ n %d)\n" % (i, i))
    L.append("    if (== n 0) {\n        return v%d\n    }\n    return (+ (- v0 n) (+ v%d (deep (- n 1))))\n}\nshadow deep { assert (== (deep 0) %d) }\n" % (nloc - 1, nloc - 1, nloc - 1))
    L.append("fn main() -> int {\n    (println (deep %d))\n    (println (deep 3))\n    return 0\n}\nshadow main { assert (== 1 1) }\n" % depth)
    return "".join(L)


def alias_program(rng):
    """arrays are handles: a function that hands its array parameter back returns the caller's own array, so a store through one
    name is seen through the other (arrays built by a literal, by array_new, by pushes; written before and after the call)"""
    hi, k = rng.randint(20, 60), rng.randint(1, 9)
    pre = ("fn clampall(xs: array<int>, hi: int) -> array<int> {\n    let mut i: int = 0\n    while (< i (array_length xs)) {\n        if (> (at xs i) hi) {\n            (array_set xs i hi)\n        } else {\n            (print \"\")\n        }\n        set i (+ i 1)\n    }\n    return xs\n}\n"
           "shadow clampall { assert (== (at (clampall [5, 70] 50) 1) 50) }\n"
           "fn same(xs: array<int>) -> array<int> {\n    return xs\n}\nshadow same { assert (== (array_length (same [1])) 1) }\n"
           "fn total(xs: array<int>) -> int {\n    let mut s: int = 0\n    for i in (range 0 (array_length xs)) {\n        set s (+ (* s 3) (at xs i))\n    }\n    return s\n}\nshadow total { assert (== (total [1, 2]) 5) }\n")
    makers = [("lit", "[10, 80, 30, %d]" % k), ("new", "(array_new 4 %d)" % (hi + k)), ("pushed", None)]
    fns, calls = [], []
    for mk, init in makers:
        for via, fn in (("clampall", "(clampall samples %d)" % hi), ("same", "(same samples)")):
            for wr, rd in (("view", "samples"), ("samples", "view")):
                name = "al_%s_%s_%s" % (mk, via, wr)
                decl = ("    let samples: array<int> = %s\n" % init) if init else "    let mut samples: array<int> = []\n    set samples (array_push samples 90)\n    set samples (array_push samples %d)\n    set samples (array_push samples 7)\n" % k
                fns.append((name, "fn %s() -> int {\n%s    let view: array<int> = %s\n    (array_set %s 0 %d)\n    (println (total %s))\n    (array_set %s 1 %d)\n    return (+ (total view) (total samples))\n}\n"
                            % (name, decl, fn, wr, k, rd, rd, k + 1)))
                calls.append((name, "(%s)" % name))
    return pre + shadowed(fns, calls)


def struct_order_program(rng):
    """struct definitions in an order that is not the dependency order, by-value nesting, several fields of the same struct type"""
    defs = ["struct Pt { x: int, y: int }",
            "struct Seg { a: Pt, b: Pt }",
            "struct Tri { p: Pt, q: Pt, r: Pt }",
            "struct Draw { s: Seg, t: Tri, tag: int }",
            "struct Box { d: Draw, extra: Seg }"]
    rng.shuffle(defs)
    x = [rng.randint(1, 9) for _ in range(6)]
    main = ("fn total(b: Box) -> int {\n    return (+ (+ b.d.s.a.x b.d.s.b.y) (+ (+ b.d.t.p.x b.d.t.r.y) (+ b.extra.b.x b.d.tag)))\n}\nshadow total { assert (== 1 1) }\n"
            "fn main() -> int {\n    let p: Pt = Pt { x: %d, y: %d }\n    let q: Pt = Pt { x: %d, y: %d }\n    let s: Seg = Seg { a: p, b: q }\n"
            "    let t: Tri = Tri { p: q, q: p, r: Pt { x: %d, y: %d } }\n    let d: Draw = Draw { s: s, t: t, tag: 7 }\n    let b: Box = Box { d: d, extra: Seg { a: q, b: p } }\n"
            "    (println (total b))\n    (println b.d.t.q.y)\n    return 0\n}\nshadow main { assert (== 1 1) }\n" % tuple(x))
    return "\n".join(defs) + "\n" + main


ARG_ORDER_WITNESS = """fn p(x: int) -> int {
    (println x)
    return x
}
shadow p { assert (== 1 1) }
fn add3(a: int, b: int, c: int) -> int { return (+ a (+ b c)) }
shadow add3 { assert (== 1 1) }
fn main() -> int {
    (println (add3 (p 1) (p 2) (p 3)))
    (println (+ (p 4) (p 5)))
    let a: array<int> = [(p 6), (p 7)]
    (println (array_length a))
    return 0
}
shadow main { assert (== 1 1) }
"""


# ------------------------------------------------------------------------------------------------
def run_vm(args):
    tdir, path = args
    try:
        p = subprocess.run([os.path.join(tdir, "bin", "nano_virt"), path, "--run"], stdout=subprocess.PIPE, stderr=subprocess.PIPE, timeout=60)
        return {"rc": p.returncode, "out": p.stdout, "err": p.stderr.decode(errors="replace")[-300:]}
    except subprocess.TimeoutExpired:
        return {"rc": "timeout", "out": b"", "err": ""}


def run_native(args):
    tdir, path = args
    exe = path[:-5] + ".bin"
    try:
        c = subprocess.run([os.path.join(tdir, "bin", "nanoc_c"), path, "-o", exe], cwd=tdir, stdout=subprocess.PIPE, stderr=subprocess.PIPE, timeout=300)
    except subprocess.TimeoutExpired:
        return {"rc": "compile-timeout", "out": b"", "err": ""}
    if c.returncode != 0 or not os.path.exists(exe):
        txt = (c.stdout + c.stderr).decode(errors="replace")
        # refused by the compile-time evaluation of the shadow blocks: that is C03's subject, not a native compile failure
        kind = "shadow-failed" if ("Shadow test" in txt and "FAILED" in txt) or "Shadow tests failed" in txt else "compile-failed"
        return {"rc": kind, "out": b"", "err": txt[-600:]}
    try:
        p = subprocess.run([exe], stdout=subprocess.PIPE, stderr=subprocess.PIPE, timeout=60)
        return {"rc": p.returncode, "out": p.stdout, "err": p.stderr.decode(errors="replace")[-300:]}
    except subprocess.TimeoutExpired:
        return {"rc": "timeout", "out": b"", "err": ""}
    finally:
        try:
            os.unlink(exe)
        except OSError:
            pass


def run_sem(driver, cfg, texts, fuel=400000):
    lines = ["sem %s %d %s" % (cfg, fuel, binascii.hexlify(t.encode()).decode()) for t in texts]
    out = common.batch(driver, lines, timeout=3000)[0]
    res = []
    for o in out:
        if o.startswith("out="):
            a, b = o.split(" res=")
            h = a[4:]
            res.append({"out": b"" if h == "-" else binascii.unhexlify(h), "res": b})
        else:
            res.append({"out": b"", "res": o})
    return res


def parallel(fn, jobs, n=16):
    with ThreadPoolExecutor(n) as ex:
        return list(ex.map(fn, jobs))


def agrees_with_sem(engine, sem):
    """engine observation vs reference observation.  returns (verdict, why): verdict in ok / skip / bad"""
    r = sem["res"]
    if r.startswith("exit "):
        n = int(r.split()[1])
        if engine["rc"] == n and engine["out"] == sem["out"]:
            return "ok", ""
        return "bad", "reference: exit %d, %d bytes of output; engine: exit %s, %d bytes" % (n, len(sem["out"]), engine["rc"], len(engine["out"]))
    if r == "fault assert":
        if engine["rc"] == 1 and engine["out"] == sem["out"]:
            return "ok", ""
        return "bad", "reference: failed assertion after %d bytes of output; engine: exit %s, %d bytes" % (len(sem["out"]), engine["rc"], len(engine["out"]))
    if r in ("fault oob", "fault divzero"):
        # documented run-time fault: the engine must stop abnormally; buffered output may be lost with the process
        if engine["rc"] not in (0,) and sem["out"].startswith(engine["out"]):
            return "ok", ""
        return "bad", "reference: %s; engine: exit %s" % (r, engine["rc"])
    return "skip", r
