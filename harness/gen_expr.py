"""Typed expression trees over the 13 binary + 2 unary operators, literals, variables, field accesses and calls,
with the two spellings C07 talks about: fully parenthesised prefix form and infix form.

Tree nodes: ("num", n) ("bool", b) ("var", name, ty) ("un", op, e) ("bin", op, a, b) ("call", f, [args], ty)
("field", e, name, ty).  The infix printer follows the rules the Lean theorem `infix_eq_prefix` is stated for
(lean/NanoVerif/Props/C07.lean): left-nested chains are written without parentheses, a right operand or unary
operand that is itself a binary operation is parenthesised, and an expression that would *start* with an operator
token right after an opening parenthesis (or in argument position, after a preceding operand) is written in prefix
form there, because `( -` and `(f a -b)` are the prefix spelling / a subtraction by the language's own rules.
"""

ARITH = ["+", "-", "*", "/", "%"]
CMP = ["==", "!=", "<", "<=", ">", ">="]
LOGIC = ["and", "or"]
BINOPS = ARITH + CMP + LOGIC

INT_VARS = ["a", "b", "c", "n"]
BOOL_VARS = ["p", "q"]
STRUCT_VARS = ["pt", "qt"]          # struct P { x: int, y: int, ok: bool }
INT_FIELDS = ["x", "y"]
BOOL_FIELDS = ["ok"]
INT_FNS = [("f2", ["int", "int"]), ("g0", []), ("h1", ["int"]), ("k3", ["int", "bool", "int"])]
BOOL_FNS = [("isp", ["int"]), ("b0", [])]

PRELUDE = """struct P { x: int, y: int, ok: bool }
fn f2(u: int, v: int) -> int { return (+ (* u 3) v) }
shadow f2 { assert (== (f2 1 2) 5) }
fn g0() -> int { return 7 }
shadow g0 { assert (== (g0) 7) }
fn h1(u: int) -> int { return (- u 1) }
shadow h1 { assert (== (h1 1) 0) }
fn k3(u: int, w: bool, v: int) -> int { if w { return u } else { return v } }
shadow k3 { assert (== (k3 1 true 2) 1) }
fn isp(u: int) -> bool { return (> u 0) }
shadow isp { assert (isp 1) }
fn b0() -> bool { return false }
shadow b0 { assert (not (b0)) }
fn mkp(u: int) -> P { return P { x: u, y: (* u 2), ok: (> u 0) } }
shadow mkp { assert (== (mkp 1).x 1) }
fn pair(u: int, v: int) -> (int, int) { return (u, v) }
shadow pair { assert (== (pair 1 2).0 1) }
"""

MAIN_HEAD = """fn main() -> int {
    let a: int = 17
    let b: int = -5
    let c: int = 3
    let n: int = 1000003
    let p: bool = true
    let q: bool = false
    let pt: P = P { x: 11, y: -2, ok: true }
    let qt: P = P { x: 0, y: 9, ok: false }
"""


def ty_of(e):
    k = e[0]
    if k == "num":
        return "int"
    if k == "bool":
        return "bool"
    if k == "var":
        return e[2]
    if k == "un":
        return "int" if e[1] == "-" else "bool"
    if k == "bin":
        return "int" if e[1] in ARITH else "bool"
    if k in ("call", "field", "tidx"):
        return e[3]
    raise ValueError(k)


def postfix_on_call(rng, ty, depth=0):
    """a postfix form (field access, tuple index) applied to a call in parentheses: `(mkp e).x`, `(pair a b).1`"""
    arg = lambda: gen(rng, "int", depth) if depth > 0 else ("var", rng.choice(INT_VARS), "int")
    if ty == "bool":
        return ("field", ("call", "mkp", [arg()], "P"), "ok", "bool")
    if rng.random() < 0.5:
        return ("field", ("call", "mkp", [arg()], "P"), rng.choice(INT_FIELDS), "int")
    return ("tidx", ("call", "pair", [arg(), arg()], "T"), rng.choice([0, 1]), "int")


def postfix_positions(rng):
    """postfix-on-call operands in every operand position of every operator"""
    out = []
    for op in BINOPS:
        ins, _ = in_ty(op)
        t = ins[0]
        leaf = lambda: leaves_for(t, rng)
        P = lambda: postfix_on_call(rng, t)
        rhs = ("num", 3) if op in ("/", "%") else None
        out.append(("bin", op, leaf(), rhs or P()))                 # right operand
        out.append(("bin", op, P(), rhs or leaf()))                 # left operand
        out.append(("bin", op, P(), rhs or P()))                    # both
        if op in ARITH or op in LOGIC:
            out.append(("bin", op, ("bin", op, leaf(), rhs or P()), rhs or P()))   # chain
    out.append(("un", "-", postfix_on_call(rng, "int")))
    out.append(("un", "not", postfix_on_call(rng, "bool")))
    out.append(("bin", "+", ("var", "a", "int"), ("un", "-", postfix_on_call(rng, "int"))))
    out.append(("bin", "and", ("var", "p", "bool"), ("un", "not", postfix_on_call(rng, "bool"))))
    out.append(("call", "f2", [postfix_on_call(rng, "int"), postfix_on_call(rng, "int")], "int"))
    return out


def same_op_run(rng, op, n):
    """left-nested run of n identical operators: t0 op t1 op ... op tn"""
    ins, _ = in_ty(op)
    t = "bool" if op in ("==", "!=", "and", "or") else "int"
    leaf = lambda: (("num", rng.choice([1, 2, 3, 7])) if op in ("/", "%") else
                    (("var", rng.choice(BOOL_VARS), "bool") if t == "bool" else ("var", rng.choice(INT_VARS), "int")))
    e = ("var", "p", "bool") if t == "bool" else ("var", "a", "int")
    for _ in range(n):
        e = ("bin", op, e, leaf())
    return e


def gen(rng, ty, depth):
    """random well-typed tree of the given type"""
    if depth <= 0 or rng.random() < 0.18:
        c = rng.random()
        if ty == "int":
            if c < 0.45:
                return ("var", rng.choice(INT_VARS), "int")
            if c < 0.75:
                return ("num", rng.choice([0, 1, 2, 3, 7, 10, 255, 1000, 9223372036854775807, -1, -7]))
            if c < 0.85:
                return ("field", ("var", rng.choice(STRUCT_VARS), "P"), rng.choice(INT_FIELDS), "int")
            if c < 0.93:
                return postfix_on_call(rng, "int")
            return ("call", "g0", [], "int")
        if c < 0.5:
            return ("var", rng.choice(BOOL_VARS), "bool")
        if c < 0.75:
            return ("bool", rng.random() < 0.5)
        if c < 0.85:
            return ("field", ("var", rng.choice(STRUCT_VARS), "P"), "ok", "bool")
        if c < 0.93:
            return postfix_on_call(rng, "bool")
        return ("call", "b0", [], "bool")
    c = rng.random()
    if ty == "int":
        if c < 0.6:
            op = rng.choice(ARITH)
            b = gen(rng, "int", depth - 1)
            if op in ("/", "%"):
                b = ("num", rng.choice([1, 2, 3, 7, -3]))      # keep the run away from division by zero
            return ("bin", op, gen(rng, "int", depth - 1), b)
        if c < 0.75:
            return ("un", "-", gen(rng, "int", depth - 1))
        f, ps = rng.choice(INT_FNS)
        return ("call", f, [gen(rng, t, depth - 1) for t in ps], "int")
    if c < 0.35:
        return ("bin", rng.choice(CMP), gen(rng, "int", depth - 1), gen(rng, "int", depth - 1))
    if c < 0.5:
        return ("bin", rng.choice(["==", "!="]), gen(rng, "bool", depth - 1), gen(rng, "bool", depth - 1))
    if c < 0.75:
        return ("bin", rng.choice(LOGIC), gen(rng, "bool", depth - 1), gen(rng, "bool", depth - 1))
    if c < 0.9:
        return ("un", "not", gen(rng, "bool", depth - 1))
    f, ps = rng.choice(BOOL_FNS)
    return ("call", f, [gen(rng, t, depth - 1) for t in ps], "bool")


def num_text(n):
    return str(n)


def prefix(e):
    k = e[0]
    if k == "num":
        return num_text(e[1])
    if k == "bool":
        return "true" if e[1] else "false"
    if k == "var":
        return e[1]
    if k == "un":
        return "(%s %s)" % (e[1], prefix(e[2]))
    if k == "bin":
        return "(%s %s %s)" % (e[1], prefix(e[2]), prefix(e[3]))
    if k == "call":
        return "(" + " ".join([e[1]] + [prefix(a) for a in e[2]]) + ")"
    if k == "field":
        return prefix_obj(e[1]) + "." + e[2]
    if k == "tidx":
        return prefix_obj(e[1]) + "." + str(e[2])
    raise ValueError(k)


def prefix_obj(e):
    return prefix(e)


def starts_with_operator(e):
    """does the infix spelling of e begin with an operator token?  (a negative literal is one NUMBER token)"""
    k = e[0]
    if k == "un":
        return True
    if k == "bin":
        return starts_with_operator(e[2])
    return False


def operand(e):
    """e where the parser expects a primary with its postfix chain: right operand, unary operand, first operand"""
    k = e[0]
    if k in ("num", "bool", "var"):
        return prefix(e)
    if k == "un":
        inner = operand(e[2])
        if e[1] == "not":
            return "not " + inner
        # "-5" would lex as the literal -5 and "--x" is fine: keep '-' apart from a digit or another '-'
        return "-" + (" " if inner[:1].isdigit() or inner[:1] == "-" else "") + inner
    if k == "bin":
        # "( -" and "( not" open the prefix spelling, so an expression that starts with an operator is written that way
        return prefix(e) if starts_with_operator(e) else "(" + infix(e) + ")"
    if k == "call":
        return "(" + " ".join([e[1]] + [argument(a) for a in e[2]]) + ")"
    if k == "field":
        o = e[1]
        if o[0] in ("un", "bin"):
            return prefix(o) + "." + e[2] if (o[0] == "un" or starts_with_operator(o)) else "(" + infix(o) + ")." + e[2]
        return operand(o) + "." + e[2]
    if k == "tidx":
        return operand(e[1]) + "." + str(e[2])
    raise ValueError(k)


def argument(e):
    """an argument of a call: `(f a -b)` is the subtraction a - b, so an argument that starts with an operator token is
    written in prefix form; binary operations are parenthesised"""
    if starts_with_operator(e):
        return prefix(e)
    return operand(e)


SPACING = "normal"


def infix(e):
    """top-level infix spelling: left-nested chains without parentheses.  SPACING chooses the layout around symbolic operators:
    normal `a - b`; signlike `a -b` (only before an operand that starts with a letter or `(`: `a -1` is the literal -1 by the
    lexer's own rule); tightleft `a- b`; wide `a   -   b`; newline: operator at the start of the next line"""
    if e[0] == "bin":
        left = e[2]
        ls = infix(left) if left[0] == "bin" else operand(left)
        rs = operand(e[3])
        op = e[1]
        if SPACING != "normal" and not op[0].isalpha():
            if SPACING == "signlike" and (rs[0].isalpha() or rs[0] == "("):
                return "%s %s%s" % (ls, op, rs)
            if SPACING == "tightleft":
                return "%s%s %s" % (ls, op, rs)
            if SPACING == "wide":
                return "%s   %s   %s" % (ls, op, rs)
            if SPACING == "newline":
                return "%s\n        %s %s" % (ls, op, rs)
        return "%s %s %s" % (ls, op, rs)
    return operand(e)


def program(exprs, style, bind=True, spacing="normal"):
    """exprs: list of (tree); style 'prefix' | 'infix'; bind=False prints each value without a local (the code
    generator has 256 local slots per function)"""
    L = [PRELUDE, MAIN_HEAD]
    for i, e in enumerate(exprs):
        t = ty_of(e)
        global SPACING
        SPACING = spacing
        try:
            txt = prefix(e) if style == "prefix" else infix(e)
        finally:
            SPACING = "normal"
        if bind:
            L.append("    let r%d: %s = %s\n    (println r%d)\n" % (i, t, txt, i))
        else:
            L.append("    println %s\n" % txt)
    L.append("    return 0\n}\nshadow main { assert (== 1 1) }\n")
    return "".join(L)


def leaves_for(t, rng):
    return gen(rng, t, 0)


def in_ty(op):
    """operand types an operator accepts (list of alternatives), result type"""
    if op in ARITH:
        return ["int"], "int"
    if op in ("==", "!="):
        return ["int", "bool"], "bool"
    if op in CMP:
        return ["int"], "bool"
    return ["bool"], "bool"


def exhaustive_pairs(rng):
    """every (op1, op2) in both nestings with leaf operands chosen to type-check when that is possible;
    yields (tree, well_typed)"""
    out = []
    for op1 in BINOPS:
        for op2 in BINOPS:
            for shape in ("left", "right"):
                ins1, res1 = in_ty(op1)
                ins2, _ = in_ty(op2)
                ok = res1 in ins2
                t1 = ins1[0] if not (op1 in ("==", "!=") and rng.random() < 0.5) else rng.choice(ins1)
                other = res1 if ok else ins2[0]
                a, b, c = leaves_for(t1, rng), leaves_for(t1, rng), leaves_for(other, rng)
                if op1 in ("/", "%"):
                    b = ("num", rng.choice([1, 2, 3, 7]))
                inner = ("bin", op1, a, b)
                if op2 in ("/", "%") and shape == "left":
                    c = ("num", rng.choice([1, 2, 3, 7]))
                tree = ("bin", op2, inner, c) if shape == "left" else ("bin", op2, c, inner)
                if op2 in ("/", "%") and shape == "right":
                    ok = False if ok and False else ok      # divisor is a computed value: may be zero at run time; still compiled
                out.append((tree, ok))
    return out
