"""Compiler-produced .nvm files: the repo's own example/test programs compiled by the nano_virt
rebuilt from /repo's working tree (cached in the build tree), plus /verif/corpus/progs/*.nano."""
import glob
import os
import subprocess
from concurrent.futures import ThreadPoolExecutor

from . import build

SRC_GLOBS = ["examples/language/*.nano", "tests/*.nano", "examples/verified/*.nano", "tests/unit/*.nano"]


def _compile(args):
    virt, src, out, cwd = args
    if os.path.exists(out):
        return out if os.path.getsize(out) > 0 else None
    try:
        p = subprocess.run([virt, src, "--emit-nvm", "-o", out], cwd=cwd, stdout=subprocess.DEVNULL,
                           stderr=subprocess.DEVNULL, timeout=10)
        ok = p.returncode == 0 and os.path.exists(out) and os.path.getsize(out) > 0
    except subprocess.TimeoutExpired:
        ok = False
    if not ok:
        open(out, "wb").close()   # remember the failure
        return None
    return out


def sources(tdir):
    srcs = []
    for g in SRC_GLOBS:
        srcs += sorted(glob.glob(os.path.join(tdir, g)))
    srcs += sorted(glob.glob(os.path.join(build.VERIF, "corpus", "progs", "*.nano")))
    return srcs


def nvm_corpus(tdir, limit=None, max_size=None):
    """list of (source path, nvm bytes) for programs the current compiler accepts"""
    virt = os.path.join(tdir, "bin", "nano_virt")
    outdir = os.path.join(tdir, "verif-corpus")
    os.makedirs(outdir, exist_ok=True)
    jobs = []
    for s in sources(tdir):
        tag = os.path.relpath(s, tdir if s.startswith(tdir) else build.VERIF).replace("/", "__")
        jobs.append((virt, s, os.path.join(outdir, tag + ".nvm"), tdir))
    with ThreadPoolExecutor(16) as ex:
        outs = list(ex.map(_compile, jobs))
    res = []
    for (v, s, o, c), r in zip(jobs, outs):
        if r:
            b = open(r, "rb").read()
            if max_size and len(b) > max_size:
                continue
            res.append((s, b))
    res.sort(key=lambda x: (len(x[1]), x[0]))
    if limit:
        # spread over sizes
        step = max(1, len(res) // limit)
        res = res[::step][:limit]
    return res
