"""CRC-32 helpers for the harness (parameters are read from the generated Lean file so the
harness follows the source too)."""
import os
import re

from . import build


def params():
    txt = open(os.path.join(build.VERIF, "lean", "NanoVerif", "Gen", "NvmLayout.lean")).read()
    g = lambda k: int(re.search(r"def %s : Nat := (0x[0-9A-Fa-f]+|\d+)" % k, txt).group(1), 0)
    return {"poly": g("crcPoly"), "init": g("crcInit"), "final": g("crcFinalXor"), "header": g("headerSize"),
            "ckoff": g("checksumOffset")}


class Crc:
    def __init__(self, poly, init, final):
        self.poly, self.init, self.final = poly, init, final
        self.T = []
        for i in range(256):
            c = i
            for _ in range(8):
                c = (c >> 1) ^ poly if c & 1 else c >> 1
            self.T.append(c)
        self.rev = {t >> 24: i for i, t in enumerate(self.T)}

    def raw(self, data, c=None):
        c = self.init if c is None else c
        for b in data:
            c = (c >> 8) ^ self.T[(c ^ b) & 0xFF]
        return c

    def crc(self, data):
        return self.raw(data) ^ self.final

    def patch(self, cur, want):
        """4 bytes that take the raw register from `cur` to `want` (None if the table is not invertible)"""
        if len(self.rev) != 256:
            return None
        new = want
        for _ in range(4):
            idx = self.rev[new >> 24]
            new = (((new ^ self.T[idx]) << 8) & 0xFFFFFFFF) | idx
        x = new ^ cur
        return bytes((x >> (8 * i)) & 0xFF for i in range(4))


def fix_checksum(data, P=None, C=None):
    """recompute the header checksum of a (mutated) file"""
    P = P or params()
    C = C or Crc(P["poly"], P["init"], P["final"])
    if len(data) < P["header"]:
        return data
    c = C.crc(data[P["header"]:])
    return data[:P["ckoff"]] + c.to_bytes(4, "little") + data[P["ckoff"] + 4:]
