#!/bin/bash
# Quick tier of every check, four lanes on clean scratch worktrees of /repo's HEAD (VERIF_REPO); one line per check.
# The evidence these runs write is scratch: run the quick tier on /repo itself afterwards.
cd /verif
H=$(git -C /repo rev-parse HEAD)
lane() {
  k=$1; shift
  wt=/var/tmp/seedpar/w$k
  [ -d $wt ] || git -C /repo worktree add --detach $wt >/dev/null 2>&1
  git -C $wt checkout -q -- . ; git -C $wt checkout -q --detach $H
  for id in "$@"; do
    s=$(date +%s)
    out=$(VERIF_REPO=$wt VERIF_NO_PRUNE=1 VERIF_SEED=${VERIF_SEED:-1} ./check $id --tier quick 2>/var/tmp/quickpar_$id.err); rc=$?
    e=$(date +%s)
    echo "$id rc=$rc $((e-s))s $(echo "$out" | grep -c '^VIOLATION') violations $(echo "$out" | grep -c '^KNOWN-FINDING') known"
    echo "$out" | grep '^VIOLATION' | head -3
  done
}
lane 0 C15 C16 C17 C18 &
lane 1 C01 C05 C09 C12 C20 &
lane 2 C02 C04 C07 C10 C13 &
lane 3 C03 C06 C08 C11 C14 C19 &
wait
