"""Daemon (nano_vmd) test machinery for C17 / C18: a private daemon per check run (hook H3 path override), a protocol
client written from src/nanovm/vmd_protocol.h, and the catalogue of ill-behaved client behaviours."""
import os
import signal
import socket
import struct
import subprocess
import time

MSG_LOAD_EXEC, MSG_PING, MSG_STATUS, MSG_SHUTDOWN = 1, 2, 3, 4
MSG_OUTPUT, MSG_EXIT, MSG_ERROR, MSG_PONG, MSG_STATUS_RSP = 0x10, 0x11, 0x12, 0x13, 0x14
VERSION = 1
MAX_PAYLOAD = 100 * 1024 * 1024


def header(mtype, plen, version=VERSION, flags=0):
    return struct.pack("<BBHI", version, mtype, flags, plen & 0xFFFFFFFF)


class Daemon:
    def __init__(self, tdir, workdir, env_extra=None, wrapper=None, verbose=False, idle_timeout=None):
        self.tdir = tdir
        self.sock = os.path.join(workdir, "vmd.sock")
        self.pid = os.path.join(workdir, "vmd.pid")
        self.errlog = os.path.join(workdir, "vmd.err")
        self.env = dict(os.environ, NANOLANG_VERIF_VMD_SOCK=self.sock, NANOLANG_VERIF_VMD_PID=self.pid)
        if env_extra:
            self.env.update(env_extra)
        cmd = (wrapper or []) + [os.path.join(tdir, "bin", "nano_vmd"), "--foreground"] + (["--idle-timeout", str(idle_timeout)] if idle_timeout else ["--no-timeout"]) + (["--verbose"] if verbose else [])
        self.errf = open(self.errlog, "wb")
        # own process group: a tracer used as wrapper (strace) detaches when it is terminated and would leave the daemon behind
        self.proc = subprocess.Popen(cmd, env=self.env, stdin=subprocess.DEVNULL, stdout=subprocess.DEVNULL, stderr=self.errf, cwd=tdir,
                                     start_new_session=True)
        import atexit
        atexit.register(self._kill_group)
        for _ in range(200):
            if os.path.exists(self.sock):
                break
            if self.proc.poll() is not None:
                break
            time.sleep(0.02)

    def alive(self):
        return self.proc.poll() is None

    def status(self):
        rc = self.proc.poll()
        return "alive" if rc is None else "exited %d" % rc

    def stderr_text(self):
        try:
            self.errf.flush()
        except ValueError:
            pass
        try:
            return open(self.errlog, "rb").read().decode(errors="replace")
        except OSError:
            return ""

    def _kill_group(self):
        try:
            os.killpg(self.proc.pid, signal.SIGKILL)
        except (ProcessLookupError, PermissionError, OSError):
            pass

    def stop(self):
        if self.proc.poll() is None:
            try:
                os.killpg(self.proc.pid, signal.SIGTERM)
                self.proc.wait(timeout=5)
            except Exception:
                pass
        self._kill_group()
        try:
            self.proc.wait(timeout=5)
        except Exception:
            pass
        try:
            self.errf.close()
        except Exception:
            pass

    # ---- clients ---------------------------------------------------------------------------
    def connect(self, timeout=20.0):
        # a full listen backlog makes connect() on a unix socket fail with EAGAIN at once: that is the client's cue to try
        # again, not the daemon's answer
        last = None
        for attempt in range(200):
            s = socket.socket(socket.AF_UNIX, socket.SOCK_STREAM)
            s.settimeout(timeout)
            try:
                s.connect(self.sock)
                return s
            except BlockingIOError as e:
                last = e
                s.close()
                time.sleep(0.01 + 0.002 * attempt)
        raise last

    def ping(self):
        try:
            s = self.connect(5.0)
            s.sendall(header(MSG_PING, 0))
            h = recv_exact(s, 8)
            s.close()
            return h is not None and h[1] == MSG_PONG
        except OSError:
            return False

    def active_clients(self):
        """STATUS request: the number the daemon reports (this session included), None if there is no proper reply"""
        try:
            s = self.connect(5.0)
            s.sendall(header(MSG_STATUS, 0))
            h = recv_exact(s, 8)
            if h is None or h[1] != MSG_STATUS_RSP:
                s.close()
                return None
            n = struct.unpack("<I", h[4:8])[0]
            body = recv_exact(s, n) if n else b""
            s.close()
            txt = (body or b"").decode(errors="replace")
            if "active_clients=" not in txt:
                return None
            return int(txt.split("active_clients=")[1].split()[0].strip("\x00"))
        except (OSError, ValueError):
            return None

    def exec_blob(self, blob, chunk_delay=None, timeout=60.0, stall=None):
        """well-behaved client: returns dict(out, err, exit) or dict(error=...); `stall`: seconds the client waits before it
        starts reading the replies (a slow consumer - the session has to wait for it, not drop output)"""
        try:
            s = self.connect(timeout)
            s.sendall(header(MSG_LOAD_EXEC, len(blob)))
            if chunk_delay:
                for i in range(0, len(blob), chunk_delay[0]):
                    s.sendall(blob[i:i + chunk_delay[0]])
                    time.sleep(chunk_delay[1])
            else:
                s.sendall(blob)
            if stall:
                time.sleep(stall)
            return read_replies(s)
        except OSError as e:
            return {"error": "client I/O error: %s" % e}

    def exec_via_nano_vm(self, path, timeout=60):
        """the shipped client: nano_vm --daemon file.nvm"""
        try:
            p = subprocess.run([os.path.join(self.tdir, "bin", "nano_vm"), "--daemon", path], env=self.env, stdout=subprocess.PIPE, stderr=subprocess.PIPE, timeout=timeout)
            return {"out": p.stdout, "err": p.stderr, "exit": p.returncode}
        except subprocess.TimeoutExpired:
            return {"error": "timeout"}


def recv_exact(s, n):
    buf = b""
    while len(buf) < n:
        try:
            c = s.recv(n - len(buf))
        except (socket.timeout, OSError):
            return None
        if not c:
            return None
        buf += c
    return buf


def read_replies(s):
    out, err, frames = b"", b"", []
    while True:
        h = recv_exact(s, 8)
        if h is None:
            s.close()
            return {"out": out, "err": err, "exit": None, "frames": frames, "error": "connection closed before EXIT_CODE"}
        ver, mt, fl, ln = struct.unpack("<BBHI", h)
        body = recv_exact(s, ln) if ln else b""
        if body is None:
            s.close()
            return {"out": out, "err": err, "exit": None, "frames": frames, "error": "truncated frame"}
        frames.append((mt, len(body)))
        if mt == MSG_OUTPUT:
            out += body
        elif mt == MSG_ERROR:
            err += body + b"\n"
        elif mt == MSG_EXIT:
            s.close()
            code = struct.unpack("<i", body)[0] if len(body) == 4 else None
            return {"out": out, "err": err, "exit": code, "frames": frames}
        elif mt in (MSG_PONG, MSG_STATUS_RSP):
            s.close()
            return {"out": out, "err": err, "exit": None, "frames": frames, "reply": mt, "body": body}


def standalone(tdir, path, timeout=60):
    try:
        p = subprocess.run([os.path.join(tdir, "bin", "nano_vm"), path], stdout=subprocess.PIPE, stderr=subprocess.PIPE, timeout=timeout)
        return {"out": p.stdout, "err": p.stderr, "exit": p.returncode}
    except subprocess.TimeoutExpired:
        return {"error": "timeout"}


# ---- ill-behaved clients (C18 catalogue) ------------------------------------------------------
def bad_client(d, kind, blob, rng):
    """performs one ill-behaved session; returns a short description of what was sent"""
    try:
        s = d.connect(10.0)
    except OSError as e:
        return "connect failed: %s" % e
    desc = kind
    try:
        if kind == "connect-close":
            pass
        elif kind == "header-prefix":
            n = rng.randrange(1, 8); s.sendall(header(MSG_LOAD_EXEC, len(blob))[:n]); desc += " %d bytes" % n
        elif kind == "header-only":
            s.sendall(header(MSG_LOAD_EXEC, len(blob)))
        elif kind == "truncated-payload":
            declared = rng.choice([1, 2, 8, 64, 4095, 4096, 4097, len(blob), len(blob) + 1000, 65536, 1 << 20])
            sent = rng.randrange(0, min(declared, len(blob) + 500))
            s.sendall(header(MSG_LOAD_EXEC, declared) + (blob * (1 + sent // max(1, len(blob))))[:sent]); desc += " declared=%d sent=%d" % (declared, sent)
        elif kind == "garbage":
            n = rng.choice([1, 7, 8, 9, 64, 1000]); s.sendall(bytes(rng.randrange(256) for _ in range(n))); desc += " %d bytes" % n
        elif kind == "wrong-version":
            v = rng.choice([0, 2, 255]); s.sendall(header(MSG_LOAD_EXEC, len(blob), version=v) + blob); desc += " v=%d" % v
        elif kind == "unknown-type":
            t = rng.choice([0, 5, 9, 0x10, 0x11, 0x7f, 0xff]); s.sendall(header(t, 0)); desc += " type=%d" % t
            read_replies(s); return desc
        elif kind == "length-too-large":
            ln = rng.choice([MAX_PAYLOAD + 1, 0x7fffffff, 0xffffffff, 0x80000000]); s.sendall(header(MSG_LOAD_EXEC, ln) + b"x" * 64); desc += " len=%d" % ln
        elif kind == "zero-length-exec":
            s.sendall(header(MSG_LOAD_EXEC, 0)); read_replies(s); return desc
        elif kind == "non-module":
            junk = bytes(rng.randrange(256) for _ in range(rng.choice([1, 16, 100, 5000]))); s.sendall(header(MSG_LOAD_EXEC, len(junk)) + junk); desc += " %d bytes" % len(junk)
            read_replies(s); return desc
        elif kind == "ping":
            s.sendall(header(MSG_PING, 0)); read_replies(s); return desc
        elif kind == "status":
            s.sendall(header(MSG_STATUS, 0)); read_replies(s); return desc
        elif kind == "disconnect-during-output":
            s.sendall(header(MSG_LOAD_EXEC, len(blob)) + blob)
            recv_exact(s, rng.choice([1, 8, 20]))     # read a little of the reply, then vanish
        elif kind == "disconnect-before-output":
            s.sendall(header(MSG_LOAD_EXEC, len(blob)) + blob)
        elif kind == "flags-set":
            s.sendall(header(MSG_PING, 0, flags=0xffff)); read_replies(s); return desc
    except OSError as e:
        desc += " (send error %s)" % e
    try:
        s.close()
    except OSError:
        pass
    return desc


BAD_KINDS = ["connect-close", "header-prefix", "header-only", "truncated-payload", "garbage", "wrong-version", "unknown-type", "length-too-large",
             "zero-length-exec", "non-module", "ping", "status", "disconnect-during-output", "disconnect-before-output", "flags-set"]
