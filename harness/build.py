"""Build cache: a copy of /repo's *current working tree* built with the verification hooks on.

The copy lives outside /repo and /verif (VERIF_WORK, default /var/tmp/nanoverif), keyed by a
content hash of the sources, so every check rebuilds when /repo changed and reuses the build
when it did not.  Nothing here is needed to pre-exist: a missing cache is simply rebuilt.
"""
import fcntl
import hashlib
import os
import shutil
import subprocess
import sys
import time

REPO = os.environ.get("VERIF_REPO", "/repo")
VERIF = os.path.dirname(os.path.dirname(os.path.abspath(__file__)))
WORK = os.environ.get("VERIF_WORK", "/var/tmp/nanoverif")
GUARD = "NANOLANG_VERIF"
HASH_DIRS = ["src", "std", "stdlib", "modules/std"]
HASH_FILES = ["Makefile.gnu", "Makefile"]
BASE_CFLAGS = "-Wall -Wextra -Werror -std=c99 -g -Isrc -D_GNU_SOURCE"
KEEP_GENERATIONS = 2


def _iter_files():
    for d in HASH_DIRS:
        root = os.path.join(REPO, d)
        for dp, dn, fn in os.walk(root):
            dn.sort()
            for f in sorted(fn):
                yield os.path.join(dp, f)
    for f in HASH_FILES:
        p = os.path.join(REPO, f)
        if os.path.exists(p):
            yield p


_hash_cache = None


def repo_hash():
    global _hash_cache
    if _hash_cache:
        return _hash_cache
    h = hashlib.sha256()
    for p in _iter_files():
        if os.path.islink(p) and not os.path.exists(p):
            continue
        h.update(os.path.relpath(p, REPO).encode())
        h.update(b"\0")
        try:
            with open(p, "rb") as f:
                h.update(hashlib.sha256(f.read()).digest())
        except OSError:
            pass
    _hash_cache = h.hexdigest()[:16]
    return _hash_cache


class Lock:
    def __init__(self, path):
        self.path = path

    def __enter__(self):
        os.makedirs(os.path.dirname(self.path), exist_ok=True)
        self.f = open(self.path, "w")
        fcntl.flock(self.f, fcntl.LOCK_EX)
        return self

    def __exit__(self, *a):
        fcntl.flock(self.f, fcntl.LOCK_UN)
        self.f.close()


def _prune(keep):
    try:
        gens = [d for d in os.listdir(WORK) if os.path.isdir(os.path.join(WORK, d)) and d != "lock"]
    except FileNotFoundError:
        return
    gens = sorted(gens, key=lambda d: os.path.getmtime(os.path.join(WORK, d)), reverse=True)
    for d in gens:
        if d == keep:
            continue
        if gens.index(d) >= KEEP_GENERATIONS:
            shutil.rmtree(os.path.join(WORK, d), ignore_errors=True)


def run(cmd, cwd=None, env=None, timeout=1800, check=True, quiet=True):
    p = subprocess.run(cmd, cwd=cwd, env=env, shell=isinstance(cmd, str), stdout=subprocess.PIPE,
                       stderr=subprocess.STDOUT, timeout=timeout)
    if check and p.returncode != 0:
        sys.stderr.write(p.stdout.decode(errors="replace")[-4000:])
        raise RuntimeError("command failed (%d): %s" % (p.returncode, cmd))
    return p


FLAVOURS = {
    # name: (CC, extra CFLAGS, LDFLAGS)
    "plain": ("cc", "", "-lm -rdynamic"),
    # signed-integer-overflow is excluded: the VM's int64 arithmetic relies on wrap-around (what the language
    # defines and what the project's own flags produce); it is reported in DESIGN.md, not as a C13 violation
    "asan": ("clang-14", "-fsanitize=address,undefined -fno-sanitize=signed-integer-overflow -fno-sanitize-recover=undefined -fno-omit-frame-pointer -Wno-error",
             "-lm -rdynamic -fsanitize=address,undefined"),
}


def tree(flavour="plain", targets=("vm",), hooks=True):
    """Return the path of a built copy of /repo's working tree. `targets` are make targets."""
    hh = repo_hash()
    gen = os.path.join(WORK, hh)
    tdir = os.path.join(gen, flavour + ("" if hooks else "-nohook"))
    with Lock(os.path.join(WORK, "lock", "build-%s-%s" % (hh, flavour))):
        stamp = os.path.join(tdir, ".verif-built")
        done = set()
        if os.path.exists(stamp):
            done = set(open(stamp).read().split())
        need = [t for t in targets if t not in done]
        if not os.path.isdir(tdir):
            os.makedirs(gen, exist_ok=True)
            run(["rsync", "-a", "--delete", "--exclude", ".git", "--exclude", "/obj", "--exclude", "/bin",
                 "--exclude", "/build", "--exclude", "/_build", REPO + "/", tdir + "/"])
            need = list(targets)
        if need:
            cc, extra, ld = FLAVOURS[flavour]
            cflags = BASE_CFLAGS + (" -D" + GUARD if hooks else "") + (" " + extra if extra else "")
            if flavour != "plain":
                cflags = cflags.replace("-Werror ", "")
            t0 = time.time()
            run(["make", "-f", "Makefile.gnu", "-j16", "CC=" + cc, "CFLAGS=" + cflags, "LDFLAGS=" + ld] + need,
                cwd=tdir)
            done |= set(need)
            with open(stamp, "w") as f:
                f.write(" ".join(sorted(done)))
            sys.stderr.write("[build] %s %s %s in %.1fs\n" % (hh, flavour, " ".join(need), time.time() - t0))
        os.utime(gen, None)
    if not os.environ.get("VERIF_NO_PRUNE"):     # the parallel seed runner keeps several trees alive at once
        _prune(hh)
    return tdir


def objs(tdir, groups):
    """Object files of the built tree for linking probes. groups ⊆ {isa, vm, virt, common, runtime}"""
    out = []
    g = {
        "isa": ["obj/nanoisa/isa.o", "obj/nanoisa/nvm_format.o", "obj/nanoisa/assembler.o",
                "obj/nanoisa/disassembler.o", "obj/nanoisa/verifier.o"],
        "vm": ["obj/nanovm/value.o", "obj/nanovm/heap.o", "obj/nanovm/vm.o", "obj/nanovm/vm_ffi.o",
               "obj/nanovm/vm_builtins.o", "obj/nanovm/cop_protocol.o"],
        "virt": ["obj/nanovirt/codegen.o", "obj/nanovirt/wrapper_gen.o"],
    }
    for k in groups:
        if k in g:
            out += [os.path.join(tdir, o) for o in g[k]]
        elif k == "common":
            p = run("make -f Makefile.gnu -pn 2>/dev/null | grep -E '^(COMMON_OBJECTS|RUNTIME_OBJECTS) '", cwd=tdir,
                    check=False).stdout.decode()
            # resolved lazily by probe builder via make variables; fall back to directory listing
            out += _common_objs(tdir)
    return out


def _common_objs(tdir):
    res = []
    for sub in ("obj", "obj/eval", "obj/runtime"):
        d = os.path.join(tdir, sub)
        if not os.path.isdir(d):
            continue
        for f in sorted(os.listdir(d)):
            if f.endswith(".o") and f not in ("main.o", "ffi_bindgen.o"):
                res.append(os.path.join(d, f))
    return res


def probe(name, tdir, groups=("isa",), flavour="plain", extra_src=(), defs=()):
    """Compile /verif/probes/<name>.c against the built tree; returns the executable path."""
    src = os.path.join(VERIF, "probes", name + ".c")
    out = os.path.join(tdir, "verif-probes", name)
    os.makedirs(os.path.dirname(out), exist_ok=True)
    with Lock(os.path.join(WORK, "lock", "probe-" + name + "-" + os.path.basename(os.path.dirname(tdir)) + flavour)):
        if os.path.exists(out) and os.path.getmtime(out) >= os.path.getmtime(src):
            return out
        cc, extra, ld = FLAVOURS[flavour]
        o = []
        for g in groups:
            if g == "common":
                o += _common_objs(tdir)
            else:
                o += objs(tdir, [g])
        cmd = [cc, "-std=gnu99", "-g", "-O1", "-D_GNU_SOURCE", "-D" + GUARD, "-I" + os.path.join(tdir, "src")] + \
              ["-D" + d for d in defs] + extra.split() + [src] + list(extra_src) + o + ["-o", out] + ld.split() + ["-ldl", "-lpthread", "-rdynamic"]
        run(cmd)
    return out


if __name__ == "__main__":
    fl = sys.argv[1] if len(sys.argv) > 1 else "plain"
    print(tree(fl, tuple(sys.argv[2:]) or ("vm",)))
