"""Compile generated nanolang sources with the nano_virt rebuilt from /repo (parallel, in a scratch dir)."""
import os
import subprocess
import tempfile
from concurrent.futures import ThreadPoolExecutor


def _one(args):
    virt, path, cwd = args
    out = path[:-5] + ".nvm"
    try:
        p = subprocess.run([virt, path, "--emit-nvm", "-o", out], cwd=cwd, stdout=subprocess.PIPE, stderr=subprocess.PIPE, timeout=20)
    except subprocess.TimeoutExpired:
        return None, "timeout"
    if p.returncode != 0 or not os.path.exists(out):
        return None, p.stderr.decode(errors="replace")[-300:]
    return open(out, "rb").read(), ""


def compile_sources(tdir, sources):
    """sources: list of (name, text) -> list of (name, text, nvm bytes or None, err)"""
    virt = os.path.join(tdir, "bin", "nano_virt")
    with tempfile.TemporaryDirectory(prefix="nvprogs", dir="/var/tmp") as td:
        jobs = []
        for i, (name, text) in enumerate(sources):
            p = os.path.join(td, "p%d.nano" % i)
            open(p, "w").write(text)
            jobs.append((virt, p, tdir))
        with ThreadPoolExecutor(16) as ex:
            res = list(ex.map(_one, jobs))
    return [(n, t, b, e) for (n, t), (b, e) in zip(sources, res)]
