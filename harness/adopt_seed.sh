#!/bin/bash
# usage: adopt_seed.sh <PROP> <agent worktree>   (round E: copies out/A to seeded/<PROP>_<next>/ and confirms it there)
P=$1; W=$2
n=1; while [ -e /verif/seeded/${P}_$n ]; do n=$((n+1)); done
D=/verif/seeded/${P}_$n
mkdir -p $D && cp -r $W/out/A/* $D/ && rm -rf $D/__pycache__
bash /verif/harness/confirm_seed.sh $D $W
rm -rf $W/seed_out
echo "adopted as $D"
