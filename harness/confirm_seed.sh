#!/bin/bash
# usage: confirm_seed.sh <seed dir (patch.diff, demo.sh)> <scratch worktree>
# Confirms: patch applies, tree builds, 62 baseline tests pass, demo FAILS with the change and PASSES without it.
S=$1; W=$2
cd $W || exit 2
git checkout -q -- . && git apply $S/patch.diff || { echo "APPLY-FAILED"; exit 2; }
mkdir -p seed_out/$(basename $S) && cp -r $S/* seed_out/$(basename $S)/ 2>/dev/null
make -f Makefile.gnu bin/nanoc_c vm -j16 >/dev/null 2>&1 || { echo "BUILD-FAILED"; git checkout -q -- .; exit 2; }
T=$(make -f Makefile.gnu test-nanovirt 2>&1 | grep "Results:" | tail -1)
( cd $W && bash seed_out/$(basename $S)/demo.sh >/tmp/demo_with.log 2>&1 ); RW=$?
git checkout -q -- .
make -f Makefile.gnu bin/nanoc_c vm -j16 >/dev/null 2>&1
( cd $W && bash seed_out/$(basename $S)/demo.sh >/tmp/demo_without.log 2>&1 ); RO=$?
echo "$(basename $S): tests_with_change='$T' demo_with_change_rc=$RW demo_clean_rc=$RO"
