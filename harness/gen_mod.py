"""Structure-aware generators of hostile .nvm modules (C13, also used by C10/C14/C18)."""
from . import nvm

U32 = 0xFFFFFFFF


def boundaries(L, *extra):
    b = {0, 1, 2, 3, 7, 8, 0x7F, 0x80, 0xFF, 0x100, 0x7FFF, 0x8000, 0xFFFF, 0x10000, 0x7FFFFFFF, 0x80000000,
         0xFFFFFFF0, 0xFFFFFFFC, 0xFFFFFFFE, 0xFFFFFFFF,
         L["vmMaxGlobals"] - 1, L["vmMaxGlobals"], L["vmMaxGlobals"] + 1,
         L["vmMaxFrames"] - 1, L["vmMaxFrames"], L["vmMaxFrames"] + 1, L["maxSections"], L["maxSections"] + 1, 32767, 32768}
    for e in extra:
        for d in (-1, 0, 1):
            if e + d >= 0:
                b.add(e + d)
    return sorted(b)


def field_mutants(m, L, rng, exhaustive=False, per_field=3):
    """every header / directory / table field set to boundary values (checksum recomputed)"""
    out = []
    base = m.build(L)
    size = len(base)
    nsec = len(m.sections(L))
    B = boundaries(L, size, len(m.code), len(m.strings), len(m.functions), len(m.imports), nsec, size - L["headerSize"])

    def pick():
        return B if exhaustive else rng.sample(B, min(per_field, len(B)))

    for v in pick():
        x = m.copy(); x.flags = v; out.append(("hdr.flags=%d" % v, x))
    for v in pick():
        x = m.copy(); x.entry = v; out.append(("hdr.entry=%d" % v, x))
    for v in pick():
        x = m.copy(); x.section_count = v; out.append(("hdr.section_count=%d" % v, x))
    for i in range(nsec):
        for fld in ("type", "offset", "size"):
            for v in pick():
                x = m.copy(); x.dir_override[i] = {fld: v}; out.append(("dir[%d].%s=%d" % (i, fld, v), x))
        # offset/size pairs that wrap around to a plausible end
        for (o, s) in ((0xFFFFFFF0, 0x30), (size - 4, 0xFFFFFFFF), (0x80000000, 0x80000000 + 64), (size, 0), (size + 1, 0xFFFFFFFF)):
            x = m.copy(); x.dir_override[i] = {"offset": o, "size": s}; out.append(("dir[%d].wrap=%d+%d" % (i, o, s), x))
    fidx = list(range(len(m.functions)))
    if not exhaustive and len(fidx) > 3:
        fidx = rng.sample(fidx, 3)
    names = ["name_idx", "arity", "code_offset", "code_length", "local_count", "upvalue_count"]
    for i in fidx:
        for k, nm in enumerate(names):
            for v in pick():
                x = m.copy(); x.functions[i][k] = v; out.append(("fn[%d].%s=%d" % (i, nm, v), x))
        for (o, l) in ((8, 0xFFFFFFFC), (len(m.code), 0), (len(m.code) - 1, 2), (0xFFFFFFFF, 1), (1, 0xFFFFFFFF)):
            x = m.copy(); x.functions[i][2] = o; x.functions[i][3] = l; out.append(("fn[%d].range=%d+%d" % (i, o, l), x))
    sidx = list(range(len(m.strings)))
    if not exhaustive and len(sidx) > 3:
        sidx = rng.sample(sidx, 3)
    for i in sidx:
        for v in pick():
            x = m.copy(); x.str_len_override[i] = v; out.append(("str[%d].len=%d" % (i, v), x))
    iidx = list(range(len(m.imports)))
    if not exhaustive and len(iidx) > 2:
        iidx = rng.sample(iidx, 2)
    for i in iidx:
        for k, nm in enumerate(["module_name_idx", "function_name_idx", "param_count", "return_type"]):
            for v in pick():
                x = m.copy(); x.imports[i][k] = v; out.append(("imp[%d].%s=%d" % (i, nm, v), x))
    return [(lab, x.build(L)) for lab, x in out]


def capacity_mutants(m, L, rng):
    """cross every initial capacity of the in-memory module (64 strings, 32 functions, 32 imports,
    256 debug entries, 4096 code bytes) and their doublings"""
    out = []
    for n in (63, 64, 65, 128, 129, 300):
        x = m.copy(); x.strings = x.strings + [("pad%d" % i).encode() for i in range(max(0, n - len(x.strings)))]
        out.append(("strings=%d" % len(x.strings), x))
    for n in (31, 32, 33, 64, 65, 513):
        x = m.copy()
        proto = x.functions[0] if x.functions else [0, 0, 0, 0, 0, 0]
        x.functions = x.functions + [list(proto) for _ in range(max(0, n - len(x.functions)))]
        out.append(("functions=%d" % len(x.functions), x))
    for n in (1, 31, 32, 33, 64, 65, 100):
        x = m.copy()
        if not x.strings:
            x.strings = [b"m"]
        x.imports = x.imports + [[0, 0, i % 5, 1, bytes([1] * (i % 5))] for i in range(max(0, n - len(x.imports)))]
        x.flags |= 2
        out.append(("imports=%d" % len(x.imports), x))
    for n in (1, 255, 256, 257, 513):
        x = m.copy(); x.debug = [[i, i + 1] for i in range(n)]; x.flags |= 4
        out.append(("debug=%d" % n, x))
    for n in (4095, 4096, 4097, 8193, 70000):
        x = m.copy(); x.code = x.code + bytes(max(0, n - len(x.code)))
        out.append(("code=%d" % len(x.code), x))
    return [(lab, x.build(L)) for lab, x in out]


def code_mutants(m, L, tab, rng, count=40):
    """operand, splice, reorder, truncate and mid-instruction-jump mutations inside function bodies"""
    out = []
    if not m.functions:
        return out
    B = boundaries(L, len(m.code), len(m.strings), len(m.functions), len(m.imports))
    jumps = {op for op, (nm, ops) in tab.items() if nm in ("JMP", "JMP_TRUE", "JMP_FALSE", "MATCH_TAG")}
    for it in range(count):
        x = m.copy()
        fi = rng.randrange(len(x.functions))
        f = x.functions[fi]
        off, ln = f[2], f[3]
        if off + ln > len(x.code) or ln == 0:
            continue
        body = x.code[off:off + ln]
        ins = nvm.decode_stream(body, tab)
        if not ins:
            continue
        kind = rng.choice(["operand", "operand", "operand", "delete", "dup", "swap", "insert", "trunc", "midjump", "localcount"])
        lab = "fn%d.%s" % (fi, kind)
        if kind == "operand":
            cands = [i for i in ins if tab[i[1]][1]]
            if not cands:
                continue
            pos, op, vals = rng.choice(cands)
            k = rng.randrange(len(vals))
            sz = tab[op][1][k][1]
            v = rng.choice(B + [len(body), len(body) - pos, (1 << 64) - 1, 1 << 63, 1 << 32, (1 << 32) + 1]) & ((1 << (8 * sz)) - 1)
            if rng.random() < 0.2:
                v = (-rng.choice(B)) & ((1 << (8 * sz)) - 1)
            vals = list(vals); vals[k] = v
            nb = body[:pos] + nvm.encode_instr(op, vals, tab) + body[pos + 1 + sum(s for _, s in tab[op][1]):]
            lab += ".%s[%d]=%d" % (tab[op][0], k, v)
        elif kind == "delete":
            j = rng.randrange(len(ins)); pos, op, vals = ins[j]
            nb = body[:pos] + body[pos + 1 + sum(s for _, s in tab[op][1]):]
        elif kind == "dup":
            j = rng.randrange(len(ins)); pos, op, vals = ins[j]
            e = nvm.encode_instr(op, vals, tab)
            nb = body[:pos] + e + body[pos:]
        elif kind == "swap" and len(ins) > 1:
            j = rng.randrange(len(ins) - 1)
            a, b = ins[j], ins[j + 1]
            ea, eb = nvm.encode_instr(a[1], a[2], tab), nvm.encode_instr(b[1], b[2], tab)
            nb = body[:a[0]] + eb + ea + body[b[0] + len(eb):]
        elif kind == "insert":
            j = rng.randrange(len(ins)); pos = ins[j][0]
            op = rng.choice(sorted(tab))
            vals = [rng.choice(B) & ((1 << (8 * sz)) - 1) if rng.random() < 0.6 else rng.randrange(0, 4) for _, sz in tab[op][1]]
            if op in jumps:
                vals[-1] = rng.choice([0, 1, 5, len(body) - pos, (-pos) & U32, 6])
            nb = body[:pos] + nvm.encode_instr(op, vals, tab) + body[pos:]
            lab += "." + tab[op][0]
        elif kind == "trunc":
            cut = rng.randrange(1, min(12, ln) + 1)
            x.functions[fi][3] = ln - cut
            out.append((lab + "-%d" % cut, x.build(L)))
            continue
        elif kind == "midjump":
            cands = [i for i in ins if i[1] in jumps]
            if not cands:
                continue
            pos, op, vals = rng.choice(cands)
            vals = list(vals); vals[-1] = (vals[-1] + rng.choice([1, 2, 3, -1, -2])) & U32
            nb = body[:pos] + nvm.encode_instr(op, vals, tab) + body[pos + 1 + sum(s for _, s in tab[op][1]):]
        elif kind == "localcount":
            x.functions[fi][4] = rng.choice([0, 1, max(0, f[4] - 1), f[1], 300])
            out.append((lab + "=%d" % x.functions[fi][4], x.build(L)))
            continue
        else:
            continue
        # keep later functions where they are when the length is unchanged, else shift them
        delta = len(nb) - len(body)
        x.code = x.code[:off] + nb + x.code[off + ln:]
        x.functions[fi][3] = len(nb)
        for g in x.functions:
            if g is not x.functions[fi] and g[2] >= off + ln:
                g[2] += delta
        out.append((lab, x.build(L)))
    return out


# instruction mix for synthetic programs: (weight, name)
def synthetic(L, tab, rng, n_instr=25):
    """a small module whose `main` is a random instruction sequence over every opcode: exercises every
    handler on arbitrary stack states (underflow yields void, wrong tags yield type errors)"""
    names = {nm: op for op, (nm, ops) in tab.items()}
    m = nvm.Mod()
    m.strings = [b"main", b"helper", b"", b"abc", b"hello world", b"42", b"-7", b"a; b # c", b"x" * 40]
    nlocals = rng.choice([0, 1, 2, 4])
    small = [0, 1, 2, 3, 5, 255, 256]
    heavy = ["PUSH_I64"] * 6 + ["PUSH_STR"] * 4 + ["PUSH_BOOL", "PUSH_VOID", "DUP", "DUP", "POP", "SWAP", "ROT3",
             "LOAD_LOCAL", "STORE_LOCAL", "LOAD_GLOBAL", "STORE_GLOBAL", "ADD", "SUB", "MUL", "DIV", "MOD", "NEG", "EQ", "NE", "LT", "LE",
             "GT", "GE", "AND", "OR", "NOT", "STR_LEN", "STR_CONCAT", "STR_SUBSTR", "STR_CONTAINS", "STR_EQ", "STR_CHAR_AT",
             "STR_FROM_INT", "ARR_NEW", "ARR_PUSH", "ARR_PUSH", "ARR_POP", "ARR_GET", "ARR_SET", "ARR_LEN", "ARR_SLICE", "ARR_REMOVE",
             "ARR_LITERAL", "STRUCT_NEW", "STRUCT_GET", "STRUCT_SET", "STRUCT_LITERAL", "UNION_CONSTRUCT", "UNION_TAG", "UNION_FIELD",
             "MATCH_TAG", "ENUM_VAL", "TUPLE_NEW", "TUPLE_GET", "GC_RETAIN", "GC_RELEASE", "CAST_INT", "CAST_BOOL", "CAST_STRING",
             "TYPE_CHECK", "CLOSURE_NEW", "PRINT", "PRINTLN", "PRINTLN", "ASSERT", "CALL", "CALL_INDIRECT", "CLOSURE_CALL",
             "LOAD_UPVALUE", "STORE_UPVALUE", "JMP_FALSE", "JMP_TRUE", "NOP", "OPAQUE_NULL", "OPAQUE_VALID", "PUSH_U8"]
    ints = [0, 1, 2, 3, -1 & (2**64 - 1), 7, 2**63 - 1, 2**63, 2**32, 2**32 + 1, 100, -7 & (2**64 - 1)]

    def rand_instr(pos_hint):
        if rng.random() < 0.08:
            op = rng.choice(sorted(tab))
        else:
            op = names[rng.choice(heavy)]
        nm, ops = tab[op]
        vals = []
        for k, (kind, sz) in enumerate(ops):
            if nm == "PUSH_I64":
                v = rng.choice(ints)
            elif nm == "PUSH_STR":
                v = rng.randrange(len(m.strings)) if rng.random() < 0.95 else rng.choice([len(m.strings), 9999])
            elif nm in ("LOAD_LOCAL", "STORE_LOCAL"):
                v = rng.randrange(0, max(1, nlocals)) if rng.random() < 0.9 else rng.choice([nlocals, 65535])
            elif nm in ("LOAD_GLOBAL", "STORE_GLOBAL"):
                v = rng.choice([0, 1, 2, 3, L["vmMaxGlobals"] - 1]) if rng.random() < 0.92 else rng.choice([L["vmMaxGlobals"], L["vmMaxGlobals"] + 1, U32])
            elif nm in ("CALL", "CLOSURE_NEW") and k == 0:
                v = rng.choice([0, 1, 1, 1]) if rng.random() < 0.93 else rng.choice([2, 3, U32])
            elif kind == "i32":
                v = rng.choice([5, 6, 7, 9, 14, 1]) if rng.random() < 0.8 else ((-rng.randrange(1, 12)) & U32)
            elif nm in ("ARR_LITERAL", "TUPLE_NEW", "STRUCT_LITERAL", "UNION_CONSTRUCT", "CLOSURE_NEW") and kind == "u16":
                v = rng.choice([0, 1, 2, 3]) if rng.random() < 0.93 else rng.choice([9, 300, 32767, 32768, 32769, 65535])
            elif nm in ("STRUCT_GET", "STRUCT_SET", "UNION_FIELD", "TUPLE_GET", "MATCH_TAG", "ENUM_VAL", "LOAD_UPVALUE", "STORE_UPVALUE"):
                v = rng.choice([0, 1, 2]) if rng.random() < 0.9 else rng.choice([3, 255, 65535])
            elif kind == "u8":
                v = rng.choice([0, 1, 4, 5, 7, 11, 255])
            else:
                v = rng.choice(small + [U32])
            vals.append(v & ((1 << (8 * sz)) - 1))
        return nvm.encode_instr(op, vals, tab)

    body = b"".join(rand_instr(i) for i in range(n_instr))
    if rng.random() < 0.8:
        body += nvm.encode_instr(names["RET"], [], tab)
    helper = b"".join(rand_instr(i) for i in range(rng.randint(0, 6))) + (nvm.encode_instr(names["RET"], [], tab) if rng.random() < 0.8 else b"")
    m.code = body + helper
    harity = rng.choice([0, 1, 2])
    m.functions = [[0, 0, 0, len(body), nlocals, 0], [1, harity, len(body), len(helper), harity + rng.choice([0, 1, 2]), rng.choice([0, 0, 2])]]
    m.entry = 0
    return m


def typed_program(L, tab, rng, n_steps=30):
    """a module whose `main` is a mostly well-typed random instruction sequence (an abstract stack of
    value kinds drives the choice), so that runs get deep into the heap opcodes; ~10 % of the steps
    are drawn without regard to types"""
    names = {nm: op for op, (nm, ops) in tab.items()}
    m = nvm.Mod()
    m.strings = [b"main", b"inc", b"", b"abc", b"hello world", b"42", b"-7", b"a; b # c", b"xyz", b"abcabc"]
    nlocals = rng.choice([2, 3, 5])
    code = []
    st = []          # abstract stack
    loc = ["void"] * nlocals
    glob = {}
    E = lambda nm, *vals: code.append(nvm.encode_instr(names[nm], [v & ((1 << 64) - 1) for v in vals], tab))
    ints = [0, 1, 2, 3, -1, 7, 2**63 - 1, -2**63, 2**32, 2**32 + 1, 100, -7, 5]

    def push_int():
        E("PUSH_I64", rng.choice(ints)); st.append("int")

    def push_str():
        E("PUSH_STR", rng.randrange(len(m.strings))); st.append("str")

    def push_any():
        r = rng.random()
        if r < 0.4: push_int()
        elif r < 0.65: push_str()
        elif r < 0.75: E("PUSH_BOOL", rng.choice([0, 1])); st.append("bool")
        elif r < 0.85 and any(k != "void" for k in loc):
            i = rng.choice([i for i, k in enumerate(loc) if k != "void"]); E("LOAD_LOCAL", i); st.append(loc[i])
        elif r < 0.9 and glob:
            g = rng.choice(sorted(glob)); E("LOAD_GLOBAL", g); st.append(glob[g])
        else:
            E("ARR_NEW", rng.choice([1, 5])); st.append("arr")

    for _ in range(n_steps):
        if rng.random() < 0.1:
            # untyped noise
            op = rng.choice(sorted(tab))
            nm, ops = tab[op]
            if nm in ("CALL_EXTERN", "CALL_MODULE", "HALT", "RET") or nm.startswith("HM_") or nm in ("PUSH_F64", "CAST_FLOAT", "STR_FROM_FLOAT"):
                continue
            vals = [rng.choice([0, 1, 2, 3]) for _ in ops]
            if nm in ("JMP", "JMP_TRUE", "JMP_FALSE"): vals = [5]
            if nm == "MATCH_TAG": vals = [rng.choice([0, 1]), 7]
            if nm in ("CALL", "CLOSURE_NEW"): vals[0] = 1
            code.append(nvm.encode_instr(op, vals, tab))
            st.clear(); st.extend(["?"] * 0)   # lose track: treat the stack as unknown/empty
            continue
        top = st[-1] if st else None
        choice = rng.random()
        if not st or choice < 0.25:
            push_any()
        elif top == "int" and len(st) >= 2 and st[-2] == "int" and choice < 0.5:
            E(rng.choice(["ADD", "SUB", "MUL", "DIV", "MOD", "EQ", "LT", "LE", "GT", "GE", "NE"])); st.pop(); st.pop()
            st.append("int" if code[-1][0] in (names["ADD"], names["SUB"], names["MUL"], names["DIV"], names["MOD"]) else "bool")
        elif top == "int" and len(st) >= 2 and st[-2] == "arr" and choice < 0.6:
            r = rng.random()
            if r < 0.4: E("ARR_PUSH"); st.pop()
            elif r < 0.6: E("ARR_GET"); st.pop(); st.pop(); st.append("?")
            elif r < 0.7: E("ARR_REMOVE"); st.pop()
            else: push_any(); E("ARR_SET"); st.pop(); st.pop()
        elif top == "arr" and choice < 0.7:
            r = rng.random()
            if r < 0.3: push_any(); E("ARR_PUSH"); st.pop()
            elif r < 0.45: E("ARR_LEN"); st.pop(); st.append("int")
            elif r < 0.55: E("ARR_POP"); st.pop(); st.append("?"); st.append("arr")
            elif r < 0.65: E("DUP"); st.append("arr")
            elif r < 0.75: push_int(); push_int(); E("ARR_SLICE"); st.pop(); st.pop()
            elif r < 0.85: E("DUP"); E("ARR_PUSH"); st[-1:] = ["arr"]       # array pushed into itself
            else: E("PRINTLN"); st.pop()
        elif top == "str" and choice < 0.7:
            r = rng.random()
            if r < 0.2: E("STR_LEN"); st.pop(); st.append("int")
            elif r < 0.4: push_str(); E(rng.choice(["STR_CONCAT", "ADD", "STR_EQ", "STR_CONTAINS", "EQ", "LT"])); st.pop(); st.pop(); st.append("str" if code[-1][0] in (names["STR_CONCAT"], names["ADD"]) else "bool")
            elif r < 0.55: push_int(); push_int(); E("STR_SUBSTR"); st.pop(); st.pop()
            elif r < 0.65: push_int(); E("STR_CHAR_AT"); st.pop(); st.pop(); st.append("int")
            elif r < 0.75: E("CAST_INT"); st.pop(); st.append("int")
            elif r < 0.85: E("DUP"); st.append("str")
            else: E(rng.choice(["PRINT", "PRINTLN"])); st.pop()
        elif top in ("struct", "tuple", "union") and choice < 0.7:
            r = rng.random()
            if r < 0.5:
                E({"struct": "STRUCT_GET", "tuple": "TUPLE_GET", "union": "UNION_FIELD"}[top], rng.choice([0, 0, 1, 2, 5])); st.pop(); st.append("?")
            elif r < 0.6 and top == "union": E("UNION_TAG"); st.pop(); st.append("int")
            elif r < 0.7 and top == "struct": push_any(); E("STRUCT_SET", rng.choice([0, 1, 4])); st.pop()
            elif r < 0.85: E("DUP"); st.append(top)
            else: E("PRINTLN"); st.pop()
        elif top == "clos" and choice < 0.6:
            if rng.random() < 0.6:
                st.pop(); push_int(); st.pop(); code[-1], code_last = code[-1], None
                # argument first, then the closure: re-emit in the right order
                arg = code.pop(); E("SWAP") if False else None
                code.append(arg); E("SWAP"); E(rng.choice(["CALL_INDIRECT", "CLOSURE_CALL"])); st.append("int")
            else:
                E("DUP"); st.append("clos")
        elif choice < 0.55 and len(st) >= 1:
            r = rng.random()
            n = min(len(st), rng.choice([1, 2, 3]))
            if r < 0.25: E("TUPLE_NEW", n); del st[-n:]; st.append("tuple")
            elif r < 0.45: E("STRUCT_LITERAL", rng.choice([0, 1]), n); del st[-n:]; st.append("struct")
            elif r < 0.6: E("UNION_CONSTRUCT", 0, rng.choice([0, 1, 2]), n); del st[-n:]; st.append("union")
            elif r < 0.8: E("ARR_LITERAL", 1, n); del st[-n:]; st.append("arr")
            else: E("CLOSURE_NEW", 1, n); del st[-n:]; st.append("clos")
        elif choice < 0.7:
            i = rng.randrange(nlocals); E("STORE_LOCAL", i); loc[i] = st.pop()
        elif choice < 0.75:
            g = rng.choice([0, 1, 2, 7]); E("STORE_GLOBAL", g); glob[g] = st.pop()
        elif choice < 0.8:
            E("POP"); st.pop()
        elif choice < 0.85:
            E("DUP"); st.append(top)
        elif choice < 0.9 and len(st) >= 2:
            E("SWAP"); st[-1], st[-2] = st[-2], st[-1]
        elif choice < 0.93:
            push_int(); E("CALL", 1); st.pop(); st.append("int")
        elif choice < 0.96:
            E("CAST_STRING"); st.pop(); st.append("str")
        else:
            E(rng.choice(["PRINTLN", "PRINT"])); st.pop()
    if rng.random() < 0.9:
        if rng.random() < 0.5: E("PUSH_I64", rng.choice([0, 1, 3, 256]))
        E("RET")
    body = b"".join(code)
    # helper `inc`: one parameter, returns param + 1 (optionally touches an upvalue)
    h = [nvm.encode_instr(names["LOAD_LOCAL"], [0], tab)]
    if rng.random() < 0.3:
        h += [nvm.encode_instr(names["LOAD_UPVALUE"], [0, 0], tab), nvm.encode_instr(names["POP"], [], tab)]
    h += [nvm.encode_instr(names["PUSH_I64"], [1], tab), nvm.encode_instr(names["ADD"], [], tab), nvm.encode_instr(names["RET"], [], tab)]
    helper = b"".join(h)
    m.code = body + helper
    m.functions = [[0, 0, 0, len(body), nlocals, 0], [1, 1, len(body), len(helper), 1, 2]]
    m.entry = 0
    return m


def heap_idioms(L, tab):
    """exhaustive small family: every container kind x fresh (unshared) heap element kinds x every access
    opcode x {temporary container, container also held in a local}; each as one straight-line `main`"""
    names = {nm: op for op, (nm, ops) in tab.items()}
    E = lambda nm, *vals: nvm.encode_instr(names[nm], [v & ((1 << 64) - 1) for v in vals], tab)
    strings = [b"main", b"ab", b"cd", b"", b"xyz"]

    def fresh(kind):
        if kind == "str":      # a string nobody else references: "ab" ++ "cd"
            return E("PUSH_STR", 1) + E("PUSH_STR", 2) + E("STR_CONCAT")
        if kind == "str2":
            return E("PUSH_I64", 12345) + E("CAST_STRING")
        if kind == "arr":
            return E("PUSH_I64", 1) + E("PUSH_I64", 2) + E("ARR_LITERAL", 1, 2)
        if kind == "arrs":     # array of fresh strings
            return fresh("str") + fresh("str2") + E("ARR_LITERAL", 5, 2)
        if kind == "tuple":
            return fresh("str") + E("PUSH_I64", 7) + E("TUPLE_NEW", 2)
        if kind == "int":
            return E("PUSH_I64", 42)
        if kind == "lit":      # interned literal (shared with later pushes)
            return E("PUSH_STR", 4)
        raise ValueError(kind)

    elems = ["str", "str2", "arr", "arrs", "tuple", "int", "lit"]
    progs = []
    for e1 in elems:
        for e2 in ("str", "int", "arr"):
            for e3 in ("str2", "lit"):
                build3 = fresh(e1) + fresh(e2) + fresh(e3)
                containers = {
                    "struct": build3 + E("STRUCT_LITERAL", 0, 3),
                    "tuple": build3 + E("TUPLE_NEW", 3),
                    "union": build3 + E("UNION_CONSTRUCT", 0, 1, 3),
                    "array": build3 + E("ARR_LITERAL", 5, 3),
                    "closure": build3 + E("CLOSURE_NEW", 1, 3),
                }
                for cname, cbuild in containers.items():
                    accesses = []
                    if cname == "struct":
                        accesses = [("get%d" % i, E("STRUCT_GET", i)) for i in range(3)] + \
                                   [("set%d" % i, fresh("str") + E("STRUCT_SET", i)) for i in (0, 2)]
                    elif cname == "tuple":
                        accesses = [("get%d" % i, E("TUPLE_GET", i)) for i in range(3)]
                    elif cname == "union":
                        accesses = [("field%d" % i, E("UNION_FIELD", i)) for i in range(3)] + [("tag", E("UNION_TAG"))]
                    elif cname == "array":
                        accesses = [("at%d" % i, E("PUSH_I64", i) + E("ARR_GET")) for i in range(3)] + \
                                   [("slice%d_%d" % (a, b), E("PUSH_I64", a) + E("PUSH_I64", b) + E("ARR_SLICE")) for a, b in ((0, 2), (1, 3), (2, 3), (1, 2), (0, 3), (3, 3))] + \
                                   [("remove%d" % i, E("PUSH_I64", i) + E("ARR_REMOVE")) for i in (0, 1, 2)] + \
                                   [("set%d" % i, E("PUSH_I64", i) + fresh("str") + E("ARR_SET")) for i in (0, 2)] + \
                                   [("pop", E("ARR_POP") + E("POP")), ("push", fresh("str") + E("ARR_PUSH")), ("len", E("ARR_LEN")),
                                    ("selfpush", E("DUP") + E("ARR_PUSH"))]
                    elif cname == "closure":
                        accesses = [("call", E("PUSH_I64", 5) + E("SWAP") + E("CALL_INDIRECT")), ("ccall", E("PUSH_I64", 5) + E("SWAP") + E("CLOSURE_CALL"))]
                    for aname, acode in accesses:
                        for shared in (False, True):
                            # shared: keep a second reference to the container in local 0 while it is accessed
                            pre = cbuild + (E("DUP") + E("STORE_LOCAL", 0) if shared else b"")
                            post = E("PRINTLN") if aname not in ("pop",) else E("PRINTLN")
                            tail = (E("LOAD_LOCAL", 0) + E("PRINTLN") if shared else b"")
                            body = pre + acode + post + tail + fresh("str") + E("PRINTLN") + E("PUSH_I64", 0) + E("RET")
                            helper = E("LOAD_UPVALUE", 0, 0) + E("PRINTLN") + E("LOAD_UPVALUE", 0, 2) + E("POP") + E("LOAD_LOCAL", 0) + E("PUSH_I64", 1) + E("ADD") + E("RET")
                            m = nvm.Mod()
                            m.strings = list(strings) + [b"inc"]
                            m.code = body + helper
                            m.functions = [[0, 0, 0, len(body), 2, 0], [5, 1, len(body), len(helper), 1, 3]]
                            progs.append(("idiom:%s[%s,%s,%s].%s%s" % (cname, e1, e2, e3, aname, ".shared" if shared else ""), m.build(L)))
    return progs


def arith_boundary_modules(L, tab):
    """one tiny verified module per integer operation and ordered pair of boundary operands: PUSH a; PUSH b; OP; PRINTLN; PUSH 0; RET.
    The pairs include every combination around zero, -1 and the ends of the 64-bit range, so division / remainder by 0 and by -1 of
    INT64_MIN, and every wrap-around, are always among the cases."""
    names = {nm: op for op, (nm, ops) in tab.items()}
    vals = [0, 1, -1, 2, -2, 7, -7, 2**31 - 1, -2**31, 2**32, 2**63 - 1, -2**63 + 1, -2**63]
    out = []
    for opn in ("ADD", "SUB", "MUL", "DIV", "MOD", "EQ", "NE", "LT", "LE", "GT", "GE"):
        for a in vals:
            for b in vals:
                m = nvm.Mod()
                m.strings = [b"main"]
                body = (nvm.encode_instr(names["PUSH_I64"], [a & (2**64 - 1)], tab) + nvm.encode_instr(names["PUSH_I64"], [b & (2**64 - 1)], tab)
                        + nvm.encode_instr(names[opn], [], tab) + nvm.encode_instr(names["PRINTLN"], [], tab)
                        + nvm.encode_instr(names["PUSH_I64"], [0], tab) + nvm.encode_instr(names["RET"], [], tab))
                m.code = body
                m.functions = [[0, 0, 0, len(body), 0, 0]]
                m.entry = 0
                out.append(("arith-%s-%d-%d" % (opn, a, b), m.build(L)))
    for a in vals:
        m = nvm.Mod()
        m.strings = [b"main"]
        body = (nvm.encode_instr(names["PUSH_I64"], [a & (2**64 - 1)], tab) + nvm.encode_instr(names["NEG"], [], tab) + nvm.encode_instr(names["PRINTLN"], [], tab)
                + nvm.encode_instr(names["PUSH_I64"], [0], tab) + nvm.encode_instr(names["RET"], [], tab))
        m.code = body
        m.functions = [[0, 0, 0, len(body), 0, 0]]
        out.append(("arith-NEG-%d" % a, m.build(L)))
    return out


def cyclic_modules(L, tab):
    """values that contain themselves, built by a handful of instructions, then printed, compared, converted and dropped: every
    walk over a value (printing, equality, conversion to string, release) has to end"""
    names = {nm: op for op, (nm, ops) in tab.items()}
    E = lambda nm, *vals: nvm.encode_instr(names[nm], [v & ((1 << 64) - 1) for v in vals], tab)
    TAG_INT, TAG_STRING = 1, 5
    build = {
        # array pushed into itself
        "array": E("ARR_NEW", TAG_INT) + E("DUP") + E("ARR_PUSH"),
        # hashmap that is its own value / key
        "hashmap-value": E("HM_NEW", TAG_INT, TAG_INT) + E("DUP") + E("PUSH_I64", 1) + E("SWAP") + E("HM_SET"),
        "hashmap-key": E("HM_NEW", TAG_INT, TAG_INT) + E("DUP") + E("DUP") + E("PUSH_I64", 2) + E("HM_SET"),
        # a ring of two hashmaps: A[1] = B, B[2] = A
        "hashmap-ring": (E("HM_NEW", TAG_INT, TAG_INT) + E("STORE_LOCAL", 0) + E("HM_NEW", TAG_INT, TAG_INT) + E("STORE_LOCAL", 1)
                         + E("LOAD_LOCAL", 0) + E("PUSH_I64", 1) + E("LOAD_LOCAL", 1) + E("HM_SET") + E("POP")
                         + E("LOAD_LOCAL", 1) + E("PUSH_I64", 2) + E("LOAD_LOCAL", 0) + E("HM_SET") + E("POP") + E("LOAD_LOCAL", 0)),
        # hashmap inside an array inside the hashmap
        "hashmap-array": (E("HM_NEW", TAG_INT, TAG_INT) + E("STORE_LOCAL", 0) + E("ARR_NEW", TAG_INT) + E("LOAD_LOCAL", 0) + E("ARR_PUSH") + E("STORE_LOCAL", 1)
                          + E("LOAD_LOCAL", 0) + E("PUSH_I64", 7) + E("LOAD_LOCAL", 1) + E("HM_SET")),
        # struct whose field is the struct
        "struct": E("PUSH_I64", 5) + E("STRUCT_LITERAL", 0, 1) + E("DUP") + E("DUP") + E("STRUCT_SET", 0),
    }
    uses = {"println": E("PRINTLN"), "print": E("PRINT"), "to-string": E("CAST_STRING") + E("PRINTLN"), "equal-self": E("DUP") + E("EQ") + E("PRINTLN"),
            "keys": E("HM_KEYS") + E("PRINTLN"), "values": E("HM_VALUES") + E("PRINTLN"), "drop": E("POP")}
    out = []
    for bn, b in build.items():
        for un, u in uses.items():
            if un in ("keys", "values") and not bn.startswith("hashmap"):
                continue
            m = nvm.Mod()
            m.strings = [b"main"]
            body = b + u + E("PUSH_I64", 0) + E("RET")
            m.code = body
            m.functions = [[0, 0, 0, len(body), 2, 0]]
            m.entry = 0
            out.append(("cyclic-%s-%s" % (bn, un), m.build(L)))
    return out


def hashmap_idioms(L, tab):
    """hashmaps whose keys and values are fresh heap objects, through every hashmap opcode; the Lean model does not cover hashmaps, so
    these runs are judged by the audit of the implementation's own heap at every instruction boundary"""
    names = {nm: op for op, (nm, ops) in tab.items()}
    E = lambda nm, *vals: nvm.encode_instr(names[nm], [v & ((1 << 64) - 1) for v in vals], tab)
    strings = [b"main", b"ab", b"cd", b"k", b"xyz"]
    fresh = {"str": E("PUSH_STR", 1) + E("PUSH_STR", 2) + E("STR_CONCAT"), "str2": E("PUSH_I64", 12345) + E("CAST_STRING"),
             "arr": E("PUSH_I64", 1) + E("PUSH_I64", 2) + E("ARR_LITERAL", 1, 2), "arrs": E("PUSH_STR", 1) + E("PUSH_STR", 2) + E("STR_CONCAT") + E("ARR_LITERAL", 5, 1),
             "int": E("PUSH_I64", 42), "lit": E("PUSH_STR", 4)}
    key = {"k1": E("PUSH_STR", 3), "k2": E("PUSH_I64", 9) + E("CAST_STRING"), "kint": E("PUSH_I64", 5)}
    progs = []
    for kt, vt in ((5, 1), (5, 5), (1, 1), (1, 5)):
        for vk in fresh:
            new = E("HM_NEW", kt, vt) + E("STORE_LOCAL", 0)
            put = lambda kk, vv: E("LOAD_LOCAL", 0) + key[kk] + fresh[vv] + E("HM_SET") + E("POP")
            fill = new + put("k1", vk) + put("k2", vk) + put("kint", "int")
            uses = {"values-drop": E("LOAD_LOCAL", 0) + E("HM_VALUES") + E("POP"),
                    "values-keep": E("LOAD_LOCAL", 0) + E("HM_VALUES") + E("STORE_LOCAL", 1) + E("PUSH_VOID") + E("STORE_LOCAL", 1),
                    "keys-drop": E("LOAD_LOCAL", 0) + E("HM_KEYS") + E("POP"),
                    "get": E("LOAD_LOCAL", 0) + key["k1"] + E("HM_GET") + E("POP"),
                    "overwrite": put("k1", "str") + put("k1", "int"),
                    "delete": E("LOAD_LOCAL", 0) + key["k2"] + E("HM_DELETE") + E("POP"),
                    "has-len": E("LOAD_LOCAL", 0) + key["k1"] + E("HM_HAS") + E("POP") + E("LOAD_LOCAL", 0) + E("HM_LEN") + E("POP")}
            for un, u in uses.items():
                m = nvm.Mod()
                m.strings = list(strings)
                # use, then read the values once more through the map, then drop the map
                body = fill + u + E("LOAD_LOCAL", 0) + key["k1"] + E("HM_GET") + E("PRINTLN") + E("PUSH_VOID") + E("STORE_LOCAL", 0) + E("PUSH_I64", 0) + E("RET")
                m.code = body
                m.functions = [[0, 0, 0, len(body), 2, 0]]
                m.entry = 0
                progs.append(("hashmap[%d,%d,%s].%s" % (kt, vt, vk, un), m.build(L)))
    return progs


def big_frame_modules(L, tab):
    """one frame whose operand stack grows past the VM's initial 4096 slots (the stack is reallocated), then stores to and loads
    from its locals: values written before and after the growth are the values read back"""
    names = {nm: op for op, (nm, ops) in tab.items()}
    E = lambda nm, *vals: nvm.encode_instr(names[nm], [v & ((1 << 64) - 1) for v in vals], tab)
    out = []
    for n in (4090, 4097, 5000, 9000):
        for kind in ("ints", "strings"):
            m = nvm.Mod()
            m.strings = [b"main", b"shared-", b"!"]
            pre = E("PUSH_STR", 1) + E("PUSH_I64", 7) + E("CAST_STRING") + E("STR_CONCAT") + E("STORE_LOCAL", 0)      # local 0: a fresh string
            push = b"".join((E("PUSH_I64", i) if kind == "ints" else E("LOAD_LOCAL", 0)) for i in range(n))
            body = (pre + push + E("ARR_LITERAL", 1 if kind == "ints" else 5, n) + E("STORE_LOCAL", 1)
                    + E("LOAD_LOCAL", 0) + E("PUSH_STR", 2) + E("STR_CONCAT") + E("STORE_LOCAL", 0)                      # store to a local right after the growth
                    + E("LOAD_LOCAL", 0) + E("PRINTLN") + E("LOAD_LOCAL", 1) + E("ARR_LEN") + E("PRINTLN")
                    + E("LOAD_LOCAL", 1) + E("PUSH_I64", n - 1) + E("ARR_GET") + E("PRINTLN")
                    + E("PUSH_VOID") + E("STORE_LOCAL", 1) + E("LOAD_LOCAL", 0) + E("PRINTLN") + E("PUSH_I64", 0) + E("RET"))
            m.code = body
            m.functions = [[0, 0, 0, len(body), 2, 0]]
            m.entry = 0
            out.append(("big-frame-%s-%d" % (kind, n), m.build(L)))
    return out


def short_stack_call_modules(L, tab):
    """every call instruction executed while the operand stack holds fewer values than the callee's arity; the callee then
    reads and writes each of its local slots (all inside local_count, so the verifier accepts the module)"""
    names = {nm: op for op, (nm, ops) in tab.items()}
    E = lambda nm, *vals: nvm.encode_instr(names[nm], [v & ((1 << 64) - 1) for v in vals], tab)
    out = []
    for arity in (1, 2, 3, 8):
        for extra in (0, 2):
            nloc = arity + extra
            for have in range(0, arity):
                for how in ("CALL", "CALL_INDIRECT", "CLOSURE_CALL"):
                    for touch, only in [(t, o) for t in ("load", "store") for o in [None] + list(range(nloc))]:
                        m = nvm.Mod()
                        m.strings = [b"main", b"callee"]
                        helper = b""
                        for i in (range(nloc) if only is None else [only]):      # every slot in turn, or one slot alone
                            helper += (E("LOAD_LOCAL", i) + E("POP")) if touch == "load" else (E("PUSH_I64", 40 + i) + E("STORE_LOCAL", i))
                        helper += E("PUSH_I64", 7) + E("RET")
                        body = b"".join(E("PUSH_I64", 100 + j) for j in range(have))
                        if how == "CALL":
                            body += E("CALL", 1)
                        else:
                            body += E("CLOSURE_NEW", 1, 0) + E(how)
                        body += E("PRINTLN") + E("PUSH_I64", 0) + E("RET")
                        m.code = body + helper
                        m.functions = [[0, 0, 0, len(body), 0, 0], [1, arity, len(body), len(helper), nloc, 0]]
                        m.entry = 0
                        out.append(("short-stack-%s-arity%d-have%d-locals%d-%s-%s" % (how, arity, have, nloc, touch, "all" if only is None else only), m.build(L)))
    return out


def deep_value_modules(L, tab):
    """a value nested N containers deep, built by a loop, then dropped / printed / compared at function exit: whatever walks the
    value must not need a C stack frame per level"""
    names = {nm: op for op, (nm, ops) in tab.items()}
    E = lambda nm, *vals: nvm.encode_instr(names[nm], [v & ((1 << 64) - 1) for v in vals], tab)
    out = []
    for n in (1000, 30000, 100000):
        for use_name, use in (("drop", b""), ("println", E("LOAD_LOCAL", 0) + E("PRINTLN")), ("equal-self", E("LOAD_LOCAL", 0) + E("LOAD_LOCAL", 0) + E("EQ") + E("PRINTLN"))):
            if n == 100000 and use_name != "drop":
                continue      # (the probe's object registry is quadratic: one 100000-level case is enough for the walk that frees)
            m = nvm.Mod()
            m.strings = [b"main"]
            pre = E("ARR_NEW", 7) + E("STORE_LOCAL", 0) + E("PUSH_I64", n) + E("STORE_LOCAL", 1)
            body = (E("ARR_NEW", 7) + E("LOAD_LOCAL", 0) + E("ARR_PUSH") + E("STORE_LOCAL", 0)
                    + E("LOAD_LOCAL", 1) + E("PUSH_I64", 1) + E("SUB") + E("STORE_LOCAL", 1) + E("LOAD_LOCAL", 1))
            loop = body + E("JMP_TRUE", (-len(body)) & 0xFFFFFFFF)
            code = pre + loop + use + E("PUSH_I64", 0) + E("RET")
            m.code = code
            m.functions = [[0, 0, 0, len(code), 2, 0]]
            m.entry = 0
            out.append(("deep-value-%d-%s" % (n, use_name), m.build(L), 12 * n + 100))
    return out
