#!/bin/bash
# Re-tests every seeded change against its property's quick check; one line per seed.
cd /verif
for d in seeded/*/; do
  id=$(basename $d); prop=${id%%_*}
  out=$(python3 harness/seedtest.py $d/patch.diff $prop ${1:-quick} 2>&1)
  rc=$(echo "$out" | head -1)
  v=$(echo "$out" | grep -c '^VIOLATION')
  nf=$(echo "$out" | grep -c 'no-failing-input-found')
  echo "$id $rc violations=$v no-input=$nf"
done
