"""Type-directed generator of well-typed nanolang core programs (source text).

Every program carries feature flags; all randomness comes from the rng passed in.  Programs are
deterministic, terminate (loops have literal bounds), print only ints/bools/strings and keep to
in-range array accesses and non-zero divisors unless a flag says otherwise."""

INT_EDGE = [0, 1, 2, 3, 7, 10, 100, 255, 256, 65535, 2147483647, 2147483648, 4294967296,
            9223372036854775807, -1, -2, -7, -128, -2147483648, -9223372036854775807]
STRS = ["", "a", "abc", "hello", "x y", "a; b # c", "tab\\there", "q", "nano", "0123456789"]


class G:
    def __init__(self, rng, flags=None, size=1.0):
        self.r = rng
        self.flags = set()
        self.want = flags or {}
        self.size = size
        self.fn_sigs = []       # (name, [param types], ret type)
        self.uid = 0
        self.lines = []

    def fresh(self, p="v"):
        self.uid += 1
        return "%s%d" % (p, self.uid)

    # ---- expressions --------------------------------------------------------------
    def int_lit(self):
        if self.r.random() < 0.25:
            self.flags.add("int_edge")
            return str(self.r.choice(INT_EDGE))
        return str(self.r.randint(-20, 60))

    def expr(self, ty, env, depth=0):
        r = self.r
        vars_ = [n for n, (t, m) in env.items() if t == ty]
        leaf = depth >= 3 or r.random() < 0.3
        if ty == "int":
            if leaf:
                if vars_ and r.random() < 0.6:
                    return r.choice(vars_)
                return self.int_lit()
            c = r.random()
            if c < 0.45:
                op = r.choice(["+", "-", "*", "+", "-"])
                a, b = self.expr("int", env, depth + 1), self.expr("int", env, depth + 1)
                self.flags.add("arith")
                if r.random() < 0.3:
                    self.flags.add("infix")
                    return "(%s %s %s)" % (a, op, b) if False else "(%s %s %s)" % (op, a, b)
                return "(%s %s %s)" % (op, a, b)
            if c < 0.55:
                self.flags.add("divmod")
                d = r.choice([1, 2, 3, 5, 7, -1, -2, -3, 10])
                return "(%s %s %d)" % (r.choice(["/", "%"]), self.expr("int", env, depth + 1), d)
            if c < 0.65:
                avs = [n for n, (t, m) in env.items() if t == "array<int>" and self.nonempty.get(n, 0) > 0]
                if avs:
                    a = r.choice(avs)
                    self.flags.add("array_get")
                    return "(at %s %d)" % (a, r.randrange(0, self.nonempty[a]))
            if c < 0.72:
                svs = [n for n, (t, m) in env.items() if t == "string"]
                if svs:
                    self.flags.add("str_length")
                    return "(str_length %s)" % r.choice(svs)
            if c < 0.8:
                pvs = [n for n, (t, m) in env.items() if t == "Point"]
                if pvs:
                    self.flags.add("field")
                    return "%s.%s" % (r.choice(pvs), r.choice(["x", "y"]))
            if c < 0.9:
                fs = [f for f in self.fn_sigs if f[2] == "int" and self.cur_fn_index > f[3]]
                if fs:
                    f = r.choice(fs)
                    self.flags.add("call")
                    return "(%s%s)" % (f[0], "".join(" " + self.expr(t, env, depth + 2) for t in f[1]))
            if c < 0.95:
                avs = [n for n, (t, m) in env.items() if t.startswith("array<")]
                if avs:
                    return "(array_length %s)" % r.choice(avs)
            return "(- %s)" % self.expr("int", env, depth + 1) if r.random() < 0.3 else self.int_lit()
        if ty == "bool":
            if leaf:
                if vars_ and r.random() < 0.5:
                    return r.choice(vars_)
                return r.choice(["true", "false"])
            c = r.random()
            if c < 0.5:
                self.flags.add("compare")
                return "(%s %s %s)" % (r.choice(["==", "!=", "<", "<=", ">", ">="]), self.expr("int", env, depth + 1), self.expr("int", env, depth + 1))
            if c < 0.75:
                self.flags.add("logic")
                return "(%s %s %s)" % (r.choice(["and", "or"]), self.expr("bool", env, depth + 1), self.expr("bool", env, depth + 1))
            if c < 0.85:
                return "(not %s)" % self.expr("bool", env, depth + 1)
            self.flags.add("str_eq")
            return "(== %s %s)" % (self.expr("string", env, depth + 1), self.expr("string", env, depth + 1))
        if ty == "string":
            if leaf:
                if vars_ and r.random() < 0.6:
                    return r.choice(vars_)
                return '"%s"' % r.choice(STRS)
            c = r.random()
            if c < 0.5:
                self.flags.add("str_concat")
                return "(+ %s %s)" % (self.expr("string", env, depth + 1), self.expr("string", env, depth + 1))
            if c < 0.7:
                self.flags.add("int_to_string")
                return "(int_to_string %s)" % self.expr("int", env, depth + 1)
            avs = [n for n, (t, m) in env.items() if t == "array<string>" and self.nonempty.get(n, 0) > 0]
            if avs:
                a = r.choice(avs)
                self.flags.add("array_get_str")
                return "(at %s %d)" % (a, r.randrange(0, self.nonempty[a]))
            fs = [f for f in self.fn_sigs if f[2] == "string" and self.cur_fn_index > f[3]]
            if fs:
                f = r.choice(fs)
                return "(%s%s)" % (f[0], "".join(" " + self.expr(t, env, depth + 2) for t in f[1]))
            return '"%s"' % r.choice(STRS)
        if ty == "array<int>":
            if vars_ and r.random() < 0.5:
                return r.choice(vars_)
            n = r.randint(1, 4)
            return "[" + ", ".join(self.expr("int", env, depth + 2) for _ in range(n)) + "]"
        if ty == "array<string>":
            if vars_ and r.random() < 0.5:
                return r.choice(vars_)
            n = r.randint(1, 3)
            return "[" + ", ".join(self.expr("string", env, depth + 2) for _ in range(n)) + "]"
        if ty == "Point":
            if vars_ and r.random() < 0.5:
                return r.choice(vars_)
            self.flags.add("struct")
            return "Point { x: %s, y: %s }" % (self.expr("int", env, depth + 2), self.expr("int", env, depth + 2))
        raise ValueError(ty)

    # ---- statements ---------------------------------------------------------------
    def block(self, env, ret_ty, depth, n, in_loop=False, indent="    "):
        out = []
        env = dict(env)
        for _ in range(n):
            out += self.stmt(env, ret_ty, depth, in_loop, indent)
        return out

    def stmt(self, env, ret_ty, depth, in_loop, indent):
        r = self.r
        c = r.random()
        out = []
        if c < 0.22:
            ty = r.choice(["int", "int", "bool", "string", "array<int>", "array<string>", "Point"])
            name = self.fresh()
            mut = r.random() < 0.5
            e = self.expr(ty, env)
            if ty.startswith("array<") and mut and not e.startswith("["):
                # `let mut b = a` makes b an alias of a on both engines (in-place array_push is then visible through a), while the
                # reference has value semantics: known finding F-C02-5, exercised by its own witness, kept out of the general stream
                mut = False
            out.append("%slet %s%s: %s = %s" % (indent, "mut " if mut else "", name, ty, e))
            env[name] = (ty, mut)
            if ty.startswith("array<") and e.startswith("["):
                self.nonempty[name] = e.count(",") + 1 if False else len(self._split_top(e[1:-1]))
            self.flags.add("let_" + ty.split("<")[0])
            return out
        if c < 0.36:
            ty = r.choice(["int", "bool", "string"])
            self.flags.add("print_" + ty)
            out.append("%s(%s %s)" % (indent, r.choice(["println", "println", "print"]), self.expr(ty, env)))
            return out
        if c < 0.48:
            muts = [n for n, (t, m) in env.items() if m and t in ("int", "bool", "string")]
            if muts:
                n = r.choice(muts)
                self.flags.add("set")
                out.append("%sset %s %s" % (indent, n, self.expr(env[n][0], env)))
                return out
        if c < 0.6 and depth < 2:
            self.flags.add("if")
            out.append("%sif %s {" % (indent, self.expr("bool", env)))
            out += self.block(env, ret_ty, depth + 1, r.randint(1, 3), in_loop, indent + "    ")
            if r.random() < 0.6:
                out.append("%s} else {" % indent)
                out += self.block(env, ret_ty, depth + 1, r.randint(1, 2), in_loop, indent + "    ")
            out.append("%s}" % indent)
            return out
        if c < 0.7 and depth < 2:
            self.flags.add("while")
            i = self.fresh("i")
            k = r.randint(0, 5)
            out.append("%slet mut %s: int = 0" % (indent, i))
            out.append("%swhile (< %s %d) {" % (indent, i, k))
            env2 = dict(env); env2[i] = ("int", False)
            body = self.block(env2, ret_ty, depth + 1, r.randint(1, 3), True, indent + "    ")
            out += body
            out.append("%s    set %s (+ %s 1)" % (indent, i, i))
            out.append("%s}" % indent)
            env[i] = ("int", False)
            return out
        if c < 0.78 and depth < 2:
            self.flags.add("for")
            i = self.fresh("k")
            a, b = r.randint(0, 2), r.randint(0, 5)
            out.append("%sfor %s in (range %d %d) {" % (indent, i, a, b))
            env2 = dict(env); env2[i] = ("int", False)
            out += self.block(env2, ret_ty, depth + 1, r.randint(1, 3), True, indent + "    ")
            out.append("%s}" % indent)
            return out
        if c < 0.84:
            avs = [n for n, (t, m) in env.items() if t == "array<int>" and m]
            if avs:
                a = r.choice(avs)
                self.flags.add("array_push")
                out.append("%sset %s (array_push %s %s)" % (indent, a, a, self.expr("int", env)))
                # only a push that certainly runs (function body level, not in a branch or loop) raises the known minimum length
                self.nonempty[a] = self.nonempty.get(a, 0) + 1 if (not in_loop and depth == 0) else self.nonempty.get(a, 0)
                return out
        if c < 0.88:
            self.flags.add("assert_true")
            out.append("%sassert (== %s %s)" % (indent, "1", "1"))
            return out
        if c < 0.91 and in_loop and "no_break" not in self.want:
            self.flags.add("break")
            out.append("%sif %s { break }" % (indent, self.expr("bool", env)))
            return out
        if c < 0.94 and depth > 0 and r.random() < 0.3:
            self.flags.add("early_return")
            out.append("%sreturn %s" % (indent, self.expr(ret_ty, env)))
            return out
        ty = r.choice(["int", "string"])
        out.append("%s(println %s)" % (indent, self.expr(ty, env)))
        self.flags.add("print_" + ty)
        return out

    @staticmethod
    def _split_top(s):
        parts, depth, cur, q = [], 0, "", False
        for ch in s:
            if ch == '"':
                q = not q
            if not q and ch in "([{":
                depth += 1
            if not q and ch in ")]}":
                depth -= 1
            if not q and ch == "," and depth == 0:
                parts.append(cur); cur = ""
            else:
                cur += ch
        if cur.strip():
            parts.append(cur)
        return parts

    # ---- program ------------------------------------------------------------------
    def program(self):
        r = self.r
        self.nonempty = {}
        L = ["struct Point { x: int, y: int }", ""]
        globs = {}
        if r.random() < 0.4:
            self.flags.add("global")
            L.append("let G_LIMIT: int = %d" % r.randint(1, 9))
            L.append('let G_NAME: string = "%s"' % r.choice(STRS))
            L.append("")
            globs = {"G_LIMIT": ("int", False), "G_NAME": ("string", False)}
        nfn = r.randint(0, 3)
        self.cur_fn_index = 0
        for k in range(nfn):
            name = "f%d" % k
            ptys = [r.choice(["int", "int", "string", "bool"]) for _ in range(r.randint(0, 3))]
            rty = r.choice(["int", "int", "string"])
            self.cur_fn_index = k
            env = dict(globs)
            params = []
            for j, t in enumerate(ptys):
                pn = "p%d_%d" % (k, j)
                env[pn] = (t, False); params.append("%s: %s" % (pn, t))
            self.nonempty = {}
            body = self.block(env, rty, 0, r.randint(1, 4))
            L.append("fn %s(%s) -> %s {" % (name, ", ".join(params), rty))
            L += body
            L.append("    return %s" % self.expr(rty, env))
            L.append("}")
            L.append("shadow %s { assert (== 1 1) }" % name)
            L.append("")
            self.fn_sigs.append((name, ptys, rty, k))
            self.flags.add("function")
        self.cur_fn_index = nfn
        self.nonempty = {}
        env = dict(globs)
        body = self.block(env, "int", 0, max(2, int(r.randint(3, 9) * self.size)))
        L.append("fn main() -> int {")
        L += body
        L.append("    return %s" % r.choice(["0", "0", "0", "3", "(% " + self.expr("int", env) + " 7)"]))
        L.append("}")
        L.append("shadow main { assert (== 1 1) }")
        return "\n".join(L) + "\n", sorted(self.flags)


def gen(rng, size=1.0, flags=None):
    g = G(rng, flags, size)
    return g.program()


def gen_shadowed(rng, size=1.0):
    """A program whose shadow blocks print calls of their function (so the compile-time evaluator's transcript is visible
    with --verbose) and whose main performs exactly the same calls in the same order (so the compiled program's stdout is
    the same transcript when the two agree).  Returns (text, calls) with calls = [(fn, call text)]."""
    g = G(rng, None, size)
    text, flags = g.program()
    lines = text.split("\n")
    calls = []
    out = []
    for ln in lines:
        m = None
        for (name, ptys, rty, k) in g.fn_sigs:
            if ln.strip() == "shadow %s { assert (== 1 1) }" % name:
                m = (name, ptys, rty)
        if m is None:
            out.append(ln)
            continue
        name, ptys, rty = m
        body = []
        for _ in range(rng.randint(1, 3)):
            args = []
            for t in ptys:
                if t == "int":
                    args.append(str(rng.choice([0, 1, -1, 2, 7, -13, 100, 2147483647, -2147483648, 9223372036854775807])))
                elif t == "bool":
                    args.append(rng.choice(["true", "false"]))
                else:
                    args.append('"%s"' % rng.choice(STRS))
            call = "(%s)" % " ".join([name] + args)
            calls.append((name, call))
            body.append("    (println %s)" % call)
        out.append("shadow %s {\n%s\n    assert (== 1 1)\n}" % (name, "\n".join(body)))
    text = "\n".join(out)
    i = text.index("fn main() -> int {")
    main = "fn main() -> int {\n" + "".join("    (println %s)\n" % c for _, c in calls) + "    return 0\n}\nshadow main { assert (== 1 1) }\n"
    return text[:i] + main, calls


def churn(kind, k):
    """the churn family of C14: values that die each iteration; live objects afterwards must not depend on k"""
    body = {
        "strings": '        let s: string = (+ "it" (int_to_string i))\n        set n (+ n (str_length s))\n',
        "arrays": "        let a: array<int> = [i, (+ i 1), (+ i 2)]\n        set n (+ n (at a 1))\n",
        "structs": "        let p: Point = Point { x: i, y: 2 }\n        set n (+ n p.x)\n",
        "nested": '        let a: array<string> = [(int_to_string i), "x"]\n        let b: array<string> = (array_push a "y")\n        set n (+ n (array_length b))\n',
        "calls": "        set n (apply inc n)\n",
        "remove": '        let mut a: array<string> = [(int_to_string i), "k", "z"]\n        set a (array_remove_at a 0)\n        set n (+ n (array_length a))\n',
        "tuples": '        let t: (int, string) = (i, (int_to_string i))\n        set n (+ n t.0)\n',
        "concat": '        set acc (+ "p" (int_to_string (% i 3)))\n        set n (+ n (str_length acc))\n',
        # element-wise operators on arrays of strings / ints build fresh elements
        "arrayadd": '        let a: array<string> = [(int_to_string i), "x"]\n        let b: array<string> = ["-", (int_to_string (+ i 7))]\n        let c: array<string> = (+ a b)\n        set n (+ n (array_length c))\n',
        "broadcast": '        let a: array<string> = [(int_to_string i), "x"]\n        let c: array<string> = (+ a (int_to_string (* i 3)))\n        let d: array<int> = (* [i, 2] 3)\n        set n (+ n (+ (array_length c) (at d 1)))\n',
        "slices": '        let a: array<string> = [(int_to_string i), "k", (+ "z" (int_to_string i))]\n        let b: array<string> = (array_slice a 1 2)\n        set n (+ n (array_length b))\n',
        "poppush": '        let a: array<string> = [(int_to_string i), "q"]\n        let mut b: array<string> = []\n        set b (array_push b (at a 0))\n        let last: string = (array_pop b)\n        set n (+ n (str_length last))\n',
        # values passed to calls that leave the VM (builtins implemented as externs): the call consumes the argument
        "externs": '        let s: string = (+ "abc" (int_to_string i))\n        set n (+ n (bstr_utf8_length s))\n        let t: string = (+ "x" (int_to_string (* i 7)))\n        if (bstr_validate_utf8 t) {\n            set n (+ n 1)\n        }\n',
        # function values held in an array: every fetched copy dies at the end of the iteration, the table lives on
        "fntable": "        let f: fn(int) -> int = (at table (% i 2))\n        set n (f n)\n        let g: fn(int) -> int = (at table 1)\n        set n (- (g n) 1)\n",
        "fntablelocal": "        let t: array<fn(int) -> int> = [inc, inc, inc]\n        let f: fn(int) -> int = (at t (% i 3))\n        set n (f n)\n",
    }[kind]
    return ("struct Point { x: int, y: int }\n"
            "fn inc(x: int) -> int { return (+ x 1) }\nshadow inc { assert (== (inc 1) 2) }\n"
            "fn apply(f: fn(int) -> int, x: int) -> int { return (f x) }\nshadow apply { assert (== (apply inc 1) 2) }\n"
            "fn main() -> int {\n    let mut n: int = 0\n    let mut acc: string = \"\"\n    let mut i: int = 0\n    let table: array<fn(int) -> int> = [inc, inc]\n"
            "    while (< i %d) {\n%s        set i (+ i 1)\n    }\n    (println n)\n    return 0\n}\nshadow main { assert (== 1 1) }\n" % (k, body))


CHURN_KINDS = ["strings", "arrays", "structs", "nested", "calls", "remove", "tuples", "concat", "arrayadd", "broadcast", "slices", "poppush", "fntable", "fntablelocal", "externs"]
