#!/usr/bin/env python3
"""usage: mkmeta.py <seed id> <round> <summary> <needs> <detection>"""
import json, sys
sid, rnd, summary, needs, det = sys.argv[1:6]
json.dump({"id": sid, "property": sid.split("_")[0], "round": rnd, "summary": summary, "needs_to_manifest": needs,
           "confirmed": "harness/confirm_seed.sh in a scratch worktree: patch applies, builds with -Werror, test-nanovirt 62 passed 0 failed with the change, demo.sh exits 1 with the change and 0 without",
           "origin": "written by a sub-agent given only the property text, the one-line summaries of the earlier changes for that property (to avoid repeats) and its own worktree",
           "detection": det}, open("/verif/seeded/%s/meta.json" % sid, "w"), indent=1)
