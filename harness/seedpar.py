#!/usr/bin/env python3
"""Parallel re-test of seeded changes.  usage: seedpar.py <lanes> [tier] [seed ids ...]
Each lane owns a scratch worktree of /repo under /var/tmp/seedpar/w<k>; a seed is applied there and its property's check is
run with VERIF_REPO pointing at the worktree.  Seeds of the daemon properties (one socket per uid) share one lane; a seed whose
patch changes what the translators extract (shared Gen/*.lean) is deferred and run serially at the end.  The evidence files
written during these runs are scratch: re-run the checks on /repo itself afterwards."""
import json, os, subprocess, sys, threading, glob, queue, time
V = "/verif"
lanes = int(sys.argv[1]); tier = sys.argv[2] if len(sys.argv) > 2 else "quick"
ids = sys.argv[3:] or sorted(os.path.basename(d.rstrip("/")) for d in glob.glob(V + "/seeded/*/"))
DAEMON = {"C15", "C16", "C17", "C18"}
root = "/var/tmp/seedpar"
os.makedirs(root, exist_ok=True)
out_lock = threading.Lock()
results = {}

def sh(*a, **k):
    return subprocess.run(list(a), stdout=subprocess.PIPE, stderr=subprocess.STDOUT, **k)

def run_seed(wt, sid, serial=False):
    prop = sid.split("_")[0]
    patch = "%s/seeded/%s/patch.diff" % (V, sid)
    sh("git", "-C", wt, "checkout", "-q", "--", ".")
    a = sh("git", "-C", wt, "apply", patch)
    if a.returncode != 0:
        return "NOAPPLY"
    try:
        env = dict(os.environ, VERIF_REPO=wt, VERIF_NO_PRUNE="1")
        if not serial:
            g = subprocess.run(["python3", V + "/tr/gen.py"], env=dict(env, VERIF_GEN_DRYRUN="1"), stdout=subprocess.PIPE, stderr=subprocess.PIPE)
            try:
                j = json.loads(g.stdout.decode())
                if j["errors"] or any(x.get("changed") for x in j["generated"]):
                    return "DEFER"
            except Exception:
                return "DEFER"
        p = subprocess.run(["./check", prop, "--tier", tier], cwd=V, env=env, stdout=subprocess.PIPE, stderr=subprocess.PIPE)
        o = p.stdout.decode()
        if p.returncode not in (0, 1):
            open("/var/tmp/seedpar/err_%s.txt" % sid, "w").write(p.stderr.decode()[-4000:])
        return "rc=%d violations=%d no-input=%d" % (p.returncode, sum(l.startswith("VIOLATION") for l in o.splitlines()), o.count("no-failing-input-found"))
    finally:
        sh("git", "-C", wt, "checkout", "-q", "--", ".")

def lane(k, q, deferred):
    wt = "%s/w%d" % (root, k)
    if not os.path.isdir(wt):
        sh("git", "-C", "/repo", "worktree", "add", "--detach", wt)
    sh("git", "-C", wt, "checkout", "-q", "--detach", subprocess.run(["git", "-C", "/repo", "rev-parse", "HEAD"], stdout=subprocess.PIPE).stdout.decode().strip())
    while True:
        try:
            sid = q.get_nowait()
        except queue.Empty:
            return
        t = time.time()
        r = run_seed(wt, sid)
        if r == "DEFER":
            deferred.append(sid)
        else:
            with out_lock:
                results[sid] = r
                print("%s %s %ds" % (sid, r, time.time() - t), flush=True)

qd, qo, deferred = queue.Queue(), queue.Queue(), []
for s in ids:
    (qd if s.split("_")[0] in DAEMON else qo).put(s)
th = [threading.Thread(target=lane, args=(0, qd, deferred))] + [threading.Thread(target=lane, args=(k, qo, deferred)) for k in range(1, lanes)]
for t in th: t.start()
for t in th: t.join()
# deferred seeds: serially, one at a time, in lane 1's worktree (they rewrite Gen/*.lean; the last step restores it)
for sid in deferred:
    t = time.time()
    r = run_seed("%s/w1" % root, sid, serial=True)
    results[sid] = r
    print("%s %s %ds (serial: changes translated constants)" % (sid, r, time.time() - t), flush=True)
subprocess.run(["python3", V + "/tr/gen.py"], stdout=subprocess.DEVNULL)
missed = [s for s in ids if not results.get(s, "").startswith("rc=1")]
print("SUMMARY %d seeds, %d detected, not detected: %s" % (len(ids), len(ids) - len(missed), " ".join("%s(%s)" % (s, results.get(s)) for s in missed)))
