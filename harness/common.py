"""Shared machinery of every check: translator run, Lean build + audit, driver/probe batches,
known findings, VIOLATION lines, evidence files."""
import hashlib
import json
import os
import random
import re
import subprocess
import sys
import time

from . import build

VERIF = build.VERIF
LEAN = os.path.join(VERIF, "lean")
EVID = os.path.join(VERIF, "evidence")
REPLAY = os.path.join(EVID, "replay")
sys.path.insert(0, os.path.join(VERIF, "tr"))
import gen as trgen  # noqa: E402

ALLOWED_AXIOMS = {"propext", "Classical.choice", "Quot.sound"}
FORBIDDEN_RE = re.compile(r"\b(sorry|admit|native_decide|bv_decide|implemented_by|unsafe)\b|^\s*axiom\s|maxHeartbeats\s+0")

TRUSTED_BASE = [
    "Lean 4.33 kernel (lake build; thorough tier also leanchecker)",
    "axioms allowed in property theorems: propext, Classical.choice, Quot.sound (audited by #print axioms each run)",
    "translators tr/gen.py (C source -> NanoVerif/Gen/*.lean)",
    "correspondence harness: probes/*.c linked against objects rebuilt from /repo, harness/*.py generators and canonicaliser",
    "Lean compiler/runtime executing nvdriver (correspondence only; proofs do not depend on it)",
]


class Ctx:
    def __init__(self, prop, tier, seed):
        self.prop = prop
        self.tier = tier
        self.seed = seed
        self.rng = random.Random((seed << 8) ^ int(hashlib.sha256(prop.encode()).hexdigest()[:6], 16))
        self.t0 = time.time()
        self.violations = []     # (replay_path, suffix)
        self.known_hit = []      # finding ids that still fail
        self.known_lines = []
        self.cov = {"samples": []}
        self.assumptions = []
        self.notes = []
        self.evals = 0
        self.distinct = set()
        self.findings = load_findings(prop)
        self.level = "proof"
        # replay files of earlier runs of this property are stale
        import glob
        for f in glob.glob(os.path.join(REPLAY, "%s-*.json" % prop)):
            try:
                os.unlink(f)
            except OSError:
                pass

    # ---- counting -------------------------------------------------------------------
    def count(self, key, n=1):
        self.cov[key] = self.cov.get(key, 0) + n

    def case(self, canon, nontrivial=True):
        self.evals += 1
        if nontrivial:
            self.distinct.add(hashlib.sha1(canon.encode() if isinstance(canon, str) else canon).digest()[:8])

    def sample(self, s, limit=6):
        if len(self.cov["samples"]) < limit:
            self.cov["samples"].append(s)

    # ---- verdicts -------------------------------------------------------------------
    def violation(self, replay_obj, name=None, no_input=False):
        os.makedirs(REPLAY, exist_ok=True)
        n = len(self.violations)
        path = os.path.join(REPLAY, "%s-%d-%d.json" % (self.prop, self.seed, n) if name is None else name)
        replay_obj = dict(replay_obj)
        replay_obj.setdefault("property", self.prop)
        replay_obj.setdefault("seed", self.seed)
        replay_obj.setdefault("tier", self.tier)
        replay_obj.setdefault("rerun", "cd /verif && VERIF_SEED=%d ./check %s --tier %s" % (self.seed, self.prop, self.tier))
        with open(path, "w") as f:
            json.dump(replay_obj, f, indent=1, default=str)
        self.violations.append((path, " no-failing-input-found" if no_input else ""))
        return path

    def known(self, fid, what):
        """a listed finding whose witness still fails on the implementation"""
        if fid not in self.known_hit:
            self.known_hit.append(fid)
            self.known_lines.append("KNOWN-FINDING: property=%s %s %s" % (self.prop, fid, what))

    def finish(self, obligations=None, discharged=None, checker_cmd=None, extra=None):
        cov = self.cov
        cov["evaluations"] = self.evals
        cov["distinct_nontrivial"] = len(self.distinct)
        if obligations is not None:
            cov["obligations"] = obligations
            cov["discharged"] = discharged
            cov["checker_cmd"] = checker_cmd or "cd /verif/lean && lake build NanoVerif.Props.%s" % self.prop
            cov["trusted_base"] = TRUSTED_BASE
        cov["known_findings_hit"] = self.known_hit
        if extra:
            cov.update(extra)
        ev = {
            "property_id": self.prop,
            "tier": self.tier,
            "seed": self.seed,
            "level": self.level,
            "coverage": cov,
            "assumptions": self.assumptions,
            "wall_s": round(time.time() - self.t0, 2),
            "violations": len(self.violations),
        }
        os.makedirs(EVID, exist_ok=True)
        with open(os.path.join(EVID, self.prop + ".json"), "w") as f:
            json.dump(ev, f, indent=1, default=str)
        for l in self.known_lines:
            print(l)
        for path, suffix in self.violations:
            print("VIOLATION property=%s replay=%s%s" % (self.prop, path, suffix))
        sys.stdout.flush()
        return 1 if self.violations else 0


def load_findings(prop):
    p = os.path.join(VERIF, "known_findings.json")
    if not os.path.exists(p):
        return {}
    d = json.load(open(p))
    return {e["id"]: e for e in d.get("findings", []) if prop in e.get("properties", [e.get("property")])}


# ---------------------------------------------------------------------------------------
# Lean side
def lake(args, timeout=3000):
    with build.Lock(os.path.join(build.WORK, "lock", "lake")):
        p = subprocess.run(["lake"] + args, cwd=LEAN, stdout=subprocess.PIPE, stderr=subprocess.STDOUT, timeout=timeout)
    return p.returncode, p.stdout.decode(errors="replace")


def regenerate(which=None):
    """run translators; returns list of (extractor, message) for broken ties"""
    res, errs = trgen.run(which)
    return res, errs


def build_driver():
    rc, out = lake(["build", "nvdriver"])
    if rc != 0:
        raise RuntimeError("nvdriver does not build:\n" + _errors(out))
    return os.path.join(LEAN, ".lake", "build", "bin", "nvdriver")


def _errors(out):
    lines = [l for l in out.splitlines() if not l.startswith("trace:")]
    return "\n".join(lines[-60:])


def build_props(module):
    """lake build one property module. returns (ok, error text, failing declarations)"""
    rc, out = lake(["build", module])
    if rc == 0:
        return True, "", []
    errs = _errors(out)
    decls = sorted(set(re.findall(r"error: ([\w/\.]+\.lean:\d+:\d+)", out)))
    return False, errs, decls


def theorems_of(module_file):
    """(theorem names, example count) declared in a Props file"""
    src = open(module_file).read()
    src_nc = re.sub(r"/-.*?-/", "", src, flags=re.S)
    src_nc = re.sub(r"--[^\n]*", "", src_nc)
    ns = re.search(r"^namespace\s+([\w\.]+)", src_nc, flags=re.M)
    ns = ns.group(1) + "." if ns else ""
    ths = [ns + m for m in re.findall(r"^theorem\s+([\w\.']+)", src_nc, flags=re.M)]
    nex = len(re.findall(r"^example\b", src_nc, flags=re.M))
    return ths, nex


def grep_forbidden(paths=None):
    """forbidden constructs outside comments in the library"""
    bad = []
    root = os.path.join(LEAN, "NanoVerif")
    for dp, dn, fn in os.walk(root):
        for f in fn:
            if not f.endswith(".lean"):
                continue
            p = os.path.join(dp, f)
            src = open(p).read()
            src = re.sub(r"/-.*?-/", lambda m: "\n" * m.group(0).count("\n"), src, flags=re.S)
            for i, line in enumerate(src.splitlines(), 1):
                line = re.sub(r"--.*", "", line)
                line = re.sub(r'"[^"]*"', '""', line)
                if FORBIDDEN_RE.search(line):
                    bad.append("%s:%d: %s" % (os.path.relpath(p, LEAN), i, line.strip()))
    return bad


def audit_axioms(module, theorems):
    """#print axioms for each theorem; returns dict name -> list of axioms, and bad list"""
    if not theorems:
        return {}, []
    tmp = os.path.join(LEAN, ".lake", "audit_%s_%d.lean" % (module.replace(".", "_"), os.getpid()))
    with open(tmp, "w") as f:
        f.write("import %s\n" % module)
        for t in theorems:
            f.write("#print axioms %s\n" % t)
    try:
        p = subprocess.run(["lake", "env", "lean", tmp], cwd=LEAN, stdout=subprocess.PIPE, stderr=subprocess.STDOUT, timeout=900)
    finally:
        os.unlink(tmp)
    out = p.stdout.decode(errors="replace")
    res, bad = {}, []
    for m in re.finditer(r"'([^']+)' depends on axioms: \[([^\]]*)\]", out.replace("\n", " ")):
        ax = [a.strip() for a in m.group(2).split(",") if a.strip()]
        res[m.group(1)] = ax
        for a in ax:
            if a not in ALLOWED_AXIOMS:
                bad.append("%s uses axiom %s" % (m.group(1), a))
    for m in re.finditer(r"'([^']+)' does not depend on any axioms", out):
        res[m.group(1)] = []
    for t in theorems:
        if t not in res:
            bad.append("%s: no axiom report (%s)" % (t, out.strip()[-300:]))
    return res, bad


def prove(ctx, module_name, gen_which=None):
    """Steps 2-3 of a check: regenerate Gen, build the property module, audit.
    Returns dict(ok, obligations, discharged, broken: [str]).  Never raises VIOLATION itself."""
    info = {"ok": True, "obligations": 0, "discharged": 0, "broken": [], "axioms": {}}
    res, errs = regenerate(gen_which)
    ctx.cov["generated"] = res
    for k, msg in errs:
        info["ok"] = False
        info["broken"].append("translator %s: %s" % (k, msg))
    mfile = os.path.join(LEAN, module_name.replace(".", "/") + ".lean")
    ths, nex = theorems_of(mfile)
    info["obligations"] = len(ths) + nex
    info["theorems"] = ths
    if errs:
        return info
    ok, etxt, decls = build_props(module_name)
    if not ok:
        info["ok"] = False
        info["broken"].append("lake build %s failed at %s:\n%s" % (module_name, ", ".join(decls), etxt[-3000:]))
        return info
    bad = grep_forbidden()
    ax, bad2 = audit_axioms(module_name, ths)
    info["axioms"] = ax
    if bad or bad2:
        info["ok"] = False
        info["broken"] += ["forbidden construct: " + b for b in bad] + bad2
        return info
    info["discharged"] = info["obligations"]
    if ctx.tier == "thorough":
        p = subprocess.run(["lake", "env", "leanchecker", module_name], cwd=LEAN, stdout=subprocess.PIPE,
                           stderr=subprocess.STDOUT, timeout=1800)
        ctx.cov["leanchecker"] = "ok" if p.returncode == 0 else p.stdout.decode(errors="replace")[-500:]
        if p.returncode != 0:
            info["ok"] = False
            info["broken"].append("leanchecker rejects %s" % module_name)
    ctx.cov["axioms"] = {k: v for k, v in ax.items()}
    return info


# ---------------------------------------------------------------------------------------
# driver / probe batches
def _batch1(exe, lines, timeout=600, env=None, cwd=None):
    data = ("\n".join(lines) + "\n").encode()
    p = subprocess.run([exe] if isinstance(exe, str) else exe, input=data, stdout=subprocess.PIPE,
                       stderr=subprocess.PIPE, timeout=timeout, env=env, cwd=cwd)
    out = p.stdout.decode(errors="replace").split("\n")
    if out and out[-1] == "":
        out.pop()
    return out, p.returncode, p.stderr.decode(errors="replace")


PAR_MIN = 600     # batches at least this long are split over the cores (every protocol line is independent)
PAR_JOBS = 16


def _chunks(lines):
    n = min(PAR_JOBS, max(1, len(lines) // 200))
    size = (len(lines) + n - 1) // n
    return [lines[i:i + size] for i in range(0, len(lines), size)]


def batch(exe, lines, timeout=600, env=None, cwd=None):
    """feed lines to a line-protocol process; returns list of reply lines (same length), or raises"""
    if len(lines) < PAR_MIN:
        return _batch1(exe, lines, timeout, env, cwd)
    from concurrent.futures import ThreadPoolExecutor
    parts = _chunks(lines)
    with ThreadPoolExecutor(len(parts)) as ex:
        res = list(ex.map(lambda ch: _batch1(exe, ch, timeout, env, cwd), parts))
    out, rc, err = [], 0, ""
    for ch, (o, r, e) in zip(parts, res):
        if r != 0 or len(o) != len(ch):
            # a chunk died: report what a single process would have reported up to that point
            return out + o, (r if r != 0 else 1), e
        out += o
        err += e
    return out, rc, err


def _batch_robust1(exe, lines, timeout=600, env=None):
    replies = []
    i = 0
    while i < len(lines):
        out, rc, err = _batch1(exe, lines[i:], timeout, env)
        if len(out) >= len(lines) - i and rc == 0:
            replies += out[:len(lines) - i]
            break
        # process died after producing len(out) complete replies (maybe a partial line)
        k = min(len(out), len(lines) - i - 1)
        # be careful: last reply may be partial; re-run that single line alone to classify
        good = out[:k]
        replies += good
        o2, rc2, err2 = _batch1(exe, [lines[i + k]], timeout, env)
        if rc2 == 0 and len(o2) == 1:
            replies.append(o2[0])
        else:
            tail = (err2 or err).strip().splitlines()
            summ = next((l for l in tail if "ERROR: AddressSanitizer" in l or "runtime error" in l or "SUMMARY" in l), tail[-1] if tail else "")
            replies.append("CRASH rc=%d %s" % (rc2, summ[:200]))
        i += k + 1
    return replies


def batch_robust(exe, lines, timeout=600, env=None):
    """like batch, but when the process dies (sanitizer abort, signal) bisect to the line that
    kills it; returns (replies with 'CRASH <rc> <stderr tail>' in that slot)"""
    if len(lines) < PAR_MIN:
        return _batch_robust1(exe, lines, timeout, env)
    from concurrent.futures import ThreadPoolExecutor
    parts = _chunks(lines)
    with ThreadPoolExecutor(len(parts)) as ex:
        res = list(ex.map(lambda ch: _batch_robust1(exe, ch, timeout, env), parts))
    return [r for part in res for r in part]


def hexs(b):
    return b.hex() if b else "-"
