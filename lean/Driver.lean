import Driver.Cmd
