/-
C09 — the front end is total: every input ends in acceptance or a diagnostic.

Model: `lex` (Model/Lexer.lean, tied to `tokenize` token for token on valid programs and on token- and
byte-level mutants) and the parser model (Model/Parser.lean, tied through accept/reject and through the
byte-identical bytecode of C07/C01).

Proved here, for EVERY byte string:
  * `lexStep_progress` / `lex_total`: every scanning step strictly shortens the input, so the scanner needs
    at most one step per input byte — the fuel `lex` passes (the input length) is never exhausted; `lex`
    is a total function whose only failures are the three lexical errors;
  * `lex_token_bound`: at most one token per input byte, plus the final EOF;
  * `lex_ends_eof`: a successful token list ends with EOF (the parser's cursor can always stop there);
  * `expr_depth_guard`, `block_depth_guard`: nesting beyond the limit regenerated from parser.c is answered
    with the depth error, never by deeper recursion;
  * reads are in bounds by construction: the model consumes a list, and `peek` beyond the end is EOF.
The parser model itself is a total Lean function (its termination is checked by the kernel), but it does not
contain the C parser's error *recovery*, which is where hangs come from.  That part — and crashes, sanitizer
reports and time — is covered by the search over mutated inputs on a sanitizer build, not by proof: the
level is partial.
-/
import NanoVerif.Model.Parser

namespace NanoVerif.C09
open NanoVerif Gen

theorem dropWhile_len (p : UInt8 → Bool) (l : Bytes) : (l.dropWhile p).length ≤ l.length := by
  induction l with
  | nil => simp
  | cons a r ih => simp only [List.dropWhile_cons]; split <;> simp <;> omega

theorem takeWhile_len (p : UInt8 → Bool) (l : Bytes) : (l.takeWhile p).length ≤ l.length := by
  induction l with
  | nil => simp
  | cons a r ih => simp only [List.takeWhile_cons]; split <;> simp <;> omega

theorem charLit_progress (cs rest : Bytes) (t : Option Tok) (b : Bool) (h : lexCharLit cs = .ok (rest, t, b)) :
    rest.length ≤ cs.length := by
  unfold lexCharLit at h
  split at h
  · cases h
  · split at h
    · split at h
      · cases h
      · split at h
        · split at h
          · injection h with h; injection h with h1 _; subst h1; simp; omega
          · cases h
        · cases h
    · split at h
      · split at h
        · injection h with h; injection h with h1 _; subst h1; simp; omega
        · cases h
      · cases h

theorem stringLit_progress (cs rest : Bytes) (t : Option Tok) (b : Bool) (h : lexStringLit cs = .ok (rest, t, b)) :
    rest.length ≤ cs.length := by
  unfold lexStringLit at h
  split at h
  · cases h
  · rename_i raw r hs
    injection h with h; injection h with h1 _; subst h1
    exact Nat.le_of_lt (scanString_length [] cs (raw, r) hs)

theorem number_progress (c : UInt8) (cs rest : Bytes) (t : Option Tok) (b : Bool) (hc : isDigitB c = true ∨ c = 45)
    (h : lexNumber c cs = .ok (rest, t, b)) : rest.length ≤ cs.length := by
  unfold lexNumber at h
  simp only [] at h
  have hbody : ((if c == 45 then cs else c :: cs).dropWhile isDigitB).length ≤ cs.length := by
    by_cases h45 : c = 45
    · subst h45; simp; exact dropWhile_len _ _
    · have hd : isDigitB c = true := by rcases hc with h | h; exact h; exact absurd h h45
      have : (c == 45) = false := by simpa using h45
      simp only [this, Bool.false_eq_true, if_false, List.dropWhile_cons, hd, if_true]
      exact dropWhile_len _ _
  split at h
  · rename_i p f r' hr
    split at h
    · injection h with h; injection h with h1 _; subst h1
      have h2 := dropWhile_len isDigitB (f :: r')
      rw [hr] at hbody; simp at hbody h2 ⊢; omega
    · injection h with h; injection h with h1 _; subst h1; exact hbody
  · injection h with h; injection h with h1 _; subst h1; exact hbody

theorem ident_progress (c : UInt8) (cs rest : Bytes) (t : Option Tok) (b : Bool) (hc : isIdStartB c = true)
    (h : lexIdent c cs = .ok (rest, t, b)) : rest.length ≤ cs.length := by
  unfold lexIdent at h
  injection h with h; injection h with h1 _; subst h1
  have : isIdCharB c = true := by simp [isIdStartB, isIdCharB] at *; rcases hc with h | h <;> simp [h]
  simp only [List.dropWhile_cons, this, if_true]
  exact dropWhile_len _ _

theorem op_progress (c : UInt8) (cs rest : Bytes) (t : Option Tok) (b : Bool)
    (h : lexOp c cs = .ok (rest, t, b)) : rest.length ≤ cs.length := by
  unfold lexOp at h
  simp only [] at h
  repeat' split at h
  all_goals (injection h with h; injection h with h1 _; subst h1; simp)


/-- one scanning step never lengthens the input: what is left is no longer than the tail, i.e. strictly
    shorter than the input the step started from -/
theorem lexStep_progress (c : UInt8) (cs rest : Bytes) (t : Option Tok) (b : Bool)
    (h : lexStep c cs = .ok (rest, t, b)) : rest.length ≤ cs.length := by
  unfold lexStep at h
  split at h
  · injection h with h; injection h with h1 _; subst h1; exact Nat.le_refl _
  · split at h
    · injection h with h; injection h with h1 _; subst h1; exact skipLine_length cs
    · split at h
      · injection h with h; injection h with h1 _; subst h1
        have := skipBlock_length cs.tail
        have : cs.tail.length ≤ cs.length := by simp
        omega
      · split at h
        · exact charLit_progress cs rest t b h
        · split at h
          · exact stringLit_progress cs rest t b h
          · split at h
            · rename_i hd
              refine number_progress c cs rest t b ?_ h
              simp only [Bool.or_eq_true, Bool.and_eq_true, beq_iff_eq] at hd
              rcases hd with hd | hd
              · exact .inl hd
              · exact .inr hd.1
            · split at h
              · rename_i hi; exact ident_progress c cs rest t b hi h
              · exact op_progress c cs rest t b h

/-- with at least one unit of fuel per input byte the scanner loop never meets its fuel limit: the result does
    not depend on the fuel -/
theorem lexGo_fuel (s : Bytes) : ∀ (f1 f2 : Nat) (acc : List Tok) (u : Nat), s.length ≤ f1 → s.length ≤ f2 →
    lexGo f1 s acc u = lexGo f2 s acc u := by
  induction hn : s.length using Nat.strongRecOn generalizing s with
  | _ n ih =>
    intro f1 f2 acc u h1 h2
    cases s with
    | nil => cases f1 <;> cases f2 <;> simp [lexGo]
    | cons c cs =>
      simp only [List.length_cons] at h1 h2 hn
      obtain ⟨g1, rfl⟩ : ∃ g, f1 = g + 1 := ⟨f1 - 1, by omega⟩
      obtain ⟨g2, rfl⟩ : ∃ g, f2 = g + 1 := ⟨f2 - 1, by omega⟩
      simp only [lexGo]
      cases hs : lexStep c cs with
      | error e => rfl
      | ok r =>
        obtain ⟨rest, t, b⟩ := r
        have hp := lexStep_progress c cs rest t b hs
        exact ih rest.length (by omega) rest rfl g1 g2 _ _ (by omega) (by omega)

/-- **lex_total**: `lex` on any byte string is the scanner run to completion — more fuel changes nothing -/
theorem lex_total (src : Bytes) (extra : Nat) :
    lexGo ((src.takeWhile (· != 0)).length + extra) (src.takeWhile (· != 0)) [] 0 = lex src := by
  unfold lex
  exact lexGo_fuel _ _ _ _ _ (by omega) (Nat.le_refl _)

/-- tokens produced so far plus input left bound the final count -/
theorem lexGo_count (s : Bytes) : ∀ (f : Nat) (acc : List Tok) (u : Nat) (o : LexOut), lexGo f s acc u = .ok o →
    o.toks.length ≤ acc.length + s.length + 1 := by
  induction hn : s.length using Nat.strongRecOn generalizing s with
  | _ n ih =>
    intro f acc u o h
    cases s with
    | nil => cases f <;> (simp [lexGo] at h; subst h; simp)
    | cons c cs =>
      cases f with
      | zero => simp [lexGo] at h; subst h; simp
      | succ g =>
        simp only [lexGo] at h
        cases hs : lexStep c cs with
        | error e => rw [hs] at h; cases h
        | ok r =>
          obtain ⟨rest, t, b⟩ := r
          rw [hs] at h
          have hp := lexStep_progress c cs rest t b hs
          simp only [List.length_cons] at hn
          have := ih rest.length (by omega) rest rfl g _ _ o h
          cases t <;> simp at this ⊢ <;> omega

/-- **lex_token_bound**: at most one token per input byte, plus EOF -/
theorem lex_token_bound (src : Bytes) (o : LexOut) (h : lex src = .ok o) : o.toks.length ≤ src.length + 1 := by
  have := lexGo_count _ _ _ _ o h
  have h2 : (src.takeWhile (· != 0)).length ≤ src.length := takeWhile_len _ _
  simp at this; omega

theorem lexGo_last (s : Bytes) : ∀ (f : Nat) (acc : List Tok) (u : Nat) (o : LexOut), lexGo f s acc u = .ok o →
    o.toks.getLast? = some ⟨.T_EOF, []⟩ := by
  induction hn : s.length using Nat.strongRecOn generalizing s with
  | _ n ih =>
    intro f acc u o h
    cases s with
    | nil => cases f <;> (simp [lexGo] at h; subst h; simp)
    | cons c cs =>
      cases f with
      | zero => simp [lexGo] at h; subst h; simp
      | succ g =>
        simp only [lexGo] at h
        cases hs : lexStep c cs with
        | error e => rw [hs] at h; cases h
        | ok r =>
          obtain ⟨rest, t, b⟩ := r
          rw [hs] at h
          have hp := lexStep_progress c cs rest t b hs
          simp only [List.length_cons] at hn
          exact ih rest.length (by omega) rest rfl g _ _ o h

/-- **lex_ends_eof**: every successful token list ends with the EOF token -/
theorem lex_ends_eof (src : Bytes) (o : LexOut) (h : lex src = .ok o) : o.toks.getLast? = some ⟨.T_EOF, []⟩ :=
  lexGo_last _ _ _ _ o h

/-- nesting beyond the limit is answered with the depth error, for any tokens and any fuel -/
theorem expr_depth_guard (fuel d : Nat) (ts : List Tok) (h : maxRecursionDepth ≤ d) :
    parseExpr (fuel + 1) d ts = .error .tooDeep := by
  have : d + 1 > maxRecursionDepth := by omega
  simp [parseExpr, this]

theorem block_depth_guard (fuel d : Nat) (ts : List Tok) (h : maxRecursionDepth ≤ d) :
    parseBlock (fuel + 1) d ts = .error .tooDeep := by
  have : d + 1 > maxRecursionDepth := by omega
  simp [parseBlock, this]

/-- non-vacuity: a two-byte input, an unterminated string, a NUL in the middle -/
example : (lex [97, 43]).toOption.map (·.toks.length) = some 3 := by decide
example : (lex [34, 97]).toOption.map (·.toks.length) = none := by decide
example : (lex [97, 0, 98]).toOption.map (·.toks.length) = some 2 := by decide

end NanoVerif.C09
