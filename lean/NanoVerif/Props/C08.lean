/-
C08 — out-of-range operations stop the program and never yield a value (property theorems only).
The VM statements are about the same `execData` that the lock-step correspondence ties to vm.c.
-/
import NanoVerif.Model.Vm
namespace NanoVerif.C08
open Gen (Opc)

/-- outcome of an indexed access on one engine -/
inductive Access
  | value (k : Nat)     -- the element at position k
  | stop                -- run-time error, non-zero exit, nothing after the access is observed
deriving DecidableEq, Repr

/-- the range test every engine must make on the *64-bit* index -/
def inRange (idx : I64) (len : Nat) : Prop := 0 ≤ idx.toInt ∧ idx.toInt < (len : Int)

instance (idx : I64) (len : Nat) : Decidable (inRange idx len) := by unfold inRange; infer_instance

/-- NanoVM: `OP_ARR_GET` / `OP_ARR_SET` / `OP_ARR_REMOVE` (vm.c, after the range check on the int64) -/
def vmAccess (len : Nat) (idx : I64) : Access := if idxInRange idx len then .value idx.toNat else .stop
/-- native runtime: `assert(index >= 0 && index < arr->length)` in dyn_array_get_* / set_* / remove_at -/
def nativeAccess (len : Nat) (idx : I64) : Access := if 0 ≤ idx.toInt ∧ idx.toInt < (len : Int) then .value idx.toNat else .stop
/-- interpreter: `if (index < 0 || index >= len) { ...; exit(1); }` in builtin_at / builtin_array_set -/
def interpAccess (len : Nat) (idx : I64) : Access := if idx.toInt < 0 ∨ idx.toInt ≥ (len : Int) then .stop else .value idx.toNat

theorem idxInRange_iff (idx : I64) (len : Nat) : idxInRange idx len = true ↔ inRange idx len := by
  unfold idxInRange inRange; simp

/-- On every engine, for every length and every 64-bit index: a value is produced only for an
    index in [0, len), and it is the element at exactly that index; everything else stops. -/
theorem oob_stops (len : Nat) (idx : I64) :
    (inRange idx len → vmAccess len idx = .value idx.toNat ∧ nativeAccess len idx = .value idx.toNat ∧ interpAccess len idx = .value idx.toNat) ∧
    (¬ inRange idx len → vmAccess len idx = .stop ∧ nativeAccess len idx = .stop ∧ interpAccess len idx = .stop) := by
  unfold vmAccess nativeAccess interpAccess
  constructor
  · intro h
    have h' := (idxInRange_iff idx len).mpr h
    obtain ⟨h1, h2⟩ := h
    refine ⟨by simp [h'], by simp [h1, h2], ?_⟩
    have : ¬ (idx.toInt < 0 ∨ idx.toInt ≥ (len : Int)) := by omega
    simp [this]
  · intro h
    have h' : idxInRange idx len = false := by
      cases hb : idxInRange idx len with
      | false => rfl
      | true => exact absurd ((idxInRange_iff idx len).mp hb) h
    unfold inRange at h
    refine ⟨by simp [h'], by simp [h], ?_⟩
    have : idx.toInt < 0 ∨ idx.toInt ≥ (len : Int) := by omega
    simp [this]

/-- an index of 2^32 + k is out of range for every array shorter than 2^32 (narrowing the index
    to 32 bits before the test would make it read element k) -/
theorem wide_index_rejected (len k : Nat) (hl : len < 4294967296) (hk : k < 4294967296) :
    vmAccess len (BitVec.ofNat 64 (4294967296 + k)) = .stop := by
  unfold vmAccess idxInRange
  have : (BitVec.ofNat 64 (4294967296 + k)).toInt = 4294967296 + k := by
    rw [BitVec.toInt_eq_toNat_cond, BitVec.toNat_ofNat]
    have hm : (4294967296 + k) % 2 ^ 64 = 4294967296 + k := Nat.mod_eq_of_lt (by omega)
    rw [hm]
    have : 2 * (4294967296 + k) < 2 ^ 64 := by omega
    simp [this]
  simp [this]
  omega

theorem negative_index_rejected (len : Nat) (idx : I64) (h : idx.toInt < 0) : vmAccess len idx = .stop := by
  unfold vmAccess idxInRange
  have : ¬ (0 ≤ idx.toInt) := by omega
  simp [this]

/-! ### the VM handler itself -/

theorem pop_push (c : Core) (v : Val) : (c.push v).pop = (c, v) := by
  simp [Core.push, Core.pop]

/-- `OP_ARR_GET` on the model the lock-step run compares with vm.c: with an array of `es.length`
    elements and any 64-bit index on the stack, an out-of-range index raises VM_ERR_OUT_OF_BOUNDS
    (the run stops, no output is added), an in-range index pushes exactly that element. -/
theorem vm_arr_get (m : Module) (fr : Frame) (c : Core) (a et : Nat) (es : List Val) (idx : I64) (st : Nat)
    (hobj : c.heap.obj? a = some (.arr et es)) :
    (inRange idx es.length →
      ∃ c', execData m fr ((c.push (.arr a)).push (.int idx)) st .ARR_GET [] = some (c', .running) ∧
        c'.stack.getLast? = some (es.getD idx.toNat .void) ∧ c'.out = c.out) ∧
    (¬ inRange idx es.length →
      ∃ c', execData m fr ((c.push (.arr a)).push (.int idx)) st .ARR_GET [] = some (c', .err .outOfBounds) ∧ c'.out = c.out) := by
  constructor
  · intro h
    have h' := (idxInRange_iff idx es.length).mpr h
    have key : execData m fr ((c.push (.arr a)).push (.int idx)) st .ARR_GET []
        = some ((((c.retain (es.getD idx.toNat .void)).release (.arr a)).push (es.getD idx.toNat .void)), .running) := by
      simp only [execData, Opc.isControl, Bool.false_eq_true, if_false, execData', pop_push, asIdx, hobj, h', if_true, cont]
    exact ⟨_, key, by simp [Core.push], by simp [Core.push, Core.release, Core.retain]⟩
  · intro h
    have h' : idxInRange idx es.length = false := by
      cases hb : idxInRange idx es.length with
      | false => rfl
      | true => exact absurd ((idxInRange_iff idx es.length).mp hb) h
    have key : execData m fr ((c.push (.arr a)).push (.int idx)) st .ARR_GET []
        = some (c.release (.arr a), .err .outOfBounds) := by
      simp only [execData, Opc.isControl, execData', pop_push, asIdx, hobj, h', Bool.false_eq_true, if_false, errS]
    exact ⟨_, key, by simp [Core.release]⟩

/-- the same when the index on the stack is an enum value (the type checker accepts `(at a Color.Blue)`): its
    number is the index, and an out-of-range one stops the run -/
theorem vm_arr_get_enum_oob (m : Module) (fr : Frame) (c : Core) (a et : Nat) (es : List Val) (v : Nat) (st : Nat)
    (hobj : c.heap.obj? a = some (.arr et es)) (h : ¬ inRange (i64 v) es.length) :
    ∃ c', execData m fr ((c.push (.arr a)).push (.enum v)) st .ARR_GET [] = some (c', .err .outOfBounds) ∧ c'.out = c.out := by
  have h' : idxInRange (i64 v) es.length = false := by
    cases hb : idxInRange (i64 v) es.length with
    | false => rfl
    | true => exact absurd ((idxInRange_iff (i64 v) es.length).mp hb) h
  have key : execData m fr ((c.push (.arr a)).push (.enum v)) st .ARR_GET []
      = some (c.release (.arr a), .err .outOfBounds) := by
    simp only [execData, Opc.isControl, execData', pop_push, asIdx, hobj, h', Bool.false_eq_true, if_false, errS]
  exact ⟨_, key, by simp [Core.release]⟩

theorem not_inRange_false {idx : I64} {len : Nat} (h : ¬ inRange idx len) : idxInRange idx len = false := by
  cases hb : idxInRange idx len with
  | false => rfl
  | true => exact absurd ((idxInRange_iff idx len).mp hb) h

/-- `OP_ARR_SET` on the model: an index outside [0, length) raises VM_ERR_OUT_OF_BOUNDS, nothing is stored
    (the operands are released), nothing is pushed, nothing is printed - for every length, every 64-bit
    index and every value -/
theorem vm_arr_set_oob (m : Module) (fr : Frame) (c : Core) (a et : Nat) (es : List Val) (idx : I64) (v : Val) (st : Nat)
    (hobj : c.heap.obj? a = some (.arr et es)) (h : ¬ inRange idx es.length) :
    ∃ c', execData m fr (((c.push (.arr a)).push (.int idx)).push v) st .ARR_SET [] = some (c', .err .outOfBounds) ∧
      c'.stack = c.stack ∧ c'.out = c.out ∧ c'.heap = (c.heap.release1 (.arr a)).release1 v := by
  have h' := not_inRange_false h
  have key : execData m fr (((c.push (.arr a)).push (.int idx)).push v) st .ARR_SET []
      = some ((c.release (.arr a)).release v, .err .outOfBounds) := by
    simp only [execData, Opc.isControl, execData', pop_push, asIdx, hobj, h', Bool.false_eq_true, if_false, errS]
  exact ⟨_, key, rfl, rfl, rfl⟩

/-- `OP_ARR_REMOVE` out of range: error, array untouched apart from the release of the operand -/
theorem vm_arr_remove_oob (m : Module) (fr : Frame) (c : Core) (a et : Nat) (es : List Val) (idx : I64) (st : Nat)
    (hobj : c.heap.obj? a = some (.arr et es)) (h : ¬ inRange idx es.length) :
    ∃ c', execData m fr ((c.push (.arr a)).push (.int idx)) st .ARR_REMOVE [] = some (c', .err .outOfBounds) ∧
      c'.stack = c.stack ∧ c'.out = c.out ∧ c'.heap = c.heap.release1 (.arr a) := by
  have h' := not_inRange_false h
  have key : execData m fr ((c.push (.arr a)).push (.int idx)) st .ARR_REMOVE []
      = some (c.release (.arr a), .err .outOfBounds) := by
    simp only [execData, Opc.isControl, execData', pop_push, asIdx, hobj, h', Bool.false_eq_true, if_false, errS]
  exact ⟨_, key, rfl, rfl, rfl⟩

/-- `OP_ARR_POP` on an empty array: error, no value is produced -/
theorem vm_arr_pop_empty (m : Module) (fr : Frame) (c : Core) (a et : Nat) (st : Nat)
    (hobj : c.heap.obj? a = some (.arr et [])) :
    ∃ c', execData m fr (c.push (.arr a)) st .ARR_POP [] = some (c', .err .outOfBounds) ∧ c'.stack = c.stack ∧ c'.out = c.out := by
  have key : execData m fr (c.push (.arr a)) st .ARR_POP [] = some (c.release (.arr a), .err .outOfBounds) := by
    simp only [execData, Opc.isControl, execData', pop_push, hobj, Bool.false_eq_true, if_false, errS, List.getLast?_nil]
  exact ⟨_, key, rfl, rfl⟩

/-- field `k` of a struct, union or tuple with `fs.length ≤ k`: error, no value is produced -/
theorem vm_field_oob (m : Module) (fr : Frame) (c : Core) (a : Nat) (fs : List Val) (k : Nat) (st : Nat) (hk : k ≥ fs.length) :
    (∀ d, c.heap.obj? a = some (.struct d fs) →
      ∃ c', execData m fr (c.push (.struct a)) st .STRUCT_GET [k] = some (c', .err .outOfBounds) ∧ c'.stack = c.stack ∧ c'.out = c.out) ∧
    (∀ d vr, c.heap.obj? a = some (.union d vr fs) →
      ∃ c', execData m fr (c.push (.union a)) st .UNION_FIELD [k] = some (c', .err .outOfBounds) ∧ c'.stack = c.stack ∧ c'.out = c.out) ∧
    (c.heap.obj? a = some (.tuple fs) →
      ∃ c', execData m fr (c.push (.tuple a)) st .TUPLE_GET [k] = some (c', .err .outOfBounds) ∧ c'.stack = c.stack ∧ c'.out = c.out) := by
  refine ⟨?_, ?_, ?_⟩
  · intro d hobj
    have key : execData m fr (c.push (.struct a)) st .STRUCT_GET [k] = some (c.release (.struct a), .err .outOfBounds) := by
      simp only [execData, Opc.isControl, execData', pop_push, hobj, Bool.false_eq_true, if_false, errS, List.getD_cons_zero, hk, if_true]
    exact ⟨_, key, rfl, rfl⟩
  · intro d vr hobj
    have key : execData m fr (c.push (.union a)) st .UNION_FIELD [k] = some (c.release (.union a), .err .outOfBounds) := by
      simp only [execData, Opc.isControl, execData', pop_push, hobj, Bool.false_eq_true, if_false, errS, List.getD_cons_zero, hk, if_true]
    exact ⟨_, key, rfl, rfl⟩
  · intro hobj
    have key : execData m fr (c.push (.tuple a)) st .TUPLE_GET [k] = some (c.release (.tuple a), .err .outOfBounds) := by
      simp only [execData, Opc.isControl, execData', pop_push, hobj, Bool.false_eq_true, if_false, errS, List.getD_cons_zero, hk, if_true]
    exact ⟨_, key, rfl, rfl⟩


/- non-vacuity -/
example : inRange (BitVec.ofNat 64 2) 3 := by decide
example : ¬ inRange (BitVec.ofInt 64 (-1)) 3 := by decide
example : vmAccess 3 (BitVec.ofNat 64 4294967297) = .stop := by decide
example : vmAccess 3 (BitVec.ofInt 64 (-9223372036854775808)) = .stop := by decide

end NanoVerif.C08
