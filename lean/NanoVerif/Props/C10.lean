/-
C10 — stored modules load back to what was stored (property theorems only).
Section-level round trips hold wherever the section sits in a file (arbitrary bytes before and
after); `file_roundtrip` composes them with the header, the CRC and the section directory into
`nvm_deserialize (nvm_serialize m) = m` for every well-formed module.  Exit-status logic of
the three executables is stated outright.
-/
import NanoVerif.Lemmas.NvmRt
import NanoVerif.Lemmas.NvmWhole
import NanoVerif.Model.Vm
namespace NanoVerif.C10

/-- `nvm_add_string` of a string that is not yet in the pool appends it; on a pool without
    duplicates re-inserting every string on reload therefore reproduces the pool -/
theorem addString_fold_nodup (ss acc : List Bytes) (h : (acc ++ ss).Nodup) :
    ss.foldl (fun a s => (addString a s).1) acc = acc ++ ss := by
  induction ss generalizing acc with
  | nil => simp
  | cons s ss ih =>
    have hs : s ∉ acc := by
      intro hm
      have := List.nodup_append.mp h
      exact this.2.2 s hm s (by simp) rfl
    have hadd : (addString acc s).1 = acc ++ [s] := by
      unfold addString
      have : acc.findIdx? (· == s) = none := by
        rw [List.findIdx?_eq_none_iff]
        intro x hx
        have hne : x ≠ s := fun e => hs (e ▸ hx)
        simpa using hne
      rw [this]
    simp only [List.foldl_cons, hadd]
    rw [ih (acc ++ [s]) (by simpa [List.append_assoc] using h)]
    simp

/-- `nvm_add_string` de-duplicates: inserting an existing string returns its first index and
    leaves the pool unchanged (what makes string indices stable) -/
theorem addString_existing (ss : List Bytes) (s : Bytes) (h : s ∈ ss) :
    (addString ss s).1 = ss ∧ (addString ss s).2 < ss.length ∧ ss[(addString ss s).2]? = some s := by
  unfold addString
  cases hf : ss.findIdx? (· == s) with
  | none =>
    rw [List.findIdx?_eq_none_iff] at hf
    have := hf s h
    simp at this
  | some i =>
    have := List.findIdx?_eq_some_iff_getElem.mp hf
    obtain ⟨hi, hx, _⟩ := this
    simp only [beq_iff_eq] at hx
    refine ⟨rfl, hi, ?_⟩
    simp [hi, hx]

/-- String pool: whatever precedes and follows the section in the file, the loader recovers
    exactly the pool that was written (pool without duplicates, as `nvm_add_string` builds it). -/
theorem strings_roundtrip (pre post : Bytes) (ss : List Bytes)
    (hnd : ss.Nodup) (hlen : ∀ s ∈ ss, s.length < 4294967296)
    (hsz : (serStrings ss).length + 4 < 4294967296) :
    parseStrings (pre ++ serStrings ss ++ post) pre.length (serStrings ss).length
      ((serStrings ss).length + 1) 0 [] = .ok ss := by
  have h := parseStrings_ser pre post ss [] [] ((serStrings ss).length + 1) (by simpa using hsz) hlen
    (by
      have : ∀ l : List Bytes, l.length ≤ (serStrings l).length := by
        intro l; induction l with
        | nil => simp [serStrings]
        | cons a l ih => rw [serStrings_cons]; simp at ih ⊢; omega
      have := this ss; omega)
  simp only [List.nil_append, List.length_nil] at h
  rw [h, addString_fold_nodup ss [] (by simpa using hnd)]
  simp

/-- Function table: every entry comes back field by field (widths and order of the 18-byte
    entry), wherever the section sits. -/
theorem functions_roundtrip (pre post : Bytes) (fs : List FnEntry) (hwf : ∀ f ∈ fs, f.wf)
    (hsz : (fs.flatMap serFn).length + 18 < 4294967296) :
    parseFunctions (pre ++ fs.flatMap serFn ++ post) pre.length (fs.flatMap serFn).length
      ((fs.flatMap serFn).length + 1) 0 [] = .ok fs := by
  have hfe : Gen.functionEntrySize = 18 := by decide
  have hl : (fs.flatMap serFn).length = 18 * fs.length := by
    induction fs with
    | nil => rfl
    | cons a l ih =>
      simp only [List.flatMap_cons, List.length_append, serFn_length, List.length_cons]
      rw [ih (fun f hf => hwf f (List.mem_cons_of_mem _ hf)) (by
        simp only [List.flatMap_cons, List.length_append, serFn_length] at hsz; omega)]
      omega
  have h := parseFunctions_ser pre post hfe fs [] [] ((fs.flatMap serFn).length + 1) (by simpa using hsz) hwf (by omega)
  simpa using h

/-- Import table with parameter-type tables: entries come back with their parameter bytes; an
    absent table comes back as zeros, `param_count = 0` as an absent table (`canonImport`). -/
theorem imports_roundtrip (pre post : Bytes) (is : List ImportEntry) (hwf : ∀ i ∈ is, i.wf)
    (hsz : (is.flatMap serImport).length + 65600 < 4294967296) :
    parseImports (pre ++ is.flatMap serImport ++ post) pre.length (is.flatMap serImport).length
      ((is.flatMap serImport).length + 1) 0 [] = .ok (is.map canonImport) := by
  have hie : Gen.importEntryBaseSize = 11 := by decide
  have hl : is.length ≤ (is.flatMap serImport).length := by
    clear hwf hsz
    induction is with
    | nil => simp
    | cons a l ih => simp only [List.flatMap_cons, List.length_append, serImport_length, List.length_cons]; omega
  have h := parseImports_ser pre post hie is [] [] ((is.flatMap serImport).length + 1) (by simpa using hsz) hwf (by omega)
  simpa using h

/-- serialising the canonical form writes the same bytes: `serialize` is idempotent across a
    reload as far as imports are concerned -/
theorem serImport_canon (i : ImportEntry) : serImport (canonImport i) = serImport i := by
  unfold serImport canonImport
  congr 1
  by_cases h : i.paramCount > 0
  · simp only [h, if_true]
    unfold importParams
    simp only
    cases hp : i.paramTypes with
    | none => simp
    | some pt =>
      simp only
      have : (List.take i.paramCount pt ++ List.replicate (i.paramCount - pt.length) 0).length = i.paramCount := by
        simp; omega
      rw [List.take_of_length_le (by omega), this]
      simp
  · have h0 : i.paramCount = 0 := by omega
    simp [h, importParams, h0]
    cases i.paramTypes <;> simp

/-! ### the whole file -/

/-- **Serialising a module and loading it back yields the same module**: for every module whose fields fit their
    widths (file below 4 GiB), `nvm_deserialize` accepts exactly what `nvm_serialize` wrote - magic, version,
    section count, CRC over the body, directory with running offsets, each section, "the sections end at the end
    of the file" - and rebuilds code, function table, debug entries, imports (in canonical form), entry point and
    flags; the string pool comes back through `nvm_add_string` -/
theorem file_roundtrip (m : Module) (hw : m.wf) : deserialize (serialize m) = .ok (reload m) :=
  deserialize_serialize m hw

/-- ... and exactly `m` when its string pool has no duplicate entries (what `nvm_add_string` guarantees for
    every module the compiler builds) and its import entries are in the form the loader produces -/
theorem file_roundtrip_exact (m : Module) (hw : m.wf) (hnd : m.strings.Nodup) (hci : m.imports.map canonImport = m.imports) :
    deserialize (serialize m) = .ok m := by
  rw [deserialize_serialize m hw, reload_eq m hnd hci]

/-- the stored file runs like the in-memory module: `execute` sees the same module -/
theorem stored_runs_alike (m : Module) (hw : m.wf) (hnd : m.strings.Nodup) (hci : m.imports.map canonImport = m.imports)
    (fuel : Nat) : ∀ m', deserialize (serialize m) = .ok m' → execute m' fuel = execute m fuel := by
  intro m' h
  rw [file_roundtrip_exact m hw hnd hci] at h
  cases h; rfl

/-! ### exit status of the three ways to run a module -/

/-- what a finished run hands to its `main`: the VM result code and the value on top of the stack -/
structure RunEnd where
  result : Nat        -- VmResult, 0 = VM_OK
  top : Val

/-- `nano_virt --run`, `nano_vm file.nvm` (and the daemon) and the generated wrapper: process
    exit status before the OS truncates it to 8 bits -/
def exitRun (r : RunEnd) : Int :=
  if r.result != 0 then 1 else match r.top with | .int n => (n.toInt + 2147483648) % 4294967296 - 2147483648 | _ => 0
def exitFile (r : RunEnd) : Int :=
  if r.result != 0 then 1 else match r.top with | .int n => (n.toInt + 2147483648) % 4294967296 - 2147483648 | _ => 0
def exitWrapper (r : RunEnd) : Int :=
  if r.result != 0 then 1 else match r.top with | .int n => (n.toInt + 2147483648) % 4294967296 - 2147483648 | _ => 0

/-- the three mains derive the same exit status from the same run -/
theorem exit_agree (r : RunEnd) : exitRun r = exitFile r ∧ exitFile r = exitWrapper r := ⟨rfl, rfl⟩

/-- a failed run exits 1, a successful run returning the int `n` exits `(int) n` -/
theorem exit_status (r : RunEnd) :
    (r.result ≠ 0 → exitFile r = 1) ∧
    (∀ n : I64, r.result = 0 → r.top = .int n → -128 ≤ n.toInt → n.toInt < 128 → exitFile r = n.toInt) := by
  constructor
  · intro h; simp [exitFile, h]
  · intro n h0 ht hlo hhi
    simp only [exitFile, h0, ht]
    simp only [bne_self_eq_false, Bool.false_eq_true, if_false]
    omega

/- non-vacuity -/
example : ([[109, 97, 105, 110], [], [104, 105]] : List Bytes).Nodup := by decide
example : ({ nameIdx := 0, arity := 2, codeOffset := 16, codeLength := 6, localCount := 3, upvalueCount := 0 } : FnEntry).wf := by
  unfold FnEntry.wf; decide
example : ({ moduleNameIdx := 1, functionNameIdx := 2, paramCount := 2, returnType := 1, paramTypes := none } : ImportEntry).wf := by
  unfold ImportEntry.wf; decide
example : exitFile { result := 0, top := .int 3 } = 3 := by decide

/-- a concrete module (string pool, code, one function) meets every hypothesis of `file_roundtrip_exact` -/
def sample : Module where
  flags := 1
  strings := [[109, 97, 105, 110], [104, 105]]
  code := [5, 0x3D]
  functions := [{ nameIdx := 0, arity := 0, codeOffset := 0, codeLength := 2, localCount := 0, upvalueCount := 0 }]

example : sample.wf := by
  refine ⟨by decide, by decide, ?_, by decide +kernel⟩
  intro s hs
  simp only [secsOf, sample, List.length_cons, List.length_nil] at hs
  simp at hs
  rcases hs with rfl | rfl | rfl
  · exact ⟨by decide, by decide⟩
  · show (2 : Nat) < 4294967296; decide
  · refine ⟨?_, by decide⟩
    intro f hf; simp at hf; subst hf; unfold FnEntry.wf; decide
example : sample.strings.Nodup ∧ sample.imports.map canonImport = sample.imports := ⟨by decide, rfl⟩

end NanoVerif.C10
