/-
C06 — shadow tests gate compilation (property theorems only).
-/
import NanoVerif.Model.Gate
namespace NanoVerif.C06

theorem fold_allPassed (ts : List ShadowRun) (g : GateState) :
    (ts.foldl gateStep g).allPassed = (g.allPassed && ts.all fun t => t.usesExtern || t.falseAsserts == 0) := by
  induction ts generalizing g with
  | nil => simp
  | cons t ts ih =>
    simp only [List.foldl_cons, List.all_cons, ih]
    unfold gateStep
    by_cases he : t.usesExtern
    · simp [he]
    · by_cases hf : t.falseAsserts > 0
      · have : (t.falseAsserts == 0) = false := by simp; omega
        simp [he, hf, this]
      · have : t.falseAsserts = 0 := by omega
        simp [he, this]

/-- The gate: the shadow run fails if and only if some executed (not skipped) shadow block saw a
    false assertion — wherever that block is among the others, however many passing blocks come
    before or after it, however many assertions failed in it. -/
theorem gate_iff (ts : List ShadowRun) :
    (runShadowTests ts).allPassed = false ↔ ∃ t ∈ ts, t.usesExtern = false ∧ t.falseAsserts > 0 := by
  unfold runShadowTests
  rw [fold_allPassed]
  simp only [Bool.true_and]
  constructor
  · intro h
    have hex : ∃ t ∈ ts, (t.usesExtern || t.falseAsserts == 0) = false := by
      have := List.all_eq_false.mp h
      obtain ⟨t, ht, hne⟩ := this
      exact ⟨t, ht, by simpa using hne⟩
    obtain ⟨t, ht, hne⟩ := hex
    refine ⟨t, ht, ?_⟩
    simp only [Bool.or_eq_false_iff, beq_eq_false_iff_ne] at hne
    exact ⟨hne.1, by omega⟩
  · intro ⟨t, ht, he, hf⟩
    rw [← Bool.not_eq_true, List.all_eq_true]
    intro hall
    have := hall t ht
    simp [he] at this
    omega

/-- a failing run never reaches transpilation (no C file, no executable) and exits non-zero; a
    passing run goes on, and then the exit status is decided by the later phases alone -/
theorem driver_gate (ts : List ShadowRun) (restOk : Bool) :
    ((∃ t ∈ ts, t.usesExtern = false ∧ t.falseAsserts > 0) →
        (phase5 ts restOk).exitCode ≠ 0 ∧ (phase5 ts restOk).reachesTranspile = false) ∧
    ((¬ ∃ t ∈ ts, t.usesExtern = false ∧ t.falseAsserts > 0) →
        (phase5 ts restOk).reachesTranspile = true ∧ ((phase5 ts restOk).exitCode = 0 ↔ restOk = true)) := by
  constructor
  · intro h
    have := (gate_iff ts).mpr h
    simp [phase5, this]
  · intro h
    have : (runShadowTests ts).allPassed = true := by
      cases hp : (runShadowTests ts).allPassed with
      | true => rfl
      | false => exact absurd ((gate_iff ts).mp hp) h
    cases restOk <;> simp [phase5, this]

theorem fold_failures (ts : List ShadowRun) (g : GateState) :
    (ts.foldl gateStep g).failures = g.failures ++
      (ts.filter fun t => !t.usesExtern && decide (t.falseAsserts > 0)).map fun t => (t.name, t.falseAsserts) := by
  induction ts generalizing g with
  | nil => simp
  | cons t ts ih =>
    simp only [List.foldl_cons, ih]
    unfold gateStep
    by_cases he : t.usesExtern
    · simp [he]
    · by_cases hf : t.falseAsserts > 0
      · simp [he, hf, List.filter_cons]
      · simp [he, hf, List.filter_cons]

/-- every failing test is named, once, in source order, with its number of failed assertions -/
theorem failures_named (ts : List ShadowRun) :
    (runShadowTests ts).failures =
      (ts.filter fun t => !t.usesExtern && decide (t.falseAsserts > 0)).map fun t => (t.name, t.falseAsserts) := by
  unfold runShadowTests
  rw [fold_failures]; simp

/- non-vacuity: the failing block is the last of three, after a skipped and a passing one -/
example : (runShadowTests [⟨"a", true, 3⟩, ⟨"b", false, 0⟩, ⟨"c", false, 2⟩]).allPassed = false := by decide
example : (runShadowTests [⟨"a", true, 3⟩, ⟨"b", false, 0⟩, ⟨"c", false, 2⟩]).failures = [("c", 2)] := by decide
example : phase5 [⟨"a", true, 3⟩, ⟨"b", false, 0⟩] true = { exitCode := 0, reachesTranspile := true } := by decide

end NanoVerif.C06
