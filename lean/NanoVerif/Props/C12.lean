/-
C12 — a damaged bytecode file is refused (property theorems only).
CRC polynomial / init / final xor, header size, checksum offset, magic, version and the
section limit are `NanoVerif.Gen.*`, regenerated from nvm_format.{c,h} on every run.
-/
import NanoVerif.Lemmas.Nvm
namespace NanoVerif.C12

/-- An error pattern (same length as the damaged region) whose set bits span at most 32
    consecutive bit positions of the bit stream, anywhere, crossing byte boundaries freely:
    `k` clean bits, a 1, at most 31 arbitrary bits, `j` clean bits. A single flipped bit is
    the case `rest = []`. -/
def IsBurst (e : Bytes) : Prop :=
  ∃ (k j : Nat) (rest : List Bool), rest.length ≤ 31 ∧
    bitsOf e = List.replicate k false ++ (true :: rest) ++ List.replicate j false

/-- CRC-32 as computed by `nvm_crc32` (table-driven, polynomial from the source) detects every
    burst of at most 32 bits in every message. -/
theorem crc_burst (b e : Bytes) (hl : b.length = e.length) (hb : IsBurst e) :
    crc32 (xorBytes b e) ≠ crc32 b := by
  obtain ⟨k, j, rest, hr, he⟩ := hb
  intro heq
  unfold crc32 at heq
  have h2 : crcRaw (BitVec.ofNat 32 Gen.crcInit) (xorBytes b e) = crcRaw (BitVec.ofNat 32 Gen.crcInit) b := by
    have := congrArg (· ^^^ BitVec.ofNat 32 Gen.crcFinalXor) heq
    simpa [BitVec.xor_assoc] using this
  rw [crcRaw_eq_feedBits, crcRaw_eq_feedBits, bitsOf_xor b e hl, he] at h2
  refine crc_bits_burst _ (bitsOf b) k j rest hr ?_ h2
  rw [← he, bitsOf_length, bitsOf_length, hl]

/-- reading a 4-byte header field that lies inside the first `h` bytes does not see the body -/
theorem header_field (f x : Bytes) (h k : Nat) (hk : k + 4 ≤ h) (hf : h ≤ f.length) :
    ((f.take h ++ x).drop k).take 4 = (f.drop k).take 4 := by
  have h1 : (f.take h ++ x).drop k = (f.take h).drop k ++ x := by
    rw [List.drop_append_of_le_length (by simp; omega)]
  rw [h1, List.take_append_of_le_length (by simp; omega)]
  rw [List.drop_take, List.take_take]
  congr 1
  omega

theorem header_consts : 4 ≤ Gen.headerSize ∧ 4 + 4 ≤ Gen.headerSize ∧ 16 + 4 ≤ Gen.headerSize ∧
    Gen.checksumOffset + 4 ≤ Gen.headerSize := by decide

/-- Any file the loader accepts is refused once a burst of ≤ 32 bits (in particular one flipped
    bit) damages any part of it after the header. -/
theorem load_rejects_burst (f e : Bytes) (m : Module) (hacc : deserialize f = .ok m)
    (hl : e.length = (f.drop Gen.headerSize).length) (hb : IsBurst e) :
    deserialize (f.take Gen.headerSize ++ xorBytes (f.drop Gen.headerSize) e) = .error .reject := by
  have acc := deserialize_ok hacc
  obtain ⟨c1, c2, c3, c4⟩ := header_consts
  have hsz := acc.size
  have hlen : (f.take Gen.headerSize ++ xorBytes (f.drop Gen.headerSize) e).length = f.length := by
    simp [xorBytes, hl]; omega
  have hdrop : (f.take Gen.headerSize ++ xorBytes (f.drop Gen.headerSize) e).drop Gen.headerSize
      = xorBytes (f.drop Gen.headerSize) e := by
    apply List.drop_left'; simp; omega
  have hv : headerValid (f.take Gen.headerSize ++ xorBytes (f.drop Gen.headerSize) e) = true := by
    have := acc.header
    unfold headerValid at this ⊢
    rw [header_field f _ _ 4 c2 hsz, header_field f _ _ 16 c3 hsz]
    have h0 := header_field f (xorBytes (f.drop Gen.headerSize) e) _ 0 (by omega) hsz
    simp only [List.drop_zero] at h0
    rw [h0]; exact this
  unfold deserialize
  simp only [hlen]
  rw [if_neg (by omega), hv]
  simp only [Bool.not_true, Bool.false_eq_true, if_false]
  rw [hdrop, header_field f _ _ _ c4 hsz]
  have hne := crc_burst (f.drop Gen.headerSize) e hl.symm hb
  have : ((crc32 (xorBytes (f.drop Gen.headerSize) e)).toNat != leVal ((f.drop Gen.checksumOffset).take 4)) = true := by
    rw [← acc.crc]
    simp only [bne_iff_ne, ne_eq]
    intro h; exact hne (BitVec.eq_of_toNat_eq h)
  rw [if_pos this]

/-- Any accepted file is refused once anything is appended to it (even a tail chosen to keep
    the CRC unchanged): the sections must end exactly at the end of the file. -/
theorem load_rejects_extension (f t : Bytes) (m : Module) (hacc : deserialize f = .ok m)
    (ht : t ≠ []) : deserialize (f ++ t) = .error .reject := by
  have acc := deserialize_ok hacc
  obtain ⟨c1, c2, c3, c4⟩ := header_consts
  have hsz := acc.size
  have hfld : ∀ k, k + 4 ≤ Gen.headerSize → ((f ++ t).drop k).take 4 = (f.drop k).take 4 := by
    intro k hk
    rw [List.drop_append_of_le_length (by omega), List.take_append_of_le_length (by simp; omega)]
  have hv : headerValid (f ++ t) = true := by
    have := acc.header
    unfold headerValid at this ⊢
    rw [hfld 4 c2, hfld 16 c3]
    have h0 := hfld 0 (by omega)
    simp only [List.drop_zero] at h0
    rw [h0]; exact this
  have htl : 0 < t.length := List.length_pos_iff.mpr ht
  unfold deserialize
  simp only
  rw [if_neg (by simp; omega), hv]
  simp only [Bool.not_true, Bool.false_eq_true, if_false]
  rw [hfld 8 (by omega), hfld 12 (by omega), hfld 16 c3, hfld _ c4]
  split
  · rfl
  · rw [if_neg (by have := acc.dir; simp; omega)]
    rw [loadSections_append f t _ _ _ _ _ acc.sections]
    simp only
    rw [if_pos (by simp; omega)]

/-- Any accepted file is refused when cut short at any length (0 … |f|−1). -/
theorem load_rejects_truncation (f : Bytes) (m : Module) (hacc : deserialize f = .ok m)
    (n : Nat) (hn : n < f.length) : ∀ m', deserialize (f.take n) ≠ .ok m' := by
  intro m' h
  have hd : f.drop n ≠ [] := by
    intro h0; have := congrArg List.length h0; simp at this; omega
  have := load_rejects_extension (f.take n) (f.drop n) m' h hd
  rw [List.take_append_drop, hacc] at this
  cases this

/-- wrong magic, wrong version or too many sections: refused before anything else is read -/
theorem load_rejects_bad_header (f : Bytes) (h : headerValid f = false) :
    deserialize f = .error .reject := by
  unfold deserialize
  simp only
  split
  · rfl
  · simp [h]

/-- all-or-nothing: the loader returns a complete module or an error, and a refused file
    yields no module at all -/
theorem load_all_or_nothing (f : Bytes) :
    (∃ m, deserialize f = .ok m) ∨ (∃ e, deserialize f = .error e) := by
  cases h : deserialize f with
  | ok m => exact Or.inl ⟨m, rfl⟩
  | error e => exact Or.inr ⟨e, rfl⟩

/- non-vacuity -/
/-- a 32-bit burst starting at bit 3 of a 6-byte pattern -/
example : IsBurst [0xF8, 0xFF, 0xFF, 0xFF, 0x07, 0x00] :=
  ⟨3, 13, List.replicate 31 true, by decide, by decide⟩
/-- a single flipped bit -/
example : IsBurst [0x00, 0x10] := ⟨12, 3, [], by decide, by decide⟩
def tinyModule : Module where
  flags := 1
  strings := [[109, 97, 105, 110]]
  code := [5, 0x3D]
  functions := [{ nameIdx := 0, arity := 0, codeOffset := 0, codeLength := 2, localCount := 0, upvalueCount := 0 }]

/-- a real (tiny) module is accepted, so the hypotheses of the load theorems are satisfiable -/
theorem tiny_accepted : ∃ m, deserialize (serialize tinyModule) = .ok m := by
  have key : (match deserialize (serialize tinyModule) with | .ok _ => true | _ => false) = true := by
    decide +kernel
  generalize deserialize (serialize tinyModule) = r at key
  cases r with
  | ok m => exact ⟨m, rfl⟩
  | error e => cases key

end NanoVerif.C12
