/-
C20 — the native runtime's containers behave as sequences and its GC bookkeeping stays
consistent (property theorems only).  Sanitizer-cleanliness of arbitrary generated programs is
not a theorem; it is searched for by the check.
-/
import NanoVerif.Model.Runtime
namespace NanoVerif.C20

theorem new_inv : DynArr.new.Inv ∧ DynArr.new.abs = [] := by
  unfold DynArr.Inv DynArr.new DynArr.abs dynInitialCapacity; simp

theorem take_set_succ (l : List Int) (n : Nat) (v : Int) (h : n < l.length) :
    (l.set n v).take (n + 1) = l.take n ++ [v] := by
  rw [List.take_add_one, List.take_set_of_le (Nat.le_refl n), List.getElem?_set_self (by simpa using h)]
  rfl

theorem grow_inv (a : DynArr) (h : a.Inv) : a.grow.Inv ∧ a.grow.abs = a.abs ∧ a.grow.len = a.len ∧ a.len < a.grow.cap := by
  obtain ⟨h1, h2, h3⟩ := h
  have hlen : a.grow.len = a.len := rfl
  have hcap : a.grow.cap = a.cap * 2 := rfl
  have hdata : a.grow.data = a.data ++ List.replicate (a.cap * 2 - a.cap) 0 := rfl
  refine ⟨⟨by rw [hlen, hcap]; omega, by rw [hdata, hcap]; simp; omega, by rw [hcap]; omega⟩, ?_, hlen, by rw [hcap]; omega⟩
  unfold DynArr.abs
  rw [hlen, hdata, List.take_append_of_le_length (by omega)]

/-- push (with growth when full) appends one element and keeps the representation invariant -/
theorem push_refines (a : DynArr) (v : Int) (h : a.Inv) : (a.push v).Inv ∧ (a.push v).abs = a.abs ++ [v] := by
  unfold DynArr.push
  by_cases hfull : a.len ≥ a.cap
  · simp only [hfull, if_true]
    obtain ⟨⟨g1, g2, g3⟩, gabs, glen, glt⟩ := grow_inv a h
    refine ⟨⟨by simp only; omega, by simp [g2], g3⟩, ?_⟩
    unfold DynArr.abs at *
    simp only
    rw [take_set_succ _ _ _ (by omega), gabs]
  · simp only [hfull, if_false]
    obtain ⟨h1, h2, h3⟩ := h
    refine ⟨⟨by simp only; omega, by simp [h2], h3⟩, ?_⟩
    unfold DynArr.abs
    simp only
    rw [take_set_succ _ _ _ (by omega)]

/-- pop removes and returns the last element; on an empty array it reports failure and changes nothing -/
theorem pop_refines (a : DynArr) (h : a.Inv) :
    (a.len = 0 → a.pop = (a, none)) ∧
    (0 < a.len → (a.pop.1).Inv ∧ (a.pop.1).abs = a.abs.dropLast ∧ a.pop.2 = a.abs.getLast?) := by
  obtain ⟨h1, h2, h3⟩ := h
  constructor
  · intro h0; simp [DynArr.pop, h0]
  · intro hpos
    have hne : a.len ≠ 0 := by omega
    unfold DynArr.pop
    simp only [hne, if_false]
    refine ⟨⟨by simp; omega, h2, h3⟩, ?_, ?_⟩
    · unfold DynArr.abs
      simp only
      rw [List.dropLast_eq_take, List.length_take, List.take_take]
      congr 1; omega
    · unfold DynArr.abs
      rw [List.getLast?_eq_getElem?, List.length_take]
      have : min a.len a.data.length = a.len := by omega
      rw [this, List.getElem?_take_of_lt (by omega), List.getD_eq_getElem?_getD]
      have hlt : a.len - 1 < a.data.length := by omega
      rw [List.getElem?_eq_getElem hlt]; simp

/-- get: exactly the C assertion as precondition, and then the element of the abstract sequence -/
theorem get_refines (a : DynArr) (i : Int) (h : a.Inv) :
    a.get i = (if 0 ≤ i ∧ i < a.len then a.abs[i.toNat]? else none) := by
  obtain ⟨h1, h2, h3⟩ := h
  unfold DynArr.get DynArr.abs
  by_cases hr : 0 ≤ i ∧ i < a.len
  · simp only [hr, and_self, if_true]
    have hk : i.toNat < a.len := by omega
    rw [List.getElem?_take_of_lt hk, List.getD_eq_getElem?_getD]
    have : i.toNat < a.data.length := by omega
    rw [List.getElem?_eq_getElem this]; simp
  · simp [hr]

theorem set_refines (a : DynArr) (i v : Int) (h : a.Inv) (hr : 0 ≤ i ∧ i < a.len) :
    ∃ b, a.set i v = some b ∧ b.Inv ∧ b.abs = a.abs.set i.toNat v := by
  obtain ⟨h1, h2, h3⟩ := h
  refine ⟨{ a with data := a.data.set i.toNat v }, by simp [DynArr.set, hr], ⟨h1, by simp [h2], h3⟩, ?_⟩
  unfold DynArr.abs
  simp only
  rw [List.take_set]

theorem removeAt_refines (a : DynArr) (i : Int) (h : a.Inv) (hr : 0 ≤ i ∧ i < a.len) :
    ∃ b, a.removeAt i = some b ∧ b.Inv ∧ b.abs = a.abs.eraseIdx i.toNat := by
  obtain ⟨h1, h2, h3⟩ := h
  have hk : i.toNat < a.len := by omega
  let b : DynArr := { a with data := a.data.take i.toNat ++ ((a.data.drop (i.toNat + 1)).take (a.len - 1 - i.toNat)) ++ a.data.drop (a.len - 1), len := a.len - 1 }
  have hb : a.removeAt i = some b := by simp [DynArr.removeAt, hr, b]
  have e1 : (List.take i.toNat a.data ++ List.take (a.len - 1 - i.toNat) (List.drop (i.toNat + 1) a.data)).length = a.len - 1 := by
    simp only [List.length_append, List.length_take, List.length_drop]; omega
  refine ⟨b, hb, ⟨by show a.len - 1 ≤ a.cap; omega, ?_, h3⟩, ?_⟩
  · show (a.data.take i.toNat ++ ((a.data.drop (i.toNat + 1)).take (a.len - 1 - i.toNat)) ++ a.data.drop (a.len - 1)).length = a.cap
    simp only [List.length_append, List.length_take, List.length_drop]
    omega
  · show (a.data.take i.toNat ++ ((a.data.drop (i.toNat + 1)).take (a.len - 1 - i.toNat)) ++ a.data.drop (a.len - 1)).take (a.len - 1)
        = (a.data.take a.len).eraseIdx i.toNat
    rw [List.take_append_of_le_length (by rw [e1]; exact Nat.le_refl _), List.take_of_length_le (by rw [e1]; exact Nat.le_refl _)]
    rw [List.eraseIdx_eq_take_drop_succ, List.take_take, List.drop_take]
    congr 1
    · congr 1; omega
    · congr 1; omega

theorem clear_refines (a : DynArr) (h : a.Inv) : a.clear.Inv ∧ a.clear.abs = [] := by
  obtain ⟨h1, h2, h3⟩ := h
  exact ⟨⟨by simp [DynArr.clear], h2, h3⟩, by simp [DynArr.clear, DynArr.abs]⟩

theorem reserve_refines (a : DynArr) (n : Nat) (h : a.Inv) : (a.reserve n).Inv ∧ (a.reserve n).abs = a.abs ∧ n ≤ (a.reserve n).cap := by
  obtain ⟨h1, h2, h3⟩ := h
  unfold DynArr.reserve
  by_cases hn : n ≤ a.cap
  · simp [hn, DynArr.Inv, h1, h2, h3]
  · simp only [hn, if_false]
    refine ⟨⟨by simp; omega, by simp; omega, by simp; omega⟩, ?_, by simp⟩
    unfold DynArr.abs
    simp only
    rw [List.take_append_of_le_length (by omega)]

theorem clone_refines (a : DynArr) (h : a.Inv) : a.clone.Inv ∧ a.clone.abs = a.abs := by
  obtain ⟨h1, h2, h3⟩ := h
  obtain ⟨⟨r1, r2, r3⟩, _, rcap⟩ := reserve_refines DynArr.new a.len new_inv.1
  unfold DynArr.clone
  simp only
  refine ⟨⟨rcap, ?_, r3⟩, ?_⟩
  · simp only [List.length_append, List.length_take, List.length_drop]; omega
  · unfold DynArr.abs
    simp only
    rw [List.take_append_of_le_length (by simp; omega), List.take_take]
    simp

/-! ### GC bookkeeping -/

theorem gc_init_inv : ({} : GcState).Inv := by
  unfold GcState.Inv; simp

theorem gc_alloc_inv (g : GcState) (h : g.Inv) : g.alloc.1.Inv ∧ g.alloc.2 ∉ g.objects.map (·.1) := by
  obtain ⟨h1, h2, h3, h4, h5⟩ := h
  have hfresh : g.nextId ∉ g.objects.map (·.1) := by
    intro hm
    obtain ⟨o, ho, he⟩ := List.mem_map.mp hm
    have := (h5 o ho).2
    omega
  refine ⟨⟨?_, ?_, ?_, ?_, ?_⟩, hfresh⟩
  · simp only [GcState.alloc, List.map_cons, List.nodup_cons]; exact ⟨hfresh, h1⟩
  · simp [GcState.alloc, h2]
  · intro p; simp only [GcState.alloc, List.mem_cons, List.map_cons]; rw [h3 p]
  · simp only [GcState.alloc, List.nodup_cons]; exact ⟨fun hm => hfresh ((h3 _).mp hm), h4⟩
  · intro o ho
    simp only [GcState.alloc, List.mem_cons] at ho
    rcases ho with rfl | ho
    · simp [GcState.alloc]
    · have := h5 o ho; simp only [GcState.alloc]; omega

theorem map_fst_inc (l : List (Nat × Nat)) (p : Nat) :
    (l.map fun o => if o.1 == p then (o.1, o.2 + 1) else o).map (·.1) = l.map (·.1) := by
  induction l with
  | nil => rfl
  | cons a l ih =>
    simp only [List.map_cons, ih]
    by_cases h : a.1 == p <;> simp [h]

theorem map_fst_dec (l : List (Nat × Nat)) (p : Nat) :
    (l.map fun o => if o.1 == p then (o.1, o.2 - 1) else o).map (·.1) = l.map (·.1) := by
  induction l with
  | nil => rfl
  | cons a l ih =>
    simp only [List.map_cons, ih]
    by_cases h : a.1 == p <;> simp [h]

theorem gc_retain_inv (g : GcState) (p : Nat) (h : g.Inv) : (g.retain p).Inv := by
  obtain ⟨h1, h2, h3, h4, h5⟩ := h
  unfold GcState.retain GcState.Inv
  simp only [List.length_map]
  rw [map_fst_inc]
  refine ⟨h1, h2, h3, h4, ?_⟩
  intro o ho
  obtain ⟨q, hq, rfl⟩ := List.mem_map.mp ho
  have := h5 q hq
  by_cases hp : q.1 == p <;> simp [hp] <;> omega

/-- release: the object leaves the list, the hash set and the count together, exactly when its
    count reaches zero; releasing an unmanaged (already freed) pointer changes nothing -/
theorem gc_release_inv (g : GcState) (p : Nat) (h : g.Inv) : (g.release p).Inv := by
  obtain ⟨h1, h2, h3, h4, h5⟩ := h
  unfold GcState.release
  split
  · exact ⟨h1, h2, h3, h4, h5⟩
  · split
    · exact ⟨h1, h2, h3, h4, h5⟩
    · rename_i q rc hf
      have hm := List.mem_of_find?_eq_some hf
      have hq := List.find?_some hf
      simp only [beq_iff_eq] at hq
      split
      · -- freed
        unfold GcState.Inv
        simp only
        have hmapfilter : (g.objects.filter (·.1 != p)).map (·.1) = (g.objects.map (·.1)).filter (· != p) := by
          rw [List.filter_map]; rfl
        refine ⟨?_, ?_, ?_, h4.filter _, ?_⟩
        · rw [hmapfilter]; exact h1.filter _
        · -- exactly one entry with key p is removed
          have hcount : ∀ (l : List (Nat × Nat)), (l.map (·.1)).Nodup → (q, rc) ∈ l →
              (l.filter (·.1 != p)).length = l.length - 1 := by
            intro l
            induction l with
            | nil => intro _ hmem; simp at hmem
            | cons a l ih =>
              intro hnd hmem
              simp only [List.map_cons, List.nodup_cons] at hnd
              rcases List.mem_cons.mp hmem with rfl | hmem'
              · have : (List.filter (fun x => x.1 != p) l) = l := by
                  apply List.filter_eq_self.mpr
                  intro b hb
                  have : b.1 ≠ p := by
                    intro e; apply hnd.1; rw [hq, ← e]; exact List.mem_map.mpr ⟨b, hb, rfl⟩
                  simpa using this
                simp [List.filter_cons, hq, this]
              · have hap : a.1 ≠ p := by
                  intro e; apply hnd.1; rw [e, ← hq]; exact List.mem_map.mpr ⟨(q, rc), hmem', rfl⟩
                have hlpos : 0 < l.length := List.length_pos_of_mem hmem'
                simp only [List.filter_cons, hap, bne_iff_ne, ne_eq, not_false_eq_true, decide_true, if_true, List.length_cons]
                rw [ih hnd.2 hmem']; omega
          have hpos : 0 < g.objects.length := List.length_pos_of_mem hm
          rw [hcount g.objects h1 hm, h2]
        · intro x
          rw [hmapfilter]
          simp only [List.mem_filter, h3 x]
        · intro o ho
          exact h5 o (List.mem_filter.mp ho).1
      · rename_i hrc
        unfold GcState.Inv
        simp only [List.length_map]
        rw [map_fst_dec]
        refine ⟨h1, h2, h3, h4, ?_⟩
        intro o ho
        obtain ⟨r, hr, rfl⟩ := List.mem_map.mp ho
        have := h5 r hr
        by_cases hp : r.1 == p
        · have hrq : r = (q, rc) := by
            have hkey : r.1 = q := by rw [hq]; simpa using hp
            -- keys are unique
            have : ∀ (l : List (Nat × Nat)), (l.map (·.1)).Nodup → r ∈ l → (q, rc) ∈ l → r.1 = q → r = (q, rc) := by
              intro l
              induction l with
              | nil => intro _ hx; simp at hx
              | cons a l ih =>
                intro hnd hx hy hk
                simp only [List.map_cons, List.nodup_cons] at hnd
                rcases List.mem_cons.mp hx with rfl | hx' <;> rcases List.mem_cons.mp hy with hy' | hy'
                · exact hy'.symm ▸ rfl
                · exact absurd (List.mem_map.mpr ⟨(q, rc), hy', hk.symm⟩) hnd.1
                · subst hy'; exact absurd (List.mem_map.mpr ⟨r, hx', hk⟩) hnd.1
                · exact ih hnd.2 hx' hy' hk
            exact this g.objects h1 hr hm hkey
          subst hrq
          simp [hp]; omega
        · simp [hp]; exact this

/- non-vacuity -/
example : ((DynArr.new.push 5).push 7).abs = [5, 7] := by decide
example : (((List.range 9).foldl (fun a i => a.push i) DynArr.new)).cap = 16 := by decide
example : ((({} : GcState).alloc.1.alloc.1.release 0).numObjects) = 1 := by decide

end NanoVerif.C20
