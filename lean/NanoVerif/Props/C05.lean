/-
C05 — ill-formed programs are never turned into a runnable artifact.

Model: `Tc.tcProgram` (Model/Tc.lean), the static rules of the fragment as an executable checker, and the
decision logic of the three tools (`tool`): lex → parse → type check → code generation → write / run.

The rule catalogue of the property, one theorem per rule, each in inversion form ("if the checker accepts,
the rule holds") so that the contrapositive is the rejection of every violating program, whatever the
surrounding code:
  operands (`arith_operands`, `compare_operands`, `logic_operands`, `plus_operands`, `unary_operand`),
  arguments and arity (`args_arity`, `args_types`), unknown / out-of-scope names (`unknown_name_rejected`,
  `block_scope_closed`), immutability (`set_requires_mut`), return on every path and its type
  (`nonvoid_returns_all`, `return_type`), bool conditions (`if_cond_bool`, `while_cond_bool`,
  `assert_cond_bool`), fields (`field_defined`), break/continue outside a loop (`break_in_loop`).
`no_artifact`: whatever the later phases would do, a failed check makes each tool exit non-zero, write
nothing and run nothing.

The tie to src/typechecker.c is the accept/reject correspondence on well-typed programs and every
single-point mutant of the catalogue; where typechecker.c accepts a program this checker rejects, the
run reports it (violation or listed finding) — the model is not bent to the implementation.
-/
import NanoVerif.Model.Tc

namespace NanoVerif.C05
open NanoVerif NanoVerif.Tc Gen

theorem tyEq_int {t : Ty} (h : tyEq t .int = true) : t = .int := by cases t <;> simp [tyEq] at h ⊢
theorem tyEq_bool {t : Ty} (h : tyEq t .bool = true) : t = .bool := by cases t <;> simp [tyEq] at h ⊢
theorem tyEq_string {t : Ty} (h : tyEq t .string = true) : t = .string := by cases t <;> simp [tyEq] at h ⊢

/-- `- * / %` take two ints and give an int -/
theorem arith_operands (env : Env) (sc : Scope) (op : TT) (a b : Expr) (τ : Ty)
    (hop : op = .T_MINUS ∨ op = .T_STAR ∨ op = .T_SLASH ∨ op = .T_PERCENT)
    (h : tcExpr env sc (.prefixOp op [a, b]) = some τ) :
    tcExpr env sc a = some .int ∧ tcExpr env sc b = some .int ∧ τ = .int := by
  simp only [tcExpr] at h
  cases ha : tcExpr env sc a <;> cases hb : tcExpr env sc b <;> simp [ha, hb] at h
  rename_i ta tb
  rcases hop with rfl | rfl | rfl | rfl <;> simp at h <;>
    exact ⟨by rw [tyEq_int h.1.1], by rw [tyEq_int h.1.2], h.2.symm⟩

/-- `+` takes two ints or two strings -/
theorem plus_operands (env : Env) (sc : Scope) (a b : Expr) (τ : Ty)
    (h : tcExpr env sc (.prefixOp .T_PLUS [a, b]) = some τ) :
    (tcExpr env sc a = some .int ∧ tcExpr env sc b = some .int ∧ τ = .int) ∨
    (tcExpr env sc a = some .string ∧ tcExpr env sc b = some .string ∧ τ = .string) := by
  simp only [tcExpr] at h
  cases ha : tcExpr env sc a <;> cases hb : tcExpr env sc b <;> simp [ha, hb] at h
  rename_i ta tb
  split at h
  · rename_i hi; simp at hi h; exact .inl ⟨by rw [tyEq_int hi.1], by rw [tyEq_int hi.2], h.symm⟩
  · split at h
    · rename_i hs; simp at hs h; exact .inr ⟨by rw [tyEq_string hs.1], by rw [tyEq_string hs.2], h.symm⟩
    · cases h

/-- `< <= > >=` take two ints and give a bool -/
theorem compare_operands (env : Env) (sc : Scope) (op : TT) (a b : Expr) (τ : Ty)
    (hop : op = .T_LT ∨ op = .T_LE ∨ op = .T_GT ∨ op = .T_GE)
    (h : tcExpr env sc (.prefixOp op [a, b]) = some τ) :
    tcExpr env sc a = some .int ∧ tcExpr env sc b = some .int ∧ τ = .bool := by
  simp only [tcExpr] at h
  cases ha : tcExpr env sc a <;> cases hb : tcExpr env sc b <;> simp [ha, hb] at h
  rename_i ta tb
  rcases hop with rfl | rfl | rfl | rfl <;> simp at h <;>
    exact ⟨by rw [tyEq_int h.1.1], by rw [tyEq_int h.1.2], h.2.symm⟩

/-- `and`, `or` take two bools -/
theorem logic_operands (env : Env) (sc : Scope) (op : TT) (a b : Expr) (τ : Ty) (hop : op = .T_AND ∨ op = .T_OR)
    (h : tcExpr env sc (.prefixOp op [a, b]) = some τ) :
    tcExpr env sc a = some .bool ∧ tcExpr env sc b = some .bool ∧ τ = .bool := by
  simp only [tcExpr] at h
  cases ha : tcExpr env sc a <;> cases hb : tcExpr env sc b <;> simp [ha, hb] at h
  rename_i ta tb
  rcases hop with rfl | rfl <;> simp at h <;>
    exact ⟨by rw [tyEq_bool h.1.1], by rw [tyEq_bool h.1.2], h.2.symm⟩

/-- unary `-` takes an int, `not` a bool -/
theorem unary_operand (env : Env) (sc : Scope) (op : TT) (a : Expr) (τ : Ty)
    (h : tcExpr env sc (.prefixOp op [a]) = some τ) :
    (op = .T_MINUS ∧ tcExpr env sc a = some .int ∧ τ = .int) ∨ (op = .T_NOT ∧ tcExpr env sc a = some .bool ∧ τ = .bool) := by
  simp only [tcExpr] at h
  split at h
  · rename_i ha; split at h
    · rename_i ho; simp at ho h; exact .inl ⟨ho, ha, h.symm⟩
    · cases h
  · rename_i hb; split at h
    · rename_i ho; simp at ho h; exact .inr ⟨ho, hb, h.symm⟩
    · cases h
  · cases h

/-- arity: an accepted argument list has exactly as many arguments as the function has parameters -/
theorem args_arity (env : Env) (sc : Scope) : ∀ (args : List Expr) (ps : List Ty), tcArgs env sc args ps = true → args.length = ps.length
  | [], [], _ => rfl
  | [], _ :: _, h => by simp [tcArgs] at h
  | _ :: _, [], h => by simp [tcArgs] at h
  | a :: r, t :: ts, h => by
    simp only [tcArgs, Bool.and_eq_true] at h
    simp [args_arity env sc r ts h.2]

/-- … and every argument has the parameter's type -/
theorem args_types (env : Env) (sc : Scope) : ∀ (args : List Expr) (ps : List Ty), tcArgs env sc args ps = true →
    ∀ (k : Nat) (a : Expr) (t : Ty), args[k]? = some a → ps[k]? = some t → ∃ ta, tcExpr env sc a = some ta ∧ tyEq ta t = true
  | [], _, _ => by intro k a t ha; simp at ha
  | a0 :: r, [], h => by simp [tcArgs] at h
  | a0 :: r, t0 :: ts, h => by
    simp only [tcArgs, Bool.and_eq_true] at h
    intro k a t ha ht
    cases k with
    | zero =>
      simp at ha ht; subst ha; subst ht
      cases hx : tcExpr env sc a0 with
      | none => simp [hx] at h
      | some ta => exact ⟨ta, rfl, by simpa [hx] using h.1⟩
    | succ k => exact args_types env sc r ts h.2 k a t (by simpa using ha) (by simpa using ht)

/-- a call of a user function is accepted only with the declared arity and argument types -/
theorem call_checked (env : Env) (sc : Scope) (f : String) (args : List Expr) (sig : Sig) (τ : Ty)
    (hb : builtinSig f = none) (hf : env.fns.find? (fun (p : String × Sig) => p.1 == f) = some (f, sig))
    (hn : f ≠ "println" ∧ f ≠ "print" ∧ f ≠ "array_length" ∧ f ≠ "at" ∧ f ≠ "array_push" ∧ f ≠ "range")
    (h : tcExpr env sc (.call f args) = some τ) :
    tcArgs env sc args sig.params = true ∧ τ = sig.ret := by
  obtain ⟨h1, h2, h3, h4, h5, h6⟩ := hn
  rw [tcExpr.eq_def] at h
  simp [h1, h2, h3, h4, h5, h6, hb, hf] at h
  exact ⟨h.1, h.2.symm⟩

/-- unknown name: neither in scope nor global ⇒ rejected -/
theorem unknown_name_rejected (env : Env) (sc : Scope) (x : String) (h : findVar sc env.globals x = none) :
    tcExpr env sc (.ident x) = none := by
  simp [tcExpr, h]

/-- a block's declarations do not escape: the scope after a block statement is the scope before it, so a
    later use of a name declared only inside the block is an unknown name -/
theorem block_scope_closed (env : Env) (ret : Ty) (l : Bool) (sc sc' : Scope) (ss : List Stmt)
    (h : tcStmt env ret l sc (.block ss) = some sc') : sc' = sc := by
  simp only [tcStmt] at h
  split at h <;> simp at h
  exact h.symm

theorem if_scope_closed (env : Env) (ret : Ty) (l : Bool) (sc sc' : Scope) (c : Expr) (t : List Stmt) (e : Option (List Stmt)) (b : Bool)
    (h : tcStmt env ret l sc (.ifS c t e b) = some sc') : sc' = sc := by
  simp only [tcStmt] at h
  split at h
  · split at h <;> simp at h; exact h.symm
  · cases h

/-- assignment needs a mutable binding in scope (parameters and plain `let` are immutable) -/
theorem set_requires_mut (env : Env) (ret : Ty) (l : Bool) (sc sc' : Scope) (x : String) (e : Expr)
    (h : tcStmt env ret l sc (.setS x e) = some sc') :
    ∃ b, findVar sc env.globals x = some b ∧ b.isMut = true := by
  simp only [tcStmt] at h
  split at h
  · rename_i b te hb _
    split at h
    · rename_i hm; simp at hm; exact ⟨b, hb, hm.1⟩
    · cases h
  · cases h

theorem if_cond_bool (env : Env) (ret : Ty) (l : Bool) (sc sc' : Scope) (c : Expr) (t : List Stmt) (e : Option (List Stmt)) (b : Bool)
    (h : tcStmt env ret l sc (.ifS c t e b) = some sc') : tcExpr env sc c = some .bool := by
  simp only [tcStmt] at h
  split at h
  · assumption
  · cases h

theorem while_cond_bool (env : Env) (ret : Ty) (l : Bool) (sc sc' : Scope) (c : Expr) (body : List Stmt)
    (h : tcStmt env ret l sc (.whileS c body) = some sc') : tcExpr env sc c = some .bool := by
  simp only [tcStmt] at h
  split at h
  · assumption
  · cases h

theorem assert_cond_bool (env : Env) (ret : Ty) (l : Bool) (sc sc' : Scope) (c : Expr)
    (h : tcStmt env ret l sc (.assertS c) = some sc') : tcExpr env sc c = some .bool := by
  simp only [tcStmt] at h
  split at h
  · assumption
  · cases h

/-- `return e` needs the function's return type -/
theorem return_type (env : Env) (ret : Ty) (l : Bool) (sc sc' : Scope) (e : Expr)
    (h : tcStmt env ret l sc (.ret (some e)) = some sc') : ∃ te, tcExpr env sc e = some te ∧ tyEq te ret = true := by
  simp only [tcStmt] at h
  split at h
  · rename_i te hte
    split at h
    · rename_i ht; exact ⟨te, hte, ht⟩
    · cases h
  · cases h

/-- a function with a non-void return type returns on every path -/
theorem nonvoid_returns_all (env : Env) (n : String) (ps : List Param) (rt : Ty) (body : List Stmt)
    (h : tcItem env (.fn n ps rt body) = true) (hv : tyEq rt .void = false) : returnsAll body = true := by
  simp only [tcItem, Bool.and_eq_true, Bool.or_eq_true, hv] at h
  simpa using h.2

theorem break_in_loop (env : Env) (ret : Ty) (l : Bool) (sc sc' : Scope)
    (h : tcStmt env ret l sc .breakS = some sc') : l = true := by
  simp only [tcStmt] at h
  split at h
  · assumption
  · cases h

/-- field access needs a struct type that declares the field -/
theorem field_defined (env : Env) (sc : Scope) (e : Expr) (fld : String) (τ : Ty)
    (h : tcExpr env sc (.field e fld) = some τ) :
    ∃ n fs, tcExpr env sc e = some (.named n) ∧ env.structs.find? (·.1 == n) = some (n, fs) ∧
      ∃ ft, fs.find? (·.1 == fld) = some (fld, ft) ∧ τ = ft := by
  simp only [tcExpr] at h
  split at h
  · rename_i n hn
    split at h
    · rename_i n' fs hs
      have hnn : n' = n := by have := List.find?_some hs; simpa using this
      subst hnn
      cases hf : fs.find? (·.1 == fld) with
      | none => simp [hf] at h
      | some p =>
        have hp : p.1 = fld := by have := List.find?_some hf; simpa using this
        obtain ⟨pn, pt⟩ := p
        simp at hp; subst hp
        simp [hf] at h
        exact ⟨n', fs, hn, hs, pt, hf, h.symm⟩
    · cases h
  · cases h

/-! ### the tools -/

inductive Mode | nanoc | virtRun | virtEmit
deriving DecidableEq, Repr

structure ToolRun where
  exit : Nat
  artifact : Bool        -- an executable / .nvm file was written
  ran : Bool             -- the program was executed
deriving DecidableEq, Repr

/-- phases of `compile_file` (src/main.c) and of nano_virt's `main`: each stops the tool with status 1 -/
def tool (m : Mode) (lexOk parseOk importsOk tcOk shadowOk cgOk ccOk : Bool) : ToolRun :=
  if !lexOk then ⟨1, false, false⟩
  else if !parseOk then ⟨1, false, false⟩
  else if !importsOk then ⟨1, false, false⟩
  else if !tcOk then ⟨1, false, false⟩
  else match m with
    | .nanoc => if !shadowOk then ⟨1, false, false⟩ else if !ccOk then ⟨1, false, false⟩ else ⟨0, true, false⟩
    | .virtRun => if !cgOk then ⟨1, false, false⟩ else ⟨0, false, true⟩
    | .virtEmit => if !cgOk then ⟨1, false, false⟩ else ⟨0, true, false⟩

/-- **no_artifact**: a program the checker rejects is never turned into an artifact nor executed, by any
    tool, whatever the other phases would have said -/
theorem no_artifact (m : Mode) (lexOk parseOk importsOk shadowOk cgOk ccOk : Bool) :
    let r := tool m lexOk parseOk importsOk false shadowOk cgOk ccOk
    r.exit ≠ 0 ∧ r.artifact = false ∧ r.ran = false := by
  cases lexOk <;> cases parseOk <;> cases importsOk <;> simp [tool]

/-- non-vacuity: `set` on an immutable binding and `if 1 { }` are rejected, the mutable variant accepted -/
example : tcStmt {} .int false [⟨"x", .int, false⟩] (.setS "x" (.num 1)) = none := by simp [tcStmt, findVar, tcExpr, tyEq]
example : tcStmt {} .int false [⟨"x", .int, true⟩] (.setS "x" (.num 1)) = some [⟨"x", .int, true⟩] := by simp [tcStmt, findVar, tcExpr, tyEq]
example : tcStmt {} .int false [] (.ifS (.num 1) [] none false) = none := by simp [tcStmt, tcExpr]

end NanoVerif.C05
