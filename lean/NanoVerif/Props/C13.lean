/-
C13 — no bytecode input can make the loader, the verifier or the VM's control state misbehave
(property theorems only).  Layout constants, VM limits and the instruction table are
`NanoVerif.Gen.*`, regenerated from the source on every run.
-/
import NanoVerif.Lemmas.NvmSafe
import NanoVerif.Model.Verifier
import NanoVerif.Model.Vm
import NanoVerif.Lemmas.HeapRun
namespace NanoVerif.C13
open Gen (Opc)

/-! ### loader -/

/-- Memory safety of `nvm_deserialize`: for every byte string (below 4 GiB − 64 KiB) no read
    leaves the buffer — the checked-read model never takes its `.oob` branch.  Termination of
    the loader is by construction (Lean accepted the definitions as total). -/
theorem load_never_oob (data : Bytes) (hsz : data.length + 65600 < 4294967296) :
    deserialize data ≠ .error .oob := by
  obtain ⟨_, _, _, c4⟩ := layout_consts
  unfold deserialize
  simp only
  split
  · intro h; cases h
  · split
    · intro h; cases h
    · split
      · intro h; cases h
      · split
        · intro h; cases h
        · rename_i hdir
          have hsafe := loadSections_safe data hsz (leVal ((data.drop 16).take 4)) 0
            { flags := leVal ((data.drop 8).take 4), entryPoint := leVal ((data.drop 12).take 4) }
            (Gen.headerSize + leVal ((data.drop 16).take 4) * Gen.sectionEntrySize)
            (by simp only [Nat.zero_add]; omega)
          split
          · rename_i e he
            intro h
            cases h
            exact hsafe he
          · split
            · intro h; cases h
            · intro h; cases h

/-! ### verifier -/

/-- what the structural phase establishes: every function's code range lies inside the code
    section (no 32-bit wrap), the entry point exists -/
theorem verify_structure_bounds (m : Module) (h : verify m = true) :
    (∀ f ∈ m.functions, f.codeOffset + f.codeLength ≤ m.code.length) ∧
    (m.flags % 2 = 1 → m.entryPoint < m.functions.length) := by
  unfold verify verifyStructure at h
  simp only [Bool.and_eq_true, List.all_eq_true, decide_eq_true_eq] at h
  obtain ⟨⟨⟨h1, h2⟩, _⟩, _⟩ := h
  refine ⟨?_, ?_⟩
  · intro f hf
    have := h2 f hf
    omega
  · intro hm
    simpa [hm] using h1

/-- the positions the linear sweep of `verify_function` visits -/
def walked (f : FnEntry) (code : Bytes) : Nat → Nat → List Nat
  | 0, _ => []
  | fuel+1, pos =>
    if pos < f.codeLength then
      match decode ((code.drop pos).take (f.codeLength - pos)) with
      | none => [pos]
      | some (_, n) => pos :: walked f code fuel (pos + n)
    else []

theorem opc_of_lookup : (Gen.instrEntries.all fun e => (Opc.ofByte e.1).isSome) = true := by decide

theorem opc_defined {b : Nat} {info : InstrInfo} (h : lookup b = some info) : (Opc.ofByte b).isSome = true := by
  have key := opc_of_lookup
  rw [List.all_eq_true] at key
  unfold lookup at h
  simp only [Option.map_eq_some_iff] at h
  obtain ⟨e, he, _⟩ := h
  have hm := List.mem_of_find?_eq_some he
  have hp := List.find?_some he
  simp only [beq_iff_eq] at hp
  rw [← hp]; exact key e hm

theorem decode_opcode_defined {bs : Bytes} {i : Instr} {n : Nat} (h : decode bs = some (i, n)) :
    (Opc.ofByte i.opcode).isSome = true ∧ 0 < n := by
  cases bs with
  | nil => simp [decode] at h
  | cons b rest =>
    simp only [decode] at h
    split at h
    · cases h
    · rename_i info hl
      split at h
      · cases h
      · simp only [Option.some.injEq, Prod.mk.injEq] at h
        obtain ⟨rfl, rfl⟩ := h
        exact ⟨opc_defined hl, by omega⟩

/-- Soundness of the sweep: if a function verifies, every position the sweep walked holds a
    complete instruction with a defined opcode, decoded from bytes inside the function. -/
theorem verify_sound_walk (m : Module) (f : FnEntry) (code : Bytes) (fuel pos : Nat)
    (h : verifySweep m f code fuel pos = true) :
    ∀ p ∈ walked f code fuel pos,
      ∃ i n, decode ((code.drop p).take (f.codeLength - p)) = some (i, n) ∧
        (Opc.ofByte i.opcode).isSome = true ∧ verifyInstr m f p i = true := by
  induction fuel generalizing pos with
  | zero => intro p hp; simp [walked] at hp
  | succ fuel ih =>
    intro p hp
    simp only [verifySweep] at h
    simp only [walked] at hp
    split at hp
    · rename_i hlt
      rw [if_pos hlt] at h
      split at hp
      · rename_i hd; simp [hd] at h
      · rename_i i n hd
        rw [hd] at h
        simp only [Bool.and_eq_true] at h
        rcases List.mem_cons.mp hp with rfl | hp'
        · exact ⟨i, n, hd, (decode_opcode_defined hd).1, h.1⟩
        · exact ih _ h.2 p hp'
    · simp at hp

/-! ### VM control state -/

/-- the control-state invariant of the VM: there is a current frame, at most VM_MAX_FRAMES of
    them, and every frame (and `current_fn`) names an existing function -/
def CtlInv (m : Module) (s : VmState) : Prop :=
  s.frames ≠ [] ∧ s.frames.length ≤ Gen.vmMaxFrames ∧ s.curFn < m.functions.length ∧
    ∀ fr ∈ s.frames, fr.fnIdx < m.functions.length

theorem enterFn_inv (m : Module) (s s' : VmState) (callee : Nat) (cl : Option Nat)
    (hi : CtlInv m s) (h : enterFn m s callee cl = (s', .running)) : CtlInv m s' := by
  unfold enterFn at h
  split at h
  · cases h
  · rename_i fn hfn
    split at h
    · cases h
    · rename_i hfr
      simp only [Prod.mk.injEq, and_true] at h
      subst h
      have hc : callee < m.functions.length := by
        have := List.getElem?_eq_some_iff.mp hfn
        exact this.1
      obtain ⟨_, _, _, h4⟩ := hi
      refine ⟨by simp, by simp at hfr ⊢; omega, hc, ?_⟩
      intro fr hfr'
      rcases List.mem_cons.mp hfr' with rfl | h'
      · exact hc
      · exact h4 fr h'

theorem doRet_inv (m : Module) (s s' : VmState) (imp : Bool)
    (hi : CtlInv m s) (h : doRet s imp = (s', .running)) : CtlInv m s' := by
  obtain ⟨h1, h2, _, h4⟩ := hi
  unfold doRet at h
  cases hfr : s.frames with
  | nil => exact absurd hfr h1
  | cons fr rest =>
    rw [hfr] at h
    simp only at h
    cases hrest : rest with
    | nil => rw [hrest] at h; cases h
    | cons caller tl =>
      rw [hrest] at h
      simp only [Prod.mk.injEq] at h
      obtain ⟨rfl, _⟩ := h
      have hmem : caller ∈ s.frames := by rw [hfr, hrest]; simp
      refine ⟨by simp, ?_, h4 caller hmem, ?_⟩
      · simp only [hfr, hrest, List.length_cons] at h2 ⊢; omega
      · intro f hf
        exact h4 f (by rw [hfr, hrest]; exact List.mem_cons_of_mem _ hf)

theorem enterFn_no_oob (m : Module) (s : VmState) (callee : Nat) (cl : Option Nat) (w : String) :
    (enterFn m s callee cl).2 ≠ .oob w := by
  unfold enterFn
  split
  · simp
  · split <;> simp

theorem doRet_no_oob (s : VmState) (imp : Bool) (hf : s.frames ≠ []) (w : String) :
    (doRet s imp).2 ≠ .oob w := by
  unfold doRet
  cases hfr : s.frames with
  | nil => exact absurd hfr hf
  | cons fr rest =>
    simp only
    cases rest with
    | nil => simp
    | cons caller tl =>
      simp only
      cases imp <;> simp

theorem toOutcome_no_oob (o : DOutcome) (w : String) : o.toOutcome ≠ .oob w := by
  cases o <;> simp [DOutcome.toOutcome]

theorem execInstr_no_oob (m : Module) (s : VmState) (st : Nat) (op : Opc) (args : List Nat)
    (hf : s.frames ≠ []) (w : String) : (execInstr m s st op args).2 ≠ .oob w := by
  unfold execInstr
  split
  · exact toOutcome_no_oob _ w
  · split
    · exact enterFn_no_oob _ _ _ _ w
    · exact doRet_no_oob _ _ hf w
    · simp only
      split
      · split
        · exact enterFn_no_oob _ _ _ _ w
        · simp
      · split <;> simp

theorem execInstr_inv (m : Module) (s s' : VmState) (st : Nat) (op : Opc) (args : List Nat)
    (hi : CtlInv m s) (h : execInstr m s st op args = (s', .running)) : CtlInv m s' := by
  unfold execInstr at h
  split at h
  · simp only [Prod.mk.injEq] at h
    obtain ⟨rfl, _⟩ := h
    exact hi
  · split at h
    · exact enterFn_inv m s s' _ _ hi h
    · exact doRet_inv m s s' _ hi h
    · simp only at h
      split at h
      · split at h
        · refine enterFn_inv m _ s' _ _ ?_ h
          exact hi
        · cases h
      · split at h <;> cases h

/-- the VM's `uint32_t` code end is the exact sum for modules below 4 GiB -/
def SmallCode (m : Module) : Prop := m.code.length < 4294967296

/-- Control safety, one step: on a verified module, from a state satisfying the invariant, the
    VM never indexes outside its frame array, its function table or the code section, and a
    step that keeps running re-establishes the invariant. -/
theorem step_safe (m : Module) (hv : verify m = true) (hs : SmallCode m) (s : VmState) (hi : CtlInv m s) :
    (∀ w, (step m s).2 ≠ .oob w) ∧ (∀ s', step m s = (s', .running) → CtlInv m s') := by
  obtain ⟨hb, _⟩ := verify_structure_bounds m hv
  obtain ⟨h1, h2, h3, h4⟩ := hi
  have hfn : ∃ fn, m.functions[s.curFn]? = some fn := ⟨m.functions[s.curFn], List.getElem?_eq_getElem h3⟩
  obtain ⟨fn, hfn⟩ := hfn
  have hmem : fn ∈ m.functions := List.mem_of_getElem? hfn
  have hle := hb fn hmem
  have hu : u32 (fn.codeOffset + fn.codeLength) = fn.codeOffset + fn.codeLength :=
    Nat.mod_eq_of_lt (by unfold SmallCode at hs; omega)
  have hne : s.frames.isEmpty = false := by
    cases hfr : s.frames with
    | nil => exact absurd hfr h1
    | cons a b => rfl
  unfold step
  rw [hfn]
  simp only [hne, hu, Bool.false_eq_true, if_false]
  constructor
  · intro w
    split
    · rw [if_neg (by omega)]
      split
      · simp
      · split
        · simp
        · refine execInstr_no_oob m _ _ _ _ ?_ w
          exact h1
    · exact doRet_no_oob _ _ h1 w
  · intro s' hstep
    split at hstep
    · rw [if_neg (by omega)] at hstep
      split at hstep
      · cases hstep
      · split at hstep
        · cases hstep
        · refine execInstr_inv m _ s' _ _ _ ?_ hstep
          exact ⟨h1, h2, h3, h4⟩
    · exact doRet_inv m s s' _ ⟨h1, h2, h3, h4⟩ hstep

/-- Control safety for every execution: no number of steps reaches an out-of-bounds access
    (induction over the instruction budget; the budget is what hook H1 gives the real VM). -/
theorem run_safe (m : Module) (hv : verify m = true) (hs : SmallCode m) (fuel : Nat) (s : VmState)
    (hi : CtlInv m s) : ∀ w, (runLoop m fuel s).2 ≠ .oob w := by
  induction fuel generalizing s with
  | zero => intro w; simp [runLoop]
  | succ fuel ih =>
    intro w
    simp only [runLoop]
    obtain ⟨hno, hinv⟩ := step_safe m hv hs s hi
    split
    · rename_i s' hst
      exact ih s' (hinv s' hst) w
    · rename_i r hnr
      have := hno w
      cases hr : step m s with
      | mk s1 o1 =>
        rw [hr] at this
        simpa [hr] using this

/-- entering a function from the harness (`vm_call_function`) establishes the invariant -/
theorem callFunction_inv (m : Module) (s s' : VmState) (f : Nat)
    (hfr : ∀ fr ∈ s.frames, fr.fnIdx < m.functions.length)
    (h : callFunction m s f = (s', .running)) : CtlInv m s' := by
  unfold callFunction at h
  split at h
  · cases h
  · rename_i fn hfn
    split at h
    · cases h
    · rename_i hlen
      simp only [Prod.mk.injEq, and_true] at h
      subst h
      have hc : f < m.functions.length := (List.getElem?_eq_some_iff.mp hfn).1
      refine ⟨by simp, by simp at hlen ⊢; omega, hc, ?_⟩
      intro fr hm
      rcases List.mem_cons.mp hm with rfl | h'
      · exact hc
      · exact hfr fr h'

/-! ### whole executions: `vm_execute` on a verified module -/

/-- every frame names an existing function (the part of `CtlInv` that survives a stop) -/
def FramesOk (m : Module) (s : VmState) : Prop := ∀ fr ∈ s.frames, fr.fnIdx < m.functions.length

theorem enterFn_framesOk (m : Module) (s : VmState) (callee : Nat) (cl : Option Nat) (h : FramesOk m s) :
    FramesOk m (enterFn m s callee cl).1 := by
  unfold enterFn
  split
  · exact h
  · rename_i fn hfn
    split
    · exact h
    · intro fr hm
      rcases List.mem_cons.mp hm with rfl | h'
      · exact (List.getElem?_eq_some_iff.mp hfn).1
      · exact h fr h'

theorem doRet_frames (s : VmState) (imp : Bool) : (doRet s imp).1.frames = s.frames ∨ (doRet s imp).1.frames = s.frames.tail := by
  unfold doRet
  cases hfr : s.frames with
  | nil => left; simp only; split <;> exact hfr
  | cons fr rest =>
    right
    simp only
    cases rest with
    | nil => rfl
    | cons caller tl => rfl

theorem doRet_framesOk (m : Module) (s : VmState) (imp : Bool) (h : FramesOk m s) : FramesOk m (doRet s imp).1 := by
  intro f hf
  rcases doRet_frames s imp with e | e
  · rw [e] at hf; exact h f hf
  · rw [e] at hf; exact h f (List.mem_of_mem_tail hf)

theorem execInstr_framesOk (m : Module) (s : VmState) (st : Nat) (op : Opc) (args : List Nat) (h : FramesOk m s) :
    FramesOk m (execInstr m s st op args).1 := by
  unfold execInstr
  split
  · exact h
  · split
    · exact enterFn_framesOk m s _ _ h
    · exact doRet_framesOk m s _ h
    · split
      rename_i c f hpop
      dsimp only
      split
      · split
        · exact enterFn_framesOk m { s with toCore := c } _ _ h
        · exact h
      · split <;> exact h

theorem step_framesOk (m : Module) (s : VmState) (h : FramesOk m s) : FramesOk m (step m s).1 := by
  unfold step
  split
  · exact h
  · dsimp only
    split
    · exact h
    · split
      · split
        · exact h
        · split
          · exact h
          · split
            · exact h
            · exact execInstr_framesOk m { s with ip := _ } _ _ _ h
      · exact doRet_framesOk m s true h

theorem runLoop_framesOk (m : Module) : ∀ (fuel : Nat) (s : VmState), FramesOk m s → FramesOk m (runLoop m fuel s).1 := by
  intro fuel
  induction fuel with
  | zero => intro s h; exact h
  | succ n ih =>
    intro s h
    have hs := step_framesOk m s h
    unfold runLoop
    split
    · rename_i s' heq; rw [heq] at hs; exact ih s' hs
    · exact hs

theorem callFunction_no_oob (m : Module) (s : VmState) (f : Nat) (w : String) : (callFunction m s f).2 ≠ .oob w := by
  unfold callFunction; (repeat' split) <;> simp

theorem callFunction_framesOk (m : Module) (s : VmState) (f : Nat) (h : FramesOk m s) : FramesOk m (callFunction m s f).1 := by
  unfold callFunction
  split
  · exact h
  · rename_i fn hfn
    split
    · exact h
    · intro fr hm
      rcases List.mem_cons.mp hm with rfl | h'
      · exact (List.getElem?_eq_some_iff.mp hfn).1
      · exact h fr h'

/-- one `vm_call_function` + dispatch loop, as `vm_execute` runs `__init__` and the entry point -/
theorem runFn_safe (m : Module) (hv : verify m = true) (hs : SmallCode m) (s : VmState) (f fl : Nat) (hf : FramesOk m s)
    (r : Step × Nat)
    (hr : (match callFunction m s f with
            | (s', Outcome.running) => (runLoop m fl s', fuelLeft m fl s')
            | r => (r, fl)) = r) : (∀ w, r.1.2 ≠ .oob w) ∧ FramesOk m r.1.1 := by
  subst hr
  split
  · rename_i s' heq
    have hi := callFunction_inv m s s' f hf heq
    exact ⟨run_safe m hv hs fl s' hi, runLoop_framesOk m fl s' hi.2.2.2⟩
  · rename_i r hne
    exact ⟨fun w => callFunction_no_oob m s f w, callFunction_framesOk m s f hf⟩

/-- **`vm_execute` on a verified module never leaves its tables and never touches freed memory**: for every
    accepted module and every instruction budget the outcome is a normal result, a reported VM error or the
    model's `unsupported` (floats, hashmaps, extern calls, budget exhausted) - never an index outside the frame
    array, the function table or the code section, and never (this half needs no verifier, see C14) a
    dangling heap reference -/
theorem execute_safe (m : Module) (hv : verify m = true) (hs : SmallCode m) (fuel : Nat) (w : String) :
    (execute m fuel).2 ≠ .oob w ∧ (execute m fuel).2 ≠ .dangling w := by
  refine ⟨?_, C14.execute_never_dangling m fuel w⟩
  have h0 : FramesOk m {} := by intro fr hfr; simp at hfr
  unfold execute
  simp only
  split
  · simp
  · split
    · simp
    · split
      · rename_i i hi
        split
        · rename_i s1 fuel' heq
          have h1 := (runFn_safe m hv hs {} i fuel h0 _ heq).2
          exact (runFn_safe m hv hs s1 m.entryPoint fuel' h1 _ rfl).1 w
        · rename_i r x hne heq
          exact (runFn_safe m hv hs {} i fuel h0 _ heq).1 w
      · exact (runFn_safe m hv hs {} m.entryPoint fuel h0 _ rfl).1 w

/-! ### arithmetic is total -/

/-- integer division and remainder as the (repaired) VM computes them: defined for every pair
    of 64-bit operands, including a zero divisor and INT64_MIN / −1 -/
def vmDiv (x y : I64) : I64 := if y == 0 then 0 else x.sdiv y
def vmMod (x y : I64) : I64 := if y == 0 then 0 else x.srem y

theorem div_min_neg1 : vmDiv (BitVec.ofInt 64 (-9223372036854775808)) (BitVec.ofInt 64 (-1))
    = BitVec.ofInt 64 (-9223372036854775808) := by decide
theorem mod_min_neg1 : vmMod (BitVec.ofInt 64 (-9223372036854775808)) (BitVec.ofInt 64 (-1)) = 0 := by decide

/-- every arithmetic opcode on two integers pushes an integer and keeps running: no trap, no
    signal, for all 2^128 operand pairs -/
theorem vm_arith_total (c : Core) (x y : I64) (op : Opc)
    (hop : op = .ADD ∨ op = .SUB ∨ op = .MUL ∨ op = .DIV ∨ op = .MOD) :
    ∃ r : I64, binArith ((c.push (.int x)).push (.int y)) op = (c.push (.int r), .running) := by
  have hpop : ∀ (c : Core) (v : Val), (c.push v).pop = (c, v) := by
    intro c v
    simp [Core.push, Core.pop]
  rcases hop with rfl | rfl | rfl | rfl | rfl <;>
    simp [binArith, hpop, coerceEnum, cont] <;> exact ⟨_, rfl⟩

/- non-vacuity -/
def tiny : Module where
  flags := 1
  strings := [[109, 97, 105, 110]]
  code := [5, 0x3D]
  functions := [{ nameIdx := 0, arity := 0, codeOffset := 0, codeLength := 2, localCount := 0, upvalueCount := 0 }]

example : verify tiny = true := by decide +kernel
example : SmallCode tiny := by unfold SmallCode; decide
/-- the harness entry establishes the invariant on a real module, so `run_safe` applies -/
example : ∃ s', callFunction tiny {} 0 = (s', .running) ∧ CtlInv tiny s' :=
  ⟨_, rfl, callFunction_inv tiny {} _ 0 (by simp) rfl⟩

end NanoVerif.C13
