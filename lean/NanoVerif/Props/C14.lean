/-
C14 — the VM heap never frees or loses count of a referenced object (property theorems only).
`RcInv roots heap extra`: every live object's count ≥ the number of references from the roots
(operand stack incl. locals, globals, frame closures), from live objects and from `extra`
(values the handler holds in C locals).  `Closed`: no reference to a dead address.
-/
import NanoVerif.Lemmas.HeapInv
import NanoVerif.Model.Vm
namespace NanoVerif.C14
open Gen (Opc)

/-- roots of a VM state -/
def rootsOf (c : Core) (frames : List Frame) : List Val :=
  c.stack ++ c.globals ++ frames.filterMap (fun fr => fr.closure.map Val.clos)

/-- the heap invariant of a VM state (at an instruction boundary nothing is held in C locals) -/
structure HeapOk (c : Core) (frames : List Frame) : Prop where
  nodup : c.heap.keys.Nodup
  fresh : ∀ k ∈ c.heap.keys, k < c.heap.next
  clean : c.heap.dangling = false
  rc : RcInv (rootsOf c frames) c.heap []
  closed : Closed (rootsOf c frames) c.heap []

theorem heap_ok_init : HeapOk {} [] := by
  refine ⟨by simp [Heap.keys], by simp [Heap.keys], rfl, ?_, ?_⟩
  · intro p hp; simp at hp
  · intro a ha; simp [rootsOf, heapRefs] at ha

/-- No dangling value, count at least in-degree: what `HeapOk` means for a reachable state. -/
theorem no_dangling (c : Core) (frames : List Frame) (h : HeapOk c frames) :
    (∀ v ∈ rootsOf c frames, ∀ a, v.addr? = some a → ∃ cell, c.heap.get? a = some cell) ∧
    (∀ a cell, c.heap.get? a = some cell →
      (refsOf (rootsOf c frames) ++ heapRefs c.heap).count a ≤ cell.rc) := by
  constructor
  · intro v hv a ha
    apply Heap.mem_key_get?
    apply h.closed a
    simp only [refsOf_nil, List.append_nil, List.mem_append]
    left
    show a ∈ List.filterMap Val.addr? (rootsOf c frames)
    exact List.mem_filterMap.mpr ⟨v, hv, ha⟩
  · intro a cell hg
    have := h.rc (a, cell) (Heap.get?_some_mem hg)
    simpa using this

/-- `vm_release` (recursive, any work list): objects are freed only when nothing references them
    any more, nothing dead is touched, the invariant is kept. -/
theorem release_safe (roots : List Val) (h : Heap) (ws extra : List Val) (hn : h.keys.Nodup)
    (hi : RcInv roots h (ws ++ extra)) (hc : Closed roots h (ws ++ extra)) :
    RcInv roots (h.release ws) extra ∧ Closed roots (h.release ws) extra ∧ (h.release ws).keys.Nodup
      ∧ (h.release ws).dangling = h.dangling :=
  let ⟨a, b, c, d, _⟩ := release_inv roots h ws extra hn hi hc
  ⟨a, b, c, d⟩

/-- an object is released exactly once: an address that left the heap never comes back, because
    allocation hands out strictly increasing ids -/
theorem freed_once (h : Heap) (o : Obj) (a : Nat) (hfresh : ∀ k ∈ h.keys, k < h.next) (hdead : a < h.next) (hna : a ∉ h.keys) :
    a ∉ (h.alloc o).1.keys ∧ (h.alloc o).2 ≠ a := by
  unfold Heap.alloc Heap.keys at *
  simp only [List.map_append, List.map_cons, List.map_nil, List.mem_append, List.mem_singleton, not_or]
  exact ⟨⟨hna, by omega⟩, by omega⟩

/-! ### instruction handlers -/

theorem pop_spec (c : Core) : (c.pop.1.stack ++ (if c.stack = [] then [] else [c.pop.2]) = c.stack) ∧
    (c.stack = [] → c.pop.2 = .void) ∧ c.pop.1.heap = c.heap ∧ c.pop.1.globals = c.globals := by
  unfold Core.pop
  cases hl : c.stack.getLast? with
  | none =>
    have : c.stack = [] := List.getLast?_eq_none_iff.mp hl
    simp [this]
  | some v =>
    have hne : c.stack ≠ [] := by intro e; simp [e] at hl
    refine ⟨?_, fun e => absurd e hne, rfl, rfl⟩
    simp only [hne, if_false]
    obtain ⟨ys, hys⟩ := List.getLast?_eq_some_iff.mp hl
    rw [hys]; simp

/-- POP / GC_RELEASE keep the heap invariant -/
theorem pop_ok (c : Core) (frames : List Frame) (h : HeapOk c frames) :
    HeapOk ((c.pop.1).release c.pop.2) frames := by
  obtain ⟨hs, hv, hh, hg⟩ := pop_spec c
  have hroots : ∀ x, (refsOf (rootsOf c.pop.1 frames) ++ refsOf [c.pop.2]).count x ≤ (refsOf (rootsOf c frames) ++ refsOf []).count x := by
    intro x
    unfold rootsOf
    rw [hg, ← hs]
    by_cases he : c.stack = []
    · simp only [he, if_true, List.append_nil]
      rw [hv he]
      have : List.filterMap Val.addr? [Val.void] = [] := rfl
      simp [refsOf, this]
    · simp only [he, if_false, refsOf_append, List.count_append, refsOf_nil, List.count_nil]
      omega
  have hmem : ∀ x, x ∈ refsOf (rootsOf c.pop.1 frames) ++ refsOf [c.pop.2] → x ∈ refsOf (rootsOf c frames) ++ refsOf [] := by
    intro x hx
    have := hroots x
    have hp : 0 < (refsOf (rootsOf c.pop.1 frames) ++ refsOf [c.pop.2]).count x := List.count_pos_iff.mpr hx
    exact List.count_pos_iff.mp (by omega)
  have hi' : RcInv (rootsOf c.pop.1 frames) c.pop.1.heap ([c.pop.2] ++ []) := by
    rw [hh]; exact RcInv_of_count _ _ _ _ _ hroots h.rc
  have hc' : Closed (rootsOf c.pop.1 frames) c.pop.1.heap ([c.pop.2] ++ []) := by
    rw [hh]; exact Closed_of_mem _ _ _ _ _ hmem h.closed
  obtain ⟨r1, r2, r3, r4, r5⟩ := release_inv (rootsOf c.pop.1 frames) c.pop.1.heap [c.pop.2] [] (by rw [hh]; exact h.nodup) hi' hc'
  unfold Core.release Heap.release1
  refine ⟨r3, ?_, by rw [r4, hh]; exact h.clean, r1, r2⟩
  intro k hk
  rw [r5, hh]
  exact h.fresh k (by rw [← hh]; exact release_keys_subset _ _ k hk)

theorem peek_mem (c : Core) : c.peek 0 = .void ∨ c.peek 0 ∈ c.stack := by
  unfold Core.peek
  by_cases h : 0 ≥ c.stack.length
  · simp [h]
  · right
    simp only [h, if_false]
    have hlt : c.stack.length - 1 - 0 < c.stack.length := by omega
    rw [List.getD_eq_getElem?_getD, List.getElem?_eq_getElem hlt]
    simp

/-- DUP (peek, retain, push) keeps the heap invariant: the new stack slot is a counted reference -/
theorem dup_ok (c : Core) (frames : List Frame) (h : HeapOk c frames) :
    HeapOk ((c.retain (c.peek 0)).push (c.peek 0)) frames := by
  have hlive : ∀ a, (c.peek 0).addr? = some a → a ∈ c.heap.keys := by
    intro a ha
    rcases peek_mem c with hv | hm
    · rw [hv] at ha; cases ha
    · apply h.closed a
      simp only [refsOf_nil, List.append_nil, List.mem_append]
      left
      show a ∈ List.filterMap Val.addr? (rootsOf c frames)
      exact List.mem_filterMap.mpr ⟨_, by unfold rootsOf; simp [hm], ha⟩
  obtain ⟨r1, r2, r3, r4, r5⟩ := retain_inv (rootsOf c frames) c.heap (c.peek 0) [] h.nodup h.rc h.closed hlive
  have hroots : rootsOf ((c.retain (c.peek 0)).push (c.peek 0)) frames
      = c.stack ++ [c.peek 0] ++ c.globals ++ frames.filterMap (fun fr => fr.closure.map Val.clos) := by
    simp [rootsOf, Core.push, Core.retain]
  have hheap : ((c.retain (c.peek 0)).push (c.peek 0)).heap = c.heap.retain (c.peek 0) := by
    simp [Core.push, Core.retain]
  refine ⟨by rw [hheap]; exact r3, ?_, by rw [hheap, r4]; exact h.clean, ?_, ?_⟩
  · intro k hk
    rw [hheap] at hk ⊢
    rw [r5]
    have : (c.heap.retain (c.peek 0)).keys = c.heap.keys := by
      unfold Heap.retain
      cases (c.peek 0).addr? with
      | none => rfl
      | some a =>
        simp only
        cases c.heap.get? a with
        | none => rfl
        | some cell => simp only; exact keys_set _ _ _
    rw [this] at hk
    exact h.fresh k hk
  · rw [hheap, hroots]
    refine RcInv_of_count (rootsOf c frames) _ _ [c.peek 0] [] ?_ r1
    intro x
    simp only [rootsOf, refsOf_append, List.count_append, refsOf_nil, List.count_nil]
    omega
  · rw [hheap, hroots]
    refine Closed_of_mem (rootsOf c frames) _ _ [c.peek 0] [] ?_ r2
    intro x hx
    simp only [rootsOf, refsOf_append, List.mem_append, refsOf_nil, List.not_mem_nil, or_false] at hx ⊢
    rcases hx with ((h1 | h1) | h1) | h1
    · exact Or.inl (Or.inl (Or.inl h1))
    · exact Or.inr h1
    · exact Or.inl (Or.inl (Or.inr h1))
    · exact Or.inl (Or.inr h1)

/-- pushing a non-reference (all PUSH_* constants, ENUM_VAL, OPAQUE_NULL) keeps the invariant -/
theorem push_scalar_ok (c : Core) (frames : List Frame) (v : Val) (hv : v.addr? = none) (h : HeapOk c frames) :
    HeapOk (c.push v) frames := by
  have hroots : ∀ x, (refsOf (rootsOf (c.push v) frames) ++ refsOf []).count x ≤ (refsOf (rootsOf c frames) ++ refsOf []).count x := by
    intro x
    have : refsOf [v] = [] := by rw [refsOf_cons, hv]; rfl
    simp only [rootsOf, Core.push, refsOf_append, List.count_append, this, List.count_nil]
    omega
  have hmem : ∀ x, x ∈ refsOf (rootsOf (c.push v) frames) ++ refsOf [] → x ∈ refsOf (rootsOf c frames) ++ refsOf [] := by
    intro x hx
    have := hroots x
    have hp : 0 < (refsOf (rootsOf (c.push v) frames) ++ refsOf []).count x := List.count_pos_iff.mpr hx
    exact List.count_pos_iff.mp (by omega)
  exact ⟨h.nodup, h.fresh, h.clean, RcInv_of_count _ _ _ _ _ hroots h.rc, Closed_of_mem _ _ _ _ _ hmem h.closed⟩

/- non-vacuity: a state with a shared string (two stack slots, count 2) satisfies the invariant -/
example : HeapOk { stack := [.str 0, .str 0, .int 5], heap := { cells := [(0, { rc := 2, obj := .str [104] })], next := 1 } } [] := by
  refine ⟨by decide, by decide, rfl, ?_, ?_⟩
  · intro p hp
    simp only [List.mem_singleton] at hp
    subst hp; decide
  · intro a ha
    have : a = 0 := by
      simp [rootsOf, refsOf, heapRefs, Val.addr?, Obj.kids] at ha
      exact ha
    subst this; decide

end NanoVerif.C14
