/-
C14 — the VM heap never frees or loses count of a referenced object (property theorems only;
the lemmas are in Lemmas/HeapInv, HeapStep, HeapOps, HeapRun).

`HeapOk s` (= `VOK s` = `HX (rootsOf s) s.heap []`): at an instruction boundary
  * every live object's count is at least the number of references to it from the operand stack
    (locals included), the globals, the closures of the active frames and from other live objects (`rc`),
  * everything referenced from there is live (`closed`) - no dangling value,
  * the object behind a value has the value's kind (`kinds`),
  * addresses are unique, allocation ids only grow, the `dangling` flag (set whenever the C code would
    touch a freed object) is clear.
The theorems say that this holds in the initial state, is kept by every instruction of the VM model
for every operand, stack height and heap, hence holds in every reachable state of every module, with
or without verifier, for any instruction budget.
-/
import NanoVerif.Lemmas.HeapRun
namespace NanoVerif.C14
open Gen (Opc)

/-- the heap invariant of a VM state -/
abbrev HeapOk (s : VmState) : Prop := VOK s

theorem heap_ok_init : HeapOk {} := vok_init

/-- what `HeapOk` means for a state: every value reachable from the stack, a local, a global, a frame's
    closure or a live object points at a live object of its kind, and every live object's count is at least
    the number of such references -/
theorem no_dangling (s : VmState) (h : HeapOk s) :
    (∀ v ∈ rootsOf s.toCore s.frames, ∀ a, v.addr? = some a →
        ∃ cell, s.heap.get? a = some cell ∧ v.okind = some cell.obj.kind) ∧
    (∀ a cell, s.heap.get? a = some cell → ∀ v ∈ cell.obj.kids, ∀ b, v.addr? = some b →
        ∃ cell', s.heap.get? b = some cell' ∧ v.okind = some cell'.obj.kind) ∧
    (∀ a cell, s.heap.get? a = some cell →
        (refsOf (rootsOf s.toCore s.frames) ++ heapRefs s.heap).count a ≤ cell.rc) ∧
    s.heap.dangling = false := by
  refine ⟨?_, ?_, ?_, h.clean⟩
  · intro v hv a ha
    obtain ⟨cell, hg⟩ := Heap.mem_key_get? (HX.live h (List.mem_append.mpr (Or.inl hv)) ha)
    exact ⟨cell, hg, h.kinds.1 v (List.mem_append.mpr (Or.inl hv)) a cell ha (Heap.get?_some_mem hg)⟩
  · intro a cell hg v hv b hb
    have hm := Heap.get?_some_mem hg
    obtain ⟨cell', hg'⟩ := Heap.mem_key_get? (HX.live_kid h hm hv hb)
    exact ⟨cell', hg', h.kinds.2 (a, cell) hm v hv b cell' hb (Heap.get?_some_mem hg')⟩
  · intro a cell hg
    have := h.rc (a, cell) (Heap.get?_some_mem hg)
    simpa using this

/-- `vm_release` (recursive, any work list): objects are freed only when nothing references them
    any more, nothing dead is touched, the invariant is kept -/
theorem release_safe (roots : List Val) (h : Heap) (ws extra : List Val) (hn : h.keys.Nodup)
    (hi : RcInv roots h (ws ++ extra)) (hc : Closed roots h (ws ++ extra)) :
    RcInv roots (h.release ws) extra ∧ Closed roots (h.release ws) extra ∧ (h.release ws).keys.Nodup
      ∧ (h.release ws).dangling = h.dangling :=
  let ⟨a, b, c, d, _⟩ := release_inv roots h ws extra hn hi hc
  ⟨a, b, c, d⟩

/-- an object is released exactly once: an address that left the heap never comes back, because
    allocation hands out strictly increasing ids -/
theorem freed_once (h : Heap) (o : Obj) (a : Nat) (hfresh : ∀ k ∈ h.keys, k < h.next) (hdead : a < h.next) (hna : a ∉ h.keys) :
    a ∉ (h.alloc o).1.keys ∧ (h.alloc o).2 ≠ a := by
  unfold Heap.alloc Heap.keys at *
  simp only [List.map_append, List.map_cons, List.map_nil, List.mem_append, List.mem_singleton, not_or]
  exact ⟨⟨hna, by omega⟩, by omega⟩

/-- `vm_release(old); slot = new` on a child of an object somebody still holds (ARR_SET, ARR_REMOVE,
    STRUCT_SET, STORE_UPVALUE release the old child while the container still points at it): the release can
    never free the container itself, and the result is the same as taking the child out first -/
theorem release_then_store (h : Heap) (ws : List Val) (a : Nat) (o : Obj) (halive : a ∈ (h.release ws).keys) :
    (h.setObj a o).release ws = (h.release ws).setObj a o :=
  release_setObj h ws a o halive

/-- **every data instruction keeps the heap invariant**: all opcodes of `vm_core_execute` other than the four
    call/return instructions (strings, arrays, structs, unions, tuples, closures, upvalues, casts, printing,
    arithmetic on any operand kinds), for every operand, stack height and heap - including stacks that are too
    short, wrong operand kinds and indices out of range -/
theorem instr_heap_ok (m : Module) (s : VmState) (is : Nat) (op : Opc) (args : List Nat) (h : HeapOk s) :
    OK (execData' m (s.frames.headD default) s.toCore is op args).1 s.frames :=
  execData_ok m _ s.toCore s.frames is args op (hfr_head s.frames) h

/-- **one iteration of the dispatch loop keeps the heap invariant**: fetch and decode, any instruction
    (CALL, CALL_INDIRECT, CLOSURE_CALL with the closure reference moving into the frame, RET with the release
    of the frame's slots and closure), decode errors, the implicit return at the end of a function -/
theorem step_heap_ok (m : Module) (s : VmState) (h : HeapOk s) : HeapOk (step m s).1 := step_ok m s h

/-- the state after `n` iterations of the dispatch loop (stops when the core leaves `running`) -/
def stepN (m : Module) : Nat → VmState → VmState
  | 0, s => s
  | n+1, s => match step m s with
    | (s', .running) => stepN m n s'
    | (s', _) => s'

/-- **the invariant holds in every reachable state**: after any number of instructions from any state that
    satisfies it, for any module whatsoever (verified or not) -/
theorem reachable_heap_ok (m : Module) (n : Nat) : ∀ s, HeapOk s → HeapOk (stepN m n s) := by
  induction n with
  | zero => intro s h; exact h
  | succ k ih =>
    intro s h
    have hs := step_heap_ok m s h
    unfold stepN
    split
    · rename_i s' heq; rw [heq] at hs; exact ih s' hs
    · rename_i s' o hne heq; rw [heq] at hs; exact hs

/-- **`vm_execute` on any module, with any instruction budget, ends in a state that satisfies the invariant**
    (`__init__`, entry point, frames, traps) -/
theorem execute_heap_ok (m : Module) (fuel : Nat) : HeapOk (execute m fuel).1 := execute_ok m fuel

/-- **no program can observe a dangling value**: the model's outcome `dangling` - raised wherever the C code
    would dereference a freed object or find an object of another kind behind a value - is unreachable -/
theorem never_dangling (m : Module) (fuel : Nat) (w : String) : (execute m fuel).2 ≠ .dangling w :=
  execute_never_dangling m fuel w

/- non-vacuity: a state with a string shared by two stack slots and by an array element (count 3), and the
   array held by a global, satisfies the invariant -/
example : HeapOk { stack := [.str 0, .str 0, .int 5], globals := [.arr 1],
                   heap := { cells := [(0, { rc := 3, obj := .str [104] }), (1, { rc := 1, obj := .arr 0 [.str 0] })], next := 2 } } := by
  refine ⟨by decide, by decide, rfl, ?_, ?_, ?_⟩
  · intro p hp
    simp only [List.mem_cons, List.mem_nil_iff, or_false] at hp
    rcases hp with rfl | rfl <;> decide
  · intro a ha
    have : a = 0 ∨ a = 1 := by
      simp [rootsOf, refsOf, heapRefs, Val.addr?, Obj.kids] at ha
      omega
    rcases this with rfl | rfl <;> decide
  · constructor
    · intro v hv a c ha hm
      simp [rootsOf] at hv
      simp only [List.mem_cons, List.mem_nil_iff, or_false] at hm
      rcases hv with rfl | rfl | rfl <;> rcases hm with hm | hm <;> simp_all [Val.addr?, Val.okind, Obj.kind]
    · intro p hp v hv a c ha hm
      simp only [List.mem_cons, List.mem_nil_iff, or_false] at hp hm
      rcases hp with rfl | rfl <;> simp [Obj.kids] at hv
      subst hv
      rcases hm with hm | hm <;> simp_all [Val.addr?, Val.okind, Obj.kind]

/- and a state whose count is too low does not -/
example : ¬ HeapOk { stack := [.str 0, .str 0], heap := { cells := [(0, { rc := 1, obj := .str [104] })], next := 1 } } := by
  intro h
  have := h.rc (0, { rc := 1, obj := .str [104] }) (by simp)
  revert this; decide

end NanoVerif.C14
