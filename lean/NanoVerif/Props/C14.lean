/-
C14 — the VM heap never frees or loses count of a referenced object (property theorems only).
`RcInv roots heap extra`: every live object's count ≥ the number of references from the roots
(operand stack incl. locals, globals, frame closures), from live objects and from `extra`
(values the handler holds in C locals).  `Closed`: no reference to a dead address.
-/
import NanoVerif.Lemmas.HeapInv
import NanoVerif.Model.Vm
namespace NanoVerif.C14
open Gen (Opc)

/-- roots of a VM state -/
def rootsOf (c : Core) (frames : List Frame) : List Val :=
  c.stack ++ c.globals ++ frames.filterMap (fun fr => fr.closure.map Val.clos)

/-- the heap invariant of a VM state (at an instruction boundary nothing is held in C locals) -/
structure HeapOk (c : Core) (frames : List Frame) : Prop where
  nodup : c.heap.keys.Nodup
  fresh : ∀ k ∈ c.heap.keys, k < c.heap.next
  clean : c.heap.dangling = false
  rc : RcInv (rootsOf c frames) c.heap []
  closed : Closed (rootsOf c frames) c.heap []

theorem heap_ok_init : HeapOk {} [] := by
  refine ⟨by simp [Heap.keys], by simp [Heap.keys], rfl, ?_, ?_⟩
  · intro p hp; simp at hp
  · intro a ha; simp [rootsOf, heapRefs] at ha

/-- No dangling value, count at least in-degree: what `HeapOk` means for a reachable state. -/
theorem no_dangling (c : Core) (frames : List Frame) (h : HeapOk c frames) :
    (∀ v ∈ rootsOf c frames, ∀ a, v.addr? = some a → ∃ cell, c.heap.get? a = some cell) ∧
    (∀ a cell, c.heap.get? a = some cell →
      (refsOf (rootsOf c frames) ++ heapRefs c.heap).count a ≤ cell.rc) := by
  constructor
  · intro v hv a ha
    apply Heap.mem_key_get?
    apply h.closed a
    simp only [refsOf_nil, List.append_nil, List.mem_append]
    left
    show a ∈ List.filterMap Val.addr? (rootsOf c frames)
    exact List.mem_filterMap.mpr ⟨v, hv, ha⟩
  · intro a cell hg
    have := h.rc (a, cell) (Heap.get?_some_mem hg)
    simpa using this

/-- `vm_release` (recursive, any work list): objects are freed only when nothing references them
    any more, nothing dead is touched, the invariant is kept. -/
theorem release_safe (roots : List Val) (h : Heap) (ws extra : List Val) (hn : h.keys.Nodup)
    (hi : RcInv roots h (ws ++ extra)) (hc : Closed roots h (ws ++ extra)) :
    RcInv roots (h.release ws) extra ∧ Closed roots (h.release ws) extra ∧ (h.release ws).keys.Nodup
      ∧ (h.release ws).dangling = h.dangling :=
  let ⟨a, b, c, d, _⟩ := release_inv roots h ws extra hn hi hc
  ⟨a, b, c, d⟩

/-- an object is released exactly once: an address that left the heap never comes back, because
    allocation hands out strictly increasing ids -/
theorem freed_once (h : Heap) (o : Obj) (a : Nat) (hfresh : ∀ k ∈ h.keys, k < h.next) (hdead : a < h.next) (hna : a ∉ h.keys) :
    a ∉ (h.alloc o).1.keys ∧ (h.alloc o).2 ≠ a := by
  unfold Heap.alloc Heap.keys at *
  simp only [List.map_append, List.map_cons, List.map_nil, List.mem_append, List.mem_singleton, not_or]
  exact ⟨⟨hna, by omega⟩, by omega⟩

/-! ### instruction handlers -/

theorem pop_spec (c : Core) : (c.pop.1.stack ++ (if c.stack = [] then [] else [c.pop.2]) = c.stack) ∧
    (c.stack = [] → c.pop.2 = .void) ∧ c.pop.1.heap = c.heap ∧ c.pop.1.globals = c.globals := by
  unfold Core.pop
  cases hl : c.stack.getLast? with
  | none =>
    have : c.stack = [] := List.getLast?_eq_none_iff.mp hl
    simp [this]
  | some v =>
    have hne : c.stack ≠ [] := by intro e; simp [e] at hl
    refine ⟨?_, fun e => absurd e hne, rfl, rfl⟩
    simp only [hne, if_false]
    obtain ⟨ys, hys⟩ := List.getLast?_eq_some_iff.mp hl
    rw [hys]; simp

/-- POP / GC_RELEASE keep the heap invariant -/
theorem pop_ok (c : Core) (frames : List Frame) (h : HeapOk c frames) :
    HeapOk ((c.pop.1).release c.pop.2) frames := by
  obtain ⟨hs, hv, hh, hg⟩ := pop_spec c
  have hroots : ∀ x, (refsOf (rootsOf c.pop.1 frames) ++ refsOf [c.pop.2]).count x ≤ (refsOf (rootsOf c frames) ++ refsOf []).count x := by
    intro x
    unfold rootsOf
    rw [hg, ← hs]
    by_cases he : c.stack = []
    · simp only [he, if_true, List.append_nil]
      rw [hv he]
      have : List.filterMap Val.addr? [Val.void] = [] := rfl
      simp [refsOf, this]
    · simp only [he, if_false, refsOf_append, List.count_append, refsOf_nil, List.count_nil]
      omega
  have hmem : ∀ x, x ∈ refsOf (rootsOf c.pop.1 frames) ++ refsOf [c.pop.2] → x ∈ refsOf (rootsOf c frames) ++ refsOf [] := by
    intro x hx
    have := hroots x
    have hp : 0 < (refsOf (rootsOf c.pop.1 frames) ++ refsOf [c.pop.2]).count x := List.count_pos_iff.mpr hx
    exact List.count_pos_iff.mp (by omega)
  have hi' : RcInv (rootsOf c.pop.1 frames) c.pop.1.heap ([c.pop.2] ++ []) := by
    rw [hh]; exact RcInv_of_count _ _ _ _ _ hroots h.rc
  have hc' : Closed (rootsOf c.pop.1 frames) c.pop.1.heap ([c.pop.2] ++ []) := by
    rw [hh]; exact Closed_of_mem _ _ _ _ _ hmem h.closed
  obtain ⟨r1, r2, r3, r4, r5⟩ := release_inv (rootsOf c.pop.1 frames) c.pop.1.heap [c.pop.2] [] (by rw [hh]; exact h.nodup) hi' hc'
  unfold Core.release Heap.release1
  refine ⟨r3, ?_, by rw [r4, hh]; exact h.clean, r1, r2⟩
  intro k hk
  rw [r5, hh]
  exact h.fresh k (by rw [← hh]; exact release_keys_subset _ _ k hk)

theorem peek_mem (c : Core) : c.peek 0 = .void ∨ c.peek 0 ∈ c.stack := by
  unfold Core.peek
  by_cases h : 0 ≥ c.stack.length
  · simp [h]
  · right
    simp only [h, if_false]
    have hlt : c.stack.length - 1 - 0 < c.stack.length := by omega
    rw [List.getD_eq_getElem?_getD, List.getElem?_eq_getElem hlt]
    simp

/-- DUP (peek, retain, push) keeps the heap invariant: the new stack slot is a counted reference -/
theorem dup_ok (c : Core) (frames : List Frame) (h : HeapOk c frames) :
    HeapOk ((c.retain (c.peek 0)).push (c.peek 0)) frames := by
  have hlive : ∀ a, (c.peek 0).addr? = some a → a ∈ c.heap.keys := by
    intro a ha
    rcases peek_mem c with hv | hm
    · rw [hv] at ha; cases ha
    · apply h.closed a
      simp only [refsOf_nil, List.append_nil, List.mem_append]
      left
      show a ∈ List.filterMap Val.addr? (rootsOf c frames)
      exact List.mem_filterMap.mpr ⟨_, by unfold rootsOf; simp [hm], ha⟩
  obtain ⟨r1, r2, r3, r4, r5⟩ := retain_inv (rootsOf c frames) c.heap (c.peek 0) [] h.nodup h.rc h.closed hlive
  have hroots : rootsOf ((c.retain (c.peek 0)).push (c.peek 0)) frames
      = c.stack ++ [c.peek 0] ++ c.globals ++ frames.filterMap (fun fr => fr.closure.map Val.clos) := by
    simp [rootsOf, Core.push, Core.retain]
  have hheap : ((c.retain (c.peek 0)).push (c.peek 0)).heap = c.heap.retain (c.peek 0) := by
    simp [Core.push, Core.retain]
  refine ⟨by rw [hheap]; exact r3, ?_, by rw [hheap, r4]; exact h.clean, ?_, ?_⟩
  · intro k hk
    rw [hheap] at hk ⊢
    rw [r5]
    have : (c.heap.retain (c.peek 0)).keys = c.heap.keys := by
      unfold Heap.retain
      cases (c.peek 0).addr? with
      | none => rfl
      | some a =>
        simp only
        cases c.heap.get? a with
        | none => rfl
        | some cell => simp only; exact keys_set _ _ _
    rw [this] at hk
    exact h.fresh k hk
  · rw [hheap, hroots]
    refine RcInv_of_count (rootsOf c frames) _ _ [c.peek 0] [] ?_ r1
    intro x
    simp only [rootsOf, refsOf_append, List.count_append, refsOf_nil, List.count_nil]
    omega
  · rw [hheap, hroots]
    refine Closed_of_mem (rootsOf c frames) _ _ [c.peek 0] [] ?_ r2
    intro x hx
    simp only [rootsOf, refsOf_append, List.mem_append, refsOf_nil, List.not_mem_nil, or_false] at hx ⊢
    rcases hx with ((h1 | h1) | h1) | h1
    · exact Or.inl (Or.inl (Or.inl h1))
    · exact Or.inr h1
    · exact Or.inl (Or.inl (Or.inr h1))
    · exact Or.inl (Or.inr h1)

/-- pushing a non-reference (all PUSH_* constants, ENUM_VAL, OPAQUE_NULL) keeps the invariant -/
theorem push_scalar_ok (c : Core) (frames : List Frame) (v : Val) (hv : v.addr? = none) (h : HeapOk c frames) :
    HeapOk (c.push v) frames := by
  have hroots : ∀ x, (refsOf (rootsOf (c.push v) frames) ++ refsOf []).count x ≤ (refsOf (rootsOf c frames) ++ refsOf []).count x := by
    intro x
    have : refsOf [v] = [] := by rw [refsOf_cons, hv]; rfl
    simp only [rootsOf, Core.push, refsOf_append, List.count_append, this, List.count_nil]
    omega
  have hmem : ∀ x, x ∈ refsOf (rootsOf (c.push v) frames) ++ refsOf [] → x ∈ refsOf (rootsOf c frames) ++ refsOf [] := by
    intro x hx
    have := hroots x
    have hp : 0 < (refsOf (rootsOf (c.push v) frames) ++ refsOf []).count x := List.count_pos_iff.mpr hx
    exact List.count_pos_iff.mp (by omega)
  exact ⟨h.nodup, h.fresh, h.clean, RcInv_of_count _ _ _ _ _ hroots h.rc, Closed_of_mem _ _ _ _ _ hmem h.closed⟩

/-- the values a handler still holds in C locals are released one after the other -/
def releaseAll (hp : Heap) (held : List Val) : Heap := held.foldl (fun h v => h.release1 v) hp

theorem releaseAll_inv (roots : List Val) (held : List Val) :
    ∀ hp : Heap, hp.keys.Nodup → (∀ k ∈ hp.keys, k < hp.next) → hp.dangling = false →
      RcInv roots hp held → Closed roots hp held →
      (releaseAll hp held).keys.Nodup ∧ (∀ k ∈ (releaseAll hp held).keys, k < (releaseAll hp held).next) ∧
        (releaseAll hp held).dangling = false ∧ RcInv roots (releaseAll hp held) [] ∧ Closed roots (releaseAll hp held) [] := by
  induction held with
  | nil => intro hp hn hf hd hi hc; exact ⟨hn, hf, hd, hi, hc⟩
  | cons v r ih =>
    intro hp hn hf hd hi hc
    obtain ⟨r1, r2, r3, r4, r5⟩ := release_inv roots hp [v] r hn (by simpa using hi) (by simpa using hc)
    have hf' : ∀ k ∈ (hp.release [v]).keys, k < (hp.release [v]).next := by
      intro k hk; rw [r5]; exact hf k (release_keys_subset _ _ k hk)
    exact ih (hp.release [v]) r3 hf' (by rw [r4]; exact hd) r1 r2

/-- **general handler shape**: a handler that replaces the operand stack by `st'` and releases the values
    `held`, where `st'` and `held` together reference no address more often than the old stack did (it popped
    `held`, pushed only non-references, dropped nothing it did not release or releases what it popped) keeps
    the heap invariant -/
theorem consume_ok (c : Core) (frames : List Frame) (h : HeapOk c frames) (st' held : List Val)
    (hcount : ∀ x, (refsOf st' ++ refsOf held).count x ≤ (refsOf c.stack).count x) :
    HeapOk { c with stack := st', heap := releaseAll c.heap held } frames := by
  have hroots : ∀ x, (refsOf (rootsOf { c with stack := st' } frames) ++ refsOf held).count x ≤ (refsOf (rootsOf c frames) ++ refsOf []).count x := by
    intro x
    have := hcount x
    simp only [rootsOf, refsOf_append, List.count_append, refsOf_nil, List.count_nil] at this ⊢
    omega
  have hmem : ∀ x, x ∈ refsOf (rootsOf { c with stack := st' } frames) ++ refsOf held → x ∈ refsOf (rootsOf c frames) ++ refsOf [] := by
    intro x hx
    have := hroots x
    have hp : 0 < (refsOf (rootsOf { c with stack := st' } frames) ++ refsOf held).count x := List.count_pos_iff.mpr hx
    exact List.count_pos_iff.mp (by omega)
  obtain ⟨a1, a2, a3, a4, a5⟩ := releaseAll_inv (rootsOf { c with stack := st' } frames) held c.heap h.nodup h.fresh h.clean
    (RcInv_of_count _ _ _ _ _ hroots h.rc) (Closed_of_mem _ _ _ _ _ hmem h.closed)
  exact ⟨a1, a2, a3, a4, a5⟩

theorem heapOk_congr (c c' : Core) (frames : List Frame) (hs : c'.stack = c.stack) (hg : c'.globals = c.globals)
    (hh : c'.heap = c.heap) (h : HeapOk c frames) : HeapOk c' frames := by
  have hr : rootsOf c' frames = rootsOf c frames := by unfold rootsOf; rw [hs, hg]
  exact ⟨by rw [hh]; exact h.nodup, by rw [hh]; exact h.fresh, by rw [hh]; exact h.clean,
    by rw [hh, hr]; exact h.rc, by rw [hh, hr]; exact h.closed⟩

/-- `consume_ok` for any result state with that stack, those globals and that heap -/
theorem consume_ok2 (c c' : Core) (frames : List Frame) (h : HeapOk c frames) (st' held : List Val)
    (hcount : ∀ x, (refsOf st' ++ refsOf held).count x ≤ (refsOf c.stack).count x)
    (hs : c'.stack = st') (hg : c'.globals = c.globals) (hh : c'.heap = releaseAll c.heap held) : HeapOk c' frames :=
  heapOk_congr { c with stack := st', heap := releaseAll c.heap held } c' frames hs hg hh (consume_ok c frames h st' held hcount)

theorem pop_fields (c : Core) : c.pop.1.globals = c.globals ∧ c.pop.1.heap = c.heap := by
  unfold Core.pop
  cases c.stack.getLast? <;> exact ⟨rfl, rfl⟩

theorem pop_count (c : Core) (x : Nat) :
    (refsOf c.pop.1.stack ++ refsOf [c.pop.2]).count x ≤ (refsOf c.stack).count x := by
  obtain ⟨hs, hv, _, _⟩ := pop_spec c
  by_cases he : c.stack = []
  · have hs' : c.pop.1.stack = [] := by
      simp only [he, if_true, List.append_nil] at hs; rw [hs]
    rw [hv he, hs', he]
    have : refsOf [Val.void] = [] := rfl
    simp [this]
  · simp only [he, if_false] at hs
    rw [← hs]
    simp [refsOf_append, List.count_append]

/-- the comparison and logic handlers (EQ NE LT LE GT GE AND OR): two operands popped, a boolean pushed,
    both operands released - for operands of any kind, also when the stack is too short -/
theorem binCompare_ok (c : Core) (frames : List Frame) (f : Heap → Val → Val → Option Bool) (h : HeapOk c frames) :
    HeapOk (binCompare c f).1 frames := by
  have hc1 := pop_count c
  have hc2 := pop_count c.pop.1
  obtain ⟨g1, h1⟩ := pop_fields c
  obtain ⟨g2, h2⟩ := pop_fields c.pop.1
  have hcnt : ∀ (top : List Val) (held : List Val), refsOf top = [] → (∀ x, (refsOf held).count x ≤ (refsOf [c.pop.1.pop.2] ++ refsOf [c.pop.2]).count x) →
      ∀ x, (refsOf (c.pop.1.pop.1.stack ++ top) ++ refsOf held).count x ≤ (refsOf c.stack).count x := by
    intro top held htop hheld x
    have a := hc1 x; have b := hc2 x; have d := hheld x
    simp only [refsOf_append, List.count_append, htop, List.count_nil] at a b d ⊢
    omega
  unfold binCompare
  simp only
  cases hf : f c.pop.1.pop.1.heap c.pop.1.pop.2 c.pop.2 with
  | none =>
    simp only [unsup]
    exact consume_ok2 c _ frames h c.pop.1.pop.1.stack [] (by
      intro x; have := hcnt [] [] rfl (by intro y; simp [refsOf]) x; simpa using this) rfl (by rw [g2, g1]) (by rw [h2, h1]; rfl)
  | some r =>
    simp only [cont]
    exact consume_ok2 c _ frames h (c.pop.1.pop.1.stack ++ [.bool r]) [c.pop.1.pop.2, c.pop.2]
      (hcnt [.bool r] _ rfl (by intro y; simp [refsOf_cons, List.count_append]))
      (by simp [Core.push, Core.release]) (by simp [Core.push, Core.release, g2, g1])
      (by simp [Core.push, Core.release, releaseAll, h2, h1])

/-- one operand popped and released, non-references pushed: NOT, CAST_BOOL, JMP_TRUE, JMP_FALSE, ASSERT,
    PRINT, PRINTLN, NEG and the casts on scalars all have this shape -/
theorem pop1_ok (c c' : Core) (frames : List Frame) (h : HeapOk c frames) (news : List Val) (hn : refsOf news = [])
    (hs : c'.stack = c.pop.1.stack ++ news) (hg : c'.globals = c.globals) (hh : c'.heap = c.heap.release1 c.pop.2) :
    HeapOk c' frames := by
  refine consume_ok2 c c' frames h (c.pop.1.stack ++ news) [c.pop.2] ?_ hs hg (by rw [hh]; rfl)
  intro x
  have := pop_count c x
  simp only [refsOf_append, List.count_append, hn, List.count_nil] at this ⊢
  omega

theorem not_ok (m : Module) (fr : Frame) (c : Core) (frames : List Frame) (is : Nat) (args : List Nat) (h : HeapOk c frames) :
    HeapOk (execData' m fr c is .NOT args).1 frames := by
  obtain ⟨g1, h1⟩ := pop_fields c
  simp only [execData', cont]
  exact pop1_ok c _ frames h [.bool (!truthy c.pop.2)] rfl (by simp [Core.push, Core.release]) (by simp [Core.push, Core.release, g1])
    (by simp [Core.push, Core.release, h1])

theorem cast_bool_ok (m : Module) (fr : Frame) (c : Core) (frames : List Frame) (is : Nat) (args : List Nat) (h : HeapOk c frames) :
    HeapOk (execData' m fr c is .CAST_BOOL args).1 frames := by
  obtain ⟨g1, h1⟩ := pop_fields c
  simp only [execData', cont]
  exact pop1_ok c _ frames h [.bool (truthy c.pop.2)] rfl (by simp [Core.push, Core.release]) (by simp [Core.push, Core.release, g1])
    (by simp [Core.push, Core.release, h1])

theorem jmp_false_ok (m : Module) (fr : Frame) (c : Core) (frames : List Frame) (is : Nat) (args : List Nat) (h : HeapOk c frames) :
    HeapOk (execData' m fr c is .JMP_FALSE args).1 frames := by
  obtain ⟨g1, h1⟩ := pop_fields c
  simp only [execData', cont]
  refine pop1_ok c _ frames h [] rfl ?_ ?_ ?_ <;> split <;> simp [Core.release, g1, h1]

theorem jmp_true_ok (m : Module) (fr : Frame) (c : Core) (frames : List Frame) (is : Nat) (args : List Nat) (h : HeapOk c frames) :
    HeapOk (execData' m fr c is .JMP_TRUE args).1 frames := by
  obtain ⟨g1, h1⟩ := pop_fields c
  simp only [execData', cont]
  refine pop1_ok c _ frames h [] rfl ?_ ?_ ?_ <;> split <;> simp [Core.release, g1, h1]

theorem jmp_ok (m : Module) (fr : Frame) (c : Core) (frames : List Frame) (is : Nat) (args : List Nat) (h : HeapOk c frames) :
    HeapOk (execData' m fr c is .JMP args).1 frames := by
  simp only [execData', cont]
  exact heapOk_congr c _ frames rfl rfl rfl h

theorem assert_ok (m : Module) (fr : Frame) (c : Core) (frames : List Frame) (is : Nat) (args : List Nat) (h : HeapOk c frames) :
    HeapOk (execData' m fr c is .ASSERT args).1 frames := by
  obtain ⟨g1, h1⟩ := pop_fields c
  simp only [execData']
  split
  · simp only [cont]
    exact pop1_ok c _ frames h [] rfl (by simp [Core.release]) (by simp [Core.release, g1]) (by simp [Core.release, h1])
  · simp only [errS]
    exact pop1_ok c _ frames h [] rfl (by simp [Core.release]) (by simp [Core.release, g1]) (by simp [Core.release, h1])

theorem print_ok (m : Module) (fr : Frame) (c : Core) (frames : List Frame) (is : Nat) (args : List Nat) (ln : Bool) (h : HeapOk c frames) :
    HeapOk (execData' m fr c is (if ln then .PRINTLN else .PRINT) args).1 frames := by
  obtain ⟨g1, h1⟩ := pop_fields c
  cases ln <;> simp only [Bool.false_eq_true, if_false, if_true, execData'] <;> split
  all_goals first
    | (simp only [unsup]
       exact consume_ok2 c _ frames h c.pop.1.stack [] (by
         intro x; have := pop_count c x
         simp only [refsOf_append, List.count_append, refsOf_nil, List.count_nil] at this ⊢; omega) rfl g1 (by rw [h1]; rfl))
    | (simp only [cont]
       exact pop1_ok c _ frames h [] rfl (by simp [Core.release]) (by simp [Core.release, g1]) (by simp [Core.release, h1]))

theorem neg_ok (m : Module) (fr : Frame) (c : Core) (frames : List Frame) (is : Nat) (args : List Nat) (h : HeapOk c frames) :
    HeapOk (execData' m fr c is .NEG args).1 frames := by
  obtain ⟨g1, h1⟩ := pop_fields c
  have drop : ∀ news : List Val, refsOf news = [] → ∀ c' : Core, c'.stack = c.pop.1.stack ++ news → c'.globals = c.globals → c'.heap = c.heap →
      HeapOk c' frames := by
    intro news hn c' hs hg hh
    refine consume_ok2 c c' frames h (c.pop.1.stack ++ news) [] ?_ hs hg (by rw [hh]; rfl)
    intro x; have := pop_count c x
    simp only [refsOf_append, List.count_append, refsOf_nil, List.count_nil, hn] at this ⊢; omega
  simp only [execData']
  split
  · rename_i x hx
    simp only [cont]; exact drop [.int (-x)] rfl _ (by simp [Core.push]) (by simp [Core.push, g1]) (by simp [Core.push, h1])
  · simp only [unsup]; exact drop [] rfl _ (by simp) g1 h1
  · simp only [errS]; exact drop [] rfl _ (by simp) g1 h1

/-- retain a value that is void or already a root (a stack slot or a global) and push it:
    LOAD_LOCAL, LOAD_GLOBAL and DUP have this shape -/
theorem load_root_ok (c : Core) (frames : List Frame) (v : Val) (hv : v = .void ∨ v ∈ c.stack ∨ v ∈ c.globals) (h : HeapOk c frames) :
    HeapOk ((c.retain v).push v) frames := by
  have hlive : ∀ a, v.addr? = some a → a ∈ c.heap.keys := by
    intro a ha
    rcases hv with hv | hm | hm
    · rw [hv] at ha; cases ha
    · apply h.closed a
      simp only [refsOf_nil, List.append_nil, List.mem_append]
      left
      show a ∈ List.filterMap Val.addr? (rootsOf c frames)
      exact List.mem_filterMap.mpr ⟨_, by unfold rootsOf; simp [hm], ha⟩
    · apply h.closed a
      simp only [refsOf_nil, List.append_nil, List.mem_append]
      left
      show a ∈ List.filterMap Val.addr? (rootsOf c frames)
      exact List.mem_filterMap.mpr ⟨_, by unfold rootsOf; simp [hm], ha⟩
  obtain ⟨r1, r2, r3, r4, r5⟩ := retain_inv (rootsOf c frames) c.heap v [] h.nodup h.rc h.closed hlive
  have hroots : rootsOf ((c.retain v).push v) frames
      = c.stack ++ [v] ++ c.globals ++ frames.filterMap (fun fr => fr.closure.map Val.clos) := by
    simp [rootsOf, Core.push, Core.retain]
  have hheap : ((c.retain v).push v).heap = c.heap.retain v := by
    simp [Core.push, Core.retain]
  refine ⟨by rw [hheap]; exact r3, ?_, by rw [hheap, r4]; exact h.clean, ?_, ?_⟩
  · intro k hk
    rw [hheap] at hk ⊢
    rw [r5]
    have : (c.heap.retain v).keys = c.heap.keys := by
      unfold Heap.retain
      cases v.addr? with
      | none => rfl
      | some a =>
        simp only
        cases c.heap.get? a with
        | none => rfl
        | some cell => simp only; exact keys_set _ _ _
    rw [this] at hk
    exact h.fresh k hk
  · rw [hheap, hroots]
    refine RcInv_of_count (rootsOf c frames) _ _ [v] [] ?_ r1
    intro x
    simp only [rootsOf, refsOf_append, List.count_append, refsOf_nil, List.count_nil]
    omega
  · rw [hheap, hroots]
    refine Closed_of_mem (rootsOf c frames) _ _ [v] [] ?_ r2
    intro x hx
    simp only [rootsOf, refsOf_append, List.mem_append, refsOf_nil, List.not_mem_nil, or_false] at hx ⊢
    rcases hx with ((h1 | h1) | h1) | h1
    · exact Or.inl (Or.inl (Or.inl h1))
    · exact Or.inr h1
    · exact Or.inl (Or.inl (Or.inr h1))
    · exact Or.inl (Or.inr h1)

theorem getD_mem_or_void (l : List Val) (i : Nat) : l.getD i .void = .void ∨ l.getD i .void ∈ l := by
  rw [List.getD_eq_getElem?_getD]
  cases hl : l[i]? with
  | none => left; rfl
  | some v => right; exact List.mem_of_getElem? hl

theorem load_local_ok (m : Module) (fr : Frame) (c : Core) (frames : List Frame) (is : Nat) (args : List Nat) (h : HeapOk c frames) :
    HeapOk (execData' m fr c is .LOAD_LOCAL args).1 frames := by
  simp only [execData']
  split
  · simp only [errS]; exact h
  · simp only [cont]
    apply load_root_ok c frames _ _ h
    rcases getD_mem_or_void c.stack (u32 (fr.stackBase + args.getD 0 0)) with hv | hv
    · exact Or.inl hv
    · exact Or.inr (Or.inl hv)

theorem load_global_ok (m : Module) (fr : Frame) (c : Core) (frames : List Frame) (is : Nat) (args : List Nat) (h : HeapOk c frames) :
    HeapOk (execData' m fr c is .LOAD_GLOBAL args).1 frames := by
  simp only [execData']
  split
  · simp only [errS]; exact h
  · simp only [cont]
    apply load_root_ok c frames _ _ h
    rcases getD_mem_or_void c.globals (args.getD 0 0) with hv | hv
    · exact Or.inl hv
    · exact Or.inr (Or.inr hv)

theorem refs_count_set (l : List Val) (i : Nat) (v : Val) (hi : i < l.length) (x : Nat) :
    (refsOf (l.set i v)).count x + (refsOf [l.getD i .void]).count x = (refsOf l).count x + (refsOf [v]).count x := by
  induction l generalizing i with
  | nil => simp at hi
  | cons a r ih =>
    cases i with
    | zero =>
      simp only [List.set_cons_zero, List.getD_cons_zero, refsOf_cons, refsOf_nil, List.count_append, List.append_nil]
      omega
    | succ j =>
      have := ih j (by simpa using hi)
      simp only [List.set_cons_succ, List.getD_cons_succ, refsOf_cons, refsOf_nil, List.count_append, List.append_nil] at this ⊢
      omega

theorem store_local_ok (m : Module) (fr : Frame) (c : Core) (frames : List Frame) (is : Nat) (args : List Nat) (h : HeapOk c frames) :
    HeapOk (execData' m fr c is .STORE_LOCAL args).1 frames := by
  obtain ⟨g1, h1⟩ := pop_fields c
  simp only [execData']
  generalize u32 (fr.stackBase + args.getD 0 0) = k
  split
  · simp only [errS]; exact h
  · simp only [Core.release]
    by_cases hlt : k < c.pop.1.stack.length
    · simp only [hlt, if_true, cont]
      refine consume_ok2 c _ frames h (c.pop.1.stack.set k c.pop.2) [c.pop.1.stack.getD k c.pop.2] ?_ rfl g1 (by simp [releaseAll, h1])
      intro x
      have e : c.pop.1.stack.getD k c.pop.2 = c.pop.1.stack.getD k .void := by
        rw [List.getD_eq_getElem?_getD, List.getD_eq_getElem?_getD, List.getElem?_eq_getElem hlt]; rfl
      rw [e]
      have a := refs_count_set c.pop.1.stack k c.pop.2 hlt x
      have b := pop_count c x
      simp only [List.count_append] at a b ⊢
      omega
    · simp only [hlt, if_false, cont]
      have e : c.pop.1.stack.getD k c.pop.2 = c.pop.2 := by
        rw [List.getD_eq_getElem?_getD, List.getElem?_eq_none (by omega)]; rfl
      rw [e]
      refine pop1_ok c _ frames h [] rfl (by simp) g1 (by simp [h1])

/-- integer arithmetic (ADD SUB MUL DIV MOD on two ints): two non-references replaced by one -/
theorem arith_int_ok (s : Core) (frames : List Frame) (op : Opc) (hop : op = .ADD ∨ op = .SUB ∨ op = .MUL ∨ op = .DIV ∨ op = .MOD)
    (x y : I64) (h : HeapOk ((s.push (.int x)).push (.int y)) frames) :
    HeapOk (binArith ((s.push (.int x)).push (.int y)) op).1 frames := by
  have e : ∃ r : I64, binArith ((s.push (.int x)).push (.int y)) op = cont (s.push (.int r)) := by
    unfold binArith
    have hp : ∀ (c : Core) (v : Val), (c.push v).pop = (c, v) := by intro c v; simp [Core.push, Core.pop]
    simp only [hp]
    rcases hop with rfl | rfl | rfl | rfl | rfl <;> simp only [coerceEnum] <;> exact ⟨_, rfl⟩
  obtain ⟨r, e⟩ := e
  rw [e]
  simp only [cont]
  refine consume_ok2 _ _ frames h (s.stack ++ [.int r]) [] ?_ (by simp [Core.push]) (by simp [Core.push]) (by simp [Core.push, releaseAll])
  intro x
  simp [Core.push, refsOf_append, refsOf_cons, List.count_append, Val.addr?]

/-- **every instruction the code generator emits for the scalar fragment keeps the heap invariant**
    (the fragment of C01's compiler-correctness theorems: constants, local and global variable access,
    assignment, unary and comparison operators, jumps, conversions to bool, printing, assertions, POP, DUP),
    whatever the operands are and also when the stack is too short -/
theorem scalar_fragment_ok (m : Module) (fr : Frame) (c : Core) (frames : List Frame) (is : Nat) (args : List Nat) (op : Opc)
    (hop : op ∈ [Opc.PUSH_I64, .PUSH_BOOL, .PUSH_VOID, .LOAD_LOCAL, .LOAD_GLOBAL, .STORE_LOCAL, .NEG, .NOT, .EQ, .NE, .LT, .LE, .GT, .GE,
                 .AND, .OR, .JMP, .JMP_TRUE, .JMP_FALSE, .CAST_BOOL, .PRINT, .PRINTLN, .ASSERT, .POP, .DUP])
    (h : HeapOk c frames) : HeapOk (execData' m fr c is op args).1 frames := by
  simp only [List.mem_cons, List.mem_nil_iff, or_false] at hop
  rcases hop with rfl | rfl | rfl | rfl | rfl | rfl | rfl | rfl | rfl | rfl | rfl | rfl | rfl | rfl | rfl | rfl | rfl | rfl | rfl | rfl | rfl | rfl | rfl | rfl | rfl
  · simp only [execData', cont]; exact push_scalar_ok c frames _ rfl h
  · simp only [execData', cont]; exact push_scalar_ok c frames _ rfl h
  · simp only [execData', cont]; exact push_scalar_ok c frames _ rfl h
  · exact load_local_ok m fr c frames is args h
  · exact load_global_ok m fr c frames is args h
  · exact store_local_ok m fr c frames is args h
  · exact neg_ok m fr c frames is args h
  · exact not_ok m fr c frames is args h
  · simp only [execData']; exact binCompare_ok c frames _ h
  · simp only [execData']; exact binCompare_ok c frames _ h
  · simp only [execData']; exact binCompare_ok c frames _ h
  · simp only [execData']; exact binCompare_ok c frames _ h
  · simp only [execData']; exact binCompare_ok c frames _ h
  · simp only [execData']; exact binCompare_ok c frames _ h
  · simp only [execData']; exact binCompare_ok c frames _ h
  · simp only [execData']; exact binCompare_ok c frames _ h
  · exact jmp_ok m fr c frames is args h
  · exact jmp_true_ok m fr c frames is args h
  · exact jmp_false_ok m fr c frames is args h
  · exact cast_bool_ok m fr c frames is args h
  · exact print_ok m fr c frames is args false h
  · exact print_ok m fr c frames is args true h
  · exact assert_ok m fr c frames is args h
  · simp only [execData', cont]; exact pop_ok c frames h
  · simp only [execData', cont]; exact dup_ok c frames h

/- non-vacuity: a state with a shared string (two stack slots, count 2) satisfies the invariant -/
example : HeapOk { stack := [.str 0, .str 0, .int 5], heap := { cells := [(0, { rc := 2, obj := .str [104] })], next := 1 } } [] := by
  refine ⟨by decide, by decide, rfl, ?_, ?_⟩
  · intro p hp
    simp only [List.mem_singleton] at hp
    subst hp; decide
  · intro a ha
    have : a = 0 := by
      simp [rootsOf, refsOf, heapRefs, Val.addr?, Obj.kids] at ha
      exact ha
    subst this; decide

end NanoVerif.C14
