/-
C11 — instruction encoding and decoding are exact inverses (property theorems only).
The instruction table and operand sizes are `NanoVerif.Gen.*`, regenerated from
src/nanoisa/isa.c on every run, so these theorems are re-checked against the current table.
-/
import NanoVerif.Lemmas.Isa
namespace NanoVerif.C11

/-- Finite generated table: opcode = index < 256, ≤ MAX_OPERANDS operands, encoded size ≤
    ISA_MAX_INSTRUCTION_SIZE, operand sizes positive, indices and mnemonics pairwise distinct. -/
theorem table_wf : tableWf = true := by decide

theorem lookup_some_size {b : Nat} {info : InstrInfo} (h : lookup b = some info) :
    b < 256 ∧ info.opcode = b ∧ instrSizeOf info ≤ Gen.maxInstructionSize := by
  have hw := table_wf
  unfold tableWf at hw
  simp only [Bool.and_eq_true, List.all_eq_true, decide_eq_true_eq] at hw
  obtain ⟨⟨hall, _⟩, _⟩ := hw
  unfold lookup at h
  simp only [Option.map_eq_some_iff] at h
  obtain ⟨e, he, rfl⟩ := h
  have hm := List.mem_of_find?_eq_some he
  have hp := List.find?_some he
  have := hall e hm
  simp only [Bool.and_eq_true, beq_iff_eq, decide_eq_true_eq] at this hp
  obtain ⟨⟨⟨⟨h1, h2⟩, _⟩, h4⟩, _⟩ := this
  subst hp
  exact ⟨h2, h1.symm, h4⟩

/-- decode ∘ encode = id, for every defined opcode, every in-range operand value and every
    suffix that may follow the instruction in the code stream. -/
theorem decode_encode (i : Instr) (bs rest : Bytes) (hw : i.wf) (he : encode i = some bs) :
    decode (bs ++ rest) = some (i, bs.length) := by
  obtain ⟨hop, info, hl, hfit⟩ := hw
  unfold encode encodeBuf at he
  rw [hl] at he
  simp only at he
  split at he
  · cases he
  · rename_i ob hob
    split at he
    · cases he
    · simp only [Option.some.injEq] at he
      subst he
      have hb : (UInt8.ofNat i.opcode).toNat = i.opcode := by
        simp [UInt8.toNat_ofNat']; omega
      simp only [List.cons_append, decode, hb, hl]
      rw [decodeOperands_encodeOperands rest hfit hob]
      simp only [List.length_cons]
      cases i
      simp [Nat.add_comm]

/-- encode ∘ decode = id on the consumed bytes, and whatever decodes is well-formed. -/
theorem encode_decode (bs : Bytes) (i : Instr) (n : Nat) (h : decode bs = some (i, n)) :
    encode i = some (bs.take n) ∧ i.wf := by
  cases bs with
  | nil => simp [decode] at h
  | cons b rest =>
    simp only [decode] at h
    split at h
    · cases h
    · rename_i info hl
      split at h
      · cases h
      · rename_i vs m hd
        simp only [Option.some.injEq, Prod.mk.injEq] at h
        obtain ⟨rfl, rfl⟩ := h
        obtain ⟨hfit, henc⟩ := decodeOperands_fit hd
        obtain ⟨hm, _, _⟩ := decodeOperands_size hd
        obtain ⟨hb, _, hsz⟩ := lookup_some_size hl
        refine ⟨?_, hb, info, hl, hfit⟩
        unfold encode encodeBuf
        simp only [hl, henc]
        have hlen : (List.take m rest).length = m := by simp; omega
        have : ¬ (1 + (List.take m rest).length > Gen.maxInstructionSize) := by
          rw [hlen, hm]; unfold instrSizeOf operandsSize at *; omega
        rw [if_neg this]
        have hb' : UInt8.ofNat b.toNat = b := by simp
        rw [hb', Nat.add_comm 1 m, List.take_succ_cons]

/-- a byte that is not an opcode is refused, whatever follows (all undefined bytes at once). -/
theorem decode_undefined (b : UInt8) (rest : Bytes) (h : lookup b.toNat = none) :
    decode (b :: rest) = none := by
  simp [decode, h]

/-- an instruction cut short is refused, at every truncation length. -/
theorem decode_truncated (i : Instr) (bs : Bytes) (k : Nat) (he : encode i = some bs)
    (hk : k < bs.length) : decode (bs.take k) = none := by
  unfold encode encodeBuf at he
  split at he
  · cases he
  · rename_i info hl
    split at he
    · cases he
    · rename_i ob hob
      split at he
      · cases he
      · simp only [Option.some.injEq] at he
        subst he
        obtain ⟨hlen, _⟩ := encodeOperands_length hob
        cases k with
        | zero => simp [decode]
        | succ k =>
          have hb : (UInt8.ofNat i.opcode).toNat = i.opcode := by
            have := (lookup_some_size hl).1
            simp [UInt8.toNat_ofNat']; omega
          simp only [List.take_succ_cons, decode, hb, hl]
          cases hd : decodeOperands info.operands (List.take k ob) with
          | none => rfl
          | some r =>
            obtain ⟨vs, n⟩ := r
            obtain ⟨h1, h2, _⟩ := decodeOperands_size hd
            simp only [List.length_take, List.length_cons] at h2 hk
            omega

/-- number of undefined opcode bytes in the current table (informational) -/
def undefinedCount : Nat := ((List.range 256).filter (fun b => (lookup b).isNone)).length

/-- `isa_opcode_by_name (name of opcode b) = b` for every defined opcode -/
theorem opcode_by_name (b : Nat) (info : InstrInfo) (h : lookup b = some info) :
    opcodeByName info.name = some b := by
  have key : (Gen.instrEntries.all fun e => opcodeByName e.2.name == some e.1) = true := by decide
  rw [List.all_eq_true] at key
  unfold lookup at h
  simp only [Option.map_eq_some_iff] at h
  obtain ⟨e, he, rfl⟩ := h
  have hm := List.mem_of_find?_eq_some he
  have hp := List.find?_some he
  simp only [beq_iff_eq] at hp
  have := key e hm
  simp only [beq_iff_eq] at this
  rw [this, hp]

/- non-vacuity: concrete non-trivial instructions meet the hypotheses -/
example : ({ opcode := 0x01, operands := [0xFFFFFFFFFFFFFFFF] } : Instr).wf := by
  refine ⟨by decide, ⟨"PUSH_I64", 1, [.i64]⟩, by decide, by decide⟩
example : encode { opcode := 0x6B, operands := [0x1234, 0xFFFFFFFE] }
    = some [0x6B, 0x34, 0x12, 0xFE, 0xFF, 0xFF, 0xFF] := by decide
example : decode [0x6B, 0x34, 0x12, 0xFE, 0xFF, 0xFF, 0xFF, 0x00]
    = some ({ opcode := 0x6B, operands := [0x1234, 0xFFFFFFFE] }, 7) := by decide
example : lookup 0x0B = none := by decide
example : undefinedCount = 162 := by decide +kernel

end NanoVerif.C11
