/-
C19 — compilation is a function of the source (property theorems only; the part this family of
technique can say).  The model functions are pure by construction; the lemmas below carry the
mechanisms the implementation relies on for order-independence: the string pool is the
order-preserving de-duplication of the insertion sequence and indices never move, and every
serialised byte is a function of module fields.
-/
import NanoVerif.Model.Nvm
namespace NanoVerif.C19

/-- the pool after inserting a sequence of strings one by one -/
def poolOf (xs : List Bytes) : List Bytes := xs.foldl (fun a s => (addString a s).1) []

theorem addString_prefix (ss : List Bytes) (s : Bytes) : ∃ t, (addString ss s).1 = ss ++ t ∧ t.length ≤ 1 := by
  unfold addString
  cases ss.findIdx? (· == s) with
  | some i => exact ⟨[], by simp, by simp⟩
  | none => exact ⟨[s], rfl, by simp⟩

/-- inserting more strings never moves an index that was already handed out -/
theorem index_stable (ss : List Bytes) (s : Bytes) (i : Nat) (h : i < ss.length) :
    (addString ss s).1[i]? = ss[i]? := by
  obtain ⟨t, ht, _⟩ := addString_prefix ss s
  rw [ht, List.getElem?_append_left h]

/-- the index returned for a string always denotes that string in the resulting pool -/
theorem index_correct (ss : List Bytes) (s : Bytes) : (addString ss s).1[(addString ss s).2]? = some s := by
  unfold addString
  cases hf : ss.findIdx? (· == s) with
  | some i =>
    have := List.findIdx?_eq_some_iff_getElem.mp hf
    obtain ⟨hi, hx, _⟩ := this
    simp only [beq_iff_eq] at hx
    simp [hi, hx]
  | none => simp

/-- the pool never contains a string twice, whatever sequence (with whatever repetitions) was inserted -/
theorem pool_nodup (xs : List Bytes) : (poolOf xs).Nodup := by
  unfold poolOf
  suffices h : ∀ acc : List Bytes, acc.Nodup → (xs.foldl (fun a s => (addString a s).1) acc).Nodup from h [] (by simp)
  induction xs with
  | nil => intro acc h; simpa using h
  | cons x xs ih =>
    intro acc h
    simp only [List.foldl_cons]
    apply ih
    unfold addString
    cases hf : acc.findIdx? (· == x) with
    | some i => simpa using h
    | none =>
      simp only
      rw [List.findIdx?_eq_none_iff] at hf
      apply List.nodup_append.mpr
      refine ⟨h, by simp, ?_⟩
      intro a ha b hb
      simp only [List.mem_singleton] at hb
      subst hb
      intro e
      have := hf a ha
      simp [e] at this

/-- every inserted string is in the pool and nothing else is: the pool is determined by the
    insertion sequence alone (no dependence on addresses or hash order) -/
theorem pool_mem (xs : List Bytes) (s : Bytes) : s ∈ poolOf xs ↔ s ∈ xs := by
  unfold poolOf
  suffices h : ∀ acc : List Bytes, s ∈ xs.foldl (fun a s => (addString a s).1) acc ↔ (s ∈ acc ∨ s ∈ xs) by
    simpa using h []
  induction xs with
  | nil => intro acc; simp
  | cons x xs ih =>
    intro acc
    simp only [List.foldl_cons, ih, List.mem_cons]
    have hx : s ∈ (addString acc x).1 ↔ (s ∈ acc ∨ s = x) := by
      unfold addString
      cases hf : acc.findIdx? (· == x) with
      | some i =>
        have := List.findIdx?_eq_some_iff_getElem.mp hf
        obtain ⟨hi, hxe, _⟩ := this
        simp only [beq_iff_eq] at hxe
        constructor
        · intro h; exact Or.inl h
        · intro h
          rcases h with h | h
          · exact h
          · subst h; rw [← hxe]; exact List.getElem_mem hi
      | none => simp
    rw [hx]
    constructor
    · rintro ((h | h) | h)
      · exact Or.inl h
      · exact Or.inr (Or.inl h)
      · exact Or.inr (Or.inr h)
    · rintro (h | h | h)
      · exact Or.inl (Or.inl h)
      · exact Or.inl (Or.inr h)
      · exact Or.inr h

/-- the serialised size is a function of the section sizes only -/
theorem serialize_length (m : Module) :
    (serialize m).length = Gen.headerSize + Gen.sectionEntrySize * (sectionsOf m).length
      + ((sectionsOf m).map (·.2.length)).sum := by
  have hdir : ∀ (secs : List (Nat × Bytes)) (off : Nat), (dirEntries off secs).length = 12 * secs.length := by
    intro secs
    induction secs with
    | nil => intro off; rfl
    | cons a l ih => intro off; obtain ⟨ty, d⟩ := a; simp [dirEntries, ih]; omega
  have hbody : ∀ (secs : List (Nat × Bytes)), (secs.flatMap (·.2)).length = (secs.map (·.2.length)).sum := by
    intro secs
    induction secs with
    | nil => rfl
    | cons a l ih => simp [ih]
  have h12 : Gen.sectionEntrySize = 12 := by decide
  have h32 : Gen.headerSize = 32 := by decide
  have hmagic : (Gen.nvmMagic.map UInt8.ofNat).length = 4 := by decide
  unfold serialize headerOf bodyOf
  simp only [List.length_append, leBytes_length, hdir, hbody, hmagic, h12, h32]
  omega

/- non-vacuity -/
example : poolOf [[1], [2], [1], [3], [2]] = [[1], [2], [3]] := by decide
example : (addString [[1], [2]] [1]).2 = 0 := by decide

end NanoVerif.C19
