/-
C04 — accepted programs never get stuck on any backend.

Proved here (Lean 4, over the specification checker `Tc` and the reference semantics `Sem`):
`tc_sound_expr` — type soundness of the operator fragment: an expression built from literals, variables
and the unary and binary operators that the checker accepts at type τ, evaluated in any environment
that agrees with the checker's scope, NEVER ends in a type error or an undefined-variable error, for any
fuel: it yields a value of type τ, or runs out of fuel, or (native configuration) stops at a division by
zero — the documented faults.  With C02's `arith_agree` this carries over to the VM's handlers, and with
`nonvoid_returns_all` (C05) every accepted non-void function returns on every path.

Not proved: calls, loops, arrays, structs (soundness of the whole checker), the two code generators and
the C compiler's acceptance of the generated C.  For those the check is a search on the implementation:
accepted programs through both pipelines, with the outcome classes of the property as the oracle.
-/
import NanoVerif.Model.Tc
import NanoVerif.Model.Sem

namespace NanoVerif.C04
open NanoVerif NanoVerif.Tc NanoVerif.Sem Gen

theorem tyEq_bool {t : Ty} (h : tyEq t .bool = true) : t = .bool := by cases t <;> simp [tyEq] at h ⊢

/-- run-time values of a static type -/
inductive HasTy : SVal → Ty → Prop
  | int (i : Int) : HasTy (.int i) .int
  | bool (b : Bool) : HasTy (.bool b) .bool
  | str (s : Bytes) : HasTy (.str s) .string

/-- the operator fragment -/
inductive Pure : Expr → Prop
  | num (v : Int) : Pure (.num v)
  | bool (b : Bool) : Pure (.bool b)
  | str (s : Bytes) : Pure (.str s)
  | ident (x : String) : Pure (.ident x)
  | un (op : TT) (a : Expr) : Pure a → Pure (.prefixOp op [a])
  | bin (op : TT) (a b : Expr) : Pure a → Pure b → Pure (.prefixOp op [a, b])

/-- the run-time environment agrees with the checker's scope: every name the checker can resolve has a
    value of the recorded type (locals first, then globals, as both look-ups do) -/
def EnvOk (env : Env) (sc : Scope) (loc : Locals) (g : GState) : Prop :=
  ∀ x b, findVar sc env.globals x = some b →
    ∃ v, (match lookup? loc x with | some v => some v | none => lookup? g.globals x) = some v ∧ HasTy v b.ty

theorem hasTy_of_tyEq {v : SVal} {t t' : Ty} (h : HasTy v t) (e : tyEq t t' = true) : HasTy v t' := by
  cases h <;> cases t' <;> simp [tyEq] at e <;> constructor

/-- what an evaluation may end in without violating the property -/
def Safe (τ : Ty) (g : GState) : Except (Fault × GState) (SVal × GState) → Prop
  | .ok (v, g') => HasTy v τ ∧ g' = g
  | .error (f, _) => f = .fuel ∨ f = .divZero

theorem binArith_safe (cfg : Cfg) (op : TT) (va vb : SVal) (ta tb τ : Ty) (ha : HasTy va ta) (hb : HasTy vb tb)
    (hτ : (if op == .T_PLUS then
        (if tyEq ta .int && tyEq tb .int then some Ty.int else if tyEq ta .string && tyEq tb .string then some .string else none)
      else if op == .T_MINUS || op == .T_STAR || op == .T_SLASH || op == .T_PERCENT then
        (if tyEq ta .int && tyEq tb .int then some .int else none)
      else if op == .T_EQ || op == .T_NE then
        (if tyEq ta tb && (tyEq ta .int || tyEq ta .bool || tyEq ta .string) then some .bool else none)
      else if op == .T_LT || op == .T_LE || op == .T_GT || op == .T_GE then
        (if tyEq ta .int && tyEq tb .int then some .bool else none)
      else none) = some τ) :
    match binArith cfg op va vb with
    | .ok v => HasTy v τ
    | .error f => f = .divZero := by
  cases ha <;> cases hb <;> cases op <;> simp [tyEq] at hτ <;> subst hτ <;> simp [binArith] <;>
    (try constructor)
  all_goals (
    rename_i x y
    by_cases h0 : y = 0
    · cases hc : cfg.divZeroIsZero <;> simp [h0, hc] <;> constructor
    · simp [h0]; constructor)

/-- **tc_sound_expr** -/
theorem tc_sound_expr (cfg : Cfg) (p : Program) (env : Env) (sc : Scope) (loc : Locals) (g : GState) (hok : EnvOk env sc loc g) :
    ∀ (fuel : Nat) (e : Expr) (τ : Ty), Pure e → tcExpr env sc e = some τ → Safe τ g (evalExpr cfg p fuel loc g e) := by
  intro fuel
  induction fuel with
  | zero => intro e τ _ _; simp [evalExpr, Safe]
  | succ n ih =>
    intro e τ hp ht
    cases hp with
    | num v => simp [tcExpr] at ht; subst ht; simp [evalExpr, Safe]; constructor
    | bool b => simp [tcExpr] at ht; subst ht; simp [evalExpr, Safe]; constructor
    | str s => simp [tcExpr] at ht; subst ht; simp [evalExpr, Safe]; constructor
    | ident x =>
      simp only [tcExpr] at ht
      cases hf : findVar sc env.globals x with
      | none => simp [hf] at ht
      | some b =>
        simp [hf] at ht; subst ht
        obtain ⟨v, hv, hty⟩ := hok x b hf
        simp only [evalExpr]
        cases hl : lookup? loc x with
        | some w => simp [hl] at hv; subst hv; simp [Safe, hty]
        | none =>
          simp [hl] at hv
          simp [hv, Safe, hty]
    | un op a ha =>
      simp only [tcExpr] at ht
      cases hta : tcExpr env sc a with
      | none => simp [hta] at ht
      | some ta =>
        have := ih a ta ha hta
        simp only [evalExpr]
        cases hev : evalExpr cfg p n loc g a with
        | error er => obtain ⟨f, g'⟩ := er; simp [hev, Safe] at this ⊢; exact this
        | ok r =>
          obtain ⟨v, g'⟩ := r
          simp [hev, Safe] at this
          obtain ⟨hv, rfl⟩ := this
          cases hv <;> simp [hta] at ht <;> (try (obtain ⟨ho, rfl⟩ := ht; subst ho; simp [Safe]; constructor))
    | bin op a b ha hb =>
      simp only [tcExpr] at ht
      cases hta : tcExpr env sc a with
      | none => simp [hta] at ht
      | some ta =>
        cases htb : tcExpr env sc b with
        | none => simp [hta, htb] at ht
        | some tb =>
          simp only [hta, htb] at ht
          have iha := ih a ta ha hta
          have ihb := ih b tb hb htb
          simp only [evalExpr]
          cases hea : evalExpr cfg p n loc g a with
          | error er => obtain ⟨f, g'⟩ := er; simp [hea, Safe] at iha ⊢; exact iha
          | ok ra =>
            obtain ⟨va, ga⟩ := ra
            simp [hea, Safe] at iha
            obtain ⟨hva, rfl⟩ := iha
            by_cases hand : op = .T_AND
            · subst hand
              simp [tyEq] at ht
              obtain ⟨⟨h1, h2⟩, rfl⟩ := ht
              have e1 := tyEq_bool h1; have e2 := tyEq_bool h2; subst e1; subst e2
              cases hva with
              | bool x =>
                cases x
                · simp [Safe]; constructor
                · simp only [beq_self_eq_true, if_true]
                  cases heb : evalExpr cfg p n loc ga b with
                  | error er => obtain ⟨f, g'⟩ := er; simp [heb, Safe] at ihb ⊢; exact ihb
                  | ok rb =>
                    obtain ⟨vb, gb⟩ := rb
                    simp [heb, Safe] at ihb
                    obtain ⟨hvb, rfl⟩ := ihb
                    cases hvb; simp [Safe]; constructor
            · by_cases hor : op = .T_OR
              · subst hor
                simp [tyEq] at ht
                obtain ⟨⟨h1, h2⟩, rfl⟩ := ht
                have e1 := tyEq_bool h1; have e2 := tyEq_bool h2; subst e1; subst e2
                cases hva with
                | bool x =>
                  cases x
                  · simp only [show (TT.T_OR == TT.T_AND) = false by decide, Bool.false_eq_true, if_false, beq_self_eq_true, if_true]
                    cases heb : evalExpr cfg p n loc ga b with
                    | error er => obtain ⟨f, g'⟩ := er; simp [heb, Safe] at ihb ⊢; exact ihb
                    | ok rb =>
                      obtain ⟨vb, gb⟩ := rb
                      simp [heb, Safe] at ihb
                      obtain ⟨hvb, rfl⟩ := ihb
                      cases hvb; simp [Safe]; constructor
                  · simp [Safe]; constructor
              · have h1 : (op == TT.T_AND) = false := by simpa using hand
                have h2 : (op == TT.T_OR) = false := by simpa using hor
                simp only [h1, h2, Bool.false_eq_true, if_false]
                cases heb : evalExpr cfg p n loc ga b with
                | error er => obtain ⟨f, g'⟩ := er; simp [heb, Safe] at ihb ⊢; exact ihb
                | ok rb =>
                  obtain ⟨vb, gb⟩ := rb
                  simp [heb, Safe] at ihb
                  obtain ⟨hvb, rfl⟩ := ihb
                  have hs := binArith_safe cfg op va vb ta tb τ hva hvb (by
                    simp only [h1, h2, Bool.or_false, Bool.false_eq_true, if_false] at ht
                    simpa [h1, h2] using ht)
                  cases hbr : binArith cfg op va vb with
                  | ok v => rw [hbr] at hs; simp only [] at hs; show Safe τ gb _; simp only [hbr]; exact ⟨hs, rfl⟩
                  | error f => rw [hbr] at hs; simp only [] at hs; show Safe τ gb _; simp only [hbr]; exact .inr hs

end NanoVerif.C04
