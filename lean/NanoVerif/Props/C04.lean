/-
C04 — accepted programs never get stuck on any backend.

Proved here (Lean 4, over the specification checker `Tc` and the reference semantics `Sem`):
`tc_sound_expr` — type soundness of the operator fragment: an expression built from literals, variables
and the unary and binary operators that the checker accepts at type τ, evaluated in any environment
that agrees with the checker's scope, NEVER ends in a type error or an undefined-variable error, for any
fuel: it yields a value of type τ, or runs out of fuel, or (native configuration) stops at a division by
zero — the documented faults.  With C02's `arith_agree` this carries over to the VM's handlers, and with
`nonvoid_returns_all` (C05) every accepted non-void function returns on every path.

`tc_sound_all` / `tc_sound_body` / `never_stuck` — type soundness of the while-language over that fragment:
declarations, assignment to locals and globals, `if`, `while`, `break`, `continue`, `return`, printing, `assert`,
expression statements, nested blocks with their scoping.

Not proved: calls, `for`, arrays, structs (soundness of the whole checker), the two code generators and
the C compiler's acceptance of the generated C.  For those the check is a search on the implementation:
accepted programs through both pipelines, with the outcome classes of the property as the oracle.
-/
import NanoVerif.Model.Tc
import NanoVerif.Model.Sem

namespace NanoVerif.C04
open NanoVerif NanoVerif.Tc NanoVerif.Sem Gen

theorem tyEq_bool {t : Ty} (h : tyEq t .bool = true) : t = .bool := by cases t <;> simp [tyEq] at h ⊢

/-- run-time values of a static type -/
inductive HasTy : SVal → Ty → Prop
  | int (i : Int) : HasTy (.int i) .int
  | bool (b : Bool) : HasTy (.bool b) .bool
  | str (s : Bytes) : HasTy (.str s) .string

/-- the operator fragment -/
inductive Pure : Expr → Prop
  | num (v : Int) : Pure (.num v)
  | bool (b : Bool) : Pure (.bool b)
  | str (s : Bytes) : Pure (.str s)
  | ident (x : String) : Pure (.ident x)
  | un (op : TT) (a : Expr) : Pure a → Pure (.prefixOp op [a])
  | bin (op : TT) (a b : Expr) : Pure a → Pure b → Pure (.prefixOp op [a, b])

/-- the run-time environment agrees with the checker's scope: every name the checker can resolve has a
    value of the recorded type (locals first, then globals, as both look-ups do) -/
def EnvOk (env : Env) (sc : Scope) (loc : Locals) (g : GState) : Prop :=
  ∀ x b, findVar sc env.globals x = some b →
    ∃ v, (match lookup? loc x with | some v => some v | none => lookup? g.globals x) = some v ∧ HasTy v b.ty

theorem hasTy_of_tyEq {v : SVal} {t t' : Ty} (h : HasTy v t) (e : tyEq t t' = true) : HasTy v t' := by
  cases h <;> cases t' <;> simp [tyEq] at e <;> constructor

/-- what an evaluation may end in without violating the property -/
def Safe (τ : Ty) (g : GState) : Except (Fault × GState) (SVal × GState) → Prop
  | .ok (v, g') => HasTy v τ ∧ g' = g
  | .error (f, _) => f = .fuel ∨ f = .divZero

theorem binArith_safe (cfg : Cfg) (op : TT) (va vb : SVal) (ta tb τ : Ty) (ha : HasTy va ta) (hb : HasTy vb tb)
    (hτ : (if op == .T_PLUS then
        (if tyEq ta .int && tyEq tb .int then some Ty.int else if tyEq ta .string && tyEq tb .string then some .string else none)
      else if op == .T_MINUS || op == .T_STAR || op == .T_SLASH || op == .T_PERCENT then
        (if tyEq ta .int && tyEq tb .int then some .int else none)
      else if op == .T_EQ || op == .T_NE then
        (if tyEq ta tb && (tyEq ta .int || tyEq ta .bool || tyEq ta .string) then some .bool else none)
      else if op == .T_LT || op == .T_LE || op == .T_GT || op == .T_GE then
        (if tyEq ta .int && tyEq tb .int then some .bool else none)
      else none) = some τ) :
    match binArith cfg op va vb with
    | .ok v => HasTy v τ
    | .error f => f = .divZero := by
  cases ha <;> cases hb <;> cases op <;> simp [tyEq] at hτ <;> subst hτ <;> simp [binArith] <;>
    (try constructor)
  all_goals (
    rename_i x y
    by_cases h0 : y = 0
    · cases hc : cfg.divZeroIsZero <;> simp [h0, hc] <;> constructor
    · simp [h0]; constructor)

/-- **tc_sound_expr** -/
theorem tc_sound_expr (cfg : Cfg) (p : Program) (env : Env) (sc : Scope) (loc : Locals) (g : GState) (hok : EnvOk env sc loc g) :
    ∀ (fuel : Nat) (e : Expr) (τ : Ty), Pure e → tcExpr env sc e = some τ → Safe τ g (evalExpr cfg p fuel loc g e) := by
  intro fuel
  induction fuel with
  | zero => intro e τ _ _; simp [evalExpr, Safe]
  | succ n ih =>
    intro e τ hp ht
    cases hp with
    | num v => simp [tcExpr] at ht; subst ht; simp [evalExpr, Safe]; constructor
    | bool b => simp [tcExpr] at ht; subst ht; simp [evalExpr, Safe]; constructor
    | str s => simp [tcExpr] at ht; subst ht; simp [evalExpr, Safe]; constructor
    | ident x =>
      simp only [tcExpr] at ht
      cases hf : findVar sc env.globals x with
      | none => simp [hf] at ht
      | some b =>
        simp [hf] at ht; subst ht
        obtain ⟨v, hv, hty⟩ := hok x b hf
        simp only [evalExpr]
        cases hl : lookup? loc x with
        | some w => simp [hl] at hv; subst hv; simp [Safe, hty]
        | none =>
          simp [hl] at hv
          simp [hv, Safe, hty]
    | un op a ha =>
      simp only [tcExpr] at ht
      cases hta : tcExpr env sc a with
      | none => simp [hta] at ht
      | some ta =>
        have := ih a ta ha hta
        simp only [evalExpr]
        cases hev : evalExpr cfg p n loc g a with
        | error er => obtain ⟨f, g'⟩ := er; simp [hev, Safe] at this ⊢; exact this
        | ok r =>
          obtain ⟨v, g'⟩ := r
          simp [hev, Safe] at this
          obtain ⟨hv, rfl⟩ := this
          cases hv <;> simp [hta] at ht <;> (try (obtain ⟨ho, rfl⟩ := ht; subst ho; simp [Safe]; constructor))
    | bin op a b ha hb =>
      simp only [tcExpr] at ht
      cases hta : tcExpr env sc a with
      | none => simp [hta] at ht
      | some ta =>
        cases htb : tcExpr env sc b with
        | none => simp [hta, htb] at ht
        | some tb =>
          simp only [hta, htb] at ht
          have iha := ih a ta ha hta
          have ihb := ih b tb hb htb
          simp only [evalExpr]
          cases hea : evalExpr cfg p n loc g a with
          | error er => obtain ⟨f, g'⟩ := er; simp [hea, Safe] at iha ⊢; exact iha
          | ok ra =>
            obtain ⟨va, ga⟩ := ra
            simp [hea, Safe] at iha
            obtain ⟨hva, rfl⟩ := iha
            by_cases hand : op = .T_AND
            · subst hand
              simp [tyEq] at ht
              obtain ⟨⟨h1, h2⟩, rfl⟩ := ht
              have e1 := tyEq_bool h1; have e2 := tyEq_bool h2; subst e1; subst e2
              cases hva with
              | bool x =>
                cases x
                · simp [Safe]; constructor
                · simp only [beq_self_eq_true, if_true]
                  cases heb : evalExpr cfg p n loc ga b with
                  | error er => obtain ⟨f, g'⟩ := er; simp [heb, Safe] at ihb ⊢; exact ihb
                  | ok rb =>
                    obtain ⟨vb, gb⟩ := rb
                    simp [heb, Safe] at ihb
                    obtain ⟨hvb, rfl⟩ := ihb
                    cases hvb; simp [Safe]; constructor
            · by_cases hor : op = .T_OR
              · subst hor
                simp [tyEq] at ht
                obtain ⟨⟨h1, h2⟩, rfl⟩ := ht
                have e1 := tyEq_bool h1; have e2 := tyEq_bool h2; subst e1; subst e2
                cases hva with
                | bool x =>
                  cases x
                  · simp only [show (TT.T_OR == TT.T_AND) = false by decide, Bool.false_eq_true, if_false, beq_self_eq_true, if_true]
                    cases heb : evalExpr cfg p n loc ga b with
                    | error er => obtain ⟨f, g'⟩ := er; simp [heb, Safe] at ihb ⊢; exact ihb
                    | ok rb =>
                      obtain ⟨vb, gb⟩ := rb
                      simp [heb, Safe] at ihb
                      obtain ⟨hvb, rfl⟩ := ihb
                      cases hvb; simp [Safe]; constructor
                  · simp [Safe]; constructor
              · have h1 : (op == TT.T_AND) = false := by simpa using hand
                have h2 : (op == TT.T_OR) = false := by simpa using hor
                simp only [h1, h2, Bool.false_eq_true, if_false]
                cases heb : evalExpr cfg p n loc ga b with
                | error er => obtain ⟨f, g'⟩ := er; simp [heb, Safe] at ihb ⊢; exact ihb
                | ok rb =>
                  obtain ⟨vb, gb⟩ := rb
                  simp [heb, Safe] at ihb
                  obtain ⟨hvb, rfl⟩ := ihb
                  have hs := binArith_safe cfg op va vb ta tb τ hva hvb (by
                    simp only [h1, h2, Bool.or_false, Bool.false_eq_true, if_false] at ht
                    simpa [h1, h2] using ht)
                  cases hbr : binArith cfg op va vb with
                  | ok v => rw [hbr] at hs; simp only [] at hs; show Safe τ gb _; simp only [hbr]; exact ⟨hs, rfl⟩
                  | error f => rw [hbr] at hs; simp only [] at hs; show Safe τ gb _; simp only [hbr]; exact .inr hs

/-! ### statements: the while-language over the operator fragment -/

/-- a binding of the checker's scope and the run-time entry at the same position -/
def Rel (b : Binding) (e : String × SVal) : Prop := b.name = e.1 ∧ HasTy e.2 b.ty

/-- the run-time locals mirror the checker's scope, innermost first -/
inductive Agree : List Binding → List (String × SVal) → Prop
  | nil : Agree [] []
  | cons {b : Binding} {e : String × SVal} {sc : List Binding} {loc : List (String × SVal)} :
      Rel b e → Agree sc loc → Agree (b :: sc) (e :: loc)

theorem Agree.length_eq {sc : List Binding} {loc : List (String × SVal)} (h : Agree sc loc) : sc.length = loc.length := by
  induction h with
  | nil => rfl
  | cons _ _ ih => simp [ih]

theorem agree_find {bs : List Binding} {l : List (String × SVal)} (h : Agree bs l) (x : String) :
    (∀ b, bs.find? (·.name == x) = some b → ∃ v, lookup? l x = some v ∧ HasTy v b.ty) ∧
    (bs.find? (·.name == x) = none → lookup? l x = none) := by
  induction h with
  | nil => simp [lookup?]
  | @cons b e bs' l' hbe _ ih =>
    obtain ⟨hn, ht⟩ := hbe
    simp only [List.find?_cons, lookup?]
    by_cases hx : b.name == x
    · have hx' : (e.1 == x) = true := by rw [← hn]; exact hx
      simp only [hx, hx']
      constructor
      · intro b' hb'; cases hb'; exact ⟨e.2, rfl, ht⟩
      · intro h'; cases h'
    · have hx' : (e.1 == x) = false := by rw [← hn]; simpa using hx
      simp only [hx, hx']
      exact ih

theorem agree_update {bs : List Binding} {l : List (String × SVal)} (h : Agree bs l) (x : String) (v : SVal) :
    (∀ b, bs.find? (·.name == x) = some b → HasTy v b.ty → ∃ l', update l x v = some l' ∧ Agree bs l') ∧
    (bs.find? (·.name == x) = none → update l x v = none) := by
  induction h with
  | nil => simp [update]
  | @cons b e bs' l' hbe htl ih =>
    obtain ⟨hn, ht⟩ := hbe
    obtain ⟨y, w⟩ := e
    simp only at hn
    simp only [List.find?_cons, update]
    by_cases hx : b.name == x
    · have hx' : (y == x) = true := by rw [← hn]; exact hx
      simp only [hx, hx', if_true]
      constructor
      · intro b' hb' hv; cases hb'; exact ⟨_, rfl, Agree.cons ⟨hn, hv⟩ htl⟩
      · intro h'; cases h'
    · have hx' : (y == x) = false := by rw [← hn]; simpa using hx
      simp only [hx, hx', Bool.false_eq_true, if_false]
      constructor
      · intro b' hb' hv
        obtain ⟨l2, h1, h2⟩ := ih.1 b' hb' hv
        exact ⟨(y, w) :: l2, by simp [h1], Agree.cons ⟨hn, ht⟩ h2⟩
      · intro h'; simp [ih.2 h']

/-- globals mirror the checker's global table -/
def GA (env : Env) (g : GState) : Prop := Agree env.globals g.globals

theorem envOk_of_agree {env : Env} {sc : Scope} {loc : Locals} {g : GState} (ha : Agree sc loc) (hg : GA env g) :
    EnvOk env sc loc g := by
  intro x b hf
  unfold findVar at hf
  cases hs : sc.find? (·.name == x) with
  | some b' =>
    rw [hs] at hf; cases hf
    obtain ⟨v, hv, ht⟩ := (agree_find ha x).1 b hs
    exact ⟨v, by simp [hv], ht⟩
  | none =>
    rw [hs] at hf
    have hl := (agree_find ha x).2 hs
    obtain ⟨v, hv, ht⟩ := (agree_find hg x).1 b hf
    exact ⟨v, by simp [hl, hv], ht⟩

/-- the statement fragment: declarations, assignment, conditionals, `while`, `break`, `continue`, `return`,
    printing, `assert`, expression statements and nested blocks over expressions of the operator fragment -/
inductive FragS : Stmt → Prop
  | letS (x : String) (m : Bool) (ty : Ty) (e : Expr) : Pure e → FragS (.letS x m ty e)
  | setS (x : String) (e : Expr) : Pure e → FragS (.setS x e)
  | if1 (c : Expr) (t : List Stmt) (b : Bool) : Pure c → (∀ s ∈ t, FragS s) → FragS (.ifS c t none b)
  | if2 (c : Expr) (t eb : List Stmt) (b : Bool) : Pure c → (∀ s ∈ t, FragS s) → (∀ s ∈ eb, FragS s) → FragS (.ifS c t (some eb) b)
  | whileS (c : Expr) (b : List Stmt) : Pure c → (∀ s ∈ b, FragS s) → FragS (.whileS c b)
  | ret0 : FragS (.ret none)
  | ret1 (e : Expr) : Pure e → FragS (.ret (some e))
  | brk : FragS .breakS
  | cont : FragS .continueS
  | print (ln : Bool) (e : Expr) : Pure e → FragS (.printS ln e)
  | assert (e : Expr) : Pure e → FragS (.assertS e)
  | expr (e : Expr) : Pure e → FragS (.exprS e)
  | block (ss : List Stmt) : (∀ s ∈ ss, FragS s) → FragS (.block ss)

/-- how a statement may leave: `break` / `continue` only inside a loop, `return` only with a value of the
    function's return type (or nothing, in a void function) -/
def FlowOk (ret : Ty) (inLoop : Bool) : Flow → Prop
  | .next => True
  | .brk => inLoop = true
  | .cont => inLoop = true
  | .ret v => (v = .void ∧ tyEq ret .void = true) ∨ HasTy v ret

/-- the faults the property permits: budget, division by zero (native configuration), failed assertion -/
def GoodErr (f : Fault) : Prop := f = .fuel ∨ f = .divZero ∨ f = .assertFail

/-- outcome of a statement (sequence) started in agreement with scope `sc0`: it ends in agreement with an
    extension `ext ++ sc0` (`P ext`), or with a permitted fault - never a type error, an undefined variable or
    function, an out-of-bounds or unsupported operation -/
def ResOk (env : Env) (ret : Ty) (inLoop : Bool) (P : Locals → Prop) : Except (Fault × GState) (Flow × Locals × GState) → Prop
  | .ok (fl, loc', g') => P loc' ∧ GA env g' ∧ FlowOk ret inLoop fl
  | .error (f, _) => GoodErr f

theorem pure_not_emptyArr {e : Expr} (h : Pure e) : ∀ ty : Ty,
    (match e with
      | .arrayLit [] => (match ty with | .arr _ => true | _ => false)
      | _ => (match tcExpr env sc e with | some te => tyEq te ty | none => false))
    = (match tcExpr env sc e with | some te => tyEq te ty | none => false) := by
  intro ty; cases h <;> rfl

theorem flowOk_loop {ret : Ty} {inLoop : Bool} {fl : Flow} (h : FlowOk ret true fl) (h1 : fl ≠ .brk) (h2 : fl ≠ .cont) :
    FlowOk ret inLoop fl := by
  cases fl <;> simp_all [FlowOk]

theorem agree_drop_ext {ext sc : Scope} {loc' : Locals} (h : Agree (ext ++ sc) loc') : Agree sc (loc'.drop ext.length) := by
  induction ext generalizing loc' with
  | nil => simpa using h
  | cons b r ih =>
    cases h with
    | cons _ htl => simpa using ih htl

theorem agree_drop {ext sc : Scope} {loc' : Locals} (h : Agree (ext ++ sc) loc') (n : Nat) (hn : n = sc.length) :
    Agree sc (loc'.drop (loc'.length - n)) := by
  subst hn
  have hl : loc'.length = ext.length + sc.length := by
    have := h.length_eq; simp at this; omega
  have : loc'.length - sc.length = ext.length := by omega
  rw [this]
  exact agree_drop_ext h

theorem tcStmt_let {env : Env} {ret : Ty} {inLoop : Bool} {sc : Scope} {x : String} {m : Bool} {ty : Ty} {e : Expr} (hp : Pure e) :
    tcStmt env ret inLoop sc (.letS x m ty e) =
      (match tcExpr env sc e with
        | some te => if tyEq te ty then some (⟨x, ty, m⟩ :: sc) else none
        | none => none) := by
  cases hp <;> simp only [tcStmt] <;> (split <;> simp_all)

theorem tcStmt_ext {env : Env} {ret : Ty} {inLoop : Bool} {sc sc' : Scope} {s : Stmt} (hf : FragS s)
    (h : tcStmt env ret inLoop sc s = some sc') : sc' = sc ∨ ∃ b, sc' = b :: sc := by
  cases hf
  case letS x m ty e hp =>
    rw [tcStmt_let hp] at h
    (repeat' split at h) <;> simp at h
    exact Or.inr ⟨_, h.symm⟩
  all_goals simp only [tcStmt] at h
  case setS x e hp => (repeat' split at h) <;> simp at h <;> exact Or.inl h.symm
  case if1 c t b hp ht => (repeat' split at h) <;> simp at h <;> exact Or.inl h.symm
  case if2 c t eb b hp ht he => (repeat' split at h) <;> simp at h <;> exact Or.inl h.symm
  case whileS c b hp hb => (repeat' split at h) <;> simp at h <;> exact Or.inl h.symm
  case ret0 => split at h <;> simp at h; exact Or.inl h.symm
  case ret1 e hp => (repeat' split at h) <;> simp at h <;> exact Or.inl h.symm
  case brk => split at h <;> simp at h; exact Or.inl h.symm
  case cont => split at h <;> simp at h; exact Or.inl h.symm
  case print ln e hp => cases ht : tcExpr env sc e <;> simp [ht] at h; exact Or.inl h.symm
  case assert e hp => (repeat' split at h) <;> simp at h <;> exact Or.inl h.symm
  case expr e hp => cases ht : tcExpr env sc e <;> simp [ht] at h; exact Or.inl h.symm
  case block ss hs => split at h <;> simp at h; exact Or.inl h.symm

theorem goodErr_of_safe {τ : Ty} {g : GState} {f : Fault} {g' : GState} (h : Safe τ g (.error (f, g'))) : GoodErr f := by
  simp only [Safe] at h
  rcases h with h | h
  · exact Or.inl h
  · exact Or.inr (Or.inl h)

theorem ga_out {env : Env} {g : GState} (h : GA env g) (o : Bytes) : GA env { g with out := o } := h

/-- **type soundness of the while-language over the operator fragment** (statements, blocks, statement sequences
    and loops, by induction on the evaluation budget): a statement the checker accepts, executed in any state
    that mirrors the checker's scope, never ends in a type error, an undefined variable or function, an
    out-of-bounds or unsupported operation; it ends in a state that mirrors the checker's resulting scope, leaves
    by `break` / `continue` only inside a loop and by `return` only with a value of the declared return type -/
theorem tc_sound_all (cfg : Cfg) (p : Program) (env : Env) (ret : Ty) : ∀ fuel : Nat,
    (∀ (s : Stmt) (inLoop : Bool) (sc sc' : Scope) (loc : Locals) (g : GState), FragS s →
      tcStmt env ret inLoop sc s = some sc' → Agree sc loc → GA env g →
      ResOk env ret inLoop (fun l => Agree sc' l) (execStmt cfg p fuel loc g s)) ∧
    (∀ (ss : List Stmt) (inLoop : Bool) (sc : Scope) (loc : Locals) (g : GState), (∀ s ∈ ss, FragS s) →
      tcBlock env ret inLoop sc ss = true → Agree sc loc → GA env g →
      ResOk env ret inLoop (fun l => Agree sc l) (execBlock cfg p fuel loc g ss)) ∧
    (∀ (ss : List Stmt) (inLoop : Bool) (sc : Scope) (loc : Locals) (g : GState), (∀ s ∈ ss, FragS s) →
      tcBlock env ret inLoop sc ss = true → Agree sc loc → GA env g →
      ResOk env ret inLoop (fun l => ∃ ext, Agree (ext ++ sc) l) (execStmts cfg p fuel loc g ss)) ∧
    (∀ (c : Expr) (b : List Stmt) (inLoop : Bool) (sc : Scope) (loc : Locals) (g : GState), Pure c → (∀ s ∈ b, FragS s) →
      tcExpr env sc c = some .bool → tcBlock env ret true sc b = true → Agree sc loc → GA env g →
      ResOk env ret inLoop (fun l => Agree sc l) (execWhile cfg p fuel loc g c b)) := by
  intro fuel
  induction fuel with
  | zero =>
    refine ⟨?_, ?_, ?_, ?_⟩ <;> intros <;> simp [execStmt, execBlock, execStmts, execWhile, ResOk, GoodErr]
  | succ n ih =>
    obtain ⟨ih1, ih2, ih3, ih4⟩ := ih
    -- evaluating an expression of the fragment that the checker typed
    have hev : ∀ (sc : Scope) (loc : Locals) (g : GState) (e : Expr) (τ : Ty), Agree sc loc → GA env g → Pure e → tcExpr env sc e = some τ →
        (∃ v, evalExpr cfg p n loc g e = .ok (v, g) ∧ HasTy v τ) ∨ (∃ f g', evalExpr cfg p n loc g e = .error (f, g') ∧ GoodErr f) := by
      intro sc loc g e τ ha hg hp ht
      have hs := tc_sound_expr cfg p env sc loc g (envOk_of_agree ha hg) n e τ hp ht
      cases hr : evalExpr cfg p n loc g e with
      | error er => obtain ⟨f, g'⟩ := er; rw [hr] at hs; exact Or.inr ⟨f, g', rfl, goodErr_of_safe hs⟩
      | ok r =>
        obtain ⟨v, g'⟩ := r
        rw [hr] at hs
        simp only [Safe] at hs
        obtain ⟨hv, rfl⟩ := hs
        exact Or.inl ⟨v, rfl, hv⟩
    refine ⟨?_, ?_, ?_, ?_⟩
    · -- one statement
      intro s inLoop sc sc' loc g hf ht ha hg
      cases hf with
      | letS x m ty e hp =>
        rw [tcStmt_let hp] at ht
        cases hte : tcExpr env sc e with
        | none => simp [hte] at ht
        | some te =>
          simp only [hte] at ht
          split at ht
          · rename_i hty
            cases ht
            simp only [execStmt]
            rcases hev sc loc g e te ha hg hp hte with ⟨v, he, hv⟩ | ⟨f, g', he, hgood⟩
            · rw [he]; exact ⟨Agree.cons ⟨rfl, hasTy_of_tyEq hv hty⟩ ha, hg, trivial⟩
            · rw [he]; exact hgood
          · cases ht
      | setS x e hp =>
        simp only [tcStmt] at ht
        cases hfv : findVar sc env.globals x with
        | none => simp [hfv] at ht
        | some b =>
          cases hte : tcExpr env sc e with
          | none => simp [hfv, hte] at ht
          | some te =>
            simp only [hfv, hte] at ht
            split at ht
            · rename_i hc
              cases ht
              simp only [Bool.and_eq_true] at hc
              simp only [execStmt]
              rcases hev sc loc g e te ha hg hp hte with ⟨v, he, hv⟩ | ⟨f, g', he, hgood⟩
              · rw [he]
                simp only
                have hvb : HasTy v b.ty := hasTy_of_tyEq hv hc.2
                unfold findVar at hfv
                cases hs : sc.find? (·.name == x) with
                | some b' =>
                  rw [hs] at hfv; cases hfv
                  obtain ⟨l2, h1, h2⟩ := (agree_update ha x v).1 b hs hvb
                  rw [h1]; exact ⟨h2, hg, trivial⟩
                | none =>
                  rw [hs] at hfv
                  rw [(agree_update ha x v).2 hs]
                  obtain ⟨gl, h1, h2⟩ := (agree_update hg x v).1 b hfv hvb
                  simp only [h1]
                  exact ⟨ha, h2, trivial⟩
              · rw [he]; exact hgood
            · cases ht
      | if1 c t bf hp hft =>
        simp only [tcStmt] at ht
        cases hte : tcExpr env sc c with
        | none => simp [hte] at ht
        | some te =>
          cases te <;> simp [hte, tcElse] at ht
          obtain ⟨hb, rfl⟩ := ht
          simp only [execStmt]
          rcases hev sc loc g c .bool ha hg hp hte with ⟨v, he, hv⟩ | ⟨f, g', he, hgood⟩
          · rw [he]
            cases hv with
            | bool bv =>
              cases bv
              · exact ⟨ha, hg, trivial⟩
              · exact ih2 t inLoop sc loc g hft hb ha hg
          · rw [he]; exact hgood
      | if2 c t eb bf hp hft hfe =>
        simp only [tcStmt] at ht
        cases hte : tcExpr env sc c with
        | none => simp [hte] at ht
        | some te =>
          cases te <;> simp [hte, tcElse] at ht
          obtain ⟨⟨hb, hb2⟩, rfl⟩ := ht
          simp only [execStmt]
          rcases hev sc loc g c .bool ha hg hp hte with ⟨v, he, hv⟩ | ⟨f, g', he, hgood⟩
          · rw [he]
            cases hv with
            | bool bv =>
              cases bv
              · exact ih2 eb inLoop sc loc g hfe hb2 ha hg
              · exact ih2 t inLoop sc loc g hft hb ha hg
          · rw [he]; exact hgood
      | whileS c b hp hfb =>
        simp only [tcStmt] at ht
        cases hte : tcExpr env sc c with
        | none => simp [hte] at ht
        | some te =>
          cases te <;> simp [hte] at ht
          obtain ⟨hb, rfl⟩ := ht
          simp only [execStmt]
          exact ih4 c b inLoop sc loc g hp hfb hte hb ha hg
      | ret0 =>
        simp only [tcStmt] at ht
        split at ht
        · rename_i hv; cases ht
          simp only [execStmt]
          exact ⟨ha, hg, Or.inl ⟨rfl, hv⟩⟩
        · cases ht
      | ret1 e hp =>
        simp only [tcStmt] at ht
        cases hte : tcExpr env sc e with
        | none => simp [hte] at ht
        | some te =>
          simp only [hte] at ht
          split at ht
          · rename_i hty; cases ht
            simp only [execStmt]
            rcases hev sc loc g e te ha hg hp hte with ⟨v, he, hv⟩ | ⟨f, g', he, hgood⟩
            · rw [he]; exact ⟨ha, hg, Or.inr (hasTy_of_tyEq hv hty)⟩
            · rw [he]; exact hgood
          · cases ht
      | brk =>
        simp only [tcStmt] at ht
        split at ht
        · rename_i hl; cases ht; simp only [execStmt]; exact ⟨ha, hg, hl⟩
        · cases ht
      | cont =>
        simp only [tcStmt] at ht
        split at ht
        · rename_i hl; cases ht; simp only [execStmt]; exact ⟨ha, hg, hl⟩
        · cases ht
      | print ln e hp =>
        simp only [tcStmt] at ht
        cases hte : tcExpr env sc e with
        | none => simp [hte] at ht
        | some te =>
          simp [hte] at ht; subst ht
          simp only [execStmt]
          rcases hev sc loc g e te ha hg hp hte with ⟨v, he, hv⟩ | ⟨f, g', he, hgood⟩
          · rw [he]; exact ⟨ha, ga_out hg _, trivial⟩
          · rw [he]; exact hgood
      | assert e hp =>
        simp only [tcStmt] at ht
        cases hte : tcExpr env sc e with
        | none => simp [hte] at ht
        | some te =>
          cases te <;> simp [hte] at ht
          subst ht
          simp only [execStmt]
          rcases hev sc loc g e .bool ha hg hp hte with ⟨v, he, hv⟩ | ⟨f, g', he, hgood⟩
          · rw [he]
            cases hv with
            | bool bv =>
              cases bv
              · exact Or.inr (Or.inr rfl)
              · exact ⟨ha, hg, trivial⟩
          · rw [he]; exact hgood
      | expr e hp =>
        simp only [tcStmt] at ht
        cases hte : tcExpr env sc e with
        | none => simp [hte] at ht
        | some te =>
          simp [hte] at ht; subst ht
          simp only [execStmt]
          rcases hev sc loc g e te ha hg hp hte with ⟨v, he, hv⟩ | ⟨f, g', he, hgood⟩
          · rw [he]; exact ⟨ha, hg, trivial⟩
          · rw [he]; exact hgood
      | block ss hfs =>
        simp only [tcStmt] at ht
        split at ht
        · rename_i hb; cases ht
          simp only [execStmt]
          exact ih2 ss inLoop sc loc g hfs hb ha hg
        · cases ht
    · -- a block
      intro ss inLoop sc loc g hfs hb ha hg
      simp only [execBlock]
      have h3 := ih3 ss inLoop sc loc g hfs hb ha hg
      cases hr : execStmts cfg p n loc g ss with
      | error er => obtain ⟨f, g'⟩ := er; rw [hr] at h3; exact h3
      | ok r =>
        obtain ⟨fl, loc', g1⟩ := r
        rw [hr] at h3
        obtain ⟨⟨ext, hext⟩, hg1, hfl⟩ := h3
        exact ⟨agree_drop hext loc.length ha.length_eq.symm, hg1, hfl⟩
    · -- a statement sequence
      intro ss inLoop sc loc g hfs hb ha hg
      cases ss with
      | nil => simp only [execStmts]; exact ⟨⟨[], ha⟩, hg, trivial⟩
      | cons s r =>
        simp only [tcBlock] at hb
        cases hts : tcStmt env ret inLoop sc s with
        | none => simp [hts] at hb
        | some sc1 =>
          simp only [hts] at hb
          have hfs0 : FragS s := hfs s (by simp)
          have hfr : ∀ x ∈ r, FragS x := fun x hx => hfs x (by simp [hx])
          have h1 := ih1 s inLoop sc sc1 loc g hfs0 hts ha hg
          have hsc1 : ∃ e0, sc1 = e0 ++ sc := by
            rcases tcStmt_ext hfs0 hts with rfl | ⟨b, rfl⟩
            · exact ⟨[], rfl⟩
            · exact ⟨[b], rfl⟩
          obtain ⟨e0, rfl⟩ := hsc1
          simp only [execStmts]
          cases hr : execStmt cfg p n loc g s with
          | error er => obtain ⟨f, g'⟩ := er; rw [hr] at h1; exact h1
          | ok res =>
            obtain ⟨fl, loc1, g1⟩ := res
            rw [hr] at h1
            obtain ⟨ha1, hg1, hfl⟩ := h1
            cases fl with
            | next =>
              simp only
              have h3 := ih3 r inLoop (e0 ++ sc) loc1 g1 hfr hb ha1 hg1
              cases hr2 : execStmts cfg p n loc1 g1 r with
              | error er => obtain ⟨f, g'⟩ := er; rw [hr2] at h3; exact h3
              | ok res2 =>
                obtain ⟨fl2, loc2, g2⟩ := res2
                rw [hr2] at h3
                obtain ⟨⟨ext, hext⟩, hg2, hfl2⟩ := h3
                exact ⟨⟨ext ++ e0, by simpa [List.append_assoc] using hext⟩, hg2, hfl2⟩
            | brk => exact ⟨⟨e0, ha1⟩, hg1, hfl⟩
            | cont => exact ⟨⟨e0, ha1⟩, hg1, hfl⟩
            | ret v => exact ⟨⟨e0, ha1⟩, hg1, hfl⟩
    · -- a loop
      intro c b inLoop sc loc g hp hfb hte hb ha hg
      simp only [execWhile]
      rcases hev sc loc g c .bool ha hg hp hte with ⟨v, he, hv⟩ | ⟨f, g', he, hgood⟩
      · rw [he]
        cases hv with
        | bool bv =>
          cases bv
          · exact ⟨ha, hg, trivial⟩
          · simp only
            have h2 := ih2 b true sc loc g hfb hb ha hg
            cases hr : execBlock cfg p n loc g b with
            | error er => obtain ⟨f, g'⟩ := er; rw [hr] at h2; exact h2
            | ok res =>
              obtain ⟨fl, loc1, g2⟩ := res
              rw [hr] at h2
              obtain ⟨ha1, hg2, hfl⟩ := h2
              cases fl with
              | brk => exact ⟨ha1, hg2, trivial⟩
              | ret v => exact ⟨ha1, hg2, hfl⟩
              | next => exact ih4 c b inLoop sc loc1 g2 hp hfb hte hb ha1 hg2
              | cont => exact ih4 c b inLoop sc loc1 g2 hp hfb hte hb ha1 hg2
      · rw [he]; exact hgood

/-- **a function body the checker accepts never gets stuck**: executed with arguments of the declared types (any
    state that mirrors the parameter scope and the global table), for any evaluation budget, the body of the
    while-language ends by falling through or by `return` with a value of the declared return type, or in one of the
    permitted faults (budget, division by zero in the native configuration, failed assertion) -/
theorem tc_sound_body (cfg : Cfg) (p : Program) (env : Env) (ret : Ty) (sc : Scope) (body : List Stmt)
    (hf : ∀ s ∈ body, FragS s) (ht : tcBlock env ret false sc body = true)
    (loc : Locals) (g : GState) (ha : Agree sc loc) (hg : GA env g) (fuel : Nat) :
    ResOk env ret false (fun l => Agree sc l) (execBlock cfg p fuel loc g body) :=
  (tc_sound_all cfg p env ret fuel).2.1 body false sc loc g hf ht ha hg

/-- ... in particular: no type error, no undefined variable or function, no out-of-bounds or unsupported operation,
    no `break` / `continue` escaping the function -/
theorem never_stuck (cfg : Cfg) (p : Program) (env : Env) (ret : Ty) (sc : Scope) (body : List Stmt)
    (hf : ∀ s ∈ body, FragS s) (ht : tcBlock env ret false sc body = true)
    (loc : Locals) (g : GState) (ha : Agree sc loc) (hg : GA env g) (fuel : Nat) :
    (∀ f g', execBlock cfg p fuel loc g body = .error (f, g') →
        f ≠ .typeError ∧ f ≠ .undefinedVar ∧ f ≠ .undefinedFn ∧ f ≠ .oob ∧ f ≠ .unsupported) ∧
    (∀ fl loc' g', execBlock cfg p fuel loc g body = .ok (fl, loc', g') → fl ≠ .brk ∧ fl ≠ .cont) := by
  have h := tc_sound_body cfg p env ret sc body hf ht loc g ha hg fuel
  constructor
  · intro f g' he
    rw [he] at h
    rcases h with h | h | h <;> subst h <;> simp
  · intro fl loc' g' he
    rw [he] at h
    obtain ⟨_, _, hfl⟩ := h
    cases fl <;> simp_all [FlowOk]

/- non-vacuity: `let mut i: int = 0; while (< i 3) { set i (+ i 1); if (== i 2) { continue } }; return i` is in the
   fragment, accepted by the checker at return type int, and the empty state mirrors the empty scope -/
def loopBody : List Stmt :=
  [.letS "i" true .int (.num 0),
   .whileS (.prefixOp .T_LT [.ident "i", .num 3])
     [.setS "i" (.prefixOp .T_PLUS [.ident "i", .num 1]),
      .ifS (.prefixOp .T_EQ [.ident "i", .num 2]) [.continueS] none false],
   .ret (some (.ident "i"))]

example : tcBlock {} .int false [] loopBody = true := by decide
example : ∀ s ∈ loopBody, FragS s := by
  intro s hs
  simp only [loopBody, List.mem_cons, List.mem_nil_iff, or_false] at hs
  rcases hs with rfl | rfl | rfl
  · exact .letS _ _ _ _ (.num 0)
  · refine .whileS _ _ (.bin _ _ _ (.ident _) (.num _)) ?_
    intro s hs
    simp only [List.mem_cons, List.mem_nil_iff, or_false] at hs
    rcases hs with rfl | rfl
    · exact .setS _ _ (.bin _ _ _ (.ident _) (.num _))
    · refine .if1 _ _ _ (.bin _ _ _ (.ident _) (.num _)) ?_
      intro s hs; simp at hs; subst hs; exact .cont
  · exact .ret1 _ (.ident _)
example : Agree [] [] ∧ GA {} {} := ⟨.nil, .nil⟩

end NanoVerif.C04
