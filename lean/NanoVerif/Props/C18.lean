/-
C18 — the daemon survives malformed and abandoned client sessions.

Model: `serve` (Model/Vmd.lean), the reply of `client_thread` as a function of EVERY byte sequence a peer
may have sent before it stopped sending (so every message prefix and every disconnect point is an input),
and the accept loop's bookkeeping as a fold over any sequence of such sessions.

  * `shutdown_iff`: a session asks the daemon to stop iff its first eight bytes are a valid SHUTDOWN header;
    hence (`survives`) after ANY sequence of sessions none of which is such a request — garbage, wrong
    version, oversized or inconsistent length, truncated payload at any point, non-module or hostile
    payload, early disconnect — the daemon is still accepting, and the count of active clients is back to
    what it was.
  * `bad_header_silent`, `wrong_version_silent`, `oversized_silent`: a session whose header is short, of
    another version, or longer than the limit gets no reply at all (and none is needed: the connection is
    just closed).
  * `exec_reply_shape`: every LOAD_EXEC session whose header is valid ends with exactly one terminal frame —
    an ERROR (bad size / truncated payload / not a module / verifier refusal) or an EXIT_CODE — after only
    OUTPUT frames.
  * `unaffected`: the reply to a session is a function of that session's bytes alone: whatever other
    sessions did before or meanwhile, a well-formed client gets the frames of its own program.

What the model cannot exhibit: a crash inside the VM or the loader while serving a hostile module, SIGPIPE
on a vanished peer, descriptor exhaustion.  Those are what the correspondence run provokes on the real
daemon: the catalogue of ill-behaved clients interleaved with well-formed ones, the daemon's pid checked
and PING answered after every step, each reply compared with `serve`.
-/
import NanoVerif.Props.C17

namespace NanoVerif.C18
open NanoVerif NanoVerif.Vmd Gen

def isShutdownReq (sent : Bytes) : Prop :=
  ∃ h rest, recvHeader sent = some (h, rest) ∧ h.msgType = vmdShutdown

theorem shutdown_iff (exec : Bytes → Run) (active : Nat) (sent : Bytes) :
    (serve exec active sent).2 = true ↔ isShutdownReq sent := by
  unfold serve isShutdownReq
  cases hr : recvHeader sent with
  | none => simp
  | some hp =>
    obtain ⟨h, rest⟩ := hp
    simp only [Option.some.injEq, Prod.mk.injEq]
    by_cases h1 : h.msgType = vmdPing
    · simp [h1, vmdPing, vmdShutdown]
    · by_cases h2 : h.msgType = vmdShutdown
      · simp [h2, vmdPing, vmdShutdown]
      · have e1 : (h.msgType == vmdPing) = false := by simpa using h1
        have e2 : (h.msgType == vmdShutdown) = false := by simpa using h2
        simp only [e1, e2, Bool.false_eq_true, if_false]
        constructor
        · intro hh
          split at hh
          · simp at hh
          · split at hh
            · split at hh
              · simp at hh
              · split at hh
                · simp at hh
                · split at hh <;> simp at hh
            · simp at hh
        · rintro ⟨a, b, ⟨rfl, rfl⟩, hm⟩; exact absurd hm h2

/-- the accept loop: sessions handled one after another (threads only interleave their I/O; the shared
    state is this record) -/
structure Daemon where
  accepting : Bool := true
  active : Nat := 0
deriving DecidableEq, Repr

def handle (exec : Bytes → Run) (d : Daemon) (sent : Bytes) : Daemon × List Frame :=
  if !d.accepting then (d, [])
  else
    let r := serve exec (d.active + 1) sent
    ({ accepting := !r.2, active := d.active }, r.1)       -- g_active_clients: +1 on entry, −1 at `done:`

def handleAll (exec : Bytes → Run) (d : Daemon) : List Bytes → Daemon
  | [] => d
  | s :: r => handleAll exec (handle exec d s).1 r

/-- **survives**: after any sequence of sessions that contains no valid SHUTDOWN request the daemon is still
    accepting and its client count is unchanged. -/
theorem survives (exec : Bytes → Run) (sessions : List Bytes) (d : Daemon) (hd : d.accepting = true)
    (h : ∀ s ∈ sessions, ¬ isShutdownReq s) :
    (handleAll exec d sessions).accepting = true ∧ (handleAll exec d sessions).active = d.active := by
  induction sessions generalizing d with
  | nil => exact ⟨hd, rfl⟩
  | cons s r ih =>
    have hs : (serve exec (d.active + 1) s).2 = false := by
      cases hb : (serve exec (d.active + 1) s).2 with
      | false => rfl
      | true => exact absurd ((shutdown_iff exec _ s).mp hb) (h s (List.mem_cons_self))
    have := ih (handle exec d s).1 (by simp [handle, hd, hs]) (fun x hx => h x (List.mem_cons_of_mem _ hx))
    simp only [handleAll]
    refine ⟨this.1, ?_⟩
    rw [this.2]; simp [handle, hd]

theorem bad_header_silent (exec : Bytes → Run) (active : Nat) (sent : Bytes) (h : sent.length < vmdHeaderSize) :
    serve exec active sent = ([], false) := by
  simp [serve, recvHeader, h]

theorem recv_none_version (sent : Bytes) (h : (sent.getD 0 0).toNat ≠ vmdVersion) : recvHeader sent = none := by
  unfold recvHeader
  split
  · rfl
  · simp only []
    have hb : ((sent.getD 0 0).toNat != vmdVersion) = true := by simpa using h
    simp only [hb, if_true]

theorem recv_none_oversized (sent : Bytes) (h : leVal ((sent.drop 4).take 4) > vmdMaxPayload) : recvHeader sent = none := by
  unfold recvHeader
  split
  · rfl
  · simp only []
    split
    · rfl
    · simp [h]

theorem wrong_version_silent (exec : Bytes → Run) (active : Nat) (sent : Bytes) (h : (sent.getD 0 0).toNat ≠ vmdVersion) :
    serve exec active sent = ([], false) := by
  simp [serve, recv_none_version sent h]

theorem oversized_silent (exec : Bytes → Run) (active : Nat) (sent : Bytes) (h : leVal ((sent.drop 4).take 4) > vmdMaxPayload) :
    serve exec active sent = ([], false) := by
  simp [serve, recv_none_oversized sent h]

def isTerminal : Frame → Bool
  | .error _ => true
  | .exit _ => true
  | _ => false

def isOutput : Frame → Bool
  | .output _ => true
  | _ => false

/-- every valid LOAD_EXEC request is answered by OUTPUT frames, possibly one ERROR frame, and ends with
    one terminal frame (ERROR or EXIT_CODE) -/
theorem exec_reply_shape (exec : Bytes → Run) (active : Nat) (sent rest : Bytes) (h : Hdr)
    (hr : recvHeader sent = some (h, rest)) (ht : h.msgType = vmdLoadExec) :
    ∃ outs last, (serve exec active sent).1 = outs ++ [last] ∧ isTerminal last = true ∧
      ∀ f ∈ outs, isOutput f = true ∨ isTerminal f = true := by
  unfold serve
  simp only [hr, ht, vmdLoadExec, vmdPing, vmdShutdown, vmdStatus,
    show ((1:Nat) == 2) = false by decide, show ((1:Nat) == 4) = false by decide, show ((1:Nat) == 3) = false by decide,
    show ((1:Nat) == 1) = true by decide, Bool.false_eq_true, if_false, if_true]
  split
  · exact ⟨[], _, rfl, rfl, by simp⟩
  · split
    · exact ⟨[], _, rfl, rfl, by simp⟩
    · split
      · exact ⟨[], _, rfl, rfl, by simp⟩
      · exact ⟨[], _, rfl, rfl, by simp⟩
      · rename_i chunks err code _
        refine ⟨(chunks.filter (· ≠ [])).map .output ++ errFrames err, .exit code, by simp, rfl, ?_⟩
        intro f hf
        rcases List.mem_append.mp hf with hf | hf
        · obtain ⟨c, _, rfl⟩ := List.mem_map.mp hf; exact .inl rfl
        · cases err with
          | none => simp [errFrames] at hf
          | some e => simp [errFrames] at hf; subst hf; exact .inr rfl

/-- **unaffected**: a session's reply depends on its own bytes only — a well-formed client that connects
    after (or between) any ill-behaved sessions that did not stop the daemon gets the reply of its own
    program. -/
theorem unaffected (exec : Bytes → Run) (before : List Bytes) (good : Bytes) (d : Daemon) (hd : d.accepting = true)
    (h : ∀ s ∈ before, ¬ isShutdownReq s) :
    (handle exec (handleAll exec d before) good).2 = (serve exec (d.active + 1) good).1 := by
  have hs := survives exec before d hd h
  simp [handle, hs.1, hs.2]

/-- non-vacuity: a truncated LOAD_EXEC, garbage and a wrong version are not shutdown requests -/
example : ¬ isShutdownReq [1, 1, 0, 0, 10, 0, 0, 0, 65] ∧ ¬ isShutdownReq [200, 4, 0, 0, 0, 0, 0, 0] ∧ ¬ isShutdownReq [1, 4, 0] := by
  refine ⟨?_, ?_, ?_⟩ <;> (rintro ⟨h, rest, hr, hm⟩; simp [recvHeader, vmdHeaderSize, vmdVersion, vmdMaxPayload, leVal] at hr)
  obtain ⟨rfl, _⟩ := hr; simp [vmdShutdown] at hm

end NanoVerif.C18
