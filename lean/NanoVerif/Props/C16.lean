/-
C16 — a failing FFI co-process is contained by the VM (property theorems only; protocol level).
The peer is an arbitrary byte stream per reply; the OS behaviour for a write to a reader-less
pipe is a parameter.  Real process behaviour (waitpid, SIGTERM escalation, orphans) is observed
by the scripted-peer runs, not modelled.
-/
import NanoVerif.Model.CopClient
namespace NanoVerif.C16

/-- Containment: with SIGPIPE ignored, whatever the co-process sends (or fails to send) in reply
    to every request, and wherever it stops reading, the run ends with exit status 0 or 1 —
    never by a signal — and status 0 only if every call was answered with a decodable value. -/
theorem contained (os : Os) (h : os.sigpipeIgnored = true) (calls : List (Bool × Bytes)) (done : Nat) :
    ∃ code n, runCalls os calls done = .exit code n ∧ (code = 0 ∨ code = 1) ∧ done ≤ n ∧
      (code = 0 → n = done + calls.length) := by
  induction calls generalizing done with
  | nil => exact ⟨0, done, rfl, Or.inl rfl, Nat.le_refl _, by simp⟩
  | cons c rest ih =>
    obtain ⟨gone, reply⟩ := c
    simp only [runCalls, oneCall, osWrite, h]
    cases gone with
    | true => exact ⟨1, done, by simp, Or.inr rfl, Nat.le_refl _, by simp⟩
    | false =>
      simp only [Bool.not_false, if_true]
      cases hr : processReply reply with
      | ok v =>
        obtain ⟨code, n, h1, h2, h3, h4⟩ := ih (done + 1)
        refine ⟨code, n, h1, h2, by omega, ?_⟩
        intro hc; have := h4 hc; simp; omega
      | failKeep w => exact ⟨1, done, rfl, Or.inr rfl, Nat.le_refl _, by simp⟩
      | failStop w => exact ⟨1, done, rfl, Or.inr rfl, Nat.le_refl _, by simp⟩

/-- … and the hypothesis is necessary: with the default SIGPIPE disposition a peer that stopped
    reading kills the VM on the next request (the defect repaired in nano_vm) -/
theorem killed_without_sigign (os : Os) (h : os.sigpipeIgnored = false) (reply : Bytes) (rest : List (Bool × Bytes)) :
    runCalls os ((true, reply) :: rest) 0 = .signal "SIGPIPE" := by
  simp [runCalls, oneCall, osWrite, h]

/-- A reply is accepted as a value only when it is a well-formed FFI_RESULT: right version,
    announced length within COP_MAX_PAYLOAD and fully delivered, decodable payload.  Everything
    else — short header, wrong version, oversized or truncated payload, wrong type, garbage — is
    a reported call failure. -/
theorem reply_ok_iff (inp : Bytes) (v : CVal) :
    (∃ w, processReply inp = .ok w) ↔
      ∃ len rest, recvHeader inp = some (msgFfiResult, len, rest) ∧
        (len = 0 ∨ (len ≠ 0 ∧ len ≤ rest.length ∧ (copDe 65 (rest.take len)).isSome)) := by
  let _ := v
  unfold processReply
  constructor
  · intro ⟨w, h⟩
    split at h
    · cases h
    · rename_i ty len rest hh
      split at h
      · rename_i hty
        have : ty = msgFfiResult := by simpa using hty
        subst this
        refine ⟨len, rest, hh, ?_⟩
        split at h
        · rename_i h0; left; simpa using h0
        · rename_i h0
          split at h
          · cases h
          · rename_i hl
            split at h
            · cases h
            · rename_i v' n hd
              right
              refine ⟨by simpa using h0, by omega, by simp [hd]⟩
      · split at h <;> cases h
  · intro ⟨len, rest, hh, hcase⟩
    rw [hh]
    simp only [beq_self_eq_true, if_true]
    rcases hcase with h0 | ⟨h0, hl, hd⟩
    · simp [h0]
    · have : (len == 0) = false := by simpa using h0
      simp only [this, Bool.false_eq_true, if_false]
      rw [if_neg (by omega)]
      cases hdd : copDe 65 (rest.take len) with
      | none => simp [hdd] at hd
      | some r => obtain ⟨v', n⟩ := r; exact ⟨v', rfl⟩

/-- the announced payload length is bounded before anything is allocated or read -/
theorem payload_bounded (inp : Bytes) (ty len : Nat) (rest : Bytes) (h : recvHeader inp = some (ty, len, rest)) :
    len ≤ copMaxPayload ∧ rest = inp.drop copHeaderSize := by
  unfold recvHeader at h
  split at h
  · cases h
  · simp only at h
    split at h
    · cases h
    · split at h
      · cases h
      · rename_i hl
        simp only [Option.some.injEq, Prod.mk.injEq] at h
        obtain ⟨_, rfl, rfl⟩ := h
        exact ⟨by omega, rfl⟩

/- non-vacuity -/
example : runCalls { sigpipeIgnored := true } [(false, [1, 0x10, 0, 0, 9, 0, 0, 0, 1, 5, 0, 0, 0, 0, 0, 0, 0]), (false, [1, 0x10, 0, 0])] 0
    = .exit 1 1 := by decide +kernel
example : (match processReply [1, 0x10, 0, 0, 9, 0, 0, 0, 1, 5, 0, 0, 0, 0, 0, 0, 0] with | .ok (.int 5) => true | _ => false) = true := by
  decide +kernel

end NanoVerif.C16
