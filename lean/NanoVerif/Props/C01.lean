/-
C01 — native (C-transpiled) and NanoVM back ends are observationally equivalent.

What is modelled: the NanoVM back end end to end — lexer, parser and bytecode generator
(`Model/{Lexer,Parser,Compile}.lean`, tied byte for byte to `nano_virt --emit-nvm`) and the VM
(`Model/Vm.lean`, tied in lock step to vm.c) — and the reference semantics `Sem` in its two
configurations.  The native back end (transpiler + C compiler + C runtime) is *not* modelled as code: it
is represented by `Sem nativeCfg` and tied to it by the correspondence run (C02), and compared directly
with the VM on every generated program by this property's own oracle.

Theorems here:
  * `cfg_agree_arith`: the two configurations of the reference coincide on every operator application
    except a division or modulo by zero — the one documented point where the engines are allowed to
    differ (total on the VM, a fault natively);
  * the compiler theorems of `Props/Compile*.lean` (growing fragment): running the bytecode the generator
    emits on the VM model yields the reference observation.
-/
import NanoVerif.Model.Sem
import NanoVerif.Model.Compile

namespace NanoVerif.C01
open NanoVerif Gen

/-- The native and the VM configuration of the reference agree on every binary operator application
    whose native outcome is not the division-by-zero fault. -/
theorem cfg_agree_arith (op : TT) (a b : Sem.SVal) (h : Sem.binArith Sem.nativeCfg op a b ≠ .error .divZero) :
    Sem.binArith Sem.vmCfg op a b = Sem.binArith Sem.nativeCfg op a b := by
  unfold Sem.binArith at *
  split <;> simp_all [Sem.nativeCfg, Sem.vmCfg]

/-- … and the division-by-zero fault arises only from `/` or `%` with a zero divisor. -/
theorem divZero_only_from_zero_divisor (op : TT) (a b : Sem.SVal) (h : Sem.binArith Sem.nativeCfg op a b = .error .divZero) :
    (op = .T_SLASH ∨ op = .T_PERCENT) ∧ b = .int 0 := by
  unfold Sem.binArith at h
  split at h <;> simp_all [Sem.nativeCfg]

/-- on the VM configuration no operator application faults with division by zero -/
theorem vm_never_divZero (op : TT) (a b : Sem.SVal) : Sem.binArith Sem.vmCfg op a b ≠ .error .divZero := by
  unfold Sem.binArith
  split <;> simp [Sem.vmCfg] <;> split <;> simp

example : Sem.binArith Sem.nativeCfg .T_SLASH (.int 7) (.int 0) = .error .divZero := by simp [Sem.binArith, Sem.nativeCfg]
example : Sem.binArith Sem.vmCfg .T_SLASH (.int 7) (.int 0) = .ok (.int 0) := by simp [Sem.binArith, Sem.vmCfg]

end NanoVerif.C01
