/-
C01 — native (C-transpiled) and NanoVM back ends are observationally equivalent.

What is modelled: the NanoVM back end end to end — lexer, parser and bytecode generator
(`Model/{Lexer,Parser,Compile}.lean`, tied byte for byte to `nano_virt --emit-nvm`) and the VM
(`Model/Vm.lean`, tied in lock step to vm.c) — and the reference semantics `Sem` in its two
configurations.  The native back end (transpiler + C compiler + C runtime) is *not* modelled as code: it
is represented by `Sem nativeCfg` and tied to it by the correspondence run (C02), and compared directly
with the VM on every generated program by this property's own oracle.

Theorems here:
  * `cfg_agree_arith`: the two configurations of the reference coincide on every operator application
    except a division or modulo by zero — the one documented point where the engines are allowed to
    differ (total on the VM, a fault natively);
  * `compile_expr_correct` (helper lemmas in `Lemmas/VmExec.lean`, `Lemmas/CompileExpr.lean`): for every
    expression of the pure fragment (integer and boolean literals, local and global variables, unary minus
    and `not`, the eleven strict binary operators, short-circuit `and` / `or`, any nesting), running the
    bytes the generator emits - decoded instruction by instruction by the VM model's own dispatch loop -
    pushes exactly the value the reference semantics computes and changes nothing else;
    `compile_expr_correct_native` carries this to the reference's native configuration;
  * `compile_stmt_correct`, `compile_body_correct` (helper lemmas in `Lemmas/CompileStmt.lean`): the same for
    statements over scalars - assignment to a local, `print` / `println`, `if` with and without `else`,
    `while` (any number of iterations: induction on the reference's fuel), nested blocks, and `let` at the
    level of the function body: the VM reaches the end of the generated code in a state that represents
    the reference's final state, *including the bytes written to standard output*;
  * `compile_main_correct` (helper lemmas in `Lemmas/CompileMain.lean`): whole programs.  For every program
    that consists of `fn main() { body }` with `body` in the fragment and ending in `return e`, if the
    reference semantics runs the program to an exit, then `execute` - the VM model's `vm_execute` - on the
    module that `compileProgram` - the model of `codegen_compile`, tied byte for byte to
    `nano_virt --emit-nvm` - builds, ends normally with exactly the reference's output, and main's value on
    the stack is the one the reference's exit status is computed from.
-/
import NanoVerif.Model.Sem
import NanoVerif.Model.Compile
import NanoVerif.Lemmas.CompileExpr
import NanoVerif.Lemmas.CompileExprExample
import NanoVerif.Lemmas.CompileStmt
import NanoVerif.Lemmas.CompileStmtExample
import NanoVerif.Lemmas.CompileMain
import NanoVerif.Lemmas.CompileMainExample
import NanoVerif.Lemmas.SemCfg

namespace NanoVerif.C01
open NanoVerif Gen

/-- The native and the VM configuration of the reference agree on every binary operator application
    whose native outcome is not the division-by-zero fault. -/
theorem cfg_agree_arith (op : TT) (a b : Sem.SVal) (h : Sem.binArith Sem.nativeCfg op a b ≠ .error .divZero) :
    Sem.binArith Sem.vmCfg op a b = Sem.binArith Sem.nativeCfg op a b := by
  unfold Sem.binArith at *
  split <;> simp_all [Sem.nativeCfg, Sem.vmCfg]

/-- … and the division-by-zero fault arises only from `/` or `%` with a zero divisor. -/
theorem divZero_only_from_zero_divisor (op : TT) (a b : Sem.SVal) (h : Sem.binArith Sem.nativeCfg op a b = .error .divZero) :
    (op = .T_SLASH ∨ op = .T_PERCENT) ∧ b = .int 0 := by
  unfold Sem.binArith at h
  split at h <;> simp_all [Sem.nativeCfg]

/-- on the VM configuration no operator application faults with division by zero -/
theorem vm_never_divZero (op : TT) (a b : Sem.SVal) : Sem.binArith Sem.vmCfg op a b ≠ .error .divZero := by
  unfold Sem.binArith
  split <;> simp [Sem.vmCfg] <;> split <;> simp

example : Sem.binArith Sem.nativeCfg .T_SLASH (.int 7) (.int 0) = .error .divZero := by simp [Sem.binArith, Sem.nativeCfg]
example : Sem.binArith Sem.vmCfg .T_SLASH (.int 7) (.int 0) = .ok (.int 0) := by simp [Sem.binArith, Sem.vmCfg]

/-- **compile_expr_correct** (VM back end, pure expression fragment).  Let `e` be an expression of the
    fragment, `code` what `compile_expr` emits for it and `bs` its encoding, lying at the instruction pointer
    inside the current function of any module `m`; let the reference semantics evaluate `e` to `w` in an
    environment the machine state represents (`EnvOK`: each visible variable is a scalar stored in the slot
    the generator resolves its name to).  Then the VM's dispatch loop, started in that state, reaches after
    finitely many instructions the state that differs only by the instruction pointer having moved past the
    code and one more stack entry, the representation of `w`; heap, output, globals and frames are unchanged,
    and the reference's state is unchanged too.  No bound on the size or nesting of `e`. -/
theorem compile_expr_correct (m : Module) (ce : CE) (p : Program) (e : Expr) (hp : PureE e)
    (cs cs' : CS) (code : List PI) (bs : Bytes) (fuel : Nat) (loc : Sem.Locals) (g g' : Sem.GState) (w : Sem.SVal)
    (s : VmState) (fr : Frame) (frs : List Frame)
    (hc : cExpr ce cs e = .ok (cs', code)) (hb : encodeAll code = some bs)
    (hs : Sem.evalExpr Sem.vmCfg p fuel loc g e = .ok (w, g'))
    (hfr : s.frames = fr :: frs) (hat : CodeAt m s.curFn s.ip bs)
    (henv : EnvOK ce cs loc g fr.stackBase s.stack s.globals) :
    g' = g ∧ ∃ v n, VRel w v ∧
      ∀ k, runLoop m (n + k) s = runLoop m k (advS s (s.ip + bs.length) (s.stack ++ [v])) := by
  obtain ⟨_, hg, v, n, hv, hrun⟩ := cExpr_sim m ce p e hp cs cs' code fuel loc g g' w s fr frs bs hc hs hfr hb hat henv
  exact ⟨hg, v, n, hv, fun k => runLoop_of_runN m n k s _ hrun⟩

/-- on the fragment, whatever the native configuration of the reference computes, the VM configuration
    computes too (they differ only where the native one faults on a zero divisor) -/
theorem native_ok_implies_vm (p : Program) (e : Expr) (hp : PureE e) :
    ∀ (fuel : Nat) (loc : Sem.Locals) (g : Sem.GState) (r : Sem.SVal × Sem.GState),
      Sem.evalExpr Sem.nativeCfg p fuel loc g e = .ok r → Sem.evalExpr Sem.vmCfg p fuel loc g e = .ok r := by
  induction hp with
  | num v => intro fuel loc g r h; cases fuel <;> simpa [Sem.evalExpr] using h
  | bool b => intro fuel loc g r h; cases fuel <;> simpa [Sem.evalExpr] using h
  | ident x => intro fuel loc g r h; cases fuel <;> simpa [Sem.evalExpr] using h
  | neg a _ ih =>
    intro fuel loc g r h
    cases fuel with
    | zero => simp [Sem.evalExpr] at h
    | succ f =>
      simp only [Sem.evalExpr] at h ⊢
      cases ha : Sem.evalExpr Sem.nativeCfg p f loc g a with
      | error er => simp [ha] at h
      | ok ra => rw [ih f loc g ra ha]; simpa [ha] using h
  | not a _ ih =>
    intro fuel loc g r h
    cases fuel with
    | zero => simp [Sem.evalExpr] at h
    | succ f =>
      simp only [Sem.evalExpr] at h ⊢
      cases ha : Sem.evalExpr Sem.nativeCfg p f loc g a with
      | error er => simp [ha] at h
      | ok ra => rw [ih f loc g ra ha]; simpa [ha] using h
  | strict op o a b ho _ _ iha ihb =>
    intro fuel loc g r h
    cases fuel with
    | zero => simp [Sem.evalExpr] at h
    | succ f =>
      obtain ⟨hna, hno⟩ := binOpc_not_logic op o ho
      simp only [Sem.evalExpr, hna, hno, Bool.false_eq_true, if_false] at h ⊢
      cases ha : Sem.evalExpr Sem.nativeCfg p f loc g a with
      | error er => simp [ha] at h
      | ok ra =>
        obtain ⟨wa, g1⟩ := ra
        rw [iha f loc g _ ha]
        simp only [ha] at h ⊢
        cases hb : Sem.evalExpr Sem.nativeCfg p f loc g1 b with
        | error er => simp [hb] at h
        | ok rb =>
          obtain ⟨wb, g2⟩ := rb
          rw [ihb f loc g1 _ hb]
          simp only [hb] at h ⊢
          cases hbin : Sem.binArith Sem.nativeCfg op wa wb with
          | error er => simp [hbin] at h
          | ok v =>
            have := cfg_agree_arith op wa wb (by rw [hbin]; simp)
            rw [this, hbin]
            simpa [hbin] using h
  | and a b _ _ iha ihb =>
    intro fuel loc g r h
    cases fuel with
    | zero => simp [Sem.evalExpr] at h
    | succ f =>
      simp only [Sem.evalExpr, beq_self_eq_true, if_true] at h ⊢
      cases ha : Sem.evalExpr Sem.nativeCfg p f loc g a with
      | error er => simp [ha] at h
      | ok ra =>
        rw [iha f loc g ra ha]
        simp only [ha] at h
        obtain ⟨wa, g1⟩ := ra
        cases wa with
        | bool x =>
          cases x with
          | false => simpa using h
          | true =>
            simp only at h ⊢
            cases hb : Sem.evalExpr Sem.nativeCfg p f loc g1 b with
            | error er => simp [hb] at h
            | ok rb => rw [ihb f loc g1 rb hb]; simpa [hb] using h
        | _ => simp at h
  | or a b _ _ iha ihb =>
    intro fuel loc g r h
    cases fuel with
    | zero => simp [Sem.evalExpr] at h
    | succ f =>
      have hne : (TT.T_OR == TT.T_AND) = false := rfl
      simp only [Sem.evalExpr, hne, beq_self_eq_true, if_true, Bool.false_eq_true, if_false] at h ⊢
      cases ha : Sem.evalExpr Sem.nativeCfg p f loc g a with
      | error er => simp [ha] at h
      | ok ra =>
        rw [iha f loc g ra ha]
        simp only [ha] at h
        obtain ⟨wa, g1⟩ := ra
        cases wa with
        | bool x =>
          cases x with
          | true => simpa using h
          | false =>
            simp only at h ⊢
            cases hb : Sem.evalExpr Sem.nativeCfg p f loc g1 b with
            | error er => simp [hb] at h
            | ok rb => rw [ihb f loc g1 rb hb]; simpa [hb] using h
        | _ => simp at h

/-- **both back ends, model level**: if the reference in its *native* configuration evaluates an expression
    of the fragment to `w`, then the VM running the generated code pushes the representation of `w` -/
theorem compile_expr_correct_native (m : Module) (ce : CE) (p : Program) (e : Expr) (hp : PureE e)
    (cs cs' : CS) (code : List PI) (bs : Bytes) (fuel : Nat) (loc : Sem.Locals) (g g' : Sem.GState) (w : Sem.SVal)
    (s : VmState) (fr : Frame) (frs : List Frame)
    (hc : cExpr ce cs e = .ok (cs', code)) (hb : encodeAll code = some bs)
    (hs : Sem.evalExpr Sem.nativeCfg p fuel loc g e = .ok (w, g'))
    (hfr : s.frames = fr :: frs) (hat : CodeAt m s.curFn s.ip bs)
    (henv : EnvOK ce cs loc g fr.stackBase s.stack s.globals) :
    g' = g ∧ ∃ v n, VRel w v ∧
      ∀ k, runLoop m (n + k) s = runLoop m k (advS s (s.ip + bs.length) (s.stack ++ [v])) :=
  compile_expr_correct m ce p e hp cs cs' code bs fuel loc g g' w s fr frs hc hb
    (native_ok_implies_vm p e hp fuel loc g (w, g') hs) hfr hat henv

open CompileEx in
/-- non-vacuity: the hypotheses hold for a concrete module, machine state and environment, and the theorem
    yields the run of the VM on `(and (< 1 x) (== (* x 3) 15))` with x = 5 -/
example : ∃ v n, VRel (.bool true) v ∧ ∀ k, runLoop exM (n + k) exS = runLoop exM k (advS exS 49 ([.int 5] ++ [v])) :=
  (compile_expr_correct_native exM {} [] exE
    (.and _ _ (.strict .T_LT .LT _ _ rfl (.num 1) (.ident "x")) (.strict .T_EQ .EQ _ _ rfl (.strict .T_STAR .MUL _ _ rfl (.ident "x") (.num 3)) (.num 15)))
    exCs exCs exCode exBytes 10 exLoc {} {} (.bool true) exS _ [] exCompile exEncode exSem rfl exAt exEnv).2

/-- **compile_stmt_correct** (VM back end, statement fragment `StmtF`: `set` of a local, `print`/`println`,
    `if`/`else`, `while`, blocks - without declarations, `break`, `continue`, `return`; expressions of the pure
    fragment).  If the reference executes the statement from a state the machine state represents (`StInv`:
    empty operand stack, every visible local a reference variable stored in its slot, same output so far, no
    global variables), then the reference falls through and the VM's dispatch loop, running the generated bytes,
    reaches their end in a state that represents the reference's new state: same variables with the new
    values, and exactly the same bytes written to standard output.  Loops run any number of iterations. -/
theorem compile_stmt_correct (m : Module) (ce : CE) (p : Program) (L : Nat) (st : Stmt) (hf : StmtF st)
    (cs cs' : CS) (code : List PI) (d fuel : Nat) (loc loc' : Sem.Locals) (g g' : Sem.GState) (fl : Sem.Flow)
    (s : VmState) (fr : Frame) (frs : List Frame) (bs : Bytes)
    (hc : cStmt ce cs d st = .ok (cs', code)) (hb : encodeAll code = some bs)
    (hs : Sem.execStmt Sem.vmCfg p fuel loc g st = .ok (fl, loc', g'))
    (hfr : s.frames = fr :: frs) (hat : CodeAt m s.curFn s.ip bs) (hinv : StInv ce cs loc g fr L s) :
    fl = .next ∧ ∃ n s', (∀ k, runLoop m (n + k) s = runLoop m k s') ∧ s'.ip = s.ip + bs.length ∧
      s'.frames = s.frames ∧ s'.curFn = s.curFn ∧ s'.out = g'.out ∧ StInv ce cs loc' g' fr L s' := by
  obtain ⟨h1, _, n, s', hrun, hip, hfr', hcf, hinv'⟩ :=
    stmtF_sim m ce p L st hf cs cs' code d fuel loc loc' g g' fl s fr frs bs hc hs hfr hb hat hinv
  exact ⟨h1, n, s', fun k => runLoop_of_runN m n k s s' hrun, hip, hfr', hcf, hinv'.out, hinv'⟩

/-- **compile_body_correct**: the same for a function body - declarations `let x = e` and statements of the
    fragment in any order - given that the frame has a slot for every declared variable -/
theorem compile_body_correct (m : Module) (ce : CE) (p : Program) (L : Nat) (ss : List Stmt) (hbf : BodyF ss)
    (cs cs' : CS) (code : List PI) (d fuel : Nat) (loc loc' : Sem.Locals) (g g' : Sem.GState) (fl : Sem.Flow)
    (s : VmState) (fr : Frame) (frs : List Frame) (bs : Bytes)
    (hc : cStmts ce cs d ss = .ok (cs', code)) (hb : encodeAll code = some bs)
    (hs : Sem.execStmts Sem.vmCfg p fuel loc g ss = .ok (fl, loc', g'))
    (hfr : s.frames = fr :: frs) (hat : CodeAt m s.curFn s.ip bs) (hinv : StInv ce cs loc g fr L s)
    (hL : cs'.locals.length ≤ L) (h32 : fr.stackBase + L < 4294967296) :
    fl = .next ∧ ∃ n s', (∀ k, runLoop m (n + k) s = runLoop m k s') ∧ s'.ip = s.ip + bs.length ∧
      s'.frames = s.frames ∧ s'.curFn = s.curFn ∧ s'.out = g'.out ∧ StInv ce cs' loc' g' fr L s' := by
  obtain ⟨h1, n, s', hrun, hip, hfr', hcf, hinv'⟩ :=
    body_sim m ce p L ss hbf cs cs' code d fuel loc loc' g g' fl s fr frs bs hc hs hfr hb hat hinv hL h32
  exact ⟨h1, n, s', fun k => runLoop_of_runN m n k s s' hrun, hip, hfr', hcf, hinv'.out, hinv'⟩

open CompileEx2 in
/-- non-vacuity: `let mut x = 5; while (< x 7) { set x (+ x 1) }; (println x)` - the hypotheses hold for a
    concrete module and entry state, and the theorem yields a VM run that ends after the 55 bytes of code
    having written "7\n" -/
example : ∃ n s', (∀ k, runLoop CompileEx2.m (n + k) s0 = runLoop CompileEx2.m k s') ∧ s'.ip = 55 ∧ s'.out = [55, 10] := by
  obtain ⟨_, n, s', h1, h2, _, _, h5, _⟩ := compile_body_correct CompileEx2.m {} [] 1 body
    (.letS _ _ _ _ _ (.num 5) (.stmt _ _ (.while _ _ (.strict .T_LT .LT _ _ rfl (.ident "x") (.num 7))
      (fun st hst => by
        have : st = .setS "x" (.prefixOp .T_PLUS [.ident "x", .num 1]) := by simpa using hst
        subst this
        exact .set _ _ (.strict .T_PLUS .ADD _ _ rfl (.ident "x") (.num 1))))
      (.stmt _ _ (.print true _ (.ident "x")) .nil)))
    {} cs1 CompileEx2.code 0 20 [] _ {} _ _ s0 _ [] bytes compiles encodes runs rfl at0 inv0 (by decide) (by decide)
  exact ⟨n, s', h1, h2, h5⟩

/-- **compile_main_correct** (whole program, VM back end).  Let the program be `fn main() { body }` where
    `body` is made of `let` declarations and statements of the fragment and ends with `return e`; let
    `compileProgram` produce the module `m` (below 2 GiB of code).  If the reference semantics runs the
    program to a normal exit with output `out` and status `code`, then `execute m` - module flags, `__init__`
    look-up, `vm_call_function`'s frame set-up, the dispatch loop decoding the generated bytes, `OP_RET` in the
    outermost frame - ends with `VM_OK` for every sufficiently large instruction budget, has written exactly
    `out`, and leaves on the stack the single value from which the drivers derive the exit status: an
    integer congruent to `code` modulo 256, or a boolean with `code = 0`. -/
theorem compile_main_correct (rt : Ty) (body : List Stmt) (hb : BodyR body) (m : Module)
    (hc : compileProgram [.fn "main" [] rt body] = .ok m) (hsmall : m.code.length < 2147483648)
    (fuel : Nat) (out : Bytes) (code : Nat)
    (hs : Sem.runProgram Sem.vmCfg [.fn "main" [] rt body] (fuel + 2) = ⟨out, .exit code⟩) :
    ∃ n sf v, (∀ k, execute m (n + 1 + k) = (sf, .done)) ∧ sf.out = out ∧ sf.stack = [v] ∧
      ((∃ x : I64, v = .int x ∧ code = (x.toInt % 256).toNat) ∨ (∃ b : Bool, v = .bool b ∧ code = 0)) := by
  rcases runProgram_main rt body fuel _ hs with ⟨f, g, _, ho⟩ | ⟨fl, loc, g, hex, ho⟩
  · simp at ho
  · obtain ⟨w, v, n, sf, rfl, hv, hrun, hout, hstk⟩ := main_program_sim rt body hb m hc hsmall (fuel + 1) fl loc g hex
    simp only [Sem.Obs.mk.injEq] at ho
    obtain ⟨ho1, ho2⟩ := ho
    refine ⟨n, sf, v, hrun, by rw [hout, ho1], hstk, ?_⟩
    cases hv with
    | int x => left; exact ⟨x, rfl, by simpa using ho2⟩
    | bool b => right; exact ⟨b, rfl, by simpa using ho2⟩

/-- non-vacuity of `compile_main_correct`: `fn main() -> int { let mut x: int = 5  while (< x 7) { set x (+ x 1) }
    (println x)  return x }` - `compileProgram` succeeds, the reference exits with status 7 after writing "7\n",
    and the theorem yields that `execute` on the compiled module ends normally with that output and `7` on the stack -/
example : ∃ n sf v, (∀ k, execute CompileEx3.m (n + 1 + k) = (sf, .done)) ∧ sf.out = [55, 10] ∧ sf.stack = [v] ∧
      ((∃ x : I64, v = .int x ∧ 7 = (x.toInt % 256).toNat) ∨ (∃ b : Bool, v = .bool b ∧ 7 = 0)) :=
  compile_main_correct .int CompileEx3.body
    (.letS _ _ _ _ _ (.num 5) (.stmt _ _ (.while _ _ (.strict .T_LT .LT _ _ rfl (.ident "x") (.num 7))
      (fun st hst => by
        have : st = .setS "x" (.prefixOp .T_PLUS [.ident "x", .num 1]) := by simpa using hst
        subst this
        exact .set _ _ (.strict .T_PLUS .ADD _ _ rfl (.ident "x") (.num 1))))
      (.stmt _ _ (.print true _ (.ident "x")) (.ret _ (.ident "x")))))
    CompileEx3.m CompileEx3.compileProgram_ok (by decide) 20 [55, 10] 7 CompileEx3.runs

/-! ### the reference semantics itself: configurations and fuel (every construct the model has)

The theorems above relate generated code to the reference on a fragment.  The three below are about the
reference as a whole - calls and recursion, globals, arrays, structs, `for`, `break`, `continue`, `return`,
builtins - and make the layering of C01 explicit: each engine is tied to its configuration of the
reference (by the theorems above where they reach, by correspondence elsewhere); the two configurations
themselves agree, for every program and every fuel, unless the native one stops at a zero divisor
(the "undefined partial operation" the property excludes); and an outcome, once decided, is the outcome
for every larger fuel, so "the" outcome of a program does not depend on the bound used to compute it. -/

/-- **reference_cfgs_agree**: for every program and every fuel, the native and the VM configuration of the
    reference produce the same output and the same result, unless the native run ends in the
    division-by-zero fault. -/
theorem reference_cfgs_agree (p : Program) (fuel : Nat)
    (h : (Sem.runProgram Sem.nativeCfg p fuel).res ≠ .fault .divZero) :
    Sem.runProgram Sem.nativeCfg p fuel = Sem.runProgram Sem.vmCfg p fuel :=
  Sem.runProgram_ag p fuel h

/-- **reference_fuel_stable**: an observation other than "not decided by this much fuel" is the observation
    for every larger fuel (either configuration). -/
theorem reference_fuel_stable (c : Sem.Cfg) (p : Program) (fuel : Nat)
    (h : (Sem.runProgram c p fuel).res ≠ .fault .fuel) (k : Nat) :
    Sem.runProgram c p (fuel + k) = Sem.runProgram c p fuel :=
  Sem.runProgram_fuel_mono p c fuel h k

/-- **decided_outcomes_agree**: if the native configuration decides a program with some fuel and the VM
    configuration decides it with some other fuel, and the native outcome is not the division fault, the
    two observations are equal. -/
theorem decided_outcomes_agree (p : Program) (n m : Nat)
    (hn : (Sem.runProgram Sem.nativeCfg p n).res ≠ .fault .fuel)
    (hd : (Sem.runProgram Sem.nativeCfg p n).res ≠ .fault .divZero)
    (hm : (Sem.runProgram Sem.vmCfg p m).res ≠ .fault .fuel) :
    Sem.runProgram Sem.nativeCfg p n = Sem.runProgram Sem.vmCfg p m := by
  have h1 := reference_fuel_stable Sem.nativeCfg p n hn m
  have h2 := reference_fuel_stable Sem.vmCfg p m hm n
  have h3 : (Sem.runProgram Sem.nativeCfg p (n + m)).res ≠ .fault .divZero := by rw [h1]; exact hd
  have h4 := reference_cfgs_agree p (n + m) h3
  rw [← h1, h4, Nat.add_comm n m, h2]

/-- non-vacuity: the example program is decided by the native configuration with fuel 22 (exit 7), so the
    three theorems apply to it -/
theorem CompileEx3_runs_native : Sem.runProgram Sem.nativeCfg CompileEx3.prog (20 + 2) = ⟨[55, 10], .exit 7⟩ := by
  have h := reference_cfgs_agree CompileEx3.prog 22
  rw [show Sem.runProgram Sem.vmCfg CompileEx3.prog 22 = _ from CompileEx3.runs] at h
  apply h
  simp [CompileEx3.prog, CompileEx3.body, Sem.runProgram, Sem.initGlobals, Sem.evalArgs, Sem.builtin, Sem.isBuiltinName, Sem.findFn,
    Sem.execStmts, Sem.execStmt, Sem.execWhile, Sem.execBlock, Sem.evalExpr, Sem.lookup?, Sem.update, Sem.binArith,
    Sem.wrap64, Sem.fmtSVal, Sem.decBytes]

example : Sem.runProgram Sem.nativeCfg CompileEx3.prog 22 = Sem.runProgram Sem.vmCfg CompileEx3.prog 40 :=
  decided_outcomes_agree CompileEx3.prog 22 40 (by rw [CompileEx3_runs_native]; decide)
    (by rw [CompileEx3_runs_native]; decide)
    (by rw [show (40 : Nat) = 22 + 18 from rfl, reference_fuel_stable Sem.vmCfg CompileEx3.prog 22 (by rw [CompileEx3.runs]; decide) 18,
            CompileEx3.runs]; decide)

/-- … and the exclusion is needed: with a zero divisor the two configurations do differ -/
example : Sem.runProgram Sem.nativeCfg [.fn "main" [] .int [.ret (some (.prefixOp .T_SLASH [.num 7, .num 0]))]] 5
            = ⟨[], .fault .divZero⟩ ∧
          Sem.runProgram Sem.vmCfg [.fn "main" [] .int [.ret (some (.prefixOp .T_SLASH [.num 7, .num 0]))]] 5
            = ⟨[], .exit 0⟩ := by
  constructor <;>
  simp [Sem.runProgram, Sem.initGlobals, Sem.evalArgs, Sem.builtin, Sem.isBuiltinName, Sem.findFn,
    Sem.execStmts, Sem.execStmt, Sem.evalExpr, Sem.binArith, Sem.wrap64, Sem.nativeCfg, Sem.vmCfg]

end NanoVerif.C01
