/-
C01 — native (C-transpiled) and NanoVM back ends are observationally equivalent.

What is modelled: the NanoVM back end end to end — lexer, parser and bytecode generator
(`Model/{Lexer,Parser,Compile}.lean`, tied byte for byte to `nano_virt --emit-nvm`) and the VM
(`Model/Vm.lean`, tied in lock step to vm.c) — and the reference semantics `Sem` in its two
configurations.  The native back end (transpiler + C compiler + C runtime) is *not* modelled as code: it
is represented by `Sem nativeCfg` and tied to it by the correspondence run (C02), and compared directly
with the VM on every generated program by this property's own oracle.

Theorems here:
  * `cfg_agree_arith`: the two configurations of the reference coincide on every operator application
    except a division or modulo by zero — the one documented point where the engines are allowed to
    differ (total on the VM, a fault natively);
  * `compile_expr_correct` (helper lemmas in `Lemmas/VmExec.lean`, `Lemmas/CompileExpr.lean`): for every
    expression of the pure fragment (integer and boolean literals, local and global variables, unary minus
    and `not`, the eleven strict binary operators, short-circuit `and` / `or`, any nesting), running the
    bytes the generator emits - decoded instruction by instruction by the VM model's own dispatch loop -
    pushes exactly the value the reference semantics computes and changes nothing else;
    `compile_expr_correct_native` carries this to the reference's native configuration.
-/
import NanoVerif.Model.Sem
import NanoVerif.Model.Compile
import NanoVerif.Lemmas.CompileExpr
import NanoVerif.Lemmas.CompileExprExample

namespace NanoVerif.C01
open NanoVerif Gen

/-- The native and the VM configuration of the reference agree on every binary operator application
    whose native outcome is not the division-by-zero fault. -/
theorem cfg_agree_arith (op : TT) (a b : Sem.SVal) (h : Sem.binArith Sem.nativeCfg op a b ≠ .error .divZero) :
    Sem.binArith Sem.vmCfg op a b = Sem.binArith Sem.nativeCfg op a b := by
  unfold Sem.binArith at *
  split <;> simp_all [Sem.nativeCfg, Sem.vmCfg]

/-- … and the division-by-zero fault arises only from `/` or `%` with a zero divisor. -/
theorem divZero_only_from_zero_divisor (op : TT) (a b : Sem.SVal) (h : Sem.binArith Sem.nativeCfg op a b = .error .divZero) :
    (op = .T_SLASH ∨ op = .T_PERCENT) ∧ b = .int 0 := by
  unfold Sem.binArith at h
  split at h <;> simp_all [Sem.nativeCfg]

/-- on the VM configuration no operator application faults with division by zero -/
theorem vm_never_divZero (op : TT) (a b : Sem.SVal) : Sem.binArith Sem.vmCfg op a b ≠ .error .divZero := by
  unfold Sem.binArith
  split <;> simp [Sem.vmCfg] <;> split <;> simp

example : Sem.binArith Sem.nativeCfg .T_SLASH (.int 7) (.int 0) = .error .divZero := by simp [Sem.binArith, Sem.nativeCfg]
example : Sem.binArith Sem.vmCfg .T_SLASH (.int 7) (.int 0) = .ok (.int 0) := by simp [Sem.binArith, Sem.vmCfg]

/-- **compile_expr_correct** (VM back end, pure expression fragment).  Let `e` be an expression of the
    fragment, `code` what `compile_expr` emits for it and `bs` its encoding, lying at the instruction pointer
    inside the current function of any module `m`; let the reference semantics evaluate `e` to `w` in an
    environment the machine state represents (`EnvOK`: each visible variable is a scalar stored in the slot
    the generator resolves its name to).  Then the VM's dispatch loop, started in that state, reaches after
    finitely many instructions the state that differs only by the instruction pointer having moved past the
    code and one more stack entry, the representation of `w`; heap, output, globals and frames are unchanged,
    and the reference's state is unchanged too.  No bound on the size or nesting of `e`. -/
theorem compile_expr_correct (m : Module) (ce : CE) (p : Program) (e : Expr) (hp : PureE e)
    (cs cs' : CS) (code : List PI) (bs : Bytes) (fuel : Nat) (loc : Sem.Locals) (g g' : Sem.GState) (w : Sem.SVal)
    (s : VmState) (fr : Frame) (frs : List Frame)
    (hc : cExpr ce cs e = .ok (cs', code)) (hb : encodeAll code = some bs)
    (hs : Sem.evalExpr Sem.vmCfg p fuel loc g e = .ok (w, g'))
    (hfr : s.frames = fr :: frs) (hat : CodeAt m s.curFn s.ip bs)
    (henv : EnvOK ce cs loc g fr.stackBase s.stack s.globals) :
    g' = g ∧ ∃ v n, VRel w v ∧
      ∀ k, runLoop m (n + k) s = runLoop m k (advS s (s.ip + bs.length) (s.stack ++ [v])) := by
  obtain ⟨_, hg, v, n, hv, hrun⟩ := cExpr_sim m ce p e hp cs cs' code fuel loc g g' w s fr frs bs hc hs hfr hb hat henv
  exact ⟨hg, v, n, hv, fun k => runLoop_of_runN m n k s _ hrun⟩

/-- on the fragment, whatever the native configuration of the reference computes, the VM configuration
    computes too (they differ only where the native one faults on a zero divisor) -/
theorem native_ok_implies_vm (p : Program) (e : Expr) (hp : PureE e) :
    ∀ (fuel : Nat) (loc : Sem.Locals) (g : Sem.GState) (r : Sem.SVal × Sem.GState),
      Sem.evalExpr Sem.nativeCfg p fuel loc g e = .ok r → Sem.evalExpr Sem.vmCfg p fuel loc g e = .ok r := by
  induction hp with
  | num v => intro fuel loc g r h; cases fuel <;> simpa [Sem.evalExpr] using h
  | bool b => intro fuel loc g r h; cases fuel <;> simpa [Sem.evalExpr] using h
  | ident x => intro fuel loc g r h; cases fuel <;> simpa [Sem.evalExpr] using h
  | neg a _ ih =>
    intro fuel loc g r h
    cases fuel with
    | zero => simp [Sem.evalExpr] at h
    | succ f =>
      simp only [Sem.evalExpr] at h ⊢
      cases ha : Sem.evalExpr Sem.nativeCfg p f loc g a with
      | error er => simp [ha] at h
      | ok ra => rw [ih f loc g ra ha]; simpa [ha] using h
  | not a _ ih =>
    intro fuel loc g r h
    cases fuel with
    | zero => simp [Sem.evalExpr] at h
    | succ f =>
      simp only [Sem.evalExpr] at h ⊢
      cases ha : Sem.evalExpr Sem.nativeCfg p f loc g a with
      | error er => simp [ha] at h
      | ok ra => rw [ih f loc g ra ha]; simpa [ha] using h
  | strict op o a b ho _ _ iha ihb =>
    intro fuel loc g r h
    cases fuel with
    | zero => simp [Sem.evalExpr] at h
    | succ f =>
      obtain ⟨hna, hno⟩ := binOpc_not_logic op o ho
      simp only [Sem.evalExpr, hna, hno, Bool.false_eq_true, if_false] at h ⊢
      cases ha : Sem.evalExpr Sem.nativeCfg p f loc g a with
      | error er => simp [ha] at h
      | ok ra =>
        obtain ⟨wa, g1⟩ := ra
        rw [iha f loc g _ ha]
        simp only [ha] at h ⊢
        cases hb : Sem.evalExpr Sem.nativeCfg p f loc g1 b with
        | error er => simp [hb] at h
        | ok rb =>
          obtain ⟨wb, g2⟩ := rb
          rw [ihb f loc g1 _ hb]
          simp only [hb] at h ⊢
          cases hbin : Sem.binArith Sem.nativeCfg op wa wb with
          | error er => simp [hbin] at h
          | ok v =>
            have := cfg_agree_arith op wa wb (by rw [hbin]; simp)
            rw [this, hbin]
            simpa [hbin] using h
  | and a b _ _ iha ihb =>
    intro fuel loc g r h
    cases fuel with
    | zero => simp [Sem.evalExpr] at h
    | succ f =>
      simp only [Sem.evalExpr, beq_self_eq_true, if_true] at h ⊢
      cases ha : Sem.evalExpr Sem.nativeCfg p f loc g a with
      | error er => simp [ha] at h
      | ok ra =>
        rw [iha f loc g ra ha]
        simp only [ha] at h
        obtain ⟨wa, g1⟩ := ra
        cases wa with
        | bool x =>
          cases x with
          | false => simpa using h
          | true =>
            simp only at h ⊢
            cases hb : Sem.evalExpr Sem.nativeCfg p f loc g1 b with
            | error er => simp [hb] at h
            | ok rb => rw [ihb f loc g1 rb hb]; simpa [hb] using h
        | _ => simp at h
  | or a b _ _ iha ihb =>
    intro fuel loc g r h
    cases fuel with
    | zero => simp [Sem.evalExpr] at h
    | succ f =>
      have hne : (TT.T_OR == TT.T_AND) = false := rfl
      simp only [Sem.evalExpr, hne, beq_self_eq_true, if_true, Bool.false_eq_true, if_false] at h ⊢
      cases ha : Sem.evalExpr Sem.nativeCfg p f loc g a with
      | error er => simp [ha] at h
      | ok ra =>
        rw [iha f loc g ra ha]
        simp only [ha] at h
        obtain ⟨wa, g1⟩ := ra
        cases wa with
        | bool x =>
          cases x with
          | true => simpa using h
          | false =>
            simp only at h ⊢
            cases hb : Sem.evalExpr Sem.nativeCfg p f loc g1 b with
            | error er => simp [hb] at h
            | ok rb => rw [ihb f loc g1 rb hb]; simpa [hb] using h
        | _ => simp at h

/-- **both back ends, model level**: if the reference in its *native* configuration evaluates an expression
    of the fragment to `w`, then the VM running the generated code pushes the representation of `w` -/
theorem compile_expr_correct_native (m : Module) (ce : CE) (p : Program) (e : Expr) (hp : PureE e)
    (cs cs' : CS) (code : List PI) (bs : Bytes) (fuel : Nat) (loc : Sem.Locals) (g g' : Sem.GState) (w : Sem.SVal)
    (s : VmState) (fr : Frame) (frs : List Frame)
    (hc : cExpr ce cs e = .ok (cs', code)) (hb : encodeAll code = some bs)
    (hs : Sem.evalExpr Sem.nativeCfg p fuel loc g e = .ok (w, g'))
    (hfr : s.frames = fr :: frs) (hat : CodeAt m s.curFn s.ip bs)
    (henv : EnvOK ce cs loc g fr.stackBase s.stack s.globals) :
    g' = g ∧ ∃ v n, VRel w v ∧
      ∀ k, runLoop m (n + k) s = runLoop m k (advS s (s.ip + bs.length) (s.stack ++ [v])) :=
  compile_expr_correct m ce p e hp cs cs' code bs fuel loc g g' w s fr frs hc hb
    (native_ok_implies_vm p e hp fuel loc g (w, g') hs) hfr hat henv

open CompileEx in
/-- non-vacuity: the hypotheses hold for a concrete module, machine state and environment, and the theorem
    yields the run of the VM on `(and (< 1 x) (== (* x 3) 15))` with x = 5 -/
example : ∃ v n, VRel (.bool true) v ∧ ∀ k, runLoop exM (n + k) exS = runLoop exM k (advS exS 49 ([.int 5] ++ [v])) :=
  (compile_expr_correct_native exM {} [] exE
    (.and _ _ (.strict .T_LT .LT _ _ rfl (.num 1) (.ident "x")) (.strict .T_EQ .EQ _ _ rfl (.strict .T_STAR .MUL _ _ rfl (.ident "x") (.num 3)) (.num 15)))
    exCs exCs exCode exBytes 10 exLoc {} {} (.bool true) exS _ [] exCompile exEncode exSem rfl exAt exEnv).2

end NanoVerif.C01
