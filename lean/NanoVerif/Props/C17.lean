/-
C17 — daemon execution is transparent and concurrent clients are isolated.

Model: `Model/Vmd.lean` — wire framing (constants regenerated from vmd_protocol.h), the session handler
`serve`, the client's reassembly loop, and a descriptor-level process model in which any number of session
threads issue accept / write / close events in an arbitrary interleaving.

  * `isolation`: for EVERY interleaving of ANY number of sessions that follow the session discipline (one
    connection, writes, exactly one close, nothing afterwards) each client receives exactly the bytes its own
    session wrote, in order, and nothing else — descriptor numbers are reused by the kernel, and the proof is
    the ownership invariant that makes that harmless.  The discipline is necessary: a double close delivers
    one client's output to another (`example`, evaluated on the model) — that is seeded defect C17_2.
  * `reassembly` / `transparent`: however stdio chops a program's output into OUTPUT frames, the client
    reassembles exactly the standalone output bytes, error text and exit code.

What the model cannot exhibit: races on process-wide memory below the system-call level (a shared stdio
buffer, the CRC table initialisation).  Those are looked for on the real daemon — concurrent clients with
arrival jitter, perturbed schedules, a ThreadSanitizer build — and the real daemon's system-call trace is
checked against the session discipline the theorem assumes.
-/
import NanoVerif.Model.Vmd

namespace NanoVerif.C17
open NanoVerif NanoVerif.Vmd Gen

inductive Phase | fresh | opened | closed
deriving DecidableEq, Repr

/-- session discipline: a session is handed one connection, writes on it, closes it once, and then does
    nothing more with that descriptor number -/
def phaseStep (ph : Nat → Phase) : Ev → Option (Nat → Phase)
  | .accept s => if ph s = .fresh then some (fun t => if t = s then .opened else ph t) else none
  | .write s _ => if ph s = .opened then some ph else none
  | .close s => if ph s = .opened then some (fun t => if t = s then .closed else ph t) else none

def disciplined : (Nat → Phase) → List Ev → Prop
  | _, [] => True
  | ph, e :: r => ∃ ph', phaseStep ph e = some ph' ∧ disciplined ph' r

def writesOf (sid : Nat) : List Ev → Bytes
  | [] => []
  | .write s b :: r => if s = sid then b ++ writesOf sid r else writesOf sid r
  | _ :: r => writesOf sid r

structure Inv (p : Proc) (ph : Nat → Phase) (w : Nat → Bytes) : Prop where
  heldOpen : ∀ s, ph s = .opened → ∃ fd, p.held s = some fd ∧ p.openAt fd = some s
  openOwned : ∀ fd c, p.openAt fd = some c → ph c = .opened ∧ p.held c = some fd
  bounded : ∀ k, p.bound ≤ k → p.openAt k = none
  recvEq : ∀ c, p.recv c = w c

theorem lowestFree_free (p : Proc) (hb : ∀ k, p.bound ≤ k → p.openAt k = none) : p.openAt (lowestFree p) = none := by
  unfold lowestFree
  cases h : (List.range p.bound).find? (fun k => (p.openAt k).isNone) with
  | none => simpa using hb p.bound (Nat.le_refl _)
  | some k =>
    have := List.find?_some h
    simpa using this

theorem step_inv (p : Proc) (ph ph' : Nat → Phase) (w : Nat → Bytes) (e : Ev) (hi : Inv p ph w)
    (hs : phaseStep ph e = some ph') :
    Inv (step p e) ph' (fun c => match e with | .write s b => if c = s then w c ++ b else w c | _ => w c) := by
  cases e with
  | accept s =>
    simp only [phaseStep] at hs
    split at hs
    · rename_i hf
      injection hs with hs; subst hs
      have hfree := lowestFree_free p hi.bounded
      refine ⟨?_, ?_, ?_, ?_⟩
      · intro t ht
        by_cases hts : t = s
        · subst hts; exact ⟨lowestFree p, by simp [step], by simp [step]⟩
        · simp [hts] at ht
          obtain ⟨fd, h1, h2⟩ := hi.heldOpen t ht
          refine ⟨fd, by simp [step, hts, h1], ?_⟩
          have : fd ≠ lowestFree p := by intro e; rw [e, hfree] at h2; cases h2
          simp [step, this, h2]
      · intro fd c hc
        simp only [step] at hc
        by_cases hfd : fd = lowestFree p
        · simp [hfd] at hc; subst hc; simp [step, hfd]
        · simp [hfd] at hc
          obtain ⟨h1, h2⟩ := hi.openOwned fd c hc
          have hcs : c ≠ s := by intro e; rw [e, hf] at h1; cases h1
          simp [step, hcs, h1, h2]
      · intro k hk
        simp only [step] at hk ⊢
        have h1 : k ≠ lowestFree p := by omega
        have h2 : p.bound ≤ k := by omega
        simp [h1, hi.bounded k h2]
      · intro c; simp [step, hi.recvEq c]
    · cases hs
  | write s b =>
    simp only [phaseStep] at hs
    split at hs
    · rename_i ho
      injection hs with hs; subst hs
      obtain ⟨fd, h1, h2⟩ := hi.heldOpen s ho
      refine ⟨?_, ?_, ?_, ?_⟩
      · intro t ht; simpa [step, h1, h2] using hi.heldOpen t ht
      · intro fd' c hc; simp only [step, h1, h2] at hc ⊢; exact hi.openOwned fd' c hc
      · intro k hk; simp only [step, h1, h2] at hk ⊢; exact hi.bounded k hk
      · intro c
        simp only [step, h1, h2]
        by_cases hc : c = s <;> simp [hc, hi.recvEq]
    · cases hs
  | close s =>
    simp only [phaseStep] at hs
    split at hs
    · rename_i ho
      injection hs with hs; subst hs
      obtain ⟨fd, h1, h2⟩ := hi.heldOpen s ho
      refine ⟨?_, ?_, ?_, ?_⟩
      · intro t ht
        by_cases hts : t = s
        · simp [hts] at ht
        · simp [hts] at ht
          obtain ⟨fd', g1, g2⟩ := hi.heldOpen t ht
          have : fd' ≠ fd := by
            intro e; rw [e, h2] at g2; injection g2 with g2; exact hts g2.symm
          exact ⟨fd', by simp [step, h1, g1], by simp [step, h1, this, g2]⟩
      · intro fd' c hc
        simp only [step, h1] at hc ⊢
        by_cases hfd : fd' = fd
        · simp [hfd] at hc
        · simp [hfd] at hc
          obtain ⟨g1, g2⟩ := hi.openOwned fd' c hc
          have hcs : c ≠ s := by
            intro e; rw [e, h1] at g2; injection g2 with g2; exact hfd g2.symm
          simp [hcs, g1, g2]
      · intro k hk
        simp only [step, h1] at hk ⊢
        by_cases hkf : k = fd <;> simp [hkf, hi.bounded k hk]
      · intro c; simp [step, h1, hi.recvEq c]
    · cases hs

theorem run_inv (evs : List Ev) : ∀ (p : Proc) (ph : Nat → Phase) (w : Nat → Bytes), Inv p ph w → disciplined ph evs →
    ∀ sid, (evs.foldl step p).recv sid = w sid ++ writesOf sid evs := by
  induction evs with
  | nil => intro p ph w hi _ sid; simp [writesOf, hi.recvEq]
  | cons e r ih =>
    intro p ph w hi hd sid
    obtain ⟨ph', hs, hr⟩ := hd
    have := ih (step p e) ph' _ (step_inv p ph ph' w e hi hs) hr sid
    rw [List.foldl_cons, this]
    cases e with
    | accept s => simp [writesOf]
    | close s => simp [writesOf]
    | write s b =>
      simp only [writesOf]
      by_cases h : sid = s
      · subst h; simp [List.append_assoc]
      · have h' : ¬ s = sid := fun e => h e.symm
        simp [h, h']

theorem inv_init : Inv {} (fun _ => Phase.fresh) (fun _ => []) :=
  ⟨fun s h => (by cases h), fun fd c h => (by cases h), fun k _ => rfl, fun c => rfl⟩

/-- **isolation**: whatever the interleaving of any number of sessions, as long as every session follows
    the discipline (one connection, writes, one close), each client receives exactly the bytes its own
    session wrote, in order, and nothing from any other session. -/
theorem isolation (evs : List Ev) (h : disciplined (fun _ => Phase.fresh) evs) (sid : Nat) :
    (run evs).recv sid = writesOf sid evs := by
  have := run_inv evs {} _ _ inv_init h sid
  simpa [run] using this

/-- the discipline is necessary: one session closing twice lets its stale descriptor number reach another
    client's connection (descriptor reuse) — session 1's output is delivered to client 2 -/
example :
    let evs := [Ev.accept 1, Ev.close 1, Ev.accept 2, Ev.write 1 [65], Ev.write 2 [66]]
    (run evs).recv 2 = [65, 66] ∧ (run evs).recv 1 = [] := by
  decide


theorem hdr_cons (v t fl len : Nat) :
    encodeHdr ⟨v, t, fl, len⟩ = [UInt8.ofNat v, UInt8.ofNat t, UInt8.ofNat (fl % 256), UInt8.ofNat (fl / 256 % 256),
      UInt8.ofNat (len % 256), UInt8.ofNat (len / 256 % 256), UInt8.ofNat (len / 256 / 256 % 256), UInt8.ofNat (len / 256 / 256 / 256 % 256)] := by
  simp [encodeHdr, leBytes]

theorem recv_encode (t len : Nat) (ht : t < 256) (hl : len ≤ vmdMaxPayload) (rest : Bytes) :
    recvHeader (encodeHdr ⟨vmdVersion, t, 0, len⟩ ++ rest) = some (⟨vmdVersion, t, 0, len⟩, rest) := by
  have hl' : len ≤ 104857600 := hl
  rw [hdr_cons]
  simp only [recvHeader, List.cons_append, List.nil_append, List.length_cons, vmdHeaderSize]
  have h0 : ¬ (rest.length + 1 + 1 + 1 + 1 + 1 + 1 + 1 + 1 < 8) := by omega
  simp only [h0, if_false, List.getD_cons_zero, List.getD_cons_succ, List.drop_succ_cons, List.drop_zero, List.take_succ_cons, List.take_zero, leVal]
  simp only [UInt8.toNat_ofNat']
  have e1 : vmdVersion % 2 ^ 8 = vmdVersion := by decide
  have e2 : t % 2 ^ 8 = t := Nat.mod_eq_of_lt (by omega)
  have e3 : (0 % 256 % 2 ^ 8 + 256 * (0 / 256 % 256 % 2 ^ 8 + 256 * 0)) = 0 := by decide
  have e4 : (len % 256 % 2 ^ 8 + 256 * (len / 256 % 256 % 2 ^ 8 + 256 * (len / 256 / 256 % 256 % 2 ^ 8 + 256 * (len / 256 / 256 / 256 % 256 % 2 ^ 8 + 256 * 0)))) = len := by
    omega
  rw [e1, e2, e3, e4]
  simp [vmdMaxPayload, hl']

/-! ### reassembly -/

theorem loop_output (f : Nat) (b tail : Bytes) (v : View) (hb : b.length ≤ vmdMaxPayload) :
    clientLoop (f + 1) ((Frame.output b).encode ++ tail) v = clientLoop f tail { v with out := v.out ++ b } := by
  simp only [Frame.encode, List.append_assoc, clientLoop]
  rw [recv_encode vmdOutput b.length (by decide) hb (b ++ tail)]
  have h1 : ¬ ((b ++ tail).length < b.length) := by simp
  simp [h1, vmdOutput, vmdError, vmdExitCode]
  intro h; omega

theorem loop_error (f : Nat) (b tail : Bytes) (v : View) (hb : b.length ≤ vmdMaxPayload) (hne : b ≠ []) :
    clientLoop (f + 1) ((Frame.error b).encode ++ tail) v = clientLoop f tail { v with err := v.err ++ b ++ [10] } := by
  simp only [Frame.encode, List.append_assoc, clientLoop]
  rw [recv_encode vmdError b.length (by decide) hb (b ++ tail)]
  have h1 : ¬ ((b ++ tail).length < b.length) := by simp
  have h2 : b.length ≠ 0 := by simpa using hne
  simp [h1, h2, vmdOutput, vmdError, vmdExitCode]
  intro h; omega

theorem loop_exit (f : Nat) (code : Nat) (tail : Bytes) (v : View) (hc : code < 2 ^ 32) :
    clientLoop (f + 1) ((Frame.exit code).encode ++ tail) v = { v with exit := some code } := by
  simp only [Frame.encode, List.append_assoc, clientLoop]
  rw [recv_encode vmdExitCode 4 (by decide) (by decide) (leBytes 4 code ++ tail)]
  have h1 : ¬ ((leBytes 4 code ++ tail).length < 4) := by simp
  simp [h1, vmdOutput, vmdError, vmdExitCode, leVal_leBytes_of_lt 4 code (by simpa using hc)]
  intro h; omega

theorem loop_outputs (cs : List Bytes) : ∀ (f : Nat) (tail : Bytes) (v : View), (∀ c ∈ cs, c.length ≤ vmdMaxPayload) →
    clientLoop (f + cs.length) (encodeFrames (cs.map Frame.output) ++ tail) v = clientLoop f tail { v with out := v.out ++ cs.flatten } := by
  induction cs with
  | nil => intro f tail v _; simp [encodeFrames]
  | cons c r ih =>
    intro f tail v h
    have hc := h c (List.mem_cons_self)
    have hr : ∀ x ∈ r, x.length ≤ vmdMaxPayload := fun x hx => h x (List.mem_cons_of_mem _ hx)
    simp only [List.map_cons, encodeFrames, List.length_cons, List.append_assoc]
    rw [show f + (r.length + 1) = (f + r.length) + 1 by omega, loop_output _ _ _ _ hc, ih f tail _ hr]
    simp [List.append_assoc]

theorem encodeFrames_append (a b : List Frame) : encodeFrames (a ++ b) = encodeFrames a ++ encodeFrames b := by
  induction a with
  | nil => simp [encodeFrames]
  | cons x r ih => simp [encodeFrames, ih]

theorem outputs_length (l : List Bytes) : l.length ≤ (encodeFrames (l.map Frame.output)).length := by
  induction l with
  | nil => simp [encodeFrames]
  | cons x r ih => simp [encodeFrames, Frame.encode, hdr_cons]; omega

theorem reassembly_fuel (cs : List Bytes) (err : Option Bytes) (code : Nat) (tail : Bytes) (F : Nat) (hF : cs.length + 2 ≤ F)
    (hcs : ∀ c ∈ cs, c.length ≤ vmdMaxPayload) (herr : ∀ e, err = some e → e.length ≤ vmdMaxPayload ∧ e ≠ [])
    (hc : code < 2 ^ 32) :
    clientLoop F (encodeFrames (cs.map Frame.output ++ errFrames err ++ [Frame.exit code]) ++ tail) {}
      = { out := cs.flatten, err := errText err, exit := some code } := by
  obtain ⟨k, rfl⟩ : ∃ k, F = (k + 2) + cs.length := ⟨F - 2 - cs.length, by omega⟩
  cases err with
  | none =>
    simp only [errFrames, errText, List.append_nil, encodeFrames_append, List.append_assoc]
    rw [loop_outputs cs (k + 2) _ _ hcs]
    simp only [encodeFrames, List.append_nil]
    rw [loop_exit (k + 1) code tail _ hc]
    simp
  | some e =>
    obtain ⟨he1, he2⟩ := herr e rfl
    simp only [errFrames, errText, encodeFrames_append, List.append_assoc]
    rw [loop_outputs cs (k + 2) _ _ hcs]
    simp only [encodeFrames, List.append_nil]
    rw [loop_error (k + 1) e _ _ he1 he2, loop_exit k code tail _ hc]
    simp

/-- **reassembly**: whatever the chunking of the output into OUTPUT frames, the client's view of a
    session that ends with an optional ERROR frame and an EXIT_CODE frame is the concatenated output, the
    error text and the exit code. -/
theorem reassembly (cs : List Bytes) (err : Option Bytes) (code : Nat) (tail : Bytes)
    (hcs : ∀ c ∈ cs, c.length ≤ vmdMaxPayload) (herr : ∀ e, err = some e → e.length ≤ vmdMaxPayload ∧ e ≠ [])
    (hc : code < 2 ^ 32) :
    clientView (encodeFrames (cs.map Frame.output ++ errFrames err ++ [Frame.exit code]) ++ tail)
      = { out := cs.flatten, err := errText err, exit := some code } := by
  unfold clientView
  apply reassembly_fuel cs err code tail _ _ hcs herr hc
  have h2 := outputs_length cs
  simp only [encodeFrames_append, List.length_append]
  have : 8 ≤ (encodeFrames [Frame.exit code]).length := by simp [encodeFrames, Frame.encode, hdr_cons]
  omega

theorem filter_nonempty_flatten (l : List Bytes) : (l.filter (· ≠ [])).flatten = l.flatten := by
  induction l with
  | nil => rfl
  | cons x r ih =>
    by_cases hx : x = []
    · subst hx; simpa [List.filter_cons] using ih
    · simp only [List.filter_cons, hx, ne_eq, not_false_eq_true, decide_true, if_true, List.flatten_cons]
      rw [ih]

/-- **transparent**: the client's view of a well-formed LOAD_EXEC session equals what running the module
    standalone shows: output bytes, error text, exit status. -/
theorem transparent (exec : Bytes → Run) (active : Nat) (blob : Bytes) (chunks : List Bytes) (err : Option Bytes) (code : Nat)
    (hb : blob ≠ [] ∧ blob.length ≤ vmdMaxPayload) (hrun : exec blob = .ran chunks err code)
    (hcs : ∀ c ∈ chunks, c.length ≤ vmdMaxPayload) (herr : ∀ e, err = some e → e.length ≤ vmdMaxPayload ∧ e ≠ [])
    (hc : code < 2 ^ 32) :
    clientView (encodeFrames (serve exec active (encodeHdr ⟨vmdVersion, vmdLoadExec, 0, blob.length⟩ ++ blob)).1)
      = { out := chunks.flatten, err := errText err, exit := some code } := by
  have hl : blob.length ≠ 0 := by simpa using hb.1
  unfold serve
  rw [recv_encode vmdLoadExec blob.length (by decide) hb.2 blob]
  simp only [vmdLoadExec, vmdPing, vmdShutdown, vmdStatus]
  simp only [show ((1:Nat) == 2) = false by decide, show ((1:Nat) == 4) = false by decide, show ((1:Nat) == 3) = false by decide,
    show ((1:Nat) == 1) = true by decide, Bool.false_eq_true, if_false, if_true]
  have h0 : (blob.length == 0) = false := by simpa using hl
  simp only [h0, Bool.false_eq_true, if_false, Nat.lt_irrefl, List.take_length, hrun]
  have := reassembly (chunks.filter (· ≠ [])) err code [] (fun c hc' => hcs c (List.mem_filter.mp hc').1) herr hc
  simp only [List.append_nil] at this
  rw [this]
  have hflat := filter_nonempty_flatten chunks
  rw [hflat]

end NanoVerif.C17
