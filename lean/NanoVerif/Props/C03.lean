/-
C03 — compile-time shadow-test evaluation agrees with the compiled program.

The compile-time evaluator (src/eval.c) is a third engine.  It is not modelled instruction by instruction;
what is modelled is the one mechanism in which it differs by design from compiled code and from the
specification (section 8.1): it keeps a single symbol stack shared by all active calls, so a name that is
free in a callee is looked up through the callers' locals before the globals (dynamic scoping), while
compiled code resolves it statically.  `scope_agree` states exactly when the two look-ups coincide — for
every stack of caller frames, every set of globals and every name — and `scope_differs` exhibits the
disagreement (finding F-C03-1).  Everything else about the evaluator is tied by correspondence: the text
the shadow blocks print under `nanoc --verbose` must equal the reference semantics' output and the compiled
binary's output for the same calls, and every assertion whose value the reference computed must pass.
-/
import NanoVerif.Model.Sem

namespace NanoVerif.C03
open NanoVerif NanoVerif.Sem

/-- what the evaluator does: the callee's own bindings, then every caller's (innermost first), then globals -/
def dynLookup (own callers globals : Locals) (x : String) : Option SVal :=
  match lookup? (own ++ callers) x with
  | some v => some v
  | none => lookup? globals x

/-- what compiled code and the specification do: own bindings, then globals -/
def staticLookup (own globals : Locals) (x : String) : Option SVal :=
  match lookup? own x with
  | some v => some v
  | none => lookup? globals x

theorem lookup_append (a b : Locals) (x : String) :
    lookup? (a ++ b) x = (match lookup? a x with | some v => some v | none => lookup? b x) := by
  unfold lookup?
  rw [List.find?_append]
  cases h : List.find? (fun x_1 => x_1.fst == x) a with
  | some p => simp
  | none => simp

/-- **scope_agree**: the evaluator's look-up equals the static one whenever the name is bound in the callee
    itself or is not bound in any caller — for all frames, globals and names. -/
theorem scope_agree (own callers globals : Locals) (x : String)
    (h : lookup? own x ≠ none ∨ lookup? callers x = none) :
    dynLookup own callers globals x = staticLookup own globals x := by
  unfold dynLookup staticLookup
  rw [lookup_append]
  cases ho : lookup? own x with
  | some v => rfl
  | none =>
    rcases h with h | h
    · exact absurd ho h
    · simp [h]

/-- … and only then: a name free in the callee and bound by a caller is resolved differently (F-C03-1) -/
theorem scope_differs :
    dynLookup [] [("x", .int 2)] [("x", .int 1)] "x" = some (.int 2) ∧
    staticLookup [] [("x", .int 1)] "x" = some (.int 1) := by
  constructor <;> simp [dynLookup, staticLookup, lookup?]

/-- a program in which no local or parameter shares its name with a global, and every name used in a
    function is bound in it or global, never meets the difference: every look-up the evaluator performs is
    of the first kind -/
theorem distinct_names_agree (own callers globals : Locals) (x : String)
    (hdistinct : ∀ y, lookup? callers y ≠ none → lookup? globals y = none)
    (hbound : lookup? own x ≠ none ∨ lookup? globals x ≠ none) :
    dynLookup own callers globals x = staticLookup own globals x := by
  apply scope_agree
  rcases hbound with h | h
  · exact .inl h
  · right
    cases hc : lookup? callers x with
    | none => rfl
    | some v => exact absurd (hdistinct x (by simp [hc])) h

end NanoVerif.C03
