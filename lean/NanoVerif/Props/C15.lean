/-
C15 — values cross the VM / co-process boundary unchanged (property theorems only).
Tags are `NanoVerif.Gen.tag_*`, regenerated from isa.h on every run.
-/
import NanoVerif.Model.Cop
namespace NanoVerif.C15

/-- the transferable values of the property: int, float, bool, string of any content and any
    length below 4 GiB, opaque handle, void, and (nested, possibly empty) arrays of these -/
def Transferable : CVal → Prop
  | .int n | .float n | .opaque n => n < 256 ^ 8
  | .bool _ | .void => True
  | .str s => s.length < 256 ^ 4
  | .arr et es => et < 256 ∧ es.length < 256 ^ 4 ∧ allT es
  | .other _ => False
where allT : List CVal → Prop
  | [] => True
  | v :: vs => Transferable v ∧ allT vs

def depth : CVal → Nat
  | .arr _ es => 1 + depthL es
  | _ => 0
where depthL : List CVal → Nat
  | [] => 0
  | v :: vs => max (depth v) (depthL vs)

theorem tags_distinct : Gen.tag_void = 0 ∧ Gen.tag_int = 1 ∧ Gen.tag_float = 3 ∧ Gen.tag_bool = 4 ∧
    Gen.tag_string = 5 ∧ Gen.tag_array = 7 ∧ Gen.tag_opaque = 14 := by decide

theorem take_le8 (n : Nat) (rest : Bytes) : (leBytes 8 n ++ rest).take 8 = leBytes 8 n :=
  List.take_left' (leBytes_length 8 n)

theorem de_int (fuel n : Nat) (rest : Bytes) (h : n < 256 ^ 8) :
    copDe (fuel + 1) (UInt8.ofNat Gen.tag_int :: (leBytes 8 n ++ rest)) = some (.int n, 9) := by
  rw [copDe.eq_def]
  simp only [Gen.tag_int, Gen.tag_float, Gen.tag_bool, Gen.tag_string, Gen.tag_opaque, Gen.tag_array]
  have : (UInt8.ofNat 1).toNat = 1 := by decide
  simp [this, leVal_leBytes_of_lt 8 n h]

theorem de_float (fuel n : Nat) (rest : Bytes) (h : n < 256 ^ 8) :
    copDe (fuel + 1) (UInt8.ofNat Gen.tag_float :: (leBytes 8 n ++ rest)) = some (.float n, 9) := by
  rw [copDe.eq_def]
  simp only [Gen.tag_int, Gen.tag_float, Gen.tag_bool, Gen.tag_string, Gen.tag_opaque, Gen.tag_array]
  have : (UInt8.ofNat 3).toNat = 3 := by decide
  simp [this, leVal_leBytes_of_lt 8 n h]

theorem de_opaque (fuel n : Nat) (rest : Bytes) (h : n < 256 ^ 8) :
    copDe (fuel + 1) (UInt8.ofNat Gen.tag_opaque :: (leBytes 8 n ++ rest)) = some (.opaque n, 9) := by
  rw [copDe.eq_def]
  simp only [Gen.tag_int, Gen.tag_float, Gen.tag_bool, Gen.tag_string, Gen.tag_opaque, Gen.tag_array]
  have : (UInt8.ofNat 14).toNat = 14 := by decide
  simp [this, leVal_leBytes_of_lt 8 n h]

theorem de_bool (fuel : Nat) (b : Bool) (rest : Bytes) :
    copDe (fuel + 1) (UInt8.ofNat Gen.tag_bool :: (if b then 1 else 0) :: rest) = some (.bool b, 2) := by
  rw [copDe.eq_def]
  simp only [Gen.tag_int, Gen.tag_float, Gen.tag_bool, Gen.tag_string, Gen.tag_opaque, Gen.tag_array]
  have : (UInt8.ofNat 4).toNat = 4 := by decide
  cases b <;> simp [this]

theorem de_void (fuel : Nat) (rest : Bytes) :
    copDe (fuel + 1) (UInt8.ofNat Gen.tag_void :: rest) = some (.void, 1) := by
  rw [copDe.eq_def]
  simp only [Gen.tag_int, Gen.tag_float, Gen.tag_bool, Gen.tag_string, Gen.tag_opaque, Gen.tag_array, Gen.tag_void]
  have : (UInt8.ofNat 0).toNat = 0 := by decide
  simp [this]

theorem de_str (fuel : Nat) (s rest : Bytes) (h : s.length < 256 ^ 4) :
    copDe (fuel + 1) (UInt8.ofNat Gen.tag_string :: (leBytes 4 s.length ++ s ++ rest)) = some (.str s, 5 + s.length) := by
  rw [copDe.eq_def]
  simp only [Gen.tag_int, Gen.tag_float, Gen.tag_bool, Gen.tag_string, Gen.tag_opaque, Gen.tag_array]
  have : (UInt8.ofNat 5).toNat = 5 := by decide
  have h4 : (leBytes 4 s.length ++ s ++ rest).take 4 = leBytes 4 s.length := by
    rw [List.append_assoc]; exact List.take_left' (leBytes_length 4 _)
  have hd : (leBytes 4 s.length ++ s ++ rest).drop 4 = s ++ rest := by
    rw [List.append_assoc]; exact List.drop_left' (leBytes_length 4 _)
  simp only [this, h4, hd, leVal_leBytes_of_lt 4 _ h]
  simp

theorem ser_nonempty (v : CVal) (room : Nat) (b : Bytes) (h : copSer v room = some b) : 1 ≤ b.length := by
  cases v <;> simp only [copSer] at h <;> (try (split at h <;> (try cases h) <;> (try simp)))
  · rename_i et es _
    split at h
    · cases h
    · cases h; simp

theorem serList_length (es : List CVal) (room : Nat) (bs : Bytes) (h : copSerList es room = some bs) :
    es.length ≤ bs.length := by
  induction es generalizing room bs with
  | nil => simp
  | cons v vs ih =>
    simp only [copSerList] at h
    split at h
    · cases h
    · rename_i b hb
      split at h
      · cases h
      · rename_i bs' hbs'
        cases h
        have := ser_nonempty v room b hb
        have := ih _ _ hbs'
        simp; omega

theorem de_arr (fuel et : Nat) (count : Nat) (body : Bytes) (het : et < 256) (hc : count < 256 ^ 4)
    (hcb : count ≤ body.length) :
    copDe (fuel + 1) (UInt8.ofNat Gen.tag_array :: UInt8.ofNat et :: (leBytes 4 count ++ body))
      = match elemsWith (copDe fuel) count body [] 0 with
        | none => none
        | some (es, used) => some (.arr et es, 6 + used) := by
  rw [copDe.eq_def]
  simp only [Gen.tag_int, Gen.tag_float, Gen.tag_bool, Gen.tag_string, Gen.tag_opaque, Gen.tag_array]
  have : (UInt8.ofNat 7).toNat = 7 := by decide
  have hd5 : (UInt8.ofNat et :: (leBytes 4 count ++ body)).drop 5 = body := by
    simp only [List.drop_succ_cons]; exact List.drop_left' (leBytes_length 4 _)
  have hcnt : leVal (((UInt8.ofNat et :: (leBytes 4 count ++ body)).drop 1).take 4) = count := by
    simp only [List.drop_succ_cons, List.drop_zero]
    rw [List.take_left' (leBytes_length 4 _), leVal_leBytes_of_lt 4 _ hc]
  have het' : (UInt8.ofNat et).toNat = et := by simp [UInt8.toNat_ofNat']; omega
  simp only [this, hd5, hcnt]
  simp [het']
  rw [if_neg (by omega), if_neg (by omega)]
  cases elemsWith (copDe fuel) count body [] 0 with
  | none => rfl
  | some r => rfl

mutual
/-- Round trip: whatever fits the buffer decodes to exactly the value that was encoded, consuming
    exactly the bytes written, whatever follows in the buffer. -/
theorem cop_roundtrip (v : CVal) (room : Nat) (bs rest : Bytes) (fuel : Nat)
    (ht : Transferable v) (hs : copSer v room = some bs) (hf : depth v < fuel) :
    copDe fuel (bs ++ rest) = some (v, bs.length) := by
  cases fuel with
  | zero => omega
  | succ fuel =>
  cases v with
  | int n =>
    simp only [copSer] at hs
    split at hs
    · cases hs
    · cases hs
      simp only [Transferable] at ht
      simpa using de_int fuel n rest ht
  | float n =>
    simp only [copSer] at hs
    split at hs
    · cases hs
    · cases hs
      simp only [Transferable] at ht
      simpa using de_float fuel n rest ht
  | «opaque» n =>
    simp only [copSer] at hs
    split at hs
    · cases hs
    · cases hs
      simp only [Transferable] at ht
      simpa using de_opaque fuel n rest ht
  | bool b =>
    simp only [copSer] at hs
    split at hs
    · cases hs
    · cases hs
      simpa using de_bool fuel b rest
  | void =>
    simp only [copSer] at hs
    split at hs
    · cases hs
    · cases hs
      simpa using de_void fuel rest
  | other t => simp [Transferable] at ht
  | str s =>
    simp only [copSer] at hs
    split at hs
    · cases hs
    · cases hs
      simp only [Transferable] at ht
      have := de_str fuel s rest ht
      simp only [List.cons_append, List.length_cons, List.length_append, leBytes_length]
      rw [this]; congr 2; omega
  | arr et es =>
    simp only [copSer] at hs
    split at hs
    · cases hs
    · split at hs
      · cases hs
      · rename_i ebs hes
        cases hs
        simp only [Transferable] at ht
        obtain ⟨het, hlen, hall⟩ := ht
        simp only [depth] at hf
        have hl := cop_roundtrip_list es _ ebs rest fuel hall hes (by omega) [] 0
        have := de_arr fuel et es.length (ebs ++ rest) het hlen (by
          have := serList_length es _ ebs hes; simp; omega)
        simp only [List.cons_append, List.append_assoc]
        rw [this, hl]
        simp
        omega

/-- the element loop decodes a serialised element list back, accumulating in order -/
theorem cop_roundtrip_list (es : List CVal) (room : Nat) (bs rest : Bytes) (fuel : Nat)
    (ht : Transferable.allT es) (hs : copSerList es room = some bs) (hf : depth.depthL es < fuel)
    (acc : List CVal) (used : Nat) :
    elemsWith (copDe fuel) es.length (bs ++ rest) acc used = some (acc.reverse ++ es, used + bs.length) := by
  cases es with
  | nil =>
    simp only [copSerList] at hs
    cases hs
    simp [elemsWith]
  | cons v vs =>
    simp only [copSerList] at hs
    split at hs
    · cases hs
    · rename_i b hb
      split at hs
      · cases hs
      · rename_i bs' hbs'
        cases hs
        simp only [Transferable.allT] at ht
        simp only [depth.depthL] at hf
        have h1 := cop_roundtrip v room b (bs' ++ rest) fuel ht.1 hb (by omega)
        simp only [List.length_cons, elemsWith, List.append_assoc, h1]
        rw [List.drop_left' rfl]
        have h2 := cop_roundtrip_list vs _ bs' rest fuel ht.2 hbs' (by omega) (v :: acc) (used + b.length)
        rw [h2]
        simp
        omega
end

/- non-vacuity -/
example : Transferable (.arr 5 [.str [104, 105], .str [], .arr 1 [.int 7, .int (2 ^ 64 - 1)], .arr 1 []]) := by
  simp [Transferable, Transferable.allT]
example : (match copDe 4 ((copSer (.arr 5 [.str [104, 105], .arr 1 [.int 7]]) 8192).getD [] ++ [0xAA]) with
    | some (.arr 5 [.str [104, 105], .arr 1 [.int 7]], 28) => true | _ => false) = true := by decide +kernel

end NanoVerif.C15
