/-
C07 — prefix and infix notation denote the same program.

Model: the lexer / parser / code generator models of `Model/{Lexer,Parser,Compile}.lean` (tied to
src/lexer.c, src/parser.c, src/nanovirt/codegen.c by the byte-for-byte correspondence of the files
`nano_virt --emit-nvm` writes).  A *styled tree* (`ST`, Lemmas/ParseExpr.lean) is an expression tree
over the 13 binary and 2 unary operators, literals, variables, field accesses and calls in which every
operator node says whether it is written in prefix form `(op a b)` or in infix form; `printL` is its
spelling as a token list and `ST.toExpr` the tree it denotes, style forgotten.

`spelling_parses`: every valid spelling — any nesting depth the recursion guard admits, any mix of the
two notations — is parsed to exactly the tree it denotes.  Consequently (`infix_eq_prefix`) the infix
spelling and the fully parenthesised prefix spelling of an expression give the same AST, hence
(`same_bytecode`) the same bytecode.  The theorems hold "for all sufficiently large fuel"; fuel is a
device of the Lean definitions only, and the correspondence run counts the (zero) cases in which the
driver's fuel is exhausted.

The validity side conditions are not artefacts: each is exhibited below on the model as a spelling
that is read differently (and F-C07-2, an upper-case identifier before `<`, is a known finding).
-/
import NanoVerif.Lemmas.ParseExpr
import NanoVerif.Model.Compile

namespace NanoVerif.C07
open NanoVerif Gen

/-- Every valid spelling parses to the tree it denotes, leaving the continuation untouched. -/
theorem spelling_parses (e : ST) (hv : e.validL) (d : Nat) (rest : List Tok)
    (hd : d + dL e ≤ maxRecursionDepth) (hr : StopRest rest) :
    Ev (fun fuel => parseExpr fuel d (printL e ++ rest)) (.ok (e.toExpr, rest)) :=
  parseL_of_chain (chainL e hv d rest hd hr.1) (by have := dL_pos e; omega) (head_notSpecial e rest hv).1 hr

mutual
/-- the fully parenthesised prefix spelling of the same tree -/
def allPrefix : ST → ST
  | .num b => .num b
  | .var b => .var b
  | .tru => .tru
  | .fls => .fls
  | .un _ op e => .un true op (allPrefix e)
  | .bin _ op a b => .bin true op (allPrefix a) (allPrefix b)
  | .call f args => .call f (allPrefixs args)
  | .field e n => .field (allPrefix e) n
def allPrefixs : List ST → List ST
  | [] => []
  | a :: r => allPrefix a :: allPrefixs r
end

mutual
theorem allPrefix_toExpr (e : ST) : (allPrefix e).toExpr = e.toExpr := by
  match e with
  | .num _ | .var _ | .tru | .fls => simp [allPrefix, ST.toExpr]
  | .un _ op x => simp [allPrefix, ST.toExpr, allPrefix_toExpr x]
  | .bin _ op a b => simp [allPrefix, ST.toExpr, allPrefix_toExpr a, allPrefix_toExpr b]
  | .call f args => simp [allPrefix, ST.toExpr, allPrefixs_toExprs args]
  | .field x n => simp [allPrefix, ST.toExpr, allPrefix_toExpr x]
theorem allPrefixs_toExprs (l : List ST) : ST.toExprs (allPrefixs l) = ST.toExprs l := by
  match l with
  | [] => simp [allPrefixs, ST.toExprs]
  | a :: r => simp [allPrefixs, ST.toExprs, allPrefix_toExpr a, allPrefixs_toExprs r]
end

theorem allPrefix_startsOp (e : ST) : startsOp (allPrefix e) = false := by
  match e with
  | .num _ | .var _ | .tru | .fls => simp [allPrefix, startsOp]
  | .un _ op x => simp [allPrefix, startsOp]
  | .bin _ op a b => simp [allPrefix, startsOp]
  | .call f args => simp [allPrefix, startsOp]
  | .field x n => simp [allPrefix, startsOp, allPrefix_startsOp x]

/- what a tree needs for *some* spelling to be valid: operator tokens are operators, identifiers do
   not start with an upper-case letter -/
mutual
def wellFormed : ST → Prop
  | .num _ => True
  | .var b => lowerId b
  | .tru => True
  | .fls => True
  | .un _ op e => isUnOp op ∧ wellFormed e
  | .bin _ op a b => isBinOp op ∧ wellFormed a ∧ wellFormed b
  | .call f args => lowerId f ∧ wellFormeds args
  | .field e n => lowerId n ∧ wellFormed e
def wellFormeds : List ST → Prop
  | [] => True
  | a :: r => wellFormed a ∧ wellFormeds r
end

mutual
/-- the prefix spelling is always valid -/
theorem allPrefix_valid (e : ST) (h : wellFormed e) : (allPrefix e).validL ∧ (allPrefix e).validO := by
  match e with
  | .num _ | .tru | .fls => simp [allPrefix, ST.validL, ST.validO]
  | .var b => simp only [wellFormed] at h; simp [allPrefix, ST.validL, ST.validO, h]
  | .un _ op x =>
    simp only [wellFormed] at h
    have := allPrefix_valid x h.2
    simp [allPrefix, ST.validL, ST.validO, h.1, this.1]
  | .bin _ op a b =>
    simp only [wellFormed] at h
    have ha := allPrefix_valid a h.2.1
    have hb := allPrefix_valid b h.2.2
    simp [allPrefix, ST.validL, ST.validO, h.1, ha.1, hb.1, allPrefix_startsOp]
  | .call f args =>
    simp only [wellFormed] at h
    have := allPrefixs_valid args h.2
    simp [allPrefix, ST.validL, ST.validO, h.1, this]
  | .field x n =>
    simp only [wellFormed] at h
    have hx := allPrefix_valid x h.2
    have hm : (match allPrefix x with | .un false _ _ => False | _ => True) := by
      cases x with
      | un pre op y => simp [allPrefix]
      | bin pre op a b => simp [allPrefix]
      | num _ => simp [allPrefix]
      | var _ => simp [allPrefix]
      | tru => simp [allPrefix]
      | fls => simp [allPrefix]
      | call f args => simp [allPrefix]
      | field y m => simp [allPrefix]
    simp only [allPrefix, ST.validL, ST.validO]
    exact ⟨⟨h.1, hx.2, hm⟩, h.1, hx.2, hm⟩
theorem allPrefixs_valid (l : List ST) (h : wellFormeds l) : ST.validArgs (allPrefixs l) := by
  match l with
  | [] => simp [allPrefixs, ST.validArgs]
  | a :: r =>
    simp only [wellFormeds] at h
    exact ⟨(allPrefix_valid a h.1).1, allPrefix_startsOp a, allPrefixs_valid r h.2⟩
end

/-- C07, parser level: a valid infix (or mixed) spelling and the fully parenthesised prefix spelling of
    the same expression are parsed to the same tree, for every expression tree, every operator
    sequence and every nesting depth both spellings fit under the parser's guard. -/
theorem infix_eq_prefix (e : ST) (hw : wellFormed e) (hv : e.validL) (d : Nat) (rest : List Tok)
    (hd : d + dL e ≤ maxRecursionDepth) (hdp : d + dL (allPrefix e) ≤ maxRecursionDepth) (hr : StopRest rest) :
    ∃ ast, Ev (fun fuel => parseExpr fuel d (printL e ++ rest)) (.ok (ast, rest)) ∧
           Ev (fun fuel => parseExpr fuel d (printL (allPrefix e) ++ rest)) (.ok (ast, rest)) :=
  ⟨e.toExpr, spelling_parses e hv d rest hd hr, by
    have := spelling_parses (allPrefix e) (allPrefix_valid e hw).1 d rest hdp hr
    rwa [allPrefix_toExpr] at this⟩

/-- … and therefore compile to identical code: the generator is a function of the tree. -/
theorem same_bytecode (e1 e2 : ST) (h : e1.toExpr = e2.toExpr) (ce : CE) (cs : CS) :
    cExpr ce cs e1.toExpr = cExpr ce cs e2.toExpr := by rw [h]

/-! ### non-vacuity and necessity of the side conditions (evaluated on the model) -/

set_option linter.unusedSimpArgs false

/-- evaluate the parser model on a literal token list -/
macro "eval_parser" : tactic =>
  `(tactic| simp [parseExpr, parsePrimary, exprLoop, postfixChain, parseArgs, tk, adv, peekTy, peekVal, curTy, curVal,
      isUpperFirst, isOperatorTok, maxRecursionDepth, infixOps, printL, printO, printLs, ST.toExpr, ST.toExprs,
      allPrefix, allPrefixs])

def ia : Bytes := [97]
def ib : Bytes := [98]
def ic : Bytes := [99]
def ifn : Bytes := [102]
def ix : Bytes := [120]
def iy : Bytes := [121]
def iX : Bytes := [88]

/-- `a + b * - c.x + (f a (- b))` with `f` a call: a valid mixed spelling -/
def sample : ST :=
  .bin false .T_PLUS
    (.bin false .T_STAR (.bin false .T_PLUS (.var ia) (.var ib)) (.un false .T_MINUS (.field (.var ic) ix)))
    (.call ifn [.var ia, .un true .T_MINUS (.var ib)])

example : sample.validL ∧ wellFormed sample ∧ 0 + dL sample ≤ maxRecursionDepth := by
  refine ⟨?_, ?_, by decide⟩ <;>
    simp [sample, ST.validL, ST.validO, ST.validArgs, wellFormed, wellFormeds, isBinOp, isUnOp, lowerId, startsOp,
      ia, ib, ic, ifn, ix, isUpperFirst] <;> decide

/-- the theorem applied to the sample: both spellings reach the same tree -/
example : ∃ ast, Ev (fun fuel => parseExpr fuel 0 (printL sample ++ [tk .T_EOF])) (.ok (ast, [tk .T_EOF])) ∧
                 Ev (fun fuel => parseExpr fuel 0 (printL (allPrefix sample) ++ [tk .T_EOF])) (.ok (ast, [tk .T_EOF])) := by
  have hv : sample.validL ∧ wellFormed sample := by
    constructor <;>
      simp [sample, ST.validL, ST.validO, ST.validArgs, wellFormed, wellFormeds, isBinOp, isUnOp, lowerId, startsOp,
        ia, ib, ic, ifn, ix, isUpperFirst] <;> decide
  exact infix_eq_prefix sample hv.2 hv.1 0 [tk .T_EOF] (by decide) (by decide)
    ⟨⟨by simp, by simp [tk], by simp [tk]⟩, by simp [tk]; decide⟩

/-- `( - a + b )`: an infix group that starts with an operator token is the prefix form `(- (a + b))` -/
example : parseExpr 20 0 [tk .T_LPAREN, tk .T_MINUS, tk .T_IDENTIFIER ia, tk .T_PLUS, tk .T_IDENTIFIER ib, tk .T_RPAREN, tk .T_EOF]
    = .ok (.prefixOp .T_MINUS [.prefixOp .T_PLUS [.ident (bytesToString ia), .ident (bytesToString ib)]], [tk .T_EOF]) := by eval_parser

/-- `(f a - b)` is a call with one argument, the subtraction -/
example : parseExpr 20 0 [tk .T_LPAREN, tk .T_IDENTIFIER ifn, tk .T_IDENTIFIER ia, tk .T_MINUS, tk .T_IDENTIFIER ib, tk .T_RPAREN, tk .T_EOF]
    = .ok (.call (bytesToString ifn) [.prefixOp .T_MINUS [.ident (bytesToString ia), .ident (bytesToString ib)]], [tk .T_EOF]) := by eval_parser

/-- `- y . f` is `-(y.f)` -/
example : parseExpr 20 0 [tk .T_MINUS, tk .T_IDENTIFIER iy, tk .T_DOT, tk .T_IDENTIFIER ifn, tk .T_EOF]
    = .ok (.prefixOp .T_MINUS [.field (.ident (bytesToString iy)) (bytesToString ifn)], [tk .T_EOF]) := by eval_parser

/-- F-C07-2 on the model: `X < y` with an upper-case `X` leaves the expression grammar (generic type
    syntax), while `(< X y)` is an ordinary comparison -/
example : parseExpr 20 0 [tk .T_IDENTIFIER iX, tk .T_LT, tk .T_IDENTIFIER iy, tk .T_EOF] = .error .unsupported := by
  simp [parseExpr, parsePrimary, tk, iX, iy, isUpperFirst, maxRecursionDepth]
example : parseExpr 20 0 [tk .T_LPAREN, tk .T_LT, tk .T_IDENTIFIER iX, tk .T_IDENTIFIER iy, tk .T_RPAREN, tk .T_EOF]
    = .ok (.prefixOp .T_LT [.ident (bytesToString iX), .ident (bytesToString iy)], [tk .T_EOF]) := by eval_parser

end NanoVerif.C07
