/-
C02 — every execution engine implements the defined semantics.

`Model/Sem.lean` is the reference: an executable transcription of docs/SPECIFICATION.md sections 4–8
for the modelled fragment, independent of every engine.  This file proves
  * that the reference really has the properties the specification prescribes (`spec_laws`:
    short-circuit and/or, strict left-to-right evaluation of operands and arguments, 64-bit wrapping),
    so that it is an honest transcription rather than a third opinion;
  * `arith_agree`: for *all* pairs of 64-bit operands the NanoVM handlers of ADD SUB MUL DIV MOD NEG (the
    same `binArith` / `execData'` that the lock-step runs tie to vm.c) compute exactly the reference's
    result — the "exhaustively for all boundary operand pairs" clause, for every pair;
  * `cmp_agree` likewise for the six comparisons.
Whole programs are compared engine by engine with the reference by the correspondence run (nano_virt
--run, nanoc binaries vs the `sem` command), and the compiler theorem of C01 connects the VM model to
the reference on the proved fragment.
-/
import NanoVerif.Model.Sem
import NanoVerif.Model.Vm
import NanoVerif.Lemmas.SemCfg

namespace NanoVerif.C02
open NanoVerif Gen

theorem wrap64_eq_bmod (z : Int) : Sem.wrap64 z = z.bmod (2 ^ 64) := by
  have h1 : ((2 ^ 64 : Nat) : Int) = 18446744073709551616 := by decide
  have h2 : (((2 ^ 64 : Nat) : Int) + 1) / 2 = 9223372036854775808 := by decide
  unfold Sem.wrap64 Int.bmod
  simp only [h1, h2]
  split <;> split <;> omega

theorem add_agree (x y : BitVec 64) : (x + y).toInt = Sem.wrap64 (x.toInt + y.toInt) := by
  rw [wrap64_eq_bmod, BitVec.toInt_add]
theorem sub_agree (x y : BitVec 64) : (x - y).toInt = Sem.wrap64 (x.toInt - y.toInt) := by
  rw [wrap64_eq_bmod, BitVec.toInt_sub]
theorem mul_agree (x y : BitVec 64) : (x * y).toInt = Sem.wrap64 (x.toInt * y.toInt) := by
  rw [wrap64_eq_bmod, BitVec.toInt_mul]
theorem neg_agree (x : BitVec 64) : (-x).toInt = Sem.wrap64 (-x.toInt) := by
  rw [wrap64_eq_bmod, BitVec.toInt_neg]
theorem div_agree (x y : BitVec 64) : (x.sdiv y).toInt = Sem.wrap64 (Int.tdiv x.toInt y.toInt) := by
  rw [wrap64_eq_bmod, BitVec.toInt_sdiv]

theorem wrap64_id (z : Int) (h1 : -9223372036854775808 ≤ z) (h2 : z < 9223372036854775808) : Sem.wrap64 z = z := by
  unfold Sem.wrap64
  simp only []
  split <;> omega

theorem toInt_range (x : BitVec 64) : -9223372036854775808 ≤ x.toInt ∧ x.toInt < 9223372036854775808 := by
  have := BitVec.toInt_lt (x := x)
  have := BitVec.le_toInt (x := x)
  simp at *
  omega

theorem mod_agree (x y : BitVec 64) : (x.srem y).toInt = Sem.wrap64 (Int.tmod x.toInt y.toInt) := by
  rw [BitVec.toInt_srem]
  have hx := toInt_range x
  have hn : (Int.tmod x.toInt y.toInt).natAbs ≤ x.toInt.natAbs := by
    rw [Int.natAbs_tmod]
    exact Nat.mod_le _ _
  symm; apply wrap64_id
  · omega
  · by_cases h0 : 0 ≤ x.toInt
    · omega
    · have h1 : Int.tmod x.toInt y.toInt ≤ 0 := by
        have := Int.tmod_nonneg (a := -x.toInt) y.toInt (by omega)
        rw [Int.neg_tmod] at this
        omega
      omega

theorem pop_push (c : Core) (v : Val) : (c.push v).pop = (c, v) := by
  simp [Core.push, Core.pop]

/-- the integer the VM's arithmetic handler leaves on the stack -/
def vmIntOp (op : Opc) (x y : I64) : I64 :=
  match op with
  | .ADD => x + y
  | .SUB => x - y
  | .MUL => x * y
  | .DIV => if y == 0 then 0 else x.sdiv y
  | _ => if y == 0 then 0 else x.srem y

/-- handler level: with two integers on top of the stack, `OP_ADD … OP_MOD` replace them by `vmIntOp` -/
theorem vm_arith_handler (s : Core) (op : Opc) (hop : op = .ADD ∨ op = .SUB ∨ op = .MUL ∨ op = .DIV ∨ op = .MOD) (x y : I64) :
    NanoVerif.binArith ((s.push (.int x)).push (.int y)) op = cont (s.push (.int (vmIntOp op x y))) := by
  unfold NanoVerif.binArith
  simp only [pop_push]
  rcases hop with rfl | rfl | rfl | rfl | rfl <;> simp [coerceEnum, vmIntOp]

def semOp : Opc → TT
  | .ADD => .T_PLUS
  | .SUB => .T_MINUS
  | .MUL => .T_STAR
  | .DIV => .T_SLASH
  | _ => .T_PERCENT

theorem toInt_eq_zero_iff (y : I64) : y.toInt = 0 ↔ y = 0 := by
  constructor
  · intro e; exact BitVec.eq_of_toInt_eq (by simpa using e)
  · intro e; subst e; simp

/-- **arith_agree**: for every pair of 64-bit operands and each of + − * / %, the value the VM computes is
    the value the reference semantics prescribes (wrapping, truncating division, x/0 = x%0 = 0 on the VM). -/
theorem arith_agree (op : Opc) (hop : op = .ADD ∨ op = .SUB ∨ op = .MUL ∨ op = .DIV ∨ op = .MOD) (x y : I64) :
    Sem.binArith Sem.vmCfg (semOp op) (.int x.toInt) (.int y.toInt) = .ok (.int (vmIntOp op x y).toInt) := by
  rcases hop with rfl | rfl | rfl | rfl | rfl
  · show Sem.binArith Sem.vmCfg .T_PLUS (.int x.toInt) (.int y.toInt) = .ok (.int (x + y).toInt)
    simp only [Sem.binArith]; rw [add_agree]
  · show Sem.binArith Sem.vmCfg .T_MINUS (.int x.toInt) (.int y.toInt) = .ok (.int (x - y).toInt)
    simp only [Sem.binArith]; rw [sub_agree]
  · show Sem.binArith Sem.vmCfg .T_STAR (.int x.toInt) (.int y.toInt) = .ok (.int (x * y).toInt)
    simp only [Sem.binArith]; rw [mul_agree]
  · show Sem.binArith Sem.vmCfg .T_SLASH (.int x.toInt) (.int y.toInt) = .ok (.int (if y == 0 then 0 else x.sdiv y).toInt)
    by_cases h : y = 0
    · subst h; simp [Sem.binArith, Sem.vmCfg]
    · have h' : y.toInt ≠ 0 := fun e => h ((toInt_eq_zero_iff y).mp e)
      have e1 : (y == 0) = false := by
        rw [beq_eq_false_iff_ne]; exact h
      have e2 : (y.toInt == 0) = false := by
        rw [beq_eq_false_iff_ne]; exact h'
      simp only [Sem.binArith, e1, e2, Bool.false_eq_true, if_false]
      rw [div_agree]
  · show Sem.binArith Sem.vmCfg .T_PERCENT (.int x.toInt) (.int y.toInt) = .ok (.int (if y == 0 then 0 else x.srem y).toInt)
    by_cases h : y = 0
    · subst h; simp [Sem.binArith, Sem.vmCfg]
    · have h' : y.toInt ≠ 0 := fun e => h ((toInt_eq_zero_iff y).mp e)
      have e1 : (y == 0) = false := by
        rw [beq_eq_false_iff_ne]; exact h
      have e2 : (y.toInt == 0) = false := by
        rw [beq_eq_false_iff_ne]; exact h'
      simp only [Sem.binArith, e1, e2, Bool.false_eq_true, if_false]
      rw [mod_agree]

/-- unary minus -/
theorem neg_agree_sem (x : I64) : Sem.wrap64 (-(x.toInt)) = (-x).toInt := (neg_agree x).symm

/-- **cmp_agree**: signed comparison on the VM (`val_compare` on two ints) is the reference's comparison
    of the integers, for every pair -/
theorem cmp_agree (x y : I64) :
    (x == y) = (x.toInt == y.toInt) ∧ (x.slt y) = decide (x.toInt < y.toInt) ∧ (x.sle y) = decide (x.toInt ≤ y.toInt) := by
  refine ⟨?_, BitVec.slt_eq_decide, BitVec.sle_eq_decide⟩
  by_cases h : x = y
  · subst h; rw [beq_self_eq_true, beq_self_eq_true]
  · have h2 : x.toInt ≠ y.toInt := fun e => h (BitVec.eq_of_toInt_eq e)
    rw [beq_eq_false_iff_ne.mpr h, beq_eq_false_iff_ne.mpr h2]

/-- results of the reference arithmetic always lie in the signed 64-bit range -/
theorem wrap64_range (z : Int) : -9223372036854775808 ≤ Sem.wrap64 z ∧ Sem.wrap64 z < 9223372036854775808 := by
  unfold Sem.wrap64
  simp only []
  split <;> omega

/-! ### spec_laws: the reference has the properties sections 4.6 / 4.9 prescribe -/

/-- `and`: a false left operand decides; the right operand is not evaluated (its effects do not happen) -/
theorem and_short (cfg : Sem.Cfg) (p : Program) (fuel : Nat) (loc : Sem.Locals) (g g1 : Sem.GState) (a b : Expr)
    (h : Sem.evalExpr cfg p fuel loc g a = .ok (.bool false, g1)) :
    Sem.evalExpr cfg p (fuel + 1) loc g (.prefixOp .T_AND [a, b]) = .ok (.bool false, g1) := by
  simp [Sem.evalExpr, h]

/-- `or`: a true left operand decides -/
theorem or_short (cfg : Sem.Cfg) (p : Program) (fuel : Nat) (loc : Sem.Locals) (g g1 : Sem.GState) (a b : Expr)
    (h : Sem.evalExpr cfg p fuel loc g a = .ok (.bool true, g1)) :
    Sem.evalExpr cfg p (fuel + 1) loc g (.prefixOp .T_OR [a, b]) = .ok (.bool true, g1) := by
  simp [Sem.evalExpr, h]

/-- otherwise `and`/`or` take the value of the right operand, evaluated in the state the left one left -/
theorem and_right (cfg : Sem.Cfg) (p : Program) (fuel : Nat) (loc : Sem.Locals) (g g1 g2 : Sem.GState) (a b : Expr) (vb : Bool)
    (h : Sem.evalExpr cfg p fuel loc g a = .ok (.bool true, g1))
    (hb : Sem.evalExpr cfg p fuel loc g1 b = .ok (.bool vb, g2)) :
    Sem.evalExpr cfg p (fuel + 1) loc g (.prefixOp .T_AND [a, b]) = .ok (.bool vb, g2) := by
  simp [Sem.evalExpr, h, hb]

/-- strict left-to-right: the second operand of a binary operator is evaluated in the state left by the
    first, and the operator is applied to the two values in that order -/
theorem operands_left_to_right (cfg : Sem.Cfg) (p : Program) (fuel : Nat) (loc : Sem.Locals) (g g1 g2 : Sem.GState)
    (a b : Expr) (va vb v : Sem.SVal) (op : TT) (hop : op ≠ .T_AND ∧ op ≠ .T_OR)
    (ha : Sem.evalExpr cfg p fuel loc g a = .ok (va, g1)) (hb : Sem.evalExpr cfg p fuel loc g1 b = .ok (vb, g2))
    (hv : Sem.binArith cfg op va vb = .ok v) :
    Sem.evalExpr cfg p (fuel + 1) loc g (.prefixOp op [a, b]) = .ok (v, g2) := by
  simp [Sem.evalExpr, ha, hb, hv, hop.1, hop.2]

theorem first_operand_fault_stops (cfg : Sem.Cfg) (p : Program) (fuel : Nat) (loc : Sem.Locals) (g : Sem.GState)
    (a b : Expr) (er : Sem.Fault × Sem.GState) (op : TT)
    (ha : Sem.evalExpr cfg p fuel loc g a = .error er) :
    Sem.evalExpr cfg p (fuel + 1) loc g (.prefixOp op [a, b]) = .error er := by
  simp [Sem.evalExpr, ha]

/-- arguments of a call are evaluated first to last, each in the state left by the previous one -/
theorem args_left_to_right (cfg : Sem.Cfg) (p : Program) (fuel : Nat) (loc : Sem.Locals) (g g1 g2 : Sem.GState)
    (a : Expr) (r : List Expr) (v : Sem.SVal) (vs : List Sem.SVal)
    (ha : Sem.evalExpr cfg p fuel loc g a = .ok (v, g1)) (hr : Sem.evalArgs cfg p fuel loc g1 r = .ok (vs, g2)) :
    Sem.evalArgs cfg p (fuel + 1) loc g (a :: r) = .ok (v :: vs, g2) := by
  simp [Sem.evalArgs, ha, hr]

theorem first_argument_fault_stops (cfg : Sem.Cfg) (p : Program) (fuel : Nat) (loc : Sem.Locals) (g : Sem.GState)
    (a : Expr) (r : List Expr) (er : Sem.Fault × Sem.GState) (ha : Sem.evalExpr cfg p fuel loc g a = .error er) :
    Sem.evalArgs cfg p (fuel + 1) loc g (a :: r) = .error er := by
  simp [Sem.evalArgs, ha]

/-- non-vacuity: `(and false (println 1))` prints nothing, `(and true (== 1 1))` is true -/
example : Sem.evalExpr Sem.vmCfg [] 5 [] {} (.prefixOp .T_AND [.bool false, .call "println" [.num 1]]) = .ok (.bool false, {}) := by
  simp [Sem.evalExpr]

/-! ### the reference defines one outcome per program

"The defined semantics" is a function of the program only if the bound used to compute it does not matter.
`outcome_stable`: once a run of the reference is decided (it did not stop for want of fuel), every larger
fuel gives the same observation - for every construct of the reference, either configuration.
`outcome_unique`: two decided runs of one program give the same observation, whatever their fuels. -/

theorem outcome_stable (c : Sem.Cfg) (p : Program) (fuel : Nat)
    (h : (Sem.runProgram c p fuel).res ≠ .fault .fuel) (k : Nat) :
    Sem.runProgram c p (fuel + k) = Sem.runProgram c p fuel :=
  Sem.runProgram_fuel_mono p c fuel h k

theorem outcome_unique (c : Sem.Cfg) (p : Program) (n m : Nat)
    (hn : (Sem.runProgram c p n).res ≠ .fault .fuel) (hm : (Sem.runProgram c p m).res ≠ .fault .fuel) :
    Sem.runProgram c p n = Sem.runProgram c p m := by
  have h1 := outcome_stable c p n hn m
  have h2 := outcome_stable c p m hm n
  rw [← h1, Nat.add_comm n m, h2]

/-- the same below whole programs: an expression's value and state, once decided, do not depend on the fuel -/
theorem expr_stable (c : Sem.Cfg) (p : Program) (fuel : Nat) (loc : Sem.Locals) (g : Sem.GState) (e : Expr)
    (r : Sem.SVal × Sem.GState) (h : Sem.evalExpr c p fuel loc g e = .ok r) :
    Sem.evalExpr c p (fuel + 1) loc g e = .ok r := by
  rcases (Sem.fuelAll p c fuel).expr loc g e with h1 | ⟨g', h1⟩
  · rw [← h1]; exact h
  · rw [h1] at h; cases h

/-- ... and a statement list's effect likewise -/
theorem stmts_stable (c : Sem.Cfg) (p : Program) (fuel : Nat) (loc : Sem.Locals) (g : Sem.GState) (ss : List Stmt)
    (r : Sem.Flow × Sem.Locals × Sem.GState) (h : Sem.execStmts c p fuel loc g ss = .ok r) :
    Sem.execStmts c p (fuel + 1) loc g ss = .ok r := by
  rcases (Sem.fuelAll p c fuel).stmts loc g ss with h1 | ⟨g', h1⟩
  · rw [← h1]; exact h
  · rw [h1] at h; cases h

end NanoVerif.C02
