/-
L7 — the static rules of the modelled fragment as an executable checker (`tcProgram`).  This is the
*specification* checker: what docs/SPECIFICATION.md sections 3–5 and the property's rule catalogue demand
(operand and argument types, arity, unknown / out-of-scope names, immutability, return on every path, return
type, bool conditions, fields).  It is compared with src/typechecker.c by accept/reject correspondence on
well-typed programs and their single-point mutants; where typechecker.c accepts what `tcProgram` rejects the
difference is reported (findings), it is not absorbed into the model.
-/
import NanoVerif.Model.Ast

namespace NanoVerif.Tc
open NanoVerif Gen

structure Sig where
  params : List Ty
  ret : Ty
deriving Repr, Inhabited

structure Binding where
  name : String
  ty : Ty
  isMut : Bool
deriving Repr, Inhabited

structure Env where
  fns : List (String × Sig) := []
  structs : List (String × List (String × Ty)) := []
  globals : List Binding := []
deriving Repr, Inhabited

abbrev Scope := List Binding        -- innermost first

def tyEq : Ty → Ty → Bool
  | .int, .int | .bool, .bool | .string, .string | .void, .void | .float, .float | .u8, .u8 => true
  | .arr a, .arr b => tyEq a b
  | .named a, .named b => a == b
  | _, _ => false

def findVar (sc : Scope) (g : List Binding) (x : String) : Option Binding :=
  match sc.find? (·.name == x) with
  | some b => some b
  | none => g.find? (·.name == x)

/-- builtins of the fragment with fixed signatures -/
def builtinSig (f : String) : Option Sig :=
  if f == "str_length" then some ⟨[.string], .int⟩
  else if f == "str_concat" then some ⟨[.string, .string], .string⟩
  else if f == "str_equals" then some ⟨[.string, .string], .bool⟩
  else if f == "str_contains" then some ⟨[.string, .string], .bool⟩
  else if f == "int_to_string" then some ⟨[.int], .string⟩
  else if f == "abs" then some ⟨[.int], .int⟩
  else if f == "min" then some ⟨[.int, .int], .int⟩
  else if f == "max" then some ⟨[.int, .int], .int⟩
  else none

mutual
/-- the type of an expression, `none` when a rule is violated -/
def tcExpr (env : Env) (sc : Scope) : Expr → Option Ty
  | .num _ => some .int
  | .flt _ => some .float
  | .bool _ => some .bool
  | .str _ => some .string
  | .ident x => (findVar sc env.globals x).map (·.ty)
  | .prefixOp op [a] =>
    match tcExpr env sc a with
    | some .int => if op == .T_MINUS then some .int else none
    | some .bool => if op == .T_NOT then some .bool else none
    | _ => none
  | .prefixOp op [a, b] =>
    match tcExpr env sc a, tcExpr env sc b with
    | some ta, some tb =>
      if op == .T_PLUS then
        (if tyEq ta .int && tyEq tb .int then some .int else if tyEq ta .string && tyEq tb .string then some .string else none)
      else if op == .T_MINUS || op == .T_STAR || op == .T_SLASH || op == .T_PERCENT then
        (if tyEq ta .int && tyEq tb .int then some .int else none)
      else if op == .T_EQ || op == .T_NE then
        (if tyEq ta tb && (tyEq ta .int || tyEq ta .bool || tyEq ta .string) then some .bool else none)
      else if op == .T_LT || op == .T_LE || op == .T_GT || op == .T_GE then
        (if tyEq ta .int && tyEq tb .int then some .bool else none)
      else if op == .T_AND || op == .T_OR then
        (if tyEq ta .bool && tyEq tb .bool then some .bool else none)
      else none
    | _, _ => none
  | .prefixOp _ _ => none
  | .call f args =>
    if f == "println" || f == "print" then
      match args with
      | [a] => (tcExpr env sc a).map (fun _ => Ty.void)
      | _ => none
    else if f == "array_length" then
      match args with
      | [a] => (match tcExpr env sc a with | some (.arr _) => some .int | _ => none)
      | _ => none
    else if f == "at" then
      match args with
      | [a, i] => (match tcExpr env sc a, tcExpr env sc i with | some (.arr t), some .int => some t | _, _ => none)
      | _ => none
    else if f == "array_push" then
      match args with
      | [a, v] => (match tcExpr env sc a, tcExpr env sc v with | some (.arr t), some tv => if tyEq t tv then some (.arr t) else none | _, _ => none)
      | _ => none
    else if f == "range" then
      match args with
      | [a, b] => (match tcExpr env sc a, tcExpr env sc b with | some .int, some .int => some (.arr .int) | _, _ => none)
      | _ => none
    else
      let sig? : Option Sig := match builtinSig f with
        | some s => some s
        | none => (env.fns.find? (fun (p : String × Sig) => p.1 == f)).map (fun p => p.2)
      match sig? with
      | none => none                              -- unknown function
      | some sig => if tcArgs env sc args sig.params then some sig.ret else none
  | .field e fld =>
    match tcExpr env sc e with
    | some (.named n) =>
      match env.structs.find? (·.1 == n) with
      | some (_, fs) => (fs.find? (·.1 == fld)).map (·.2)      -- undefined field: none
      | none => none
    | _ => none
  | .arrayLit [] => none                                        -- needs the declared type; handled by `letS`
  | .arrayLit (a :: r) =>
    match tcExpr env sc a with
    | some t => if tcAll env sc r t then some (.arr t) else none
    | none => none
  | .structLit n fnames vals =>
    match env.structs.find? (·.1 == n) with
    | some (_, fs) => if fnames.length == fs.length && tcFields env sc fs fnames vals then some (.named n) else none
    | none => none
  | .tupleIdx _ _ => none
  | .tuple _ => none

/-- arity and argument types -/
def tcArgs (env : Env) (sc : Scope) : List Expr → List Ty → Bool
  | [], [] => true
  | a :: r, t :: ts => (match tcExpr env sc a with | some ta => tyEq ta t | none => false) && tcArgs env sc r ts
  | _, _ => false

def tcAll (env : Env) (sc : Scope) : List Expr → Ty → Bool
  | [], _ => true
  | a :: r, t => (match tcExpr env sc a with | some ta => tyEq ta t | none => false) && tcAll env sc r t

def tcFields (env : Env) (sc : Scope) (fs : List (String × Ty)) : List String → List Expr → Bool
  | [], [] => true
  | n :: ns, v :: vs =>
    (match fs.find? (·.1 == n), tcExpr env sc v with
     | some (_, t), some tv => tyEq t tv
     | _, _ => false) && tcFields env sc fs ns vs
  | _, _ => false
end

mutual
/-- statements: the scope after the statement, `none` when a rule is violated.
    `ret` is the function's return type, `inLoop` whether break/continue are allowed -/
def tcStmt (env : Env) (ret : Ty) (inLoop : Bool) (sc : Scope) : Stmt → Option Scope
  | .letS x m ty e =>
    let ok := match e with
      | .arrayLit [] => (match ty with | .arr _ => true | _ => false)
      | _ => (match tcExpr env sc e with | some te => tyEq te ty | none => false)
    if ok then some (⟨x, ty, m⟩ :: sc) else none
  | .setS x e =>
    match findVar sc env.globals x, tcExpr env sc e with
    | some b, some te => if b.isMut && tyEq te b.ty then some sc else none     -- immutable or unknown: rejected
    | _, _ => none
  | .ifS c t els _ =>
    match tcExpr env sc c with
    | some .bool =>
      if tcBlock env ret inLoop sc t && tcElse env ret inLoop sc els then some sc else none
    | _ => none                                                     -- non-bool condition
  | .whileS c b =>
    match tcExpr env sc c with
    | some .bool => if tcBlock env ret true sc b then some sc else none
    | _ => none
  | .forS v rg b =>
    match tcExpr env sc rg with
    | some (.arr t) => if tcBlock env ret true (⟨v, t, false⟩ :: sc) b then some sc else none
    | _ => none
  | .ret none => if tyEq ret .void then some sc else none
  | .ret (some e) => (match tcExpr env sc e with | some te => if tyEq te ret then some sc else none | none => none)
  | .breakS => if inLoop then some sc else none
  | .continueS => if inLoop then some sc else none
  | .printS _ e => (tcExpr env sc e).map (fun _ => sc)
  | .assertS e => (match tcExpr env sc e with | some .bool => some sc | _ => none)
  | .exprS e => (tcExpr env sc e).map (fun _ => sc)
  | .block ss => if tcBlock env ret inLoop sc ss then some sc else none

def tcElse (env : Env) (ret : Ty) (inLoop : Bool) (sc : Scope) : Option (List Stmt) → Bool
  | none => true
  | some eb => tcBlock env ret inLoop sc eb

/-- a block: its declarations do not escape -/
def tcBlock (env : Env) (ret : Ty) (inLoop : Bool) (sc : Scope) : List Stmt → Bool
  | [] => true
  | s :: r =>
    match tcStmt env ret inLoop sc s with
    | some sc' => tcBlock env ret inLoop sc' r
    | none => false
end

mutual
/-- does every path through the statements end in `return`? -/
def returnsAll : List Stmt → Bool
  | [] => false
  | s :: r => stmtReturns s || returnsAll r
def stmtReturns : Stmt → Bool
  | .ret _ => true
  | .ifS _ t (some e) _ => returnsAll t && returnsAll e
  | .block ss => returnsAll ss
  | _ => false
end

def mkEnv (p : Program) : Env :=
  { fns := p.filterMap (fun it => match it with | .fn n ps rt _ => some (n, ⟨ps.map (·.ty), rt⟩) | _ => none)
    structs := p.filterMap (fun it => match it with | .structDef n fs => some (n, fs) | _ => none)
    globals := p.filterMap (fun it => match it with | .glet n m t _ => some ⟨n, t, m⟩ | _ => none) }

def tcItem (env : Env) : Item → Bool
  | .fn _ ps rt body =>
    tcBlock env rt false (ps.map (fun p => ⟨p.name, p.ty, false⟩)).reverse body && (tyEq rt .void || returnsAll body)
  | .shadow f body => (env.fns.any (·.1 == f)) && tcBlock env .void false [] body
  | .glet _ _ ty e => (match tcExpr { env with globals := [] } [] e with | some te => tyEq te ty | none => false)
  | .structDef _ _ => true
  | .enumDef _ _ => true

def tcProgram (p : Program) : Bool :=
  let env := mkEnv p
  p.all (tcItem env)

end NanoVerif.Tc
