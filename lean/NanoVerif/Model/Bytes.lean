/-
L0 — little-endian byte codecs shared by the ISA, the .nvm container and the wire protocols.
Core Lean only (this file is imported by the compiled driver).
-/
namespace NanoVerif

abbrev Bytes := List UInt8

/-- `n` little-endian bytes of `v` (what `write_u16/u32/i64` and `le_write_*` produce: value
    truncated to the width). -/
def leBytes : Nat → Nat → Bytes
  | 0, _ => []
  | n+1, v => UInt8.ofNat (v % 256) :: leBytes n (v / 256)

/-- value of a little-endian byte string (what `read_u16/u32/i64` compute). -/
def leVal : Bytes → Nat
  | [] => 0
  | b :: bs => b.toNat + 256 * leVal bs

@[simp] theorem leBytes_length (n v : Nat) : (leBytes n v).length = n := by
  induction n generalizing v with
  | zero => rfl
  | succ n ih => simp [leBytes, ih]

theorem leVal_lt (bs : Bytes) : leVal bs < 256 ^ bs.length := by
  induction bs with
  | nil => simp [leVal]
  | cons b bs ih =>
    simp only [leVal, List.length_cons, Nat.pow_succ]
    have := UInt8.toNat_lt b
    omega

theorem leVal_leBytes (n v : Nat) : leVal (leBytes n v) = v % 256 ^ n := by
  induction n generalizing v with
  | zero => simp [leBytes, leVal, Nat.mod_one]
  | succ n ih =>
    simp only [leBytes, leVal, ih]
    have h1 : (UInt8.ofNat (v % 256)).toNat = v % 256 := by
      simp [UInt8.toNat_ofNat']
    rw [h1, Nat.pow_succ, Nat.mul_comm (256 ^ n) 256, Nat.mod_mul]

theorem leVal_leBytes_of_lt (n v : Nat) (h : v < 256 ^ n) : leVal (leBytes n v) = v := by
  rw [leVal_leBytes, Nat.mod_eq_of_lt h]

theorem leBytes_leVal (bs : Bytes) : leBytes bs.length (leVal bs) = bs := by
  induction bs with
  | nil => rfl
  | cons b bs ih =>
    simp only [List.length_cons, leBytes, leVal]
    have hb := UInt8.toNat_lt b
    have h1 : (b.toNat + 256 * leVal bs) % 256 = b.toNat := by omega
    have h2 : (b.toNat + 256 * leVal bs) / 256 = leVal bs := by omega
    rw [h1, h2, ih]
    simp

/-- `leBytes` only depends on the value modulo the width. -/
theorem leBytes_mod (n v : Nat) : leBytes n (v % 256 ^ n) = leBytes n v := by
  have := leBytes_leVal (leBytes n v)
  rw [leBytes_length, leVal_leBytes] at this
  exact this

/-- checked read of `n` bytes at offset `off` (none = the C code would read out of the buffer) -/
def slice? (bs : Bytes) (off n : Nat) : Option Bytes :=
  if off + n ≤ bs.length then some ((bs.drop off).take n) else none

theorem slice?_length {bs : Bytes} {off n : Nat} {r : Bytes} (h : slice? bs off n = some r) :
    r.length = n := by
  unfold slice? at h
  split at h
  · cases h; simp; omega
  · cases h

def hexDigit (n : Nat) : Char :=
  if n < 10 then Char.ofNat (48 + n) else Char.ofNat (87 + n)

def toHex (bs : Bytes) : String :=
  String.ofList (bs.flatMap fun b => [hexDigit (b.toNat / 16), hexDigit (b.toNat % 16)])

def hexVal (c : Char) : Option Nat :=
  if '0' ≤ c ∧ c ≤ '9' then some (c.toNat - 48)
  else if 'a' ≤ c ∧ c ≤ 'f' then some (c.toNat - 87)
  else if 'A' ≤ c ∧ c ≤ 'F' then some (c.toNat - 55)
  else none

def ofHexChars : List Char → Option Bytes
  | [] => some []
  | [_] => none
  | a :: b :: rest => do
    let x ← hexVal a
    let y ← hexVal b
    let r ← ofHexChars rest
    pure (UInt8.ofNat (x * 16 + y) :: r)

/-- "-" denotes the empty byte string in the line protocol -/
def ofHex (s : String) : Option Bytes :=
  if s = "-" then some [] else ofHexChars s.toList

end NanoVerif
