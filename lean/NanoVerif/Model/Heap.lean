/-
L4a — NanoVM values and the reference-counted heap: model of src/nanovm/value.h, heap.c.
Addresses are allocation-order ids (what hook H2 prints), not pointers.  Touching an address
that is not live is recorded in `dangling` (the C code would use freed memory).
-/
import NanoVerif.Model.Bytes
import NanoVerif.Gen.IsaTable
namespace NanoVerif

abbrev I64 := BitVec 64

inductive Val
  | void
  | int (n : I64)
  | u8 (n : Nat)
  | float (bits : I64)
  | bool (b : Bool)
  | enum (v : Nat)
  | opaque (id : Nat)
  | str (a : Nat)
  | arr (a : Nat)
  | struct (a : Nat)
  | union (a : Nat)
  | tuple (a : Nat)
  | hmap (a : Nat)
  | clos (a : Nat)
deriving DecidableEq, Repr, Inhabited

def Val.tag : Val → Nat
  | .void => Gen.tag_void | .int _ => Gen.tag_int | .u8 _ => Gen.tag_u8 | .float _ => Gen.tag_float
  | .bool _ => Gen.tag_bool | .enum _ => Gen.tag_enum | .opaque _ => Gen.tag_opaque
  | .str _ => Gen.tag_string | .arr _ => Gen.tag_array | .struct _ => Gen.tag_struct
  | .union _ => Gen.tag_union | .tuple _ => Gen.tag_tuple | .hmap _ => Gen.tag_hashmap
  | .clos _ => Gen.tag_function

/-- heap address held by a value (`val_is_heap_obj(v) || v.tag == TAG_FUNCTION`) -/
def Val.addr? : Val → Option Nat
  | .str a | .arr a | .struct a | .union a | .tuple a | .hmap a | .clos a => some a
  | _ => none

inductive Obj
  | str (b : Bytes)
  | arr (elemType : Nat) (es : List Val)
  | struct (defIdx : Nat) (fs : List Val)
  | union (defIdx variant : Nat) (fs : List Val)
  | tuple (es : List Val)
  | clos (fn : Nat) (caps : List Val)
deriving DecidableEq, Repr, Inhabited

def Obj.kids : Obj → List Val
  | .str _ => []
  | .arr _ es => es
  | .struct _ fs => fs
  | .union _ _ fs => fs
  | .tuple es => es
  | .clos _ caps => caps

def Obj.kindName : Obj → String
  | .str _ => "str" | .arr .. => "arr" | .struct .. => "struct" | .union .. => "union"
  | .tuple _ => "tuple" | .clos .. => "clos"

structure Cell where
  rc : Nat
  obj : Obj
deriving DecidableEq, Repr, Inhabited

structure Heap where
  cells : List (Nat × Cell) := []
  next : Nat := 0
  dangling : Bool := false
deriving Repr, Inhabited

def Heap.get? (h : Heap) (a : Nat) : Option Cell := (h.cells.find? (·.1 == a)).map (·.2)

def Heap.set (h : Heap) (a : Nat) (c : Cell) : Heap :=
  { h with cells := h.cells.map fun p => if p.1 == a then (a, c) else p }

def Heap.erase (h : Heap) (a : Nat) : Heap :=
  { h with cells := h.cells.filter fun p => p.1 != a }

def Heap.alloc (h : Heap) (o : Obj) : Heap × Nat :=
  ({ h with cells := h.cells ++ [(h.next, { rc := 1, obj := o })], next := h.next + 1 }, h.next)

def Heap.markDangling (h : Heap) : Heap := { h with dangling := true }

/-- `vm_retain` -/
def Heap.retain (h : Heap) (v : Val) : Heap :=
  match v.addr? with
  | none => h
  | some a =>
    match h.get? a with
    | none => h.markDangling
    | some c => h.set a { c with rc := c.rc + 1 }

theorem Heap.erase_lt {h : Heap} {a : Nat} {c : Cell} (hg : h.get? a = some c) :
    (h.erase a).cells.length < h.cells.length := by
  unfold Heap.get? at hg
  cases hf : h.cells.find? (·.1 == a) with
  | none => simp [hf] at hg
  | some p =>
    have hm := List.mem_of_find?_eq_some hf
    have hp := List.find?_some hf
    unfold Heap.erase
    apply List.length_filter_lt_length_iff_exists.mpr
    exact ⟨p, hm, by simpa using hp⟩

theorem Heap.set_length (h : Heap) (a : Nat) (c : Cell) : (h.set a c).cells.length = h.cells.length := by
  simp [Heap.set]

theorem Heap.markDangling_length (h : Heap) : h.markDangling.cells.length = h.cells.length := rfl

/-- `vm_release` on a work list of values (the C function recurses over the children of a freed
    object; every free shrinks the heap, which is the termination argument). -/
def Heap.release (h : Heap) : List Val → Heap
  | [] => h
  | v :: ws =>
    match v.addr? with
    | none => h.release ws
    | some a =>
      match hg : h.get? a with
      | none => h.markDangling.release ws
      | some c =>
        if c.rc ≤ 1 then (h.erase a).release (c.obj.kids ++ ws)
        else (h.set a { c with rc := c.rc - 1 }).release ws
termination_by ws => (h.cells.length, ws.length)
decreasing_by
  all_goals simp_wf
  · exact Prod.Lex.right _ (by simp)
  · rw [Heap.markDangling_length]; exact Prod.Lex.right _ (by simp)
  · exact Prod.Lex.left _ _ (Heap.erase_lt hg)
  · rw [Heap.set_length]; exact Prod.Lex.right _ (by simp)

def Heap.release1 (h : Heap) (v : Val) : Heap := h.release [v]

/-- `vm_string_new`: interned by content -/
def Heap.strNew (h : Heap) (b : Bytes) : Heap × Val :=
  match h.cells.find? (fun p => match p.2.obj with | .str b' => b' == b | _ => false) with
  | some (a, c) => (h.set a { c with rc := c.rc + 1 }, .str a)
  | none => let (h', a) := h.alloc (.str b); (h', .str a)

def Heap.strBytes? (h : Heap) (v : Val) : Option Bytes :=
  match v with
  | .str a => match h.get? a with
    | some { obj := .str b, .. } => some b
    | _ => none
  | _ => none

def Heap.obj? (h : Heap) (a : Nat) : Option Obj := (h.get? a).map (·.obj)

def Heap.setObj (h : Heap) (a : Nat) (o : Obj) : Heap :=
  match h.get? a with
  | some c => h.set a { c with obj := o }
  | none => h.markDangling

end NanoVerif
