/-
L9a — co-process value codec: model of `cop_serialize_value` / `cop_deserialize_value`
(src/nanovm/cop_protocol.c).  Host byte order is little-endian (the code `memcpy`s).
-/
import NanoVerif.Model.Bytes
import NanoVerif.Gen.IsaTable
namespace NanoVerif

/-- a value as it travels between VM and co-process -/
inductive CVal
  | int (bits : Nat)            -- int64 as its 64-bit pattern
  | float (bits : Nat)          -- double as its 64-bit pattern
  | bool (b : Bool)
  | str (b : Bytes)
  | opaque (bits : Nat)
  | arr (etype : Nat) (es : List CVal)
  | void
  | other (tag : Nat)           -- u8, enum, struct, …: only the tag is sent, arrives as void
deriving Repr, Inhabited

mutual
/-- `cop_serialize_value` into a buffer with `room` bytes left (`none` = returns 0) -/
def copSer : CVal → Nat → Option Bytes
  | .int n, room => if 1 + 8 > room then none else some (UInt8.ofNat Gen.tag_int :: leBytes 8 n)
  | .float n, room => if 1 + 8 > room then none else some (UInt8.ofNat Gen.tag_float :: leBytes 8 n)
  | .bool b, room => if 1 + 1 > room then none else some [UInt8.ofNat Gen.tag_bool, if b then 1 else 0]
  | .str s, room => if 1 + 4 + s.length > room then none else some (UInt8.ofNat Gen.tag_string :: (leBytes 4 s.length ++ s))
  | .opaque n, room => if 1 + 8 > room then none else some (UInt8.ofNat Gen.tag_opaque :: leBytes 8 n)
  | .arr et es, room =>
    if 1 + 5 > room then none
    else match copSerList es (room - 6) with
      | none => none
      | some bs => some (UInt8.ofNat Gen.tag_array :: UInt8.ofNat et :: (leBytes 4 es.length ++ bs))
  | .void, room => if room < 1 then none else some [UInt8.ofNat Gen.tag_void]
  | .other t, room => if room < 1 then none else some [UInt8.ofNat t]
def copSerList : List CVal → Nat → Option Bytes
  | [], _ => some []
  | v :: vs, room =>
    match copSer v room with
    | none => none
    | some b => match copSerList vs (room - b.length) with
      | none => none
      | some bs => some (b ++ bs)
end

/-- serialised size -/
def CVal.size : CVal → Nat
  | .int _ | .float _ | .opaque _ => 9
  | .bool _ => 2
  | .str s => 5 + s.length
  | .arr _ es => 6 + sizeList es
  | .void | .other _ => 1
where sizeList : List CVal → Nat
  | [] => 0
  | v :: vs => v.size + sizeList vs

/-- element loop of the array decoder, parameterised by the decoder for one nesting level less -/
def elemsWith (dec : Bytes → Option (CVal × Nat)) : Nat → Bytes → List CVal → Nat → Option (List CVal × Nat)
  | 0, _, acc, used => some (acc.reverse, used)
  | k+1, b, acc, used => match dec b with
    | none => none
    | some (v, n) => elemsWith dec k (b.drop n) (v :: acc) (used + n)

/-- `cop_deserialize_value`: value and bytes consumed (`none` = returns 0).  `fuel` bounds the
    nesting (each level consumes at least one byte, so `buf.length + 1` always suffices). -/
def copDe : Nat → Bytes → Option (CVal × Nat)
  | 0, _ => none
  | fuel+1, buf =>
    match buf with
    | [] => none
    | t :: rest =>
      let tag := t.toNat
      if tag == Gen.tag_int then (if 8 > rest.length then none else some (.int (leVal (rest.take 8)), 9))
      else if tag == Gen.tag_float then (if 8 > rest.length then none else some (.float (leVal (rest.take 8)), 9))
      else if tag == Gen.tag_bool then (match rest with | [] => none | b :: _ => some (.bool (b != 0), 2))
      else if tag == Gen.tag_string then
        (if 4 > rest.length then none
         else
           let len := leVal (rest.take 4)
           if len > rest.length - 4 then none
           else some (.str ((rest.drop 4).take len), 5 + len))
      else if tag == Gen.tag_opaque then (if 8 > rest.length then none else some (.opaque (leVal (rest.take 8)), 9))
      else if tag == Gen.tag_array then
        (if 5 > rest.length then none
         else
           let et := (rest.getD 0 0).toNat
           let count := leVal ((rest.drop 1).take 4)
           if count > rest.length - 5 then none else
           match elemsWith (copDe fuel) count (rest.drop 5) [] 0 with
           | none => none
           | some (es, used) => some (.arr et es, 6 + used))
      else some (.void, 1)

end NanoVerif
