/-
L5 — reference semantics of the modelled fragment: a fuel-indexed big-step evaluator over the AST,
written from docs/SPECIFICATION.md sections 4–8 (strict left-to-right evaluation of operands and
arguments, short-circuit and/or, static scoping and block shadowing, 64-bit wrapping integers,
truncating division).  It is *not* derived from any engine; C02 compares every engine with it.

`Cfg` holds the documented points on which engines may differ: division by zero is total (0) on the VM
and a fault natively.  Fuel bounds calls and loop iterations (and every recursive step, so that the
definitions are structurally recursive); `Fault.fuel` means "not decided by this much fuel".
-/
import NanoVerif.Model.Ast

namespace NanoVerif.Sem
open NanoVerif Gen

inductive SVal
  | int (i : Int)
  | bool (b : Bool)
  | str (s : Bytes)
  | void
  | arr (vs : List SVal)
  | struct (name : String) (fs : List SVal)
deriving Repr, Inhabited

inductive Fault
  | assertFail
  | oob
  | divZero
  | typeError
  | undefinedVar
  | undefinedFn
  | fuel
  | unsupported
deriving Repr, DecidableEq, Inhabited

structure Cfg where
  divZeroIsZero : Bool := true        -- VM: x / 0 = 0, x % 0 = 0; native: SIGFPE (documented fault)
deriving Repr, Inhabited

def vmCfg : Cfg := { divZeroIsZero := true }
def nativeCfg : Cfg := { divZeroIsZero := false }

/-- two's-complement wrap into the signed 64-bit range -/
def wrap64 (x : Int) : Int :=
  let m := x % 18446744073709551616
  if m ≥ 9223372036854775808 then m - 18446744073709551616 else m

/-- global state: output written so far, top-level variables -/
structure GState where
  out : Bytes := []
  globals : List (String × SVal) := []
deriving Repr, Inhabited

abbrev Locals := List (String × SVal)

def lookup? (l : List (String × SVal)) (x : String) : Option SVal := (l.find? (·.1 == x)).map (·.2)

def update (l : List (String × SVal)) (x : String) (v : SVal) : Option (List (String × SVal)) :=
  match l with
  | [] => none
  | (y, w) :: r => if y == x then some ((y, v) :: r) else (update r x v).map ((y, w) :: ·)

def decBytes (i : Int) : Bytes := (toString i).toUTF8.toList

/- text written by `print` / `println` / `to_string` -/
mutual
def fmtSVal : SVal → Bytes
  | .int i => decBytes i
  | .bool b => if b then [116, 114, 117, 101] else [102, 97, 108, 115, 101]
  | .str s => s
  | .void => [118, 111, 105, 100]
  | .arr vs => [91] ++ fmtElems vs ++ [93]
  | .struct _ _ => [60, 115, 116, 114, 117, 99, 116, 62]
def fmtElems : List SVal → Bytes
  | [] => []
  | [v] => fmtElem v
  | v :: w :: r => fmtElem v ++ [44, 32] ++ fmtElems (w :: r)
def fmtElem : SVal → Bytes
  | .str s => [34] ++ s ++ [34]
  | .int i => decBytes i
  | .bool b => if b then [116, 114, 117, 101] else [102, 97, 108, 115, 101]
  | .void => [118, 111, 105, 100]
  | .arr vs => [91] ++ fmtElems vs ++ [93]
  | .struct _ _ => [60, 115, 116, 114, 117, 99, 116, 62]
end

def isSub (needle hay : Bytes) : Bool :=
  needle.isEmpty || (List.range (hay.length + 1 - needle.length)).any (fun k => (hay.drop k).take needle.length == needle)

/-- arithmetic and comparison on two values (specification 4.4–4.6; `+` also concatenates strings) -/
def binArith (cfg : Cfg) (op : TT) (a b : SVal) : Except Fault SVal :=
  match op, a, b with
  | .T_PLUS, .int x, .int y => .ok (.int (wrap64 (x + y)))
  | .T_PLUS, .str x, .str y => .ok (.str (x ++ y))
  | .T_MINUS, .int x, .int y => .ok (.int (wrap64 (x - y)))
  | .T_STAR, .int x, .int y => .ok (.int (wrap64 (x * y)))
  | .T_SLASH, .int x, .int y =>
    if y == 0 then (if cfg.divZeroIsZero then .ok (.int 0) else .error .divZero)
    else .ok (.int (wrap64 (Int.tdiv x y)))
  | .T_PERCENT, .int x, .int y =>
    if y == 0 then (if cfg.divZeroIsZero then .ok (.int 0) else .error .divZero)
    else .ok (.int (wrap64 (Int.tmod x y)))
  | .T_EQ, .int x, .int y => .ok (.bool (x == y))
  | .T_EQ, .bool x, .bool y => .ok (.bool (x == y))
  | .T_EQ, .str x, .str y => .ok (.bool (x == y))
  | .T_NE, .int x, .int y => .ok (.bool (x != y))
  | .T_NE, .bool x, .bool y => .ok (.bool (x != y))
  | .T_NE, .str x, .str y => .ok (.bool (x != y))
  | .T_LT, .int x, .int y => .ok (.bool (x < y))
  | .T_LE, .int x, .int y => .ok (.bool (x ≤ y))
  | .T_GT, .int x, .int y => .ok (.bool (x > y))
  | .T_GE, .int x, .int y => .ok (.bool (x ≥ y))
  | _, _, _ => .error .typeError

def findFn (p : Program) (f : String) : Option (List Param × List Stmt) :=
  p.findSome? (fun it => match it with | .fn n ps _ b => if n == f then some (ps, b) else none | _ => none)

def findStruct (p : Program) (n : String) : Option (List (String × Ty)) :=
  p.findSome? (fun it => match it with | .structDef m fs => if m == n then some fs else none | _ => none)

inductive Flow
  | next
  | brk
  | cont
  | ret (v : SVal)
deriving Repr, Inhabited

def rangeVals (a b : Int) : List SVal :=
  (List.range (b - a).toNat).map (fun (k : Nat) => SVal.int (a + Int.ofNat k))

/-- builtins on already evaluated arguments (`none`: not a builtin of the fragment) -/
def builtin (f : String) (args : List SVal) (g : GState) : Option (Except (Fault × GState) (SVal × GState)) :=
  match f, args with
  | "println", [v] => some (.ok (.void, { g with out := g.out ++ fmtSVal v ++ [10] }))
  | "print", [v] => some (.ok (.void, { g with out := g.out ++ fmtSVal v }))
  | "str_length", [.str s] => some (.ok (.int s.length, g))
  | "str_concat", [.str a, .str b] => some (.ok (.str (a ++ b), g))
  | "str_equals", [.str a, .str b] => some (.ok (.bool (a == b), g))
  | "str_contains", [.str a, .str b] => some (.ok (.bool (isSub b a), g))
  | "int_to_string", [.int i] => some (.ok (.str (decBytes i), g))
  | "to_string", [v] => some (.ok (.str (fmtSVal v), g))
  | "cast_string", [v] => some (.ok (.str (fmtSVal v), g))
  | "bool_to_string", [.bool b] => some (.ok (.str (fmtSVal (.bool b)), g))
  | "abs", [.int i] => some (.ok (.int (wrap64 (if i < 0 then -i else i)), g))
  | "min", [.int a, .int b] => some (.ok (.int (if a < b then a else b), g))
  | "max", [.int a, .int b] => some (.ok (.int (if a > b then a else b), g))
  | "array_length", [.arr vs] => some (.ok (.int vs.length, g))
  | "at", [.arr vs, .int i] =>
    some (if i < 0 then .error (.oob, g) else match vs[i.toNat]? with | some v => .ok (v, g) | none => .error (.oob, g))
  | "array_get", [.arr vs, .int i] =>
    some (if i < 0 then .error (.oob, g) else match vs[i.toNat]? with | some v => .ok (v, g) | none => .error (.oob, g))
  | "array_push", [.arr vs, v] => some (.ok (.arr (vs ++ [v]), g))
  | "array_set", [.arr vs, .int i, v] =>
    some (if i < 0 || i.toNat ≥ vs.length then .error (.oob, g) else .ok (.arr (vs.set i.toNat v), g))
  | "range", [.int b] => some (.ok (.arr (rangeVals 0 b), g))
  | "range", [.int a, .int b] => some (.ok (.arr (rangeVals a b), g))
  | _, _ => none

def isBuiltinName (f : String) : Bool :=
  ["println", "print", "str_length", "str_concat", "str_equals", "str_contains", "int_to_string", "to_string", "cast_string",
   "bool_to_string", "abs", "min", "max", "array_length", "at", "array_get", "array_push", "array_set", "range"].contains f

mutual
/-- expressions: value and state after evaluation -/
def evalExpr (cfg : Cfg) (p : Program) : Nat → Locals → GState → Expr → Except (Fault × GState) (SVal × GState)
  | 0, _, g, _ => .error (.fuel, g)
  | fuel+1, loc, g, e =>
    match e with
    | .num v => .ok (.int (wrap64 v), g)
    | .flt _ => .error (.unsupported, g)
    | .bool b => .ok (.bool b, g)
    | .str raw => .ok (.str (unescape raw), g)
    | .ident x =>
      match lookup? loc x with
      | some v => .ok (v, g)
      | none =>
        match lookup? g.globals x with
        | some v => .ok (v, g)
        | none => .error (.undefinedVar, g)
    | .prefixOp op [a] =>
      match evalExpr cfg p fuel loc g a with
      | .error er => .error er
      | .ok (v, g1) =>
        match op, v with
        | .T_MINUS, .int i => .ok (.int (wrap64 (-i)), g1)
        | .T_NOT, .bool b => .ok (.bool (!b), g1)
        | _, _ => .error (.typeError, g1)
    | .prefixOp op [a, b] =>
      match evalExpr cfg p fuel loc g a with
      | .error er => .error er
      | .ok (va, g1) =>
        if op == .T_AND then
          match va with
          | .bool false => .ok (.bool false, g1)             -- right operand not evaluated
          | .bool true =>
            match evalExpr cfg p fuel loc g1 b with
            | .error er => .error er
            | .ok (.bool vb, g2) => .ok (.bool vb, g2)
            | .ok (_, g2) => .error (.typeError, g2)
          | _ => .error (.typeError, g1)
        else if op == .T_OR then
          match va with
          | .bool true => .ok (.bool true, g1)
          | .bool false =>
            match evalExpr cfg p fuel loc g1 b with
            | .error er => .error er
            | .ok (.bool vb, g2) => .ok (.bool vb, g2)
            | .ok (_, g2) => .error (.typeError, g2)
          | _ => .error (.typeError, g1)
        else
          match evalExpr cfg p fuel loc g1 b with
          | .error er => .error er
          | .ok (vb, g2) =>
            match binArith cfg op va vb with
            | .error f => .error (f, g2)
            | .ok v => .ok (v, g2)
    | .prefixOp _ _ => .error (.unsupported, g)
    | .call f args =>
      match evalArgs cfg p fuel loc g args with
      | .error er => .error er
      | .ok (vs, g1) =>
        match builtin f vs g1 with
        | some r => r
        | none =>
          if isBuiltinName f then .error (.typeError, g1)
          else match findFn p f with
            | none => .error (.undefinedFn, g1)
            | some (ps, body) =>
              if ps.length != vs.length then .error (.typeError, g1)
              else
                match execStmts cfg p fuel ((ps.map (·.name)).zip vs).reverse g1 body with
                | .error er => .error er
                | .ok (.ret v, _, g2) => .ok (v, g2)
                | .ok (_, _, g2) => .ok (.void, g2)
    | .field o fld =>
      match evalExpr cfg p fuel loc g o with
      | .error er => .error er
      | .ok (.struct n fs, g1) =>
        match findStruct p n with
        | none => .error (.typeError, g1)
        | some defs =>
          match defs.findIdx? (·.1 == fld) with
          | none => .error (.typeError, g1)
          | some k => match fs[k]? with | some v => .ok (v, g1) | none => .error (.typeError, g1)
      | .ok (_, g1) => .error (.typeError, g1)
    | .arrayLit es =>
      match evalArgs cfg p fuel loc g es with
      | .error er => .error er
      | .ok (vs, g1) => .ok (.arr vs, g1)
    | .structLit n fnames vals =>
      match findStruct p n with
      | none => .error (.typeError, g)
      | some defs =>
        -- field values are evaluated in *definition* order (what both back ends do)
        match evalFields cfg p fuel loc g (defs.map (·.1)) fnames vals with
        | .error er => .error er
        | .ok (vs, g1) => .ok (.struct n vs, g1)
    | .tupleIdx _ _ => .error (.unsupported, g)
    | .tuple _ => .error (.unsupported, g)

/-- operands / arguments / elements, strictly left to right -/
def evalArgs (cfg : Cfg) (p : Program) : Nat → Locals → GState → List Expr → Except (Fault × GState) (List SVal × GState)
  | 0, _, g, _ => .error (.fuel, g)
  | _+1, _, g, [] => .ok ([], g)
  | fuel+1, loc, g, a :: r =>
    match evalExpr cfg p fuel loc g a with
    | .error er => .error er
    | .ok (v, g1) =>
      match evalArgs cfg p fuel loc g1 r with
      | .error er => .error er
      | .ok (vs, g2) => .ok (v :: vs, g2)

def evalFields (cfg : Cfg) (p : Program) : Nat → Locals → GState → List String → List String → List Expr → Except (Fault × GState) (List SVal × GState)
  | 0, _, g, _, _, _ => .error (.fuel, g)
  | _+1, _, g, [], _, _ => .ok ([], g)
  | fuel+1, loc, g, d :: ds, fnames, vals =>
    let pick : Option Expr := ((fnames.zip vals).find? (·.1 == d)).map (·.2)
    match pick with
    | none =>
      match evalFields cfg p fuel loc g ds fnames vals with
      | .error er => .error er
      | .ok (vs, g2) => .ok (.void :: vs, g2)
    | some e =>
      match evalExpr cfg p fuel loc g e with
      | .error er => .error er
      | .ok (v, g1) =>
        match evalFields cfg p fuel loc g1 ds fnames vals with
        | .error er => .error er
        | .ok (vs, g2) => .ok (v :: vs, g2)

/-- one statement: control flow, locals afterwards, state afterwards -/
def execStmt (cfg : Cfg) (p : Program) : Nat → Locals → GState → Stmt → Except (Fault × GState) (Flow × Locals × GState)
  | 0, _, g, _ => .error (.fuel, g)
  | fuel+1, loc, g, s =>
    match s with
    | .letS x _ _ e =>
      match evalExpr cfg p fuel loc g e with
      | .error er => .error er
      | .ok (v, g1) => .ok (.next, (x, v) :: loc, g1)
    | .setS x e =>
      match evalExpr cfg p fuel loc g e with
      | .error er => .error er
      | .ok (v, g1) =>
        match update loc x v with
        | some loc' => .ok (.next, loc', g1)
        | none =>
          match update g1.globals x v with
          | some gl => .ok (.next, loc, { g1 with globals := gl })
          | none => .error (.undefinedVar, g1)
    | .ifS c t els _ =>
      match evalExpr cfg p fuel loc g c with
      | .error er => .error er
      | .ok (.bool true, g1) => execBlock cfg p fuel loc g1 t
      | .ok (.bool false, g1) =>
        match els with
        | none => .ok (.next, loc, g1)
        | some eb => execBlock cfg p fuel loc g1 eb
      | .ok (_, g1) => .error (.typeError, g1)
    | .whileS c b => execWhile cfg p fuel loc g c b
    | .forS v rg b =>
      match evalExpr cfg p fuel loc g rg with
      | .error er => .error er
      | .ok (.arr vs, g1) => execFor cfg p fuel loc g1 v vs b
      | .ok (_, g1) => .error (.typeError, g1)
    | .ret none => .ok (.ret .void, loc, g)
    | .ret (some e) =>
      match evalExpr cfg p fuel loc g e with
      | .error er => .error er
      | .ok (v, g1) => .ok (.ret v, loc, g1)
    | .breakS => .ok (.brk, loc, g)
    | .continueS => .ok (.cont, loc, g)
    | .printS ln e =>
      match evalExpr cfg p fuel loc g e with
      | .error er => .error er
      | .ok (v, g1) => .ok (.next, loc, { g1 with out := g1.out ++ fmtSVal v ++ (if ln then [10] else []) })
    | .assertS e =>
      match evalExpr cfg p fuel loc g e with
      | .error er => .error er
      | .ok (.bool true, g1) => .ok (.next, loc, g1)
      | .ok (.bool false, g1) => .error (.assertFail, g1)
      | .ok (_, g1) => .error (.typeError, g1)
    | .exprS e =>
      match evalExpr cfg p fuel loc g e with
      | .error er => .error er
      | .ok (_, g1) => .ok (.next, loc, g1)
    | .block ss => execBlock cfg p fuel loc g ss

/-- a block: names it declares are dropped at its end; assignments to outer variables stay -/
def execBlock (cfg : Cfg) (p : Program) : Nat → Locals → GState → List Stmt → Except (Fault × GState) (Flow × Locals × GState)
  | 0, _, g, _ => .error (.fuel, g)
  | fuel+1, loc, g, ss =>
    match execStmts cfg p fuel loc g ss with
    | .error er => .error er
    | .ok (fl, loc', g1) => .ok (fl, loc'.drop (loc'.length - loc.length), g1)

def execStmts (cfg : Cfg) (p : Program) : Nat → Locals → GState → List Stmt → Except (Fault × GState) (Flow × Locals × GState)
  | 0, _, g, _ => .error (.fuel, g)
  | _+1, loc, g, [] => .ok (.next, loc, g)
  | fuel+1, loc, g, s :: r =>
    match execStmt cfg p fuel loc g s with
    | .error er => .error er
    | .ok (.next, loc1, g1) => execStmts cfg p fuel loc1 g1 r
    | .ok (fl, loc1, g1) => .ok (fl, loc1, g1)

def execWhile (cfg : Cfg) (p : Program) : Nat → Locals → GState → Expr → List Stmt → Except (Fault × GState) (Flow × Locals × GState)
  | 0, _, g, _, _ => .error (.fuel, g)
  | fuel+1, loc, g, c, b =>
    match evalExpr cfg p fuel loc g c with
    | .error er => .error er
    | .ok (.bool false, g1) => .ok (.next, loc, g1)
    | .ok (.bool true, g1) =>
      match execBlock cfg p fuel loc g1 b with
      | .error er => .error er
      | .ok (.brk, loc1, g2) => .ok (.next, loc1, g2)
      | .ok (.ret v, loc1, g2) => .ok (.ret v, loc1, g2)
      | .ok (_, loc1, g2) => execWhile cfg p fuel loc1 g2 c b
    | .ok (_, g1) => .error (.typeError, g1)

def execFor (cfg : Cfg) (p : Program) : Nat → Locals → GState → String → List SVal → List Stmt → Except (Fault × GState) (Flow × Locals × GState)
  | 0, _, g, _, _, _ => .error (.fuel, g)
  | _+1, loc, g, _, [], _ => .ok (.next, loc, g)
  | fuel+1, loc, g, v, x :: xs, b =>
    match execBlock cfg p fuel ((v, x) :: loc) g b with
    | .error er => .error er
    | .ok (.brk, loc1, g1) => .ok (.next, loc1.drop 1, g1)
    | .ok (.ret w, loc1, g1) => .ok (.ret w, loc1.drop 1, g1)
    | .ok (_, loc1, g1) => execFor cfg p fuel (loc1.drop 1) g1 v xs b
end

/-- what a run shows: bytes written and how it ended -/
inductive Outcome' where
  | exit (code : Nat)
  | fault (f : Fault)
deriving Repr, DecidableEq

structure Obs where
  out : Bytes
  res : Outcome'
deriving Repr

def initGlobals (cfg : Cfg) (p : Program) (fuel : Nat) : List Item → GState → Except (Fault × GState) GState
  | [], g => .ok g
  | .glet name _ _ e :: r, g =>
    match evalExpr cfg p fuel [] g e with
    | .error er => .error er
    | .ok (v, g1) => initGlobals cfg p fuel r { g1 with globals := g1.globals ++ [(name, v)] }
  | _ :: r, g => initGlobals cfg p fuel r g

/-- run `main`; its integer result is the exit status (low 8 bits) -/
def runProgram (cfg : Cfg) (p : Program) (fuel : Nat) : Obs :=
  match initGlobals cfg p fuel p {} with
  | .error (f, g) => ⟨g.out, .fault f⟩
  | .ok g0 =>
    match evalExpr cfg p fuel [] g0 (.call "main" []) with
    | .error (f, g) => ⟨g.out, .fault f⟩
    | .ok (.int i, g) => ⟨g.out, .exit (i % 256).toNat⟩
    | .ok (_, g) => ⟨g.out, .exit 0⟩

end NanoVerif.Sem
