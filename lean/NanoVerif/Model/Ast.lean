/-
L8b — abstract syntax of the modelled fragment of nanolang (what `parse_program` builds, minus
source positions).  Nodes the model does not cover make the parser answer `unsupported`, never a
default.
-/
import NanoVerif.Model.Lexer

namespace NanoVerif
open Gen

inductive Ty
  | int | bool | string | void | float | u8
  | arr (elem : Ty)
  | named (n : String)         -- struct / enum / union name
deriving DecidableEq, Repr, Inhabited

/-- Expressions.  `prefixOp` is `AST_PREFIX_OP` exactly as the parser builds it: an operator token and
    any number of operands (infix spelling always gives two, unary spelling one). -/
inductive Expr
  | num (v : Int)
  | flt (raw : Bytes)
  | bool (b : Bool)
  | str (raw : Bytes)
  | ident (x : String)
  | prefixOp (op : TT) (args : List Expr)
  | call (f : String) (args : List Expr)
  | field (e : Expr) (name : String)
  | tupleIdx (e : Expr) (i : Int)
  | arrayLit (es : List Expr)
  | tuple (es : List Expr)
  | structLit (name : String) (fnames : List String) (vals : List Expr)
deriving Repr, Inhabited

inductive Stmt
  | letS (name : String) (isMut : Bool) (ty : Ty) (e : Expr)
  | setS (name : String) (e : Expr)
  | ifS (c : Expr) (thn : List Stmt) (els : Option (List Stmt)) (elseIsIf : Bool)
      -- `else if ..` is an AST_IF node in the else position (not a block): `els = some [ifS ..]`, flag true
  | whileS (c : Expr) (body : List Stmt)
  | forS (v : String) (range : Expr) (body : List Stmt)
  | ret (e : Option Expr)
  | breakS
  | continueS
  | printS (ln : Bool) (e : Expr)
  | assertS (e : Expr)
  | exprS (e : Expr)
  | block (ss : List Stmt)
deriving Repr, Inhabited

structure Param where
  name : String
  ty   : Ty
deriving Repr, Inhabited

inductive Item
  | fn (name : String) (params : List Param) (ret : Ty) (body : List Stmt)
  | shadow (fname : String) (body : List Stmt)
  | glet (name : String) (isMut : Bool) (ty : Ty) (e : Expr)
  | structDef (name : String) (fields : List (String × Ty))
  | enumDef (name : String) (variants : List (String × Int))
deriving Repr, Inhabited

abbrev Program := List Item

/-- the escape processing of `case AST_STRING` -/
def unescape : Bytes → Bytes
  | [] => []
  | [c] => [c]
  | c :: d :: r =>
    if c == 92 then
      (if d == 110 then 10 else if d == 116 then 9 else if d == 114 then 13 else if d == 97 then 7
       else if d == 98 then 8 else if d == 102 then 12 else if d == 118 then 11 else if d == 48 then 0
       else d) :: unescape r
    else c :: unescape (d :: r)


end NanoVerif
