/-
L1 — types shared by the generated instruction table and the hand-written codec model.
-/
import NanoVerif.Model.Bytes
namespace NanoVerif

/-- `OperandType` of src/nanoisa/isa.h (OPERAND_NONE never occurs in a table entry's first
    `operand_count` slots; the translator refuses the table otherwise). -/
inductive OperandType | u8 | u16 | u32 | i32 | i64 | f64
deriving DecidableEq, Repr, Inhabited

structure InstrInfo where
  name : String
  opcode : Nat
  operands : List OperandType
deriving DecidableEq, Repr, Inhabited

end NanoVerif
