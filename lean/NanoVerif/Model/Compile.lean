/-
L6 — the bytecode generator (`codegen_compile`, src/nanovirt/codegen.c) on the modelled fragment:
AST → instruction lists with relative byte offsets → module (string pool, function table, code).
`break`/`continue` are placeholders resolved when the enclosing loop is assembled, which is what the
patch lists of `LoopCtx` do.  Anything outside the fragment is `unsupported`, never defaulted.
-/
import NanoVerif.Model.Parser
import NanoVerif.Model.Isa
import NanoVerif.Model.Nvm

namespace NanoVerif
open Gen

inductive CgErr
  | undefinedVar (x : String)
  | undefinedFn (f : String)
  | limit (what : String)
  | bad (what : String)          -- other `cg_error`s (break outside loop, unknown field, ...)
  | unsupported (what : String)  -- outside the modelled fragment
deriving Repr, DecidableEq

/-- pseudo-instructions: real ones plus the loop placeholders -/
inductive PI
  | i (x : Instr)
  | brk
  | cont
deriving Repr, DecidableEq

def instrSize (x : Instr) : Nat :=
  match lookup x.opcode with
  | some info => 1 + (info.operands.map Gen.operandSize).sum
  | none => 1

def PI.size : PI → Nat
  | .i x => instrSize x
  | _ => 5

def codeSize : List PI → Nat
  | [] => 0
  | p :: ps => p.size + codeSize ps

def pat32 (x : Int) : Nat := (x % 4294967296).toNat
def pat64 (x : Int) : Nat := (x % 18446744073709551616).toNat

def ins (o : Opc) (args : List Nat := []) : PI := .i ⟨o.toByte, args⟩

/-- resolve the placeholders of one loop: `off` is the byte offset (from the loop's first byte) of the
    head of the list; a placeholder becomes `JMP (target − its own offset)` -/
def resolve (brkT contT : Nat) : Nat → List PI → List PI
  | _, [] => []
  | off, .brk :: r => ins .JMP [pat32 ((brkT : Int) - off)] :: resolve brkT contT (off + 5) r
  | off, .cont :: r => ins .JMP [pat32 ((contT : Int) - off)] :: resolve brkT contT (off + 5) r
  | off, .i x :: r => .i x :: resolve brkT contT (off + instrSize x) r

def countBrk : List PI → Nat
  | [] => 0
  | .brk :: r => 1 + countBrk r
  | _ :: r => countBrk r
def countCont : List PI → Nat
  | [] => 0
  | .cont :: r => 1 + countCont r
  | _ :: r => countCont r

structure Local where
  name : String
  hidden : Bool := false
  ty : Option Ty := none
deriving Repr, Inhabited

/-- what the generator knows about the whole program (filled by pass 1) -/
structure CE where
  fns : List (String × Nat) := []
  fnRet : List (String × Ty) := []
  globals : List (String × Option Ty) := []
  structs : List (String × List (String × Ty)) := []
  enums : List (String × List (String × Int)) := []
deriving Repr, Inhabited

structure CS where
  strings : List Bytes := []
  locals : List Local := []
deriving Repr, Inhabited

def CS.localFind (cs : CS) (x : String) : Option Nat :=
  let n := cs.locals.length
  (List.range n).reverse.find? (fun k => match cs.locals[k]? with | some l => !l.hidden && l.name == x | none => false)

def CS.localTy (cs : CS) (x : String) : Option Ty :=
  match cs.localFind x with
  | some k => (cs.locals[k]?).bind (·.ty)
  | none => none

def CS.localAdd (cs : CS) (x : String) (ty : Option Ty := none) : Except CgErr (CS × Nat) :=
  if cs.locals.length ≥ cgMaxLocals then .error (.limit "too many local variables")
  else .ok ({ cs with locals := cs.locals ++ [{ name := x, ty := ty }] }, cs.locals.length)

/-- `local_scope_end` -/
def CS.scopeEnd (cs : CS) (mark : Nat) : CS :=
  { cs with locals := cs.locals.zipIdx.map (fun (l, k) => if k ≥ mark then { l with hidden := true } else l) }

def CE.fnFind (ce : CE) (f : String) : Option Nat := (ce.fns.find? (·.1 == f)).map (·.2)
def CE.globalFind (ce : CE) (x : String) : Option Nat := ce.globals.findIdx? (·.1 == x)
def CE.structFind (ce : CE) (n : String) : Option (Nat × List (String × Ty)) :=
  match ce.structs.findIdx? (·.1 == n) with
  | some k => (ce.structs[k]?).map (fun s => (k, s.2))
  | none => none
def CE.enumFind (ce : CE) (n : String) : Option (Nat × List (String × Int)) :=
  match ce.enums.findIdx? (·.1 == n) with
  | some k => (ce.enums[k]?).map (fun s => (k, s.2))
  | none => none

def isCompareOp (t : TT) : Bool :=
  t == .T_EQ || t == .T_NE || t == .T_LT || t == .T_LE || t == .T_GT || t == .T_GE || t == .T_AND || t == .T_OR || t == .T_NOT

/-- names `compile_builtin_call` gives a meaning to and that the model transcribes -/
def supportedBuiltins : List String :=
  ["println", "print", "str_length", "str_concat", "str_contains", "str_equals", "str_substring",
   "cast_int", "cast_bool", "cast_string", "to_string", "int_to_string", "bool_to_string",
   "abs", "min", "max", "array_length", "at", "array_get", "array_push", "array_pop", "array_set",
   "array_remove_at", "array_slice", "range", "str_char_at", "char_at"]

/-- static type of an expression, as far as the generator needs it (array literal element tag, struct
    field resolution); `none` = unknown -/
def exprTy (ce : CE) (cs : CS) : Expr → Option Ty
  | .num _ => some .int
  | .flt _ => some .float
  | .bool _ => some .bool
  | .str _ => some .string
  | .ident x =>
    match cs.localFind x with
    | some k => (cs.locals[k]?).bind (·.ty)
    | none => (ce.globals.find? (·.1 == x)).bind (·.2)
  | .prefixOp op args =>
    if isCompareOp op then some .bool
    else match args with
      | a :: _ => exprTy ce cs a
      | [] => none
  | .call f args =>
    if f == "at" || f == "array_get" || f == "array_pop" then
      match args with
      | a :: _ => (match exprTy ce cs a with | some (.arr t) => some t | _ => none)
      | [] => none
    else if f == "array_push" || f == "array_set" || f == "array_remove_at" || f == "array_slice" then
      match args with
      | a :: _ => exprTy ce cs a
      | [] => none
    else if f == "str_length" || f == "abs" || f == "min" || f == "max" || f == "array_length" || f == "cast_int" || f == "str_char_at" || f == "char_at" then some .int
    else if f == "str_concat" || f == "str_substring" || f == "cast_string" || f == "to_string" || f == "int_to_string" || f == "bool_to_string" then some .string
    else if f == "str_contains" || f == "str_equals" || f == "cast_bool" then some .bool
    else if f == "range" then some (.arr .int)
    else (ce.fnRet.find? (·.1 == f)).map (·.2)
  | .structLit n _ _ => some (.named n)
  | .field e fld =>
    match exprTy ce cs e with
    | some (.named n) =>
      match ce.structFind n with
      | some (_, fs) => (fs.find? (·.1 == fld)).map (·.2)
      | none => none
    | _ => none
  | .arrayLit (a :: _) => (exprTy ce cs a).map .arr
  | .arrayLit [] => none
  | .tupleIdx _ _ => none
  | .tuple _ => none

def tagOfTy : Option Ty → Nat
  | some .float => tag_float
  | some .bool => tag_bool
  | some .string => tag_string
  | _ => tag_int

/-- `infer_expr_struct_type` -/
def structTyName (ce : CE) (cs : CS) (e : Expr) : Option String :=
  match exprTy ce cs e with
  | some (.named n) => some n
  | _ => none

abbrev CR := Except CgErr (CS × List PI)

def loadIdx (o : Opc) (k : Nat) : PI := ins o [k]

/-- the `DUP/ROT3/SWAP` prefix of `min` / `max`, up to the comparison -/
def minMaxCode (cmp : Opc) : List PI :=
  [ins .DUP, ins .ROT3, ins .SWAP, ins .DUP, ins .ROT3, ins .SWAP, ins cmp,
   ins .JMP_FALSE [pat32 (5 + 1 + 1 + 5)], ins .SWAP, ins .POP, ins .JMP [pat32 (5 + 1)], ins .POP]

/-- the loop `range` is lowered to; `endS`, `iS`, `arrS` are the three hidden locals -/
def rangeLoop (endS iS arrS : Nat) : List PI :=
  let head := [loadIdx .LOAD_LOCAL iS, loadIdx .LOAD_LOCAL endS, ins .LT]
  let body := [loadIdx .LOAD_LOCAL arrS, loadIdx .LOAD_LOCAL iS, ins .ARR_PUSH, loadIdx .STORE_LOCAL arrS,
               loadIdx .LOAD_LOCAL iS, ins .PUSH_I64 [1], ins .ADD, loadIdx .STORE_LOCAL iS]
  let hs := codeSize head
  let bs := codeSize body
  [loadIdx .STORE_LOCAL endS, loadIdx .STORE_LOCAL iS, ins .ARR_NEW [tag_int], loadIdx .STORE_LOCAL arrS]
    ++ head ++ [ins .JMP_FALSE [pat32 (5 + bs + 5)]] ++ body ++ [ins .JMP [pat32 (-((hs + 5 + bs : Nat) : Int))]]
    ++ [loadIdx .LOAD_LOCAL arrS]

mutual
/-- `compile_expr` -/
def cExpr (ce : CE) (cs : CS) (e0 : Expr) : CR :=
  match e0 with
  | .num v => .ok (cs, [ins .PUSH_I64 [pat64 v]])
  | .flt _ => .error (.unsupported "float literal")
  | .bool b => .ok (cs, [ins .PUSH_BOOL [if b then 1 else 0]])
  | .str raw =>
    let (ss, idx) := addString cs.strings (unescape raw)
    .ok ({ cs with strings := ss }, [ins .PUSH_STR [idx]])
  | .ident x =>
    match cs.localFind x with
    | some k => .ok (cs, [loadIdx .LOAD_LOCAL k])
    | none =>
      match ce.globalFind x with
      | some g => .ok (cs, [loadIdx .LOAD_GLOBAL g])
      | none =>
        match ce.fnFind x with
        | some f => .ok (cs, [ins .CLOSURE_NEW [f, 0]])
        | none => .error (.undefinedVar x)
  | .prefixOp op args =>
    match args with
    | [a] =>
      match cExpr ce cs a with
      | .error e => .error e
      | .ok (cs1, ca) =>
        if op == .T_MINUS then .ok (cs1, ca ++ [ins .NEG])
        else if op == .T_NOT then .ok (cs1, ca ++ [ins .NOT])
        else .error (.bad "unsupported unary operator")
    | [a, b] =>
      match cExpr ce cs a with
      | .error e => .error e
      | .ok (cs1, ca) =>
        match cExpr ce cs1 b with
        | .error e => .error e
        | .ok (cs2, cb) =>
          if op == .T_AND || op == .T_OR then
            let jc := if op == .T_AND then Opc.JMP_FALSE else Opc.JMP_TRUE
            .ok (cs2, ca ++ [ins jc [pat32 (5 + codeSize cb + 1 + 5)]] ++ cb ++
                      [ins .CAST_BOOL, ins .JMP [pat32 (5 + 2)], ins .PUSH_BOOL [if op == .T_AND then 0 else 1]])
          else
            let o : Option Opc :=
              match op with
              | .T_PLUS => some .ADD | .T_MINUS => some .SUB | .T_STAR => some .MUL | .T_SLASH => some .DIV
              | .T_PERCENT => some .MOD | .T_EQ => some .EQ | .T_NE => some .NE | .T_LT => some .LT
              | .T_LE => some .LE | .T_GT => some .GT | .T_GE => some .GE | _ => none
            match o with
            | some o => .ok (cs2, ca ++ cb ++ [ins o])
            | none => .error (.bad "unsupported binary operator")
    | _ => .error (.bad "unexpected arg count for prefix op")
  | .call f args =>
    let n := args.length
    if (f == "println" || f == "print") then
      match args with
      | [] => .ok (cs, [ins .PUSH_VOID, ins (if f == "println" then .PRINTLN else .PRINT), ins .PUSH_VOID])
      | a :: _ =>
        match cExpr ce cs a with
        | .error e => .error e
        | .ok (cs1, ca) => .ok (cs1, ca ++ [ins (if f == "println" then .PRINTLN else .PRINT), ins .PUSH_VOID])
    else
      let simple : Option Opc :=
        if f == "str_length" && n == 1 then some .STR_LEN
        else if f == "str_concat" && n == 2 then some .STR_CONCAT
        else if f == "str_contains" && n == 2 then some .STR_CONTAINS
        else if f == "str_equals" && n == 2 then some .STR_EQ
        else if f == "str_substring" && n == 3 then some .STR_SUBSTR
        else if f == "cast_int" && n == 1 then some .CAST_INT
        else if f == "cast_bool" && n == 1 then some .CAST_BOOL
        else if (f == "cast_string" || f == "to_string" || f == "int_to_string" || f == "bool_to_string") && n == 1 then some .CAST_STRING
        else if f == "array_length" && n == 1 then some .ARR_LEN
        else if (f == "at" || f == "array_get") && n == 2 then some .ARR_GET
        else if f == "array_push" && n == 2 then some .ARR_PUSH
        else if f == "array_set" && n == 3 then some .ARR_SET
        else if f == "array_remove_at" && n == 2 then some .ARR_REMOVE
        else if (f == "str_char_at" || f == "char_at") && n == 2 then some .STR_CHAR_AT
        else none
      match simple with
      | some o =>
        match cArgs ce cs args with
        | .error e => .error e
        | .ok (cs1, ca) => .ok (cs1, ca ++ [ins o])
      | none =>
        if f == "abs" && n == 1 then
          match cArgs ce cs args with
          | .error e => .error e
          | .ok (cs1, ca) => .ok (cs1, ca ++ [ins .DUP, ins .PUSH_I64 [0], ins .LT, ins .JMP_FALSE [pat32 (5 + 1)], ins .NEG])
        else if (f == "min" || f == "max") && n == 2 then
          match cArgs ce cs args with
          | .error e => .error e
          | .ok (cs1, ca) => .ok (cs1, ca ++ minMaxCode (if f == "min" then .LT else .GT))
        else if f == "array_slice" && n == 3 then
          -- (array_slice a start length): OP_ARR_SLICE takes start and end, the generator emits start + length
          match args with
          | [a, st, ln] =>
            match cExpr ce cs a with
            | .error e => .error e
            | .ok (cs1, ca) =>
              match cExpr ce cs1 st with
              | .error e => .error e
              | .ok (cs2, cst) =>
                match cExpr ce cs2 ln with
                | .error e => .error e
                | .ok (cs3, cln) => .ok (cs3, ca ++ cst ++ [ins .DUP] ++ cln ++ [ins .ADD, ins .ARR_SLICE])
          | _ => .error (.bad "array_slice arity")
        else if f == "array_pop" && n == 1 then
          match cArgs ce cs args with
          | .error e => .error e
          | .ok (cs1, ca) => .ok (cs1, ca ++ [ins .ARR_POP, ins .POP])
        else if f == "range" && (n == 1 || n == 2) then
          match cArgs ce cs args with
          | .error e => .error e
          | .ok (cs1, ca) =>
            match cs1.localAdd "__range_end__" with
            | .error e => .error e
            | .ok (cs2, endS) =>
              match cs2.localAdd "__range_i__" with
              | .error e => .error e
              | .ok (cs3, iS) =>
                match cs3.localAdd "__range_arr__" with
                | .error e => .error e
                | .ok (cs4, arrS) =>
                  .ok (cs4, (if n == 1 then [ins .PUSH_I64 [0]] else []) ++ ca ++ rangeLoop endS iS arrS)
        else if builtinNames.contains f || f.startsWith "list_" || f.startsWith "List_" || f.startsWith "___module_" then
          .error (.unsupported ("builtin " ++ f))
        else
          match cArgs ce cs args with
          | .error e => .error e
          | .ok (cs1, ca) =>
            match ce.fnFind f with
            | some k => .ok (cs1, ca ++ [ins .CALL [k]])
            | none =>
              match cs1.localFind f with
              | some k => .ok (cs1, ca ++ [loadIdx .LOAD_LOCAL k, ins .CALL_INDIRECT])
              | none => .error (.undefinedFn f)
  | .field e fld =>
    let enumCase : Option (Except CgErr (List PI)) :=
      match e with
      | .ident x =>
        match ce.enumFind x with
        | some (k, vs) =>
          match vs.find? (·.1 == fld) with
          | some (_, v) => some (.ok [ins .ENUM_VAL [k, (pat64 v) % 65536]])
          | none => some (.error (.bad "unknown enum variant"))
        | none => none
      | _ => none
    match enumCase with
    | some (.ok c) => .ok (cs, c)
    | some (.error er) => .error er
    | none =>
      match cExpr ce cs e with
      | .error er => .error er
      | .ok (cs1, c) =>
        let viaType : Option Nat :=
          match structTyName ce cs e with
          | some n =>
            match ce.structFind n with
            | some (_, fs) => fs.findIdx? (·.1 == fld)
            | none => none
          | none => none
        match viaType with
        | some k => .ok (cs1, c ++ [ins .STRUCT_GET [k]])
        | none =>
          match ce.structs.findSome? (fun s => s.2.findIdx? (·.1 == fld)) with
          | some k => .ok (cs1, c ++ [ins .STRUCT_GET [k]])
          | none => .error (.bad "cannot resolve field")
  | .tupleIdx _ _ => .error (.unsupported "tuple")
  | .tuple _ => .error (.unsupported "tuple")
  | .arrayLit es =>
    match cArgs ce cs es with
    | .error e => .error e
    | .ok (cs1, c) =>
      let tag := match es with
        | a :: _ => tagOfTy (exprTy ce cs a)
        | [] => tag_int
      .ok (cs1, c ++ [ins .ARR_LITERAL [tag, es.length]])
  | .structLit n fnames vals =>
    if n.contains '.' then .error (.unsupported "union literal")
    else match ce.structFind n with
      | none => .error (.bad "undefined struct")
      | some (k, fs) =>
        match cFields ce cs (fs.map (·.1)) fnames vals with
        | .error e => .error e
        | .ok (cs1, c) => .ok (cs1, c ++ [ins .STRUCT_LITERAL [k, fs.length]])

termination_by (sizeOf e0, 0)

/-- operands / arguments / elements, left to right -/
def cArgs (ce : CE) (cs : CS) (l0 : List Expr) : CR :=
  match l0 with
  | [] => .ok (cs, [])
  | a :: r =>
    match cExpr ce cs a with
    | .error e => .error e
    | .ok (cs1, ca) =>
      match cArgs ce cs1 r with
      | .error e => .error e
      | .ok (cs2, cr) => .ok (cs2, ca ++ cr)
termination_by (sizeOf l0, 0)

/-- struct literal: one value per field of the *definition*, in definition order; the first written
    field with that name, or `PUSH_VOID` when the literal omits it -/
def cFields (ce : CE) (cs : CS) (defs : List String) (fnames : List String) (vals : List Expr) : CR :=
  match defs with
  | [] => .ok (cs, [])
  | d :: ds =>
    match cPick ce cs d fnames vals with
    | .error e => .error e
    | .ok (cs1, c1) =>
      match cFields ce cs1 ds fnames vals with
      | .error e => .error e
      | .ok (cs2, c2) => .ok (cs2, c1 ++ c2)
termination_by (sizeOf vals, defs.length + 1)

def cPick (ce : CE) (cs : CS) (d : String) : List String → List Expr → CR
  | f :: fs, v :: vs => if f == d then cExpr ce cs v else cPick ce cs d fs vs
  | _, _ => .ok (cs, [ins .PUSH_VOID])
termination_by _ vals => (sizeOf vals, 0)
end

def tyOfNamed (t : Ty) : Option Ty := some t

mutual
/-- `compile_stmt`; `depth` = `cg->loop_depth` -/
def cStmt (ce : CE) (cs : CS) (depth : Nat) (s0 : Stmt) : CR :=
  match s0 with
  | .letS x _ ty e =>
    match cExpr ce cs e with
    | .error er => .error er
    | .ok (cs1, c) =>
      match cs1.localAdd x (some ty) with
      | .error er => .error er
      | .ok (cs2, k) => .ok (cs2, c ++ [loadIdx .STORE_LOCAL k])
  | .setS x e =>
    match cs.localFind x with
    | some k =>
      match cExpr ce cs e with
      | .error er => .error er
      | .ok (cs1, c) => .ok (cs1, c ++ [loadIdx .STORE_LOCAL k])
    | none =>
      match ce.globalFind x with
      | some g =>
        match cExpr ce cs e with
        | .error er => .error er
        | .ok (cs1, c) => .ok (cs1, c ++ [loadIdx .STORE_GLOBAL g])
      | none => .error (.undefinedVar x)
  | .ifS c t els _ =>
    match cExpr ce cs c with
    | .error er => .error er
    | .ok (cs1, cc) =>
      match cBlock ce cs1 depth t with
      | .error er => .error er
      | .ok (cs2, ct) =>
        match els with
        | none => .ok (cs2, cc ++ [ins .JMP_FALSE [pat32 (5 + codeSize ct)]] ++ ct)
        | some eb =>
          match cBlock ce cs2 depth eb with
          | .error er => .error er
          | .ok (cs3, cel) =>
            .ok (cs3, cc ++ [ins .JMP_FALSE [pat32 (5 + codeSize ct + 5)]] ++ ct ++ [ins .JMP [pat32 (5 + codeSize cel)]] ++ cel)
  | .whileS c b =>
    if depth ≥ cgMaxLoopDepth then .error (.limit "loop nesting too deep")
    else match cExpr ce cs c with
      | .error er => .error er
      | .ok (cs1, cc) =>
        match cBlock ce cs1 (depth + 1) b with
        | .error er => .error er
        | .ok (cs2, cb) =>
          if countBrk cb > cgMaxBreaks then .error (.limit "too many breaks in loop")
          else
            let hs := codeSize cc + 5
            let total := hs + codeSize cb + 5
            .ok (cs2, cc ++ [ins .JMP_FALSE [pat32 (5 + codeSize cb + 5)]] ++ resolve total 0 hs cb
                      ++ [ins .JMP [pat32 (-((hs + codeSize cb : Nat) : Int))]])
  | .forS v rg b =>
    if depth ≥ cgMaxLoopDepth then .error (.limit "loop nesting too deep")
    else
      let mark := cs.locals.length
      match cExpr ce cs rg with
      | .error er => .error er
      | .ok (cs1, cr) =>
        match cs1.localAdd "__for_arr__" with
        | .error er => .error er
        | .ok (cs2, arrS) =>
          match cs2.localAdd "__for_idx__" with
          | .error er => .error er
          | .ok (cs3, idxS) =>
            match cs3.localAdd "__for_len__" with
            | .error er => .error er
            | .ok (cs4, lenS) =>
              let elemTy : Option Ty := match exprTy ce cs rg with | some (.arr t) => some t | _ => none
              match cs4.localAdd v elemTy with
              | .error er => .error er
              | .ok (cs5, varS) =>
                match cBlock ce cs5 (depth + 1) b with
                | .error er => .error er
                | .ok (cs6, cb) =>
                  if countBrk cb > cgMaxBreaks then .error (.limit "too many breaks in loop")
                  else if countCont cb > cgMaxBreaks then .error (.limit "too many continue statements in loop")
                  else
                    let pre := cr ++ [loadIdx .STORE_LOCAL arrS, ins .PUSH_I64 [0], loadIdx .STORE_LOCAL idxS,
                                      loadIdx .LOAD_LOCAL arrS, ins .ARR_LEN, loadIdx .STORE_LOCAL lenS]
                    let head := [loadIdx .LOAD_LOCAL idxS, loadIdx .LOAD_LOCAL lenS, ins .LT]
                    let elem := [loadIdx .LOAD_LOCAL arrS, loadIdx .LOAD_LOCAL idxS, ins .ARR_GET, loadIdx .STORE_LOCAL varS]
                    let inc := [loadIdx .LOAD_LOCAL idxS, ins .PUSH_I64 [1], ins .ADD, loadIdx .STORE_LOCAL idxS]
                    let bodyOff := codeSize head + 5 + codeSize elem
                    let incOff := bodyOff + codeSize cb
                    let jmpOff := incOff + codeSize inc
                    let total := jmpOff + 5
                    .ok (cs6.scopeEnd mark,
                         pre ++ head ++ [ins .JMP_FALSE [pat32 ((total : Int) - codeSize head)]] ++ elem
                           ++ resolve total incOff bodyOff cb ++ inc ++ [ins .JMP [pat32 (-(jmpOff : Int))]])
  | .ret none => .ok (cs, [ins .PUSH_VOID, ins .RET])
  | .ret (some e) =>
    match cExpr ce cs e with
    | .error er => .error er
    | .ok (cs1, c) => .ok (cs1, c ++ [ins .RET])
  | .breakS => if depth == 0 then .error (.bad "break outside loop") else .ok (cs, [.brk])
  | .continueS => if depth == 0 then .error (.bad "continue outside loop") else .ok (cs, [.cont])
  | .printS ln e =>
    match cExpr ce cs e with
    | .error er => .error er
    | .ok (cs1, c) => .ok (cs1, c ++ [ins (if ln then .PRINTLN else .PRINT)])
  | .assertS e =>
    match cExpr ce cs e with
    | .error er => .error er
    | .ok (cs1, c) => .ok (cs1, c ++ [ins .ASSERT])
  | .exprS e =>
    match cExpr ce cs e with
    | .error er => .error er
    | .ok (cs1, c) => .ok (cs1, c ++ [ins .POP])
  | .block ss => cBlock ce cs depth ss

/-- a block: statements in order, then the names it declared go out of scope -/
def cBlock (ce : CE) (cs : CS) (depth : Nat) (ss : List Stmt) : CR :=
  match cStmts ce cs depth ss with
  | .error er => .error er
  | .ok (cs1, c) => .ok (cs1.scopeEnd cs.locals.length, c)

def cStmts (ce : CE) (cs : CS) (depth : Nat) (ss : List Stmt) : CR :=
  match ss with
  | [] => .ok (cs, [])
  | s :: r =>
    match cStmt ce cs depth s with
    | .error er => .error er
    | .ok (cs1, c1) =>
      match cStmts ce cs1 depth r with
      | .error er => .error er
      | .ok (cs2, c2) => .ok (cs2, c1 ++ c2)
end

/-- bytes of a placeholder-free instruction list (`none` if an operand does not fit / unknown opcode) -/
def encodeAll : List PI → Option Bytes
  | [] => some []
  | .i x :: r =>
    match encode x, encodeAll r with
    | some b, some br => some (b ++ br)
    | _, _ => none
  | _ :: _ => none

/-- `compile_function` for one `fn` item: the bytes appended to the code section and the local count -/
def cFunction (ce : CE) (strings : List Bytes) (params : List Param) (body : List Stmt) :
    Except CgErr (List Bytes × Bytes × Nat) :=
  let cs0 : CS := { strings := strings, locals := params.map (fun p => { name := p.name, ty := some p.ty }) }
  if params.length > cgMaxLocals then .error (.limit "too many local variables")
  else match cStmts ce cs0 0 body with
    | .error er => .error er
    | .ok (cs1, code) =>
      match encodeAll code with
      | none => .error (.bad "instruction does not encode")
      | some bytes =>
        -- decided on the last statement of the body, not on the last emitted byte
        let needRet := match body.getLast? with
          | some (.ret _) => false
          | _ => true
        let tail : Bytes := if needRet then [UInt8.ofNat Opc.PUSH_VOID.toByte, UInt8.ofNat Opc.RET.toByte] else []
        .ok (cs1.strings, bytes ++ tail, cs1.locals.length)

structure ModState where
  strings : List Bytes := []
  functions : List FnEntry := []
  code : Bytes := []
deriving Repr, Inhabited

/-- pass 1: register functions (string pool + function table), structs, enums, globals -/
def pass1 : List Item → CE → ModState → Except CgErr (CE × ModState)
  | [], ce, ms => .ok (ce, ms)
  | it :: r, ce, ms =>
    match it with
    | .fn name ps rt _ =>
      let (ss, ni) := addString ms.strings (stringToBytes name)
      let idx := ms.functions.length
      let fe : FnEntry := { nameIdx := ni, arity := ps.length % 65536, codeOffset := 0, codeLength := 0, localCount := 0, upvalueCount := 0 }
      if ce.fns.length ≥ cgMaxFunctions then .error (.unsupported "more functions than the generator's table holds")
      else pass1 r { ce with fns := ce.fns ++ [(name, idx)], fnRet := ce.fnRet ++ [(name, rt)] }
                   { ms with strings := ss, functions := ms.functions ++ [fe] }
    | .shadow _ _ => pass1 r ce ms
    | .glet name _ ty _ =>
      if ce.globals.length ≥ cgMaxGlobals then .error (.unsupported "more globals than the generator's table holds")
      else pass1 r { ce with globals := ce.globals ++ [(name, some ty)] } ms
    | .structDef name fs => pass1 r { ce with structs := ce.structs ++ [(name, fs)] } ms
    | .enumDef name vs => pass1 r { ce with enums := ce.enums ++ [(name, vs)] } ms

def setFn (fs : List FnEntry) (idx : Nat) (off len locals : Nat) : List FnEntry :=
  fs.zipIdx.map (fun (f, k) => if k == idx then { f with codeOffset := off, codeLength := len, localCount := locals % 65536 } else f)

/-- pass 1.5: `__init__` evaluates the top-level lets in order -/
def cInit (ce : CE) (strings : List Bytes) : List Item → Except CgErr (List Bytes × List PI)
  | [] => .ok (strings, [ins .PUSH_VOID, ins .RET])
  | .glet name _ _ e :: r =>
    match cExpr ce { strings := strings } e with
    | .error er => .error er
    | .ok (cs1, c) =>
      if cs1.locals.length > 0 then .error (.unsupported "hidden locals in a global initialiser")
      else match ce.globalFind name with
        | none => .error (.bad "global not registered")
        | some g =>
          match cInit ce cs1.strings r with
          | .error er => .error er
          | .ok (ss, cr) => .ok (ss, c ++ [loadIdx .STORE_GLOBAL g] ++ cr)
  | _ :: r => cInit ce strings r

/-- pass 2: function bodies in source order -/
def pass2 (ce : CE) : List Item → ModState → Except CgErr ModState
  | [], ms => .ok ms
  | .fn name ps _ body :: r, ms =>
    match ce.fnFind name with
    | none => .error (.bad "function not registered")
    | some idx =>
      match cFunction ce ms.strings ps body with
      | .error er => .error er
      | .ok (ss, bytes, nloc) =>
        pass2 ce r { strings := ss, functions := setFn ms.functions idx ms.code.length bytes.length nloc,
                     code := ms.code ++ bytes }
  | _ :: r, ms => pass2 ce r ms

def hasDupFn (p : Program) : Bool :=
  let names := p.filterMap (fun it => match it with | .fn n _ _ _ => some n | _ => none)
  names.length != names.eraseDups.length

/-- `codegen_compile` for a single-file program without externs or imports -/
def compileProgram (p : Program) : Except CgErr Module :=
  if hasDupFn p then .error (.unsupported "two functions of the same name") else
  match pass1 p {} {} with
  | .error er => .error er
  | .ok (ce, ms) =>
    let r15 : Except CgErr ModState :=
      if ce.globals.length > 0 then
        let (ss, ni) := addString ms.strings (stringToBytes "__init__")
        let idx := ms.functions.length
        let fe : FnEntry := { nameIdx := ni, arity := 0, codeOffset := 0, codeLength := 0, localCount := 0, upvalueCount := 0 }
        match cInit ce ss p with
        | .error er => .error er
        | .ok (ss2, code) =>
          match encodeAll code with
          | none => .error (.bad "instruction does not encode")
          | some bytes =>
            .ok { strings := ss2, functions := setFn (ms.functions ++ [fe]) idx ms.code.length bytes.length 0,
                  code := ms.code ++ bytes }
      else .ok ms
    match r15 with
    | .error er => .error er
    | .ok ms1 =>
      match pass2 ce p ms1 with
      | .error er => .error er
      | .ok ms2 =>
        match ce.fnFind "main" with
        | some m =>
          .ok { flags := flagHasMain, entryPoint := m, strings := ms2.strings, functions := ms2.functions, code := ms2.code }
        | none =>
          let (ss, ni) := addString ms2.strings (stringToBytes "main")
          let bytes : Bytes := ((encodeAll [ins .PUSH_I64 [0], ins .RET]).getD [])
          let fe : FnEntry := { nameIdx := ni, arity := 0, codeOffset := ms2.code.length, codeLength := bytes.length, localCount := 0, upvalueCount := 0 }
          .ok { flags := flagHasMain, entryPoint := ms2.functions.length, strings := ss,
                functions := ms2.functions ++ [fe], code := ms2.code ++ bytes }

inductive FrontErr
  | lex (e : LexErr)
  | parse (e : PErr)
  | cg (e : CgErr)
deriving Repr

/-- source text → module, through the three models -/
def compileSource (src : Bytes) : Except FrontErr Module :=
  match lex src with
  | .error e => .error (.lex e)
  | .ok lo =>
    match parseProgram lo.toks with
    | .error e => .error (.parse e)
    | .ok p =>
      match compileProgram p with
      | .error e => .error (.cg e)
      | .ok m => .ok m

end NanoVerif
