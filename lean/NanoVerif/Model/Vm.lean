/-
L4b — the NanoVM: model of `vm_core_execute`, the trap harness `vm_call_function` and
`vm_execute` (src/nanovm/vm.c), with the reference-count effect of every handler.
Integers are exact 64-bit (`BitVec 64`), stack indices exact `uint32_t`.
Not modelled (the step answers `unsupported`): floating-point arithmetic and printing,
hashmaps, element-wise array arithmetic, external calls, linked modules.
-/
import NanoVerif.Model.Heap
import NanoVerif.Model.Isa
import NanoVerif.Model.Nvm
namespace NanoVerif
open Gen (Opc)

structure Frame where
  fnIdx : Nat
  returnIp : Nat
  stackBase : Nat
  localCount : Nat
  closure : Option Nat
deriving DecidableEq, Repr, Inhabited

/-- the part of the machine state that data instructions work on -/
structure Core where
  stack : List Val := []          -- bottom first
  ip : Nat := 0
  globals : List Val := []        -- `globals[0 .. global_count)`
  heap : Heap := {}
  out : Bytes := []
deriving Repr, Inhabited

/-- full VM state: data part plus the call stack and the current function -/
structure VmState extends Core where
  frames : List Frame := []       -- innermost first
  curFn : Nat := 0
deriving Repr, Inhabited

inductive Outcome
  | running
  | done                          -- VM_OK
  | err (code : Nat)              -- VmResult ≠ OK
  | unsupported (why : String)    -- outside the modelled fragment
  | oob (why : String)            -- the C code would index outside the frame array / function table / code section
  | dangling (why : String)       -- the C code would touch a freed heap object
deriving DecidableEq, Repr, Inhabited

/-- the run-time faults an instruction handler can raise (`trap_error` codes other than
    the decoder's) -/
inductive RtErr | typeError | outOfBounds | assertFailed | callDepth | undefinedFunction
deriving DecidableEq, Repr, Inhabited

def RtErr.code : RtErr → Nat
  | .typeError => Gen.vmErr_typeError
  | .outOfBounds => Gen.vmErr_outOfBounds
  | .assertFailed => Gen.vmErr_assertFailed
  | .callDepth => Gen.vmErr_callDepth
  | .undefinedFunction => Gen.vmErr_undefinedFunction

/-- outcome of a data instruction: by construction it can neither be a decoder error nor an
    out-of-bounds access to the VM's own tables -/
inductive DOutcome
  | running | done | err (e : RtErr) | unsupported (why : String) | dangling (why : String)
deriving DecidableEq, Repr, Inhabited

def DOutcome.toOutcome : DOutcome → Outcome
  | .running => .running
  | .done => .done
  | .err e => .err e.code
  | .unsupported w => .unsupported w
  | .dangling w => .dangling w

abbrev Step := VmState × Outcome
abbrev CStep := Core × DOutcome

/-! ### stack helpers (`stack_push`, `stack_pop`, `stack_peek`) -/

def Core.push (s : Core) (v : Val) : Core := { s with stack := s.stack ++ [v] }

def Core.pop (s : Core) : Core × Val :=
  match s.stack.getLast? with
  | none => (s, .void)
  | some v => ({ s with stack := s.stack.dropLast }, v)

def Core.peek (s : Core) (off : Nat) : Val :=
  if off ≥ s.stack.length then .void else s.stack.getD (s.stack.length - 1 - off) .void

/-- pop `n` values; the result is in stack order, padded with void at the front when the
    stack runs out (`elems[n-1-i] = stack_pop()` for i = 0 … n-1) -/
def Core.popN (s : Core) (n : Nat) : Core × List Val :=
  let k := min n s.stack.length
  ({ s with stack := s.stack.take (s.stack.length - k) },
   List.replicate (n - k) .void ++ s.stack.drop (s.stack.length - k))

def Core.release (s : Core) (v : Val) : Core := { s with heap := s.heap.release1 v }
def Core.retain (s : Core) (v : Val) : Core := { s with heap := s.heap.retain v }

/-! ### value operations (value.c) -/

def i64 (n : Nat) : I64 := BitVec.ofNat 64 n
def i64OfInt (n : Int) : I64 := BitVec.ofInt 64 n

def toI32 (n : Nat) : Int := if n ≥ 2147483648 then (n : Int) - 4294967296 else n

/-- `val_truthy` -/
def truthy : Val → Bool
  | .void => false
  | .int n => n != 0
  | .u8 n => n != 0
  | .float b => (b != 0) && (b != 0x8000000000000000#64)   -- ±0.0 are false; NaN is true
  | .bool b => b
  | .enum v => v != 0
  | .opaque id => id != 0
  | _ => true

def bytesCompare : Bytes → Bytes → Int
  | [], [] => 0
  | [], _ :: _ => -1
  | _ :: _, [] => 1
  | a :: as, b :: bs => if a < b then -1 else if a > b then 1 else bytesCompare as bs

/-- `val_equal` (`none`: a float comparison, not modelled) -/
def valEqual (h : Heap) (a b : Val) : Option Bool :=
  match a, b with
  | .enum x, .int y => some ((x : Int) == y.toInt)
  | .int x, .enum y => some (x.toInt == (y : Int))
  | .int _, .float _ | .float _, .int _ | .float _, .float _ => none
  | .void, .void => some true
  | .int x, .int y => some (x == y)
  | .u8 x, .u8 y => some (x == y)
  | .bool x, .bool y => some (x == y)
  | .enum x, .enum y => some (x == y)
  | .str x, .str y =>
    if x == y then some true
    else match h.strBytes? (.str x), h.strBytes? (.str y) with
      | some bx, some by_ => some (bx == by_)
      | _, _ => some false
  | .opaque x, .opaque y => some (x == y)
  | _, _ => if a.tag != b.tag then some false else some (a.addr? == b.addr?)

/-- `val_compare` -/
def valCompare (h : Heap) (a b : Val) : Option Int :=
  let cmpI (x y : Int) : Int := if x < y then -1 else if x > y then 1 else 0
  match a, b with
  | .enum x, .int y => some (cmpI x y.toInt)
  | .int x, .enum y => some (cmpI x.toInt y)
  | .int _, .float _ | .float _, .int _ | .float _, .float _ => none
  | .int x, .int y => some (cmpI x.toInt y.toInt)
  | .bool x, .bool y => some ((if x then 1 else 0) - (if y then 1 else 0))
  | .str x, .str y =>
    if x == y then some 0
    else match h.strBytes? (.str x), h.strBytes? (.str y) with
      | some bx, some by_ => some (bytesCompare bx by_)
      | _, _ => some 0
  | _, _ => if a.tag != b.tag then some ((a.tag : Int) - (b.tag : Int)) else some 0

def natToDec (n : Nat) : Bytes := (toString n).toUTF8.toList
def intToDec (n : Int) : Bytes := (toString n).toUTF8.toList
def strLit (s : String) : Bytes := s.toUTF8.toList

/-- bytes up to the first NUL (`strlen`, `%s`) -/
def cstr (b : Bytes) : Bytes := b.takeWhile (· != 0)

/-- string elements of an array print in double quotes -/
def quoteIfStr (v : Val) (b : Bytes) : Bytes :=
  match v with
  | .str _ => strLit "\"" ++ b ++ strLit "\""
  | _ => b

/-- `val_print`: `path` is the chain of containers currently being printed (innermost first);
    a container already on the chain, or nesting ≥ 64, prints as "...".
    `none` = not modelled (floats, closures, hashmaps). -/
def fmtVal (h : Heap) : Nat → List Nat → Val → Option Bytes
  | 0, _, _ => some (strLit "...")
  | fuel+1, path, v =>
    let join (bs : List Bytes) : Bytes := (bs.intersperse (strLit ", ")).flatten
    let container (a : Nat) (k : Obj → Option (List Val × (List Bytes → Bytes))) : Option Bytes :=
      if path.length ≥ 64 || path.contains a then some (strLit "...")
      else match (h.obj? a).bind k with
        | some (kids, render) => (kids.mapM (fmtVal h fuel (a :: path))).map render
        | none => none
    match v with
    | .void => some (strLit "void")
    | .int n => some (intToDec n.toInt)
    | .u8 n => some (natToDec n)
    | .float _ => none
    | .bool b => some (strLit (if b then "true" else "false"))
    | .enum x => some (natToDec x)
    | .opaque id => some (strLit "opaque(" ++ natToDec id ++ strLit ")")
    | .clos _ | .hmap _ => none
    | .str a => match h.obj? a with
      | some (.str b) => some (cstr b)
      | _ => none
    | .arr a => container a fun
      | .arr _ es => some (es, fun bs => strLit "[" ++ join (List.zipWith quoteIfStr es bs) ++ strLit "]")
      | _ => none
    | .struct a => container a fun
      | .struct _ fs => some (fs, fun bs => strLit "{" ++ join bs ++ strLit "}")
      | _ => none
    | .union a => container a fun
      | .union _ var fs => some (fs, fun bs => strLit "variant(" ++ natToDec var ++ (bs.map (strLit ", " ++ ·)).flatten ++ strLit ")")
      | _ => none
    | .tuple a => container a fun
      | .tuple es => some (es, fun bs => strLit "(" ++ join bs ++ strLit ")")
      | _ => none

/-- `strtoll(s, NULL, 10)` -/
def strtoll (b : Bytes) : I64 :=
  let isSpace (c : UInt8) : Bool := c == 32 || (9 ≤ c && c ≤ 13)
  let b := (cstr b).dropWhile isSpace
  let (neg, b) := match b with
    | 45 :: r => (true, r)
    | 43 :: r => (false, r)
    | r => (false, r)
  let digits := b.takeWhile (fun c => 48 ≤ c && c ≤ 57)
  let mag : Nat := digits.foldl (fun acc c => acc * 10 + (c.toNat - 48)) 0
  if neg then (if mag ≥ 9223372036854775808 then i64OfInt (-9223372036854775808) else i64OfInt (-(mag : Int)))
  else (if mag ≥ 9223372036854775807 then i64OfInt 9223372036854775807 else i64OfInt mag)

/-- does `needle` occur in `hay` (`strstr` on NUL-free data) -/
def isInfix (needle hay : Bytes) : Bool :=
  needle.isEmpty || (List.range (hay.length - needle.length + 1)).any fun i => (hay.drop i).take needle.length == needle

/-! ### the processor: one instruction -/

def errS (s : Core) (e : RtErr) : CStep := (s, .err e)
def unsup (s : Core) (why : String) : CStep := (s, .unsupported why)
def cont (s : Core) : CStep := (s, .running)
def dang (s : Core) (why : String) : CStep := ({ s with heap := s.heap.markDangling }, .dangling why)

def isFloat : Val → Bool | .float _ => true | _ => false
def isArr : Val → Bool | .arr _ => true | _ => false

/-- `(uint32_t)` of an int64 stack value (`tag == TAG_INT ? i64 : 0`) -/
def asI64 : Val → I64 | .int n => n | _ => 0
/-- an array index: an int, or an enum value (its number) -/
def asIdx : Val → I64 | .int n => n | .enum v => i64 v | _ => 0
def coerceEnum : Val → Val | .enum v => .int (i64 v) | v => v

/-- set up a call frame (`OP_CALL`, `OP_CALL_INDIRECT`, `OP_CLOSURE_CALL`) -/
def enterFn (m : Module) (s : VmState) (callee : Nat) (closure : Option Nat) : Step :=
  match m.functions[callee]? with
  | none => (s, .err RtErr.undefinedFunction.code)
  | some fn =>
    if s.frames.length ≥ Gen.vmMaxFrames then (s, .err RtErr.callDepth.code)
    else
      let newBase := u32 (s.stack.length + 4294967296 - fn.arity)
      ({ s with
          stack := s.stack ++ List.replicate (fn.localCount - fn.arity) Val.void
          ip := fn.codeOffset
          frames := { fnIdx := callee, returnIp := s.ip, stackBase := newBase,
                      localCount := fn.localCount, closure := closure } :: s.frames
          curFn := callee }, .running)

/-- pop and release everything above `base` (`while (stack_size > stack_base)`) -/
def unwindTo (s : Core) (base : Nat) : Core :=
  if s.stack.length > base then
    { s with stack := s.stack.take base, heap := s.heap.release (s.stack.drop base).reverse }
  else s

/-- `OP_RET` (and the implicit return at the end of a function, which differs in where it
    takes the return address from and in that it always leaves the core) -/
def doRet (s : VmState) (implicit : Bool) : Step :=
  match s.frames with
  | [] => if implicit then (s, .done) else (s, .oob "RET with no frame")
  | fr :: rest =>
    let (c, result) :=
      if s.stack.length > u32 (fr.stackBase + fr.localCount) then s.toCore.pop else (s.toCore, Val.void)
    let c := unwindTo c fr.stackBase
    -- the frame owned the function value popped by CALL_INDIRECT / CLOSURE_CALL
    let c := match fr.closure with
      | some a => c.release (.clos a)
      | none => c
    match rest with
    | [] => ({ s with toCore := c.push result, frames := [] }, .done)
    | caller :: _ =>
      let c := { c with ip := if implicit then caller.returnIp else fr.returnIp }
      ({ s with toCore := c.push result, frames := rest, curFn := caller.fnIdx },
        if implicit then .done else .running)

def binArith (s : Core) (op : Opc) : CStep :=
  let (s, b) := s.pop
  let (s, a) := s.pop
  let (a, b) := (coerceEnum a, coerceEnum b)
  match a, b with
  | .int x, .int y =>
    let r : I64 := match op with
      | .ADD => x + y
      | .SUB => x - y
      | .MUL => x * y
      | .DIV => if y == 0 then 0 else x.sdiv y
      | _ => if y == 0 then 0 else x.srem y
    cont (s.push (.int r))
  | _, _ =>
    if op == .MOD then errS s .typeError
    else if isFloat a || isFloat b then
      (if (isFloat a || a.tag == Gen.tag_int) && (isFloat b || b.tag == Gen.tag_int) then unsup s "float arithmetic"
       else if isArr a || isArr b then unsup s "array arithmetic" else
         (if op == .ADD then errS ((s.release a).release b) .typeError else errS s .typeError))
    else if isArr a || isArr b then
      let scalar (v : Val) : Bool := v.tag == Gen.tag_int || (op == .ADD && v.tag == Gen.tag_string)
      (if (isArr a && (isArr b || scalar b)) || (isArr b && scalar a) then unsup s "array arithmetic"
       else if op == .ADD then errS ((s.release a).release b) .typeError else errS s .typeError)
    else match op, a, b with
      | .ADD, .str _, .str _ =>
        match s.heap.strBytes? a, s.heap.strBytes? b with
        | some ba, some bb =>
          let (h, r) := s.heap.strNew (ba ++ bb)
          let s := { s with heap := h }
          cont (((s.release a).release b).push r)
        | _, _ => dang s "dangling string"
      | .ADD, _, _ => errS ((s.release a).release b) .typeError
      | _, _, _ => errS s .typeError

def binCompare (s : Core) (f : Heap → Val → Val → Option Bool) : CStep :=
  let (s, b) := s.pop
  let (s, a) := s.pop
  match f s.heap a b with
  | none => unsup s "float comparison"
  | some r => cont (((s.push (.bool r)).release a).release b)

/-- index checks shared by ARR_GET / ARR_SET / ARR_REMOVE: the int64 index must lie in [0, len) -/
def idxInRange (idx : I64) (len : Nat) : Bool := 0 ≤ idx.toInt && idx.toInt < (len : Int)

/-- every instruction that neither pushes nor pops a call frame (`execData` is `none` for CALL,
    CALL_INDIRECT, CLOSURE_CALL and RET).  It sees the current frame read-only. -/
def execData' (m : Module) (fr : Frame) (s : Core) (instrStart : Nat) (op : Opc) (args : List Nat) : CStep :=
  let arg (k : Nat) : Nat := args.getD k 0
  match op with
  | .NOP | .DEBUG_LINE | .GC_SCOPE_ENTER | .GC_SCOPE_EXIT => cont s
  | .PUSH_I64 => cont (s.push (.int (i64 (arg 0))))
  | .PUSH_F64 => cont (s.push (.float (i64 (arg 0))))
  | .PUSH_BOOL => cont (s.push (.bool (arg 0 != 0)))
  | .PUSH_STR =>
    let b := cstr ((m.strings[arg 0]?).getD [])
    let (h, v) := s.heap.strNew b
    cont ({ s with heap := h }.push v)
  | .PUSH_VOID => cont (s.push .void)
  | .PUSH_U8 => cont (s.push (.u8 (arg 0)))
  | .DUP => let top := s.peek 0; cont ((s.retain top).push top)
  | .POP | .GC_RELEASE => let (s, v) := s.pop; cont (s.release v)
  | .SWAP =>
    if s.stack.length < 2 then cont s
    else
      let n := s.stack.length
      let a := s.stack.getD (n - 1) .void
      let b := s.stack.getD (n - 2) .void
      cont { s with stack := (s.stack.set (n - 1) b).set (n - 2) a }
  | .ROT3 =>
    if s.stack.length < 3 then cont s
    else
      let n := s.stack.length
      let a := s.stack.getD (n - 1) .void
      let b := s.stack.getD (n - 2) .void
      let c := s.stack.getD (n - 3) .void
      cont { s with stack := ((s.stack.set (n - 1) b).set (n - 2) c).set (n - 3) a }
  | .LOAD_LOCAL =>
    let abs := u32 (fr.stackBase + arg 0)
    if abs ≥ s.stack.length then errS s .outOfBounds
    else let v := s.stack.getD abs .void; cont ((s.retain v).push v)
  | .STORE_LOCAL =>
    let abs := u32 (fr.stackBase + arg 0)
    if abs ≥ s.stack.length then errS s .outOfBounds
    else
      let (s, v) := s.pop
      -- after the pop the slot may be the popped one itself (abs = old size − 1)
      let old := s.stack.getD abs v
      let s := s.release old
      if abs < s.stack.length then cont { s with stack := s.stack.set abs v }
      else cont s   -- the slot just popped: the stale copy was released, nothing is stored
  | .LOAD_GLOBAL =>
    if arg 0 ≥ Gen.vmMaxGlobals then errS s .outOfBounds
    else let v := s.globals.getD (arg 0) .void; cont ((s.retain v).push v)
  | .STORE_GLOBAL =>
    if arg 0 ≥ Gen.vmMaxGlobals then errS s .outOfBounds
    else
      let (s, v) := s.pop
      let old := s.globals.getD (arg 0) .void
      let s := s.release old
      let g := if arg 0 < s.globals.length then s.globals else s.globals ++ List.replicate (arg 0 + 1 - s.globals.length) .void
      cont { s with globals := g.set (arg 0) v }
  | .LOAD_UPVALUE =>
    match fr.closure.bind s.heap.obj? with
    | some (.clos _ caps) =>
      if arg 1 < caps.length then let v := caps.getD (arg 1) .void; cont ((s.retain v).push v)
      else cont (s.push .void)
    | _ => cont (s.push .void)
  | .STORE_UPVALUE =>
    let (s, v) := s.pop
    match fr.closure, fr.closure.bind s.heap.obj? with
    | some ca, some (.clos fn caps) =>
      if arg 1 < caps.length then
        let s := s.release (caps.getD (arg 1) .void)
        -- re-read: the release cannot free the frame's closure while the frame holds it
        match s.heap.obj? ca with
        | some (.clos fn' caps') => cont { s with heap := s.heap.setObj ca (.clos fn' (caps'.set (arg 1) v)) }
        | _ => dang s "closure freed during STORE_UPVALUE"
      else
        let _ := fn
        cont (s.release v)
    | _, _ => cont (s.release v)
  | .ADD | .SUB | .MUL | .DIV | .MOD => binArith s op
  | .NEG =>
    let (s, a) := s.pop
    match a with
    | .int x => cont (s.push (.int (-x)))
    | .float _ => unsup s "float arithmetic"
    | _ => errS s .typeError
  | .EQ => binCompare s valEqual
  | .NE => binCompare s (fun h a b => (valEqual h a b).map (!·))
  | .LT => binCompare s (fun h a b => (valCompare h a b).map (· < 0))
  | .LE => binCompare s (fun h a b => (valCompare h a b).map (· ≤ 0))
  | .GT => binCompare s (fun h a b => (valCompare h a b).map (· > 0))
  | .GE => binCompare s (fun h a b => (valCompare h a b).map (· ≥ 0))
  | .AND => binCompare s (fun _ a b => some (truthy a && truthy b))
  | .OR => binCompare s (fun _ a b => some (truthy a || truthy b))
  | .NOT => let (s, a) := s.pop; cont ((s.push (.bool (!truthy a))).release a)
  | .JMP => cont { s with ip := u32 (((instrStart : Int) + toI32 (arg 0)) % 4294967296).toNat }
  | .JMP_TRUE =>
    let (s, c) := s.pop
    let s := if truthy c then { s with ip := u32 (((instrStart : Int) + toI32 (arg 0)) % 4294967296).toNat } else s
    cont (s.release c)
  | .JMP_FALSE =>
    let (s, c) := s.pop
    let s := if !truthy c then { s with ip := u32 (((instrStart : Int) + toI32 (arg 0)) % 4294967296).toNat } else s
    cont (s.release c)
  | .CALL_EXTERN =>
    if arg 0 ≥ m.imports.length then errS s .outOfBounds else unsup s "extern call"
  | .CALL_MODULE => errS s .outOfBounds       -- no linked modules in nano_vm / nano_virt
  | .STR_LEN =>
    let (s, v) := s.pop
    match s.heap.strBytes? v with
    | some b => cont ((s.release v).push (.int (i64 b.length)))
    | none => errS (s.release v) .typeError
  | .STR_CONCAT =>
    let (s, b) := s.pop
    let (s, a) := s.pop
    match s.heap.strBytes? a, s.heap.strBytes? b with
    | some ba, some bb =>
      let (h, r) := s.heap.strNew (ba ++ bb)
      cont ((({ s with heap := h }.release a).release b).push r)
    | _, _ => errS ((s.release a).release b) .typeError
  | .STR_SUBSTR =>
    let (s, lenV) := s.pop
    let (s, startV) := s.pop
    let (s, v) := s.pop
    match s.heap.strBytes? v with
    | none => errS (s.release v) .typeError
    | some b =>
      let start := (asI64 startV).toNat % 4294967296
      let len := (asI64 lenV).toNat % 4294967296
      let r : Bytes := if start ≥ b.length then [] else (b.drop start).take (min len (b.length - start))
      let (h, rv) := s.heap.strNew r
      cont (({ s with heap := h }.release v).push rv)
  | .STR_CONTAINS =>
    let (s, n) := s.pop
    let (s, hay) := s.pop
    match s.heap.strBytes? hay, s.heap.strBytes? n with
    | some bh, some bn =>
      let r := if bn.length == 0 then true else if bn.length > bh.length then false else isInfix (cstr bn) (cstr bh)
      cont (((s.release hay).release n).push (.bool r))
    | _, _ => errS ((s.release hay).release n) .typeError
  | .STR_EQ =>
    let (s, b) := s.pop
    let (s, a) := s.pop
    match s.heap.strBytes? a, s.heap.strBytes? b with
    | some ba, some bb => cont (((s.release a).release b).push (.bool (ba == bb)))
    | _, _ => errS ((s.release a).release b) .typeError
  | .STR_CHAR_AT =>
    let (s, iv) := s.pop
    let (s, v) := s.pop
    match s.heap.strBytes? v with
    | none => errS (s.release v) .typeError
    | some b =>
      let idx := (asI64 iv).toInt
      let cs := cstr b
      let ch : Int := if 0 ≤ idx && idx < cs.length then ((cs.getD idx.toNat 0).toNat : Int) else -1
      cont ((s.release v).push (.int (i64OfInt ch)))
  | .STR_FROM_INT =>
    let (s, v) := s.pop
    let (h, r) := s.heap.strNew (intToDec (asI64 v).toInt)
    cont ({ s with heap := h }.push r)
  | .STR_FROM_FLOAT => unsup s "float formatting"
  | .ARR_NEW => let (h, a) := s.heap.alloc (.arr (arg 0) []); cont ({ s with heap := h }.push (.arr a))
  | .ARR_PUSH =>
    let (s, v) := s.pop
    let (s, av) := s.pop
    match av with
    | .arr a => match s.heap.obj? a with
      | some (.arr et es) =>
        let s := { s with heap := (s.heap.setObj a (.arr et (es ++ [v]))).retain v }
        cont ((s.release v).push av)
      | _ => dang s "dangling array"
    | _ => errS ((s.release av).release v) .typeError
  | .ARR_POP =>
    let (s, av) := s.pop
    match av with
    | .arr a => match s.heap.obj? a with
      | some (.arr et es) =>
        match es.getLast? with
        | none => errS (s.release av) .outOfBounds
        | some v => cont (({ s with heap := s.heap.setObj a (.arr et es.dropLast) }.push v).push av)
      | _ => dang s "dangling array"
    | _ => errS (s.release av) .typeError
  | .ARR_GET =>
    let (s, iv) := s.pop
    let (s, av) := s.pop
    match av with
    | .arr a => match s.heap.obj? a with
      | some (.arr _ es) =>
        if idxInRange (asIdx iv) es.length then
          let v := es.getD (asIdx iv).toNat .void
          cont (((s.retain v).release av).push v)
        else errS (s.release av) .outOfBounds
      | _ => dang s "dangling array"
    | _ => errS (s.release av) .typeError
  | .ARR_SET =>
    let (s, v) := s.pop
    let (s, iv) := s.pop
    let (s, av) := s.pop
    match av with
    | .arr a => match s.heap.obj? a with
      | some (.arr _ es) =>
        if idxInRange (asIdx iv) es.length then
          let i := (asIdx iv).toNat
          let s := s.release (es.getD i .void)
          match s.heap.obj? a with
          | some (.arr et' es') => cont ({ s with heap := s.heap.setObj a (.arr et' (es'.set i v)) }.push av)
          | _ => dang s "array freed during ARR_SET"
        else errS ((s.release av).release v) .outOfBounds
      | _ => dang s "dangling array"
    | _ => errS ((s.release av).release v) .typeError
  | .ARR_LEN =>
    let (s, av) := s.pop
    match av with
    | .arr a => match s.heap.obj? a with
      | some (.arr _ es) => cont ((s.release av).push (.int (i64 es.length)))
      | _ => dang s "dangling array"
    | _ => errS (s.release av) .typeError
  | .ARR_SLICE =>
    let (s, ev) := s.pop
    let (s, sv) := s.pop
    let (s, av) := s.pop
    match av with
    | .arr a => match s.heap.obj? a with
      | some (.arr et es) =>
        let start := min ((asI64 sv).toNat % 4294967296) es.length
        let stop := min (match ev with | .int n => n.toNat % 4294967296 | _ => es.length) es.length
        let part := if stop ≤ start then [] else (es.drop start).take (stop - start)
        let (h, r) := s.heap.alloc (.arr et part)
        let h := part.foldl Heap.retain h
        cont (({ s with heap := h }.release av).push (.arr r))
      | _ => dang s "dangling array"
    | _ => errS (s.release av) .typeError
  | .ARR_REMOVE =>
    let (s, iv) := s.pop
    let (s, av) := s.pop
    match av with
    | .arr a => match s.heap.obj? a with
      | some (.arr _ es) =>
        if idxInRange (asIdx iv) es.length then
          let i := (asIdx iv).toNat
          let s := s.release (es.getD i .void)
          match s.heap.obj? a with
          | some (.arr et' es') => cont ({ s with heap := s.heap.setObj a (.arr et' (es'.eraseIdx i)) }.push av)
          | _ => dang s "array freed during ARR_REMOVE"
        else errS (s.release av) .outOfBounds
      | _ => dang s "dangling array"
    | _ => errS (s.release av) .typeError
  | .ARR_LITERAL =>
    let (s, es) := s.popN (arg 1)
    let (h, a) := s.heap.alloc (.arr (arg 0) es)
    cont ({ s with heap := h }.push (.arr a))
  | .STRUCT_NEW => let (h, a) := s.heap.alloc (.struct (arg 0) []); cont ({ s with heap := h }.push (.struct a))
  | .STRUCT_GET =>
    let (s, sv) := s.pop
    match sv with
    | .struct a => match s.heap.obj? a with
      | some (.struct _ fs) =>
        if arg 0 ≥ fs.length then errS (s.release sv) .outOfBounds
        else let v := fs.getD (arg 0) .void; cont (((s.retain v).release sv).push v)
      | _ => dang s "dangling struct"
    | _ => errS (s.release sv) .typeError
  | .STRUCT_SET =>
    let (s, v) := s.pop
    let (s, sv) := s.pop
    match sv with
    | .struct a => match s.heap.obj? a with
      | some (.struct _ fs) =>
        if arg 0 ≥ fs.length then errS ((s.release sv).release v) .outOfBounds
        else
          let s := s.release (fs.getD (arg 0) .void)
          match s.heap.obj? a with
          | some (.struct d' fs') => cont ({ s with heap := s.heap.setObj a (.struct d' (fs'.set (arg 0) v)) }.push sv)
          | _ => dang s "struct freed during STRUCT_SET"
      | _ => dang s "dangling struct"
    | _ => errS ((s.release sv).release v) .typeError
  | .STRUCT_LITERAL =>
    let (s, fs) := s.popN (arg 1)
    let (h, a) := s.heap.alloc (.struct (arg 0) fs)
    cont ({ s with heap := h }.push (.struct a))
  | .UNION_CONSTRUCT =>
    let (s, fs) := s.popN (arg 2)
    let (h, a) := s.heap.alloc (.union (arg 0) (arg 1) fs)
    cont ({ s with heap := h }.push (.union a))
  | .UNION_TAG =>
    let (s, uv) := s.pop
    match uv with
    | .union a => match s.heap.obj? a with
      | some (.union _ var _) => cont ((s.release uv).push (.int (i64 var)))
      | _ => dang s "dangling union"
    | _ => errS (s.release uv) .typeError
  | .UNION_FIELD =>
    let (s, uv) := s.pop
    match uv with
    | .union a => match s.heap.obj? a with
      | some (.union _ _ fs) =>
        if arg 0 ≥ fs.length then errS (s.release uv) .outOfBounds
        else let v := fs.getD (arg 0) .void; cont (((s.retain v).release uv).push v)
      | _ => dang s "dangling union"
    | _ => errS (s.release uv) .typeError
  | .MATCH_TAG =>
    match s.peek 0 with
    | .union a => match s.heap.obj? a with
      | some (.union _ var _) =>
        if var == arg 0 then cont { s with ip := u32 (((instrStart : Int) + toI32 (arg 1)) % 4294967296).toNat }
        else cont s
      | _ => dang s "dangling union"
    | _ => cont s
  | .ENUM_VAL => cont (s.push (.enum (arg 1)))
  | .TUPLE_NEW =>
    let (s, es) := s.popN (arg 0)
    let (h, a) := s.heap.alloc (.tuple es)
    cont ({ s with heap := h }.push (.tuple a))
  | .TUPLE_GET =>
    let (s, tv) := s.pop
    match tv with
    | .tuple a => match s.heap.obj? a with
      | some (.tuple es) =>
        if arg 0 ≥ es.length then errS (s.release tv) .outOfBounds
        else let v := es.getD (arg 0) .void; cont (((s.retain v).release tv).push v)
      | _ => dang s "dangling tuple"
    | _ => errS (s.release tv) .typeError
  | .HM_NEW | .HM_GET | .HM_SET | .HM_HAS | .HM_DELETE | .HM_KEYS | .HM_VALUES | .HM_LEN => unsup s "hashmap"
  | .GC_RETAIN => cont (s.retain (s.peek 0))
  | .CAST_INT =>
    let (s, v) := s.pop
    match v with
    | .int _ => cont (s.push v)
    | .float _ => unsup s "float cast"
    | .bool b => cont (s.push (.int (if b then 1 else 0)))
    | .u8 n => cont (s.push (.int (i64 n)))
    | .enum x => cont (s.push (.int (i64 x)))
    | .str _ => match s.heap.strBytes? v with
      | some b => cont ((s.release v).push (.int (strtoll b)))
      | none => dang s "dangling string"
    | _ => cont ((s.release v).push (.int 0))
  | .CAST_FLOAT => unsup s "float cast"
  | .CAST_BOOL => let (s, v) := s.pop; cont ((s.release v).push (.bool (truthy v)))
  | .CAST_STRING =>
    let (s, v) := s.pop
    match v with
    | .str _ => cont (s.push v)
    | .int n => let (h, r) := s.heap.strNew (intToDec n.toInt); cont ({ s with heap := h }.push r)
    | .float _ => unsup s "float formatting"
    | .bool b => let (h, r) := s.heap.strNew (strLit (if b then "true" else "false")); cont ({ s with heap := h }.push r)
    | _ =>
      let s := s.release v
      let (h, r) := s.heap.strNew []
      cont ({ s with heap := h }.push r)
  | .TYPE_CHECK => let (s, v) := s.pop; cont ((s.push (.bool (v.tag == arg 0))).release v)
  | .CLOSURE_NEW =>
    let n := arg 1
    let (s, caps) := if n ≥ 32769 then (s, List.replicate n Val.void) else s.popN n   -- the loop index is (int16_t)(n - 1)
    let (h, a) := s.heap.alloc (.clos (arg 0) caps)
    cont ({ s with heap := h }.push (.clos a))
  | .PRINT | .PRINTLN =>
    let (s, v) := s.pop
    match fmtVal s.heap 66 [] v with
    | none => unsup s "printing a float, closure or hashmap"
    | some b =>
      let b := if op == .PRINTLN then b ++ [10] else b
      cont ({ s with out := s.out ++ b }.release v)
  | .ASSERT =>
    let (s, v) := s.pop
    if truthy v then cont (s.release v) else errS (s.release v) .assertFailed
  | .HALT => (s, .done)
  | .CALL | .CALL_INDIRECT | .CLOSURE_CALL | .RET => (s, .unsupported "unreachable")
  | .OPAQUE_NULL => cont (s.push (.opaque 0))
  | .OPAQUE_VALID => let (s, v) := s.pop; cont (s.push (.bool (match v with | .opaque id => id != 0 | _ => false)))

def Opc.isControl : Opc → Bool
  | .CALL | .CALL_INDIRECT | .CLOSURE_CALL | .RET => true
  | _ => false

def execData (m : Module) (fr : Frame) (s : Core) (instrStart : Nat) (op : Opc) (args : List Nat) : Option CStep :=
  if Opc.isControl op then none else some (execData' m fr s instrStart op args)

def execInstr (m : Module) (s : VmState) (instrStart : Nat) (op : Opc) (args : List Nat) : Step :=
  match execData m (s.frames.headD default) s.toCore instrStart op args with
  | some (c, o) => ({ s with toCore := c }, o.toOutcome)
  | none =>
    match op with
    | .CALL => enterFn m s (args.getD 0 0) none
    | .RET => doRet s false
    | _ =>   -- CALL_INDIRECT / CLOSURE_CALL: pop a function value
      let (c, f) := s.toCore.pop
      let s' : VmState := { s with toCore := c }
      match f with
      | .clos a => match c.heap.obj? a with
        | some (.clos fn _) => enterFn m s' fn (some a)
        | _ => ({ s' with heap := c.heap.markDangling }, .dangling "dangling closure")
      | _ => if op == .CLOSURE_CALL then ({ s' with toCore := c.release f }, .err RtErr.typeError.code)
             else (s', .err RtErr.typeError.code)

/-- one iteration of the dispatch loop of `vm_core_execute` (plus the trap handling of the
    harness for PRINT / ASSERT), or the implicit return when `ip` has left the function -/
def step (m : Module) (s : VmState) : Step :=
  match m.functions[s.curFn]? with
  | none => (s, .oob "current_fn outside the function table")
  | some fn =>
    let codeEnd := u32 (fn.codeOffset + fn.codeLength)
    if s.frames.isEmpty then (s, .oob "no frame")
    else if s.ip < codeEnd then
      if codeEnd > m.code.length then (s, .oob "code_end beyond the code section")
      else
        match decode ((m.code.drop s.ip).take (codeEnd - s.ip)) with
        | none => (s, .err Gen.vmErr_decode)
        | some (i, n) =>
          match Opc.ofByte i.opcode with
          | none => ({ s with ip := s.ip + n }, .err Gen.vmErr_invalidOpcode)
          | some op => execInstr m { s with ip := s.ip + n } s.ip op i.operands
    else doRet s true

/-- `vm_call_function(vm, fn, NULL, 0)` frame set-up -/
def callFunction (m : Module) (s : VmState) (fnIdx : Nat) : Step :=
  match m.functions[fnIdx]? with
  | none => (s, .err Gen.vmErr_undefinedFunction)
  | some fn =>
    if s.frames.length ≥ Gen.vmMaxFrames then (s, .err Gen.vmErr_callDepth)
    else
      let base := s.stack.length
      ({ s with
        stack := s.stack ++ List.replicate fn.localCount Val.void
        frames := { fnIdx := fnIdx, returnIp := s.ip, stackBase := base, localCount := fn.localCount, closure := none } :: s.frames
        curFn := fnIdx, ip := fn.codeOffset }, .running)

/-- run until the core leaves `running`; `fuel` counts dispatched instructions (hook H1) -/
def runLoop (m : Module) : Nat → VmState → Step
  | 0, s => (s, .unsupported "fuel")
  | fuel+1, s =>
    match step m s with
    | (s', .running) => runLoop m fuel s'
    | r => r

def fuelLeft (m : Module) : Nat → VmState → Nat
  | 0, _ => 0
  | fuel+1, s =>
    match step m s with
    | (s', .running) => fuelLeft m fuel s'
    | _ => fuel

def initFn (m : Module) : Option Nat :=
  m.functions.findIdx? fun f => (m.strings[f.nameIdx]?).map cstr == some (strLit "__init__")

/-- `vm_execute`: `__init__` (if any) and then the entry point -/
def execute (m : Module) (fuel : Nat) : Step :=
  let s0 : VmState := {}
  if m.flags % 2 == 0 then (s0, .err Gen.vmErr_undefinedFunction)
  else if m.entryPoint ≥ m.functions.length then (s0, .err Gen.vmErr_undefinedFunction)
  else
    let runFn (s : VmState) (f : Nat) (fuel : Nat) : Step × Nat :=
      match callFunction m s f with
      | (s', .running) => (runLoop m fuel s', fuelLeft m fuel s')
      | r => (r, fuel)
    match initFn m with
    | some i =>
      match runFn s0 i fuel with
      | ((s1, .done), fuel') => (runFn s1 m.entryPoint fuel').1
      | (r, _) => r
    | none => (runFn s0 m.entryPoint fuel).1

end NanoVerif
