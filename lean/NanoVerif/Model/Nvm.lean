/-
L2b — the .nvm container: model of `nvm_add_string`, `nvm_serialize`, `nvm_deserialize`
(src/nanoisa/nvm_format.c).  Layout constants come from the generated file; every read of
the input buffer is a *checked* read (`.oob` = the C code would touch memory outside the
buffer), and the comparisons are the C code's `uint32_t` comparisons.
-/
import NanoVerif.Model.Crc
namespace NanoVerif

structure FnEntry where
  nameIdx : Nat
  arity : Nat
  codeOffset : Nat
  codeLength : Nat
  localCount : Nat
  upvalueCount : Nat
deriving DecidableEq, Repr, Inhabited

structure DebugEntry where
  bytecodeOffset : Nat
  sourceLine : Nat
deriving DecidableEq, Repr, Inhabited

/-- `paramTypes = none` is the NULL `import_param_types[i]` (param_count = 0, or no table given) -/
structure ImportEntry where
  moduleNameIdx : Nat
  functionNameIdx : Nat
  paramCount : Nat
  returnType : Nat
  paramTypes : Option Bytes
deriving DecidableEq, Repr, Inhabited

/-- the fields of `NvmModule` the property lists (code, string pool, function table, imports,
    debug entries, entry point, flags) -/
structure Module where
  flags : Nat := 0
  entryPoint : Nat := 0
  strings : List Bytes := []
  functions : List FnEntry := []
  code : Bytes := []
  debug : List DebugEntry := []
  imports : List ImportEntry := []
deriving DecidableEq, Repr, Inhabited

def u32 (n : Nat) : Nat := n % 4294967296

/-- `nvm_add_string`: index of the first equal string, else append -/
def addString (ss : List Bytes) (s : Bytes) : List Bytes × Nat :=
  match ss.findIdx? (· == s) with
  | some i => (ss, i)
  | none => (ss ++ [s], ss.length)

/-! ### serialisation -/

def serStrings (ss : List Bytes) : Bytes := ss.flatMap fun s => leBytes 4 s.length ++ s

def serFn (f : FnEntry) : Bytes :=
  leBytes 4 f.nameIdx ++ leBytes 2 f.arity ++ leBytes 4 f.codeOffset ++ leBytes 4 f.codeLength
    ++ leBytes 2 f.localCount ++ leBytes 2 f.upvalueCount

def serDebug (d : DebugEntry) : Bytes := leBytes 4 d.bytecodeOffset ++ leBytes 4 d.sourceLine

/-- the buffer is calloc'd, so an absent parameter table leaves `param_count` zero bytes -/
def importParams (i : ImportEntry) : Bytes :=
  match i.paramTypes with
  | some pt => pt.take i.paramCount ++ List.replicate (i.paramCount - pt.length) 0
  | none => List.replicate i.paramCount 0

def serImport (i : ImportEntry) : Bytes :=
  leBytes 4 i.moduleNameIdx ++ leBytes 4 i.functionNameIdx ++ leBytes 2 i.paramCount
    ++ [UInt8.ofNat i.returnType] ++ importParams i

/-- the sections `nvm_serialize` writes, in its fixed order, each only if non-empty -/
def sectionsOf (m : Module) : List (Nat × Bytes) :=
  (if m.strings.length > 0 then [(Gen.secStrings, serStrings m.strings)] else [])
  ++ (if m.code.length > 0 then [(Gen.secCode, m.code)] else [])
  ++ (if m.functions.length > 0 then [(Gen.secFunctions, m.functions.flatMap serFn)] else [])
  ++ (if m.debug.length > 0 then [(Gen.secDebug, m.debug.flatMap serDebug)] else [])
  ++ (if m.imports.length > 0 then [(Gen.secImports, m.imports.flatMap serImport)] else [])

/-- directory entries: running data offset starting after header and directory -/
def dirEntries : Nat → List (Nat × Bytes) → Bytes
  | _, [] => []
  | off, (ty, d) :: rest => leBytes 4 ty ++ leBytes 4 off ++ leBytes 4 d.length ++ dirEntries (off + d.length) rest

def bodyOf (secs : List (Nat × Bytes)) : Bytes :=
  dirEntries (Gen.headerSize + Gen.sectionEntrySize * secs.length) secs ++ secs.flatMap (·.2)

def strPoolInfo (secs : List (Nat × Bytes)) : Nat × Nat :=
  match secs with
  | (ty, d) :: _ => if ty == Gen.secStrings then (Gen.headerSize + Gen.sectionEntrySize * secs.length, d.length) else (0, 0)
  | [] => (0, 0)

def headerOf (m : Module) (secs : List (Nat × Bytes)) (crc : Nat) : Bytes :=
  (Gen.nvmMagic.map UInt8.ofNat) ++ leBytes 4 Gen.nvmFormatVersion ++ leBytes 4 m.flags
    ++ leBytes 4 m.entryPoint ++ leBytes 4 secs.length
    ++ leBytes 4 (strPoolInfo secs).1 ++ leBytes 4 (strPoolInfo secs).2 ++ leBytes 4 crc

/-- `nvm_serialize` -/
def serialize (m : Module) : Bytes :=
  let secs := sectionsOf m
  let body := bodyOf secs
  headerOf m secs (crc32 body).toNat ++ body

/-! ### deserialisation -/

inductive LoadErr
  | reject   -- `return NULL`
  | oob      -- the C code would read outside `data[0..size)`
deriving DecidableEq, Repr

def rd (data : Bytes) (off n : Nat) : Except LoadErr Nat :=
  match slice? data off n with
  | some bs => .ok (leVal bs)
  | none => .error .oob

def rdBytes (data : Bytes) (off n : Nat) : Except LoadErr Bytes :=
  match slice? data off n with
  | some bs => .ok bs
  | none => .error .oob

/-- string-pool section parser: `while (pos + 4 <= sec_size) { slen; if (slen > sec_size - pos) break; add }` -/
def parseStrings (data : Bytes) (base secSize : Nat) : Nat → Nat → List Bytes → Except LoadErr (List Bytes)
  | 0, _, ss => .ok ss
  | fuel+1, pos, ss =>
    if u32 (pos + 4) ≤ secSize then do
      let slen ← rd data (base + pos) 4
      let pos := pos + 4
      if slen > secSize - pos then .ok ss
      else do
        let s ← rdBytes data (base + pos) slen
        parseStrings data base secSize fuel (pos + slen) (addString ss s).1
    else .ok ss

def parseFunctions (data : Bytes) (base secSize : Nat) : Nat → Nat → List FnEntry → Except LoadErr (List FnEntry)
  | 0, _, fs => .ok fs
  | fuel+1, pos, fs =>
    if u32 (pos + Gen.functionEntrySize) ≤ secSize then do
      let nameIdx ← rd data (base + pos) 4
      let arity ← rd data (base + pos + 4) 2
      let codeOffset ← rd data (base + pos + 6) 4
      let codeLength ← rd data (base + pos + 10) 4
      let localCount ← rd data (base + pos + 14) 2
      let upvalueCount ← rd data (base + pos + 16) 2
      parseFunctions data base secSize fuel (pos + 18)
        (fs ++ [{ nameIdx, arity, codeOffset, codeLength, localCount, upvalueCount }])
    else .ok fs

def parseDebug (data : Bytes) (base secSize : Nat) : Nat → Nat → List DebugEntry → Except LoadErr (List DebugEntry)
  | 0, _, ds => .ok ds
  | fuel+1, pos, ds =>
    if u32 (pos + Gen.debugEntrySize) ≤ secSize then do
      let off ← rd data (base + pos) 4
      let line ← rd data (base + pos + 4) 4
      parseDebug data base secSize fuel (pos + 8) (ds ++ [{ bytecodeOffset := off, sourceLine := line }])
    else .ok ds

def parseImports (data : Bytes) (base secSize : Nat) : Nat → Nat → List ImportEntry → Except LoadErr (List ImportEntry)
  | 0, _, is => .ok is
  | fuel+1, pos, is =>
    if u32 (pos + Gen.importEntryBaseSize) ≤ secSize then do
      let m ← rd data (base + pos) 4
      let f ← rd data (base + pos + 4) 4
      let pc ← rd data (base + pos + 8) 2
      let rt ← rd data (base + pos + 10) 1
      let pos := pos + 11
      if u32 (pos + pc) > secSize then .ok is
      else do
        let pt ← rdBytes data (base + pos) pc
        parseImports data base secSize fuel (pos + pc)
          (is ++ [{ moduleNameIdx := m, functionNameIdx := f, paramCount := pc, returnType := rt,
                    paramTypes := if pc > 0 then some pt else none }])
    else .ok is

/-- one iteration of the section-directory loop; returns the module so far and the end of the
    furthest section seen -/
def loadSection (data : Bytes) (m : Module) (dataEnd : Nat) (i : Nat) : Except LoadErr (Module × Nat) := do
  let size := data.length
  let dirOff := Gen.headerSize + i * Gen.sectionEntrySize
  let ty ← rd data dirOff 4
  let off ← rd data (dirOff + 4) 4
  let sz ← rd data (dirOff + 8) 4
  if off > size || sz > size - off then .error .reject
  else
    let dataEnd := if off + sz > dataEnd then off + sz else dataEnd
    if ty == Gen.secStrings then do
      let ss ← parseStrings data off sz (sz + 1) 0 m.strings
      pure ({ m with strings := ss }, dataEnd)
    else if ty == Gen.secCode then do
      let c ← rdBytes data off sz
      pure ({ m with code := m.code ++ c }, dataEnd)
    else if ty == Gen.secFunctions then do
      let fs ← parseFunctions data off sz (sz + 1) 0 m.functions
      pure ({ m with functions := fs }, dataEnd)
    else if ty == Gen.secDebug then do
      let ds ← parseDebug data off sz (sz + 1) 0 m.debug
      pure ({ m with debug := ds }, dataEnd)
    else if ty == Gen.secImports then do
      let is ← parseImports data off sz (sz + 1) 0 m.imports
      pure ({ m with imports := is }, dataEnd)
    else pure (m, dataEnd)

def loadSections (data : Bytes) : Nat → Nat → Module → Nat → Except LoadErr (Module × Nat)
  | 0, _, m, e => .ok (m, e)
  | n+1, i, m, e => do
    let (m', e') ← loadSection data m e i
    loadSections data n (i + 1) m' e'

/-- `nvm_validate_header` on the raw header bytes -/
def headerValid (data : Bytes) : Bool :=
  (data.take 4 == Gen.nvmMagic.map UInt8.ofNat)
    && leVal ((data.drop 4).take 4) == Gen.nvmFormatVersion
    && leVal ((data.drop 16).take 4) ≤ Gen.maxSections

/-- `nvm_deserialize` -/
def deserialize (data : Bytes) : Except LoadErr Module :=
  let size := data.length
  if size < Gen.headerSize then .error .reject
  else if !headerValid data then .error .reject
  else
    let flags := leVal ((data.drop 8).take 4)
    let entry := leVal ((data.drop 12).take 4)
    let count := leVal ((data.drop 16).take 4)
    let checksum := leVal ((data.drop Gen.checksumOffset).take 4)
    if (crc32 (data.drop Gen.headerSize)).toNat != checksum then .error .reject
    else
      let dirEnd := Gen.headerSize + count * Gen.sectionEntrySize
      if dirEnd > size then .error .reject
      else
        match loadSections data count 0 { flags := flags, entryPoint := entry } dirEnd with
        | .error e => .error e
        | .ok (m, dataEnd) => if dataEnd != size then .error .reject else .ok m

end NanoVerif
