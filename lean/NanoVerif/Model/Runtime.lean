/-
L9c — native runtime containers: model of `DynArray` (src/runtime/dyn_array.c) and of the
bookkeeping of the reference-counted GC (src/runtime/gc.c: all-objects list, pointer hash set,
num_objects).  Preconditions are exactly the C assertions; `none` = the assertion aborts.
-/
namespace NanoVerif

structure DynArr where
  len : Nat
  cap : Nat
  data : List Int         -- `capacity` slots; slots at or beyond `len` hold stale values
deriving DecidableEq, Repr, Inhabited

def dynInitialCapacity : Nat := 8
def dynGrowth : Nat := 2

def DynArr.new : DynArr := { len := 0, cap := dynInitialCapacity, data := List.replicate dynInitialCapacity 0 }

/-- `dyn_array_grow` -/
def DynArr.grow (a : DynArr) : DynArr :=
  { a with cap := a.cap * dynGrowth, data := a.data ++ List.replicate (a.cap * dynGrowth - a.cap) 0 }

/-- `dyn_array_push_*` -/
def DynArr.push (a : DynArr) (v : Int) : DynArr :=
  let a := if a.len ≥ a.cap then a.grow else a
  { a with data := a.data.set a.len v, len := a.len + 1 }

/-- `dyn_array_pop_*`: value and success flag -/
def DynArr.pop (a : DynArr) : DynArr × Option Int :=
  if a.len = 0 then (a, none) else ({ a with len := a.len - 1 }, some (a.data.getD (a.len - 1) 0))

/-- `dyn_array_get_*` (`none`: the bounds assertion fails) -/
def DynArr.get (a : DynArr) (i : Int) : Option Int :=
  if 0 ≤ i ∧ i < a.len then some (a.data.getD i.toNat 0) else none

/-- `dyn_array_set_*` -/
def DynArr.set (a : DynArr) (i : Int) (v : Int) : Option DynArr :=
  if 0 ≤ i ∧ i < a.len then some { a with data := a.data.set i.toNat v } else none

/-- `dyn_array_remove_at`: memmove of the tail one slot down -/
def DynArr.removeAt (a : DynArr) (i : Int) : Option DynArr :=
  if 0 ≤ i ∧ i < a.len then
    let k := i.toNat
    -- slots k .. len-2 take the values of k+1 .. len-1; the slot len-1 keeps its stale value
    some { a with data := a.data.take k ++ ((a.data.drop (k + 1)).take (a.len - 1 - k)) ++ a.data.drop (a.len - 1), len := a.len - 1 }
  else none

def DynArr.clear (a : DynArr) : DynArr := { a with len := 0 }

/-- `dyn_array_reserve` -/
def DynArr.reserve (a : DynArr) (n : Nat) : DynArr :=
  if n ≤ a.cap then a else { a with cap := n, data := a.data ++ List.replicate (n - a.cap) 0 }

/-- `dyn_array_clone` -/
def DynArr.clone (a : DynArr) : DynArr :=
  let b := DynArr.new.reserve a.len
  { b with data := a.data.take a.len ++ b.data.drop a.len, len := a.len }

/-- the sequence a `DynArray` denotes -/
def DynArr.abs (a : DynArr) : List Int := a.data.take a.len

def DynArr.Inv (a : DynArr) : Prop := a.len ≤ a.cap ∧ a.data.length = a.cap ∧ 0 < a.cap

/-! ### GC bookkeeping -/

structure GcState where
  objects : List (Nat × Nat) := []   -- all-objects list, newest first: (id, ref_count)
  hashed : List Nat := []            -- pointer hash set
  numObjects : Nat := 0
  nextId : Nat := 0
deriving DecidableEq, Repr, Inhabited

def GcState.alloc (g : GcState) : GcState × Nat :=
  ({ objects := (g.nextId, 1) :: g.objects, hashed := g.nextId :: g.hashed, numObjects := g.numObjects + 1, nextId := g.nextId + 1 }, g.nextId)

def GcState.retain (g : GcState) (p : Nat) : GcState :=
  { g with objects := g.objects.map fun o => if o.1 == p then (o.1, o.2 + 1) else o }

/-- `gc_release`: unmanaged pointers are ignored; at count 0 the object leaves list, hash set and count -/
def GcState.release (g : GcState) (p : Nat) : GcState :=
  if !g.hashed.contains p then g
  else match g.objects.find? (·.1 == p) with
    | none => g
    | some (_, rc) =>
      if rc ≤ 1 then { g with objects := g.objects.filter (·.1 != p), hashed := g.hashed.filter (· != p), numObjects := g.numObjects - 1 }
      else { g with objects := g.objects.map fun o => if o.1 == p then (o.1, o.2 - 1) else o }

def GcState.Inv (g : GcState) : Prop :=
  (g.objects.map (·.1)).Nodup ∧ g.numObjects = g.objects.length ∧
  (∀ p, p ∈ g.hashed ↔ p ∈ g.objects.map (·.1)) ∧ g.hashed.Nodup ∧
  (∀ o ∈ g.objects, 1 ≤ o.2 ∧ o.1 < g.nextId)

end NanoVerif
