/-
L9b — how the VM's FFI client (`vm_ffi_call_cop`, `cop_recv_header`, src/nanovm/vm_ffi.c and
cop_protocol.c) treats whatever bytes the co-process sends in answer to one request.
The peer is arbitrary: `inp` is everything it writes before it stops writing (closes, exits or
is killed).  The OS is a parameter: what a write to a pipe without reader does.
-/
import NanoVerif.Model.Cop
namespace NanoVerif

def copMaxPayload : Nat := 16 * 1024 * 1024
def copHeaderSize : Nat := 8
def copProtoVersion : Nat := 1
def msgFfiResult : Nat := 0x10
def msgFfiError : Nat := 0x11
def msgReady : Nat := 0x12

/-- `cop_recv_header`: 8 bytes, version check, payload bound.  `none` = returns false. -/
def recvHeader (inp : Bytes) : Option (Nat × Nat × Bytes) :=
  if inp.length < copHeaderSize then none
  else
    let ver := (inp.getD 0 0).toNat
    let ty := (inp.getD 1 0).toNat
    let len := leVal ((inp.drop 4).take 4)
    if ver != copProtoVersion then none
    else if len > copMaxPayload then none
    else some (ty, len, inp.drop copHeaderSize)

/-- result of one isolated FFI call, as the VM sees it -/
inductive CallResult
  | ok (v : CVal)                 -- the call returns v
  | failKeep (why : String)       -- the call fails, the co-process is kept
  | failStop (why : String)       -- the call fails, the co-process is stopped (relaunch on next call)
deriving Repr, Inhabited

/-- the receive half of `vm_ffi_call_cop` -/
def processReply (inp : Bytes) : CallResult :=
  match recvHeader inp with
  | none => .failStop "co-process died during FFI response"
  | some (ty, len, rest) =>
    if ty == msgFfiResult then
      if len == 0 then .ok .void
      else if rest.length < len then .failKeep "failed to receive result payload"
      else match copDe 65 (rest.take len) with
        | none => .failKeep "failed to deserialize result"
        | some (v, _) => .ok v
    else if ty == msgFfiError then .failKeep "FFI error reported by the co-process"
    else .failKeep "unexpected response type"

/-- what the operating system does with a write to a pipe whose reader is gone -/
structure Os where
  sigpipeIgnored : Bool

inductive WriteResult | written | epipe | killedBySigpipe
deriving DecidableEq, Repr

def osWrite (os : Os) (readerGone : Bool) : WriteResult :=
  if !readerGone then .written else if os.sigpipeIgnored then .epipe else .killedBySigpipe

/-- how a VM run ends -/
inductive VmEnd
  | exit (code : Nat) (callsCompleted : Nat)
  | signal (why : String)
deriving DecidableEq, Repr

/-- one call: the request write (the reader may be gone), then the reply -/
def oneCall (os : Os) (readerGone : Bool) (reply : Bytes) : Option CallResult :=
  match osWrite os readerGone with
  | .killedBySigpipe => none
  | .epipe => some (.failStop "co-process died during FFI request")
  | .written => some (processReply reply)

/-- a program making one extern call per entry of `calls` (reader-gone flag, reply bytes): the VM
    stops at the first failing call with status 1 -/
def runCalls (os : Os) : List (Bool × Bytes) → Nat → VmEnd
  | [], done => .exit 0 done
  | (gone, reply) :: rest, done =>
    match oneCall os gone reply with
    | none => .signal "SIGPIPE"
    | some (.ok _) => runCalls os rest (done + 1)
    | some _ => .exit 1 done

end NanoVerif
