/-
L7a — the shadow-test gate: model of the test loop of `run_shadow_tests` (src/eval.c) and of
phase 5 of `compile_file` (src/main.c).  The evaluator is abstracted to what the gate sees of
it: per shadow block, whether it is skipped (uses extern functions) and how many assertions
evaluated to false while its body (and everything it called) ran.
-/
namespace NanoVerif

structure ShadowRun where
  name : String
  usesExtern : Bool
  falseAsserts : Nat        -- value of g_shadow_current_fail_count after the body
deriving DecidableEq, Repr, Inhabited

structure GateState where
  allPassed : Bool := true
  failures : List (String × Nat) := []     -- (test name, failed assertions), in order
  testCount : Nat := 0
  skipped : Nat := 0
deriving DecidableEq, Repr, Inhabited

/-- one iteration of the "Fourth pass" loop -/
def gateStep (g : GateState) (t : ShadowRun) : GateState :=
  if t.usesExtern then { g with skipped := g.skipped + 1 }
  else
    let g := { g with testCount := g.testCount + 1 }
    if t.falseAsserts > 0 then { g with allPassed := false, failures := g.failures ++ [(t.name, t.falseAsserts)] }
    else g

/-- `run_shadow_tests` -/
def runShadowTests (ts : List ShadowRun) : GateState := ts.foldl gateStep {}

/-- what `compile_file` does after phase 5: exit status and whether later phases (transpile, cc,
    write the executable) run at all -/
structure DriverOutcome where
  exitCode : Nat
  reachesTranspile : Bool
deriving DecidableEq, Repr

def phase5 (ts : List ShadowRun) (restOk : Bool) : DriverOutcome :=
  if !(runShadowTests ts).allPassed then { exitCode := 1, reachesTranspile := false }
  else { exitCode := if restOk then 0 else 1, reachesTranspile := true }

end NanoVerif
