/-
L8a — the lexer (`tokenize`, src/lexer.c), over raw bytes.

Token numbering and the keyword table are generated from the source (`Gen/Front.lean`); the scanning
rules are transcribed by hand and tied by the `lex` correspondence stream (model vs `tokenize` on
valid programs, token-level and byte-level mutants).  Line/column bookkeeping is not modelled
(it only feeds diagnostics).
-/
import NanoVerif.Model.Bytes
import NanoVerif.Gen.Front

namespace NanoVerif
open Gen

structure Tok where
  ty  : TT
  val : Bytes := []          -- token text (`value`; NULL is modelled as [])
deriving DecidableEq, Repr, Inhabited

inductive LexErr
  | unterminatedChar | incompleteEscape | unterminatedString
deriving DecidableEq, Repr

def isSpaceB (c : UInt8) : Bool := c == 32 || (9 ≤ c && c ≤ 13)
def isDigitB (c : UInt8) : Bool := 48 ≤ c && c ≤ 57
def isAlphaB (c : UInt8) : Bool := (65 ≤ c && c ≤ 90) || (97 ≤ c && c ≤ 122)
def isIdStartB (c : UInt8) : Bool := isAlphaB c || c == 95
def isIdCharB (c : UInt8) : Bool := isAlphaB c || isDigitB c || c == 95

def bytesToString (b : Bytes) : String := String.ofList (b.map (fun c => Char.ofNat c.toNat))
def stringToBytes (s : String) : Bytes := s.toUTF8.toList

def keywordOrIdent (b : Bytes) : TT :=
  match keywordTable.find? (fun kv => stringToBytes kv.1 == b) with
  | some kv => kv.2
  | none => .T_IDENTIFIER

/-- decimal text of an `int` (what `snprintf("%d")` writes) -/
def intDec (i : Int) : Bytes := stringToBytes (toString i)

/-- skip a `#` comment: up to but not including the newline -/
def skipLine : Bytes → Bytes
  | [] => []
  | c :: cs => if c == 10 then c :: cs else skipLine cs

/-- skip a block comment body (after the opening delimiter): past the closing delimiter, or to the end -/
def skipBlock : Bytes → Bytes
  | [] => []
  | [_] => []
  | c :: d :: cs => if c == 42 && d == 47 then cs else skipBlock (d :: cs)

/-- scan a string body (after the opening quote): (raw text, rest starting at the closing quote) or
    none when the input ends first.  A backslash followed by any byte skips both. -/
def scanString : Bytes → Bytes → Option (Bytes × Bytes)
  | _, [] => none
  | acc, c :: cs =>
    if c == 34 then some (acc.reverse, cs)
    else if c == 92 then
      match cs with
      | [] => scanString (c :: acc) []          -- backslash at the very end: plain character, then fail
      | d :: ds => scanString (d :: c :: acc) ds
    else scanString (c :: acc) cs

theorem skipLine_length (l : Bytes) : (skipLine l).length ≤ l.length := by
  induction l with
  | nil => simp [skipLine]
  | cons c cs ih => simp only [skipLine]; split <;> simp <;> omega

theorem skipBlock_length (l : Bytes) : (skipBlock l).length ≤ l.length := by
  induction l using skipBlock.induct with
  | case1 => simp [skipBlock]
  | case2 => simp [skipBlock]
  | case3 c d cs h => simp [skipBlock, h]; omega
  | case4 c d cs h ih => simp only [skipBlock, h]; simp at ih ⊢; omega

theorem scanString_length (acc l : Bytes) (r : Bytes × Bytes) (h : scanString acc l = some r) :
    r.2.length < l.length := by
  fun_induction scanString acc l generalizing r with
  | case1 => simp at h
  | case2 acc c cs hc => simp at h; subst h; simp
  | case3 acc c hc hb ih => exact absurd (ih _ h) (by simp)
  | case4 acc c d ds hc hb ih => have := ih _ h; simp at this ⊢; omega
  | case5 acc c cs hc hb ih => have := ih _ h; simp; omega

/-- value of the character after a backslash in a character literal; unknown escapes give the
    character itself (as a signed `char`). -/
def charEscape (c : UInt8) : Int :=
  if c == 110 then 10 else if c == 116 then 9 else if c == 114 then 13 else if c == 48 then 0
  else if c == 92 then 92 else if c == 39 then 39 else if c == 34 then 34
  else if c.toNat ≥ 128 then (c.toNat : Int) - 256 else c.toNat

structure LexOut where
  toks    : List Tok
  unknown : Nat         -- number of "Unknown character" diagnostics (the character is skipped)
deriving Repr

def single (c : UInt8) : Option TT :=
  if c == 40 then some .T_LPAREN else if c == 41 then some .T_RPAREN
  else if c == 123 then some .T_LBRACE else if c == 125 then some .T_RBRACE
  else if c == 91 then some .T_LBRACKET else if c == 93 then some .T_RBRACKET
  else if c == 44 then some .T_COMMA else if c == 58 then some .T_COLON
  else if c == 46 then some .T_DOT else if c == 43 then some .T_PLUS
  else if c == 45 then some .T_MINUS else if c == 42 then some .T_STAR
  else if c == 47 then some .T_SLASH else if c == 37 then some .T_PERCENT
  else if c == 60 then some .T_LT else if c == 62 then some .T_GT
  else none

abbrev StepRes := Except LexErr (Bytes × Option Tok × Bool)

/-- character literal; `cs` is the input after the opening quote -/
def lexCharLit (cs : Bytes) : StepRes :=
  match cs with
  | [] => .error .unterminatedChar
  | d :: ds =>
    if d == 92 then
      match ds with
      | [] => .error .incompleteEscape
      | e :: es =>
        match es with
        | q :: rest => if q == 39 then .ok (rest, some ⟨.T_NUMBER, intDec (charEscape e)⟩, false) else .error .unterminatedChar
        | [] => .error .unterminatedChar
    else
      match ds with
      | q :: rest => if q == 39 then .ok (rest, some ⟨.T_NUMBER, intDec d.toNat⟩, false) else .error .unterminatedChar
      | [] => .error .unterminatedChar

/-- string literal; `cs` is the input after the opening quote -/
def lexStringLit (cs : Bytes) : StepRes :=
  match scanString [] cs with
  | none => .error .unterminatedString
  | some (raw, rest) => .ok (rest, some ⟨.T_STRING, raw⟩, false)

/-- number; `c` is a digit, or `-` followed by a digit -/
def lexNumber (c : UInt8) (cs : Bytes) : StepRes :=
  let body := if c == 45 then cs else c :: cs
  let sign : Bytes := if c == 45 then [45] else []
  let ds := body.takeWhile isDigitB
  let r := body.dropWhile isDigitB
  match r with
  | p :: f :: r' =>
    if p == 46 && isDigitB f then
      let fs := (f :: r').takeWhile isDigitB
      .ok ((f :: r').dropWhile isDigitB, some ⟨.T_FLOAT, sign ++ ds ++ [46] ++ fs⟩, false)
    else .ok (r, some ⟨.T_NUMBER, sign ++ ds⟩, false)
  | _ => .ok (r, some ⟨.T_NUMBER, sign ++ ds⟩, false)

def lexIdent (c : UInt8) (cs : Bytes) : StepRes :=
  let w := (c :: cs).takeWhile isIdCharB
  .ok ((c :: cs).dropWhile isIdCharB, some ⟨keywordOrIdent w, w⟩, false)

/-- operators and punctuation (two-character forms first); anything else is an "Unknown character" -/
def lexOp (c : UInt8) (cs : Bytes) : StepRes :=
  let n := cs.head?
  if c == 58 && n == some 58 then .ok (cs.tail, some ⟨.T_DOUBLE_COLON, []⟩, false)
  else if c == 45 && n == some 62 then .ok (cs.tail, some ⟨.T_ARROW, []⟩, false)
  else if c == 61 && n == some 62 then .ok (cs.tail, some ⟨.T_ARROW, []⟩, false)
  else if c == 61 && n == some 61 then .ok (cs.tail, some ⟨.T_EQ, []⟩, false)
  else if c == 61 then .ok (cs, some ⟨.T_ASSIGN, []⟩, false)
  else if c == 33 && n == some 61 then .ok (cs.tail, some ⟨.T_NE, []⟩, false)
  else if c == 60 && n == some 61 then .ok (cs.tail, some ⟨.T_LE, []⟩, false)
  else if c == 62 && n == some 61 then .ok (cs.tail, some ⟨.T_GE, []⟩, false)
  else match single c with
    | some t => .ok (cs, some ⟨t, []⟩, false)
    | none => .ok (cs, none, true)

/-- One scanning step on a non-empty input: the rest of the input, the token produced (if any), and
    whether an "Unknown character" diagnostic was printed. -/
def lexStep (c : UInt8) (cs : Bytes) : StepRes :=
  if isSpaceB c then .ok (cs, none, false)
  else if c == 35 then .ok (skipLine cs, none, false)
  else if c == 47 && cs.head? == some 42 then .ok (skipBlock cs.tail, none, false)
  else if c == 39 then lexCharLit cs
  else if c == 34 then lexStringLit cs
  else if isDigitB c || (c == 45 && (cs.head?.map isDigitB).getD false) then lexNumber c cs
  else if isIdStartB c then lexIdent c cs
  else lexOp c cs

/-- the scanner loop; `fuel` bounds the number of steps (`lex` passes the input length, which
    `lexStep_progress` shows is always enough) -/
def lexGo : Nat → Bytes → List Tok → Nat → Except LexErr LexOut
  | _, [], acc, u => .ok ⟨(⟨.T_EOF, []⟩ :: acc).reverse, u⟩
  | 0, _ :: _, acc, u => .ok ⟨(⟨.T_EOF, []⟩ :: acc).reverse, u⟩     -- unreachable (see `lexGo_fuel`)
  | fuel+1, c :: cs, acc, u =>
    match lexStep c cs with
    | .error e => .error e
    | .ok (rest, t, bad) =>
      lexGo fuel rest (match t with | some t => t :: acc | none => acc) (if bad then u + 1 else u)

/-- `tokenize`: the source is a C string, so it ends at the first NUL byte -/
def lex (src : Bytes) : Except LexErr LexOut :=
  let s := src.takeWhile (· != 0)
  lexGo s.length s [] 0

end NanoVerif
