/-
L1 — NanoISA instruction codec: model of `isa_get_info`, `isa_encode`, `isa_decode`
(src/nanoisa/isa.c).  The table and operand sizes come from the generated file.
-/
import NanoVerif.Model.Bytes
import NanoVerif.Model.IsaTypes
import NanoVerif.Gen.IsaTable
namespace NanoVerif

/-- `isa_get_info`: the entry stored at array index `b` (none when its name is NULL). -/
def lookup (b : Nat) : Option InstrInfo :=
  (Gen.instrEntries.find? (fun e => e.1 == b)).map (·.2)

/-- An instruction: opcode byte and the raw bit patterns of its operands (an `f64` operand is
    its 64-bit pattern: the C code `memcpy`s, so NaN payloads and signed zeros are just bits;
    signed operands are their two's-complement patterns). -/
structure Instr where
  opcode : Nat
  operands : List Nat
deriving DecidableEq, Repr, Inhabited

def encodeOperands : List OperandType → List Nat → Option Bytes
  | [], [] => some []
  | t :: ts, v :: vs => (encodeOperands ts vs).map (leBytes (Gen.operandSize t) v ++ ·)
  | _, _ => none

/-- `isa_encode` into a buffer of `bufSize` bytes (`none` = returns 0). -/
def encodeBuf (i : Instr) (bufSize : Nat) : Option Bytes :=
  match lookup i.opcode with
  | none => none
  | some info =>
    match encodeOperands info.operands i.operands with
    | none => none
    | some ob =>
      if 1 + ob.length > bufSize then none
      else some (UInt8.ofNat i.opcode :: ob)

def encode (i : Instr) : Option Bytes := encodeBuf i Gen.maxInstructionSize

/-- operand reader of `isa_decode`: `pos + sz > buf_size → return 0` for every operand in turn -/
def decodeOperands : List OperandType → Bytes → Option (List Nat × Nat)
  | [], _ => some ([], 0)
  | t :: ts, bs =>
    let sz := Gen.operandSize t
    if sz > bs.length then none
    else
      match decodeOperands ts (bs.drop sz) with
      | none => none
      | some (vs, n) => some (leVal (bs.take sz) :: vs, sz + n)

/-- `isa_decode`: instruction and number of bytes consumed (`none` = returns 0). -/
def decode : Bytes → Option (Instr × Nat)
  | [] => none
  | b :: rest =>
    match lookup b.toNat with
    | none => none
    | some info =>
      match decodeOperands info.operands rest with
      | none => none
      | some (vs, n) => some ({ opcode := b.toNat, operands := vs }, 1 + n)

/-- operand values fit their declared widths -/
def operandsFit : List OperandType → List Nat → Prop
  | [], [] => True
  | t :: ts, v :: vs => v < 256 ^ Gen.operandSize t ∧ operandsFit ts vs
  | _, _ => False

instance : (ts : List OperandType) → (vs : List Nat) → Decidable (operandsFit ts vs)
  | [], [] => isTrue trivial
  | t :: ts, v :: vs =>
    have := instDecidableOperandsFit ts vs
    inferInstanceAs (Decidable (_ ∧ _))
  | [], _ :: _ => isFalse (by simp [operandsFit])
  | _ :: _, [] => isFalse (by simp [operandsFit])

/-- a well-formed instruction: defined opcode, one value per declared operand, each in range -/
def Instr.wf (i : Instr) : Prop :=
  i.opcode < 256 ∧ ∃ info, lookup i.opcode = some info ∧ operandsFit info.operands i.operands

def instrSizeOf (info : InstrInfo) : Nat :=
  1 + (info.operands.map Gen.operandSize).sum

/-- the table invariants the C code relies on (decided on the generated table) -/
def tableWf : Bool :=
  Gen.instrEntries.all (fun e =>
    e.1 == e.2.opcode && e.1 < 256 && e.2.operands.length ≤ Gen.maxOperands
      && instrSizeOf e.2 ≤ Gen.maxInstructionSize
      && e.2.operands.all (fun t => 0 < Gen.operandSize t))
  && (Gen.instrEntries.map (·.1)).Nodup
  && (Gen.instrEntries.map (·.2.name)).Nodup

/-- `isa_opcode_by_name` -/
def opcodeByName (s : String) : Option Nat :=
  (Gen.instrEntries.find? (fun e => e.2.name == s)).map (·.1)

end NanoVerif
