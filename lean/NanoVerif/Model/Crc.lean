/-
L2a — CRC-32 exactly as src/nanoisa/nvm_format.c computes it: `crc32_init` builds each table
entry with eight conditional shift/xor steps, `nvm_crc32` folds bytes through the table.
Polynomial, initial value and final xor come from the generated file.
-/
import NanoVerif.Model.Bytes
import NanoVerif.Gen.NvmLayout
namespace NanoVerif

def crcP : BitVec 32 := BitVec.ofNat 32 Gen.crcPoly

/-- one iteration of the inner loop of `crc32_init` -/
def step0 (c : BitVec 32) : BitVec 32 :=
  if c.getLsbD 0 then (c >>> 1) ^^^ crcP else c >>> 1

def stepN : Nat → BitVec 32 → BitVec 32
  | 0, c => c
  | n+1, c => stepN n (step0 c)

/-- `crc32_table[i]` -/
def crcTableEntry (i : Nat) : BitVec 32 := stepN 8 (BitVec.ofNat 32 i)

/-- body of the loop of `nvm_crc32`: `crc = (crc >> 8) ^ crc32_table[(crc ^ data[i]) & 0xFF]` -/
def crcUpdate (c : BitVec 32) (b : UInt8) : BitVec 32 :=
  (c >>> 8) ^^^ crcTableEntry ((c ^^^ BitVec.ofNat 32 b.toNat) &&& 0xFF#32).toNat

def crcRaw (c : BitVec 32) (bs : Bytes) : BitVec 32 := bs.foldl crcUpdate c

/-- `nvm_crc32` -/
def crc32 (bs : Bytes) : BitVec 32 :=
  crcRaw (BitVec.ofNat 32 Gen.crcInit) bs ^^^ BitVec.ofNat 32 Gen.crcFinalXor

/-! bit-serial reference machine used by the burst theorem -/

def bitv (b : Bool) : BitVec 32 := if b then 1#32 else 0#32
def feedBit (c : BitVec 32) (b : Bool) : BitVec 32 := step0 (c ^^^ bitv b)
def feedBits (c : BitVec 32) (bs : List Bool) : BitVec 32 := bs.foldl feedBit c

/-- the `k` low bits of `n`, least significant first -/
def bitsLSB : Nat → Nat → List Bool
  | 0, _ => []
  | k+1, n => (n % 2 == 1) :: bitsLSB k (n / 2)

/-- a byte string as the bit stream the CRC register sees -/
def bitsOf (bs : Bytes) : List Bool := bs.flatMap fun b => bitsLSB 8 b.toNat

/-- byte-wise xor of two byte strings (the damaged file = original xor error pattern) -/
def xorBytes (a e : Bytes) : Bytes := List.zipWith (· ^^^ ·) a e

end NanoVerif
