/-
L9 — the daemon: wire protocol (vmd_protocol.c), the per-connection session handler (`client_thread`,
vmd_server.c), the client's reassembly loop (`vmd_execute`, vmd_client.c) and a descriptor-level model of
concurrent sessions inside one process.

What running a module *does* is a parameter (`Run`): the session model is about framing, validation,
bookkeeping and descriptor ownership.  Thread scheduling is modelled as an arbitrary interleaving of the
sessions' system-call events; what the model cannot exhibit is anything below a system call (data races
on process-wide memory, signal delivery) — those are observed on the real daemon (ThreadSanitizer build,
perturbed schedules), not proved.
-/
import NanoVerif.Model.Bytes
import NanoVerif.Gen.Vmd

namespace NanoVerif.Vmd
open NanoVerif Gen

structure Hdr where
  version : Nat
  msgType : Nat
  flags : Nat
  len : Nat
deriving DecidableEq, Repr, Inhabited

def encodeHdr (h : Hdr) : Bytes :=
  [UInt8.ofNat h.version, UInt8.ofNat h.msgType] ++ leBytes 2 h.flags ++ leBytes 4 h.len

/-- `vmd_msg_recv_header` on the bytes the peer sent before it stopped sending: `none` = read error or
    invalid header (no reply is sent in either case) -/
def recvHeader (b : Bytes) : Option (Hdr × Bytes) :=
  if b.length < vmdHeaderSize then none
  else
    let h : Hdr := { version := (b.getD 0 0).toNat, msgType := (b.getD 1 0).toNat,
                     flags := leVal ((b.drop 2).take 2), len := leVal ((b.drop 4).take 4) }
    if h.version != vmdVersion then none
    else if h.len > vmdMaxPayload then none
    else some (h, b.drop vmdHeaderSize)

inductive Frame
  | output (b : Bytes)
  | error (b : Bytes)
  | exit (code : Nat)            -- the int32 exit code as its 32-bit pattern
  | pong
  | statusRsp (b : Bytes)
deriving DecidableEq, Repr, Inhabited

def Frame.encode : Frame → Bytes
  | .output b => encodeHdr ⟨vmdVersion, vmdOutput, 0, b.length⟩ ++ b
  | .error b => encodeHdr ⟨vmdVersion, vmdError, 0, b.length⟩ ++ b
  | .exit c => encodeHdr ⟨vmdVersion, vmdExitCode, 0, 4⟩ ++ leBytes 4 c
  | .pong => encodeHdr ⟨vmdVersion, vmdPong, 0, 0⟩
  | .statusRsp b => encodeHdr ⟨vmdVersion, vmdStatusRsp, 0, b.length⟩ ++ b

def encodeFrames : List Frame → Bytes
  | [] => []
  | f :: r => f.encode ++ encodeFrames r

/-- what executing a payload gives: refused by the loader, refused by the verifier (with its message), or
    a run with its output chunks (as stdio flushed them), an optional run-time error text and exit code -/
inductive Run
  | badFormat
  | verifyFail (msg : Bytes)
  | ran (chunks : List Bytes) (err : Option Bytes) (code : Nat)
deriving Repr, Inhabited

def str (s : String) : Bytes := s.toUTF8.toList

def errFrames : Option Bytes → List Frame
  | some e => [.error e]
  | none => []

/-- what the client prints on stderr for the error text (`fprintf(stderr, "%s\n", msg)`) -/
def errText : Option Bytes → Bytes
  | some e => e ++ [10]
  | none => []

/-- `client_thread`: the reply frames for one connection, given every byte the peer sent before it
    stopped sending, and whether the daemon is asked to shut down -/
def serve (exec : Bytes → Run) (active : Nat) (sent : Bytes) : List Frame × Bool :=
  match recvHeader sent with
  | none => ([], false)
  | some (h, rest) =>
    if h.msgType == vmdPing then ([.pong], false)
    else if h.msgType == vmdShutdown then ([.pong], true)
    else if h.msgType == vmdStatus then ([.statusRsp (str ("active_clients=" ++ toString active))], false)
    else if h.msgType == vmdLoadExec then
      if h.len == 0 then ([.error (str "Invalid payload size")], false)
      else if rest.length < h.len then ([.error (str "Payload read error")], false)
      else
        match exec (rest.take h.len) with
        | .badFormat => ([.error (str "Invalid .nvm format")], false)
        | .verifyFail msg => ([.error (str "Bytecode verification failed: " ++ msg)], false)
        | .ran chunks err code =>
          ((chunks.filter (· ≠ [])).map .output ++ errFrames err ++ [.exit code], false)
    else ([.error (str "Unknown message type")], false)

/-! ### the client's reassembly loop (`vmd_execute`) -/

structure View where
  out : Bytes := []
  err : Bytes := []
  exit : Option Nat := none       -- none: communication error (stream ended before EXIT_CODE)
deriving DecidableEq, Repr, Inhabited

/-- consume the reply stream frame by frame until EXIT_CODE -/
def clientLoop : Nat → Bytes → View → View
  | 0, _, v => v
  | fuel+1, s, v =>
    match recvHeader s with
    | none => v
    | some (h, rest) =>
      if rest.length < h.len then v
      else
        let body := rest.take h.len
        let tail := rest.drop h.len
        if h.msgType == vmdOutput then clientLoop fuel tail { v with out := v.out ++ body }
        else if h.msgType == vmdError then
          (if h.len == 0 then clientLoop fuel tail v else clientLoop fuel tail { v with err := v.err ++ body ++ [10] })
        else if h.msgType == vmdExitCode then
          (if h.len != 4 then v else { v with exit := some (leVal body) })
        else clientLoop fuel tail v

def clientView (stream : Bytes) : View := clientLoop (stream.length + 1) stream {}

/-! ### descriptors and concurrent sessions -/

/-- system-call events of the session threads -/
inductive Ev
  | accept (sid : Nat)               -- the accept loop hands a new connection to session `sid`
  | write (sid : Nat) (b : Bytes)    -- session `sid` writes on the descriptor number it holds
  | close (sid : Nat)                -- session `sid` closes the descriptor number it holds
deriving DecidableEq, Repr, Inhabited

/-- process state: which connection each open descriptor number refers to (`bound` is above every open
    number), the descriptor number each session holds, and what each connection has received -/
structure Proc where
  openAt : Nat → Option Nat := fun _ => none      -- fd number ↦ connection id (= session id)
  bound : Nat := 0
  held : Nat → Option Nat := fun _ => none        -- session id ↦ fd number
  recv : Nat → Bytes := fun _ => []               -- connection id ↦ bytes received so far

/-- lowest descriptor number not in use (what the kernel hands out) -/
def lowestFree (p : Proc) : Nat :=
  ((List.range p.bound).find? (fun k => (p.openAt k).isNone)).getD p.bound

def step (p : Proc) : Ev → Proc
  | .accept sid =>
    let fd := lowestFree p
    { p with openAt := fun k => if k = fd then some sid else p.openAt k
             bound := max p.bound (fd + 1)
             held := fun s => if s = sid then some fd else p.held s }
  | .write sid b =>
    match p.held sid with
    | none => p
    | some fd =>
      match p.openAt fd with
      | none => p                                -- EBADF
      | some conn => { p with recv := fun c => if c = conn then p.recv c ++ b else p.recv c }
  | .close sid =>
    match p.held sid with
    | none => p
    | some fd => { p with openAt := fun k => if k = fd then none else p.openAt k }   -- the session keeps the stale number

def run (evs : List Ev) : Proc := evs.foldl step {}

end NanoVerif.Vmd
