/-
L3 — bytecode verifier: model of `nvm_verify` (src/nanoisa/verifier.c).
-/
import NanoVerif.Model.Nvm
import NanoVerif.Model.Isa
namespace NanoVerif
open Gen (Opc)

def toI32' (n : Nat) : Int := if n ≥ 2147483648 then (n : Int) - 4294967296 else n

/-- `verify_structure` -/
def verifyStructure (m : Module) : Bool :=
  (if m.flags % 2 == 1 then m.entryPoint < m.functions.length else true)
  && m.functions.all (fun f =>
      f.codeOffset ≤ m.code.length && f.codeLength ≤ m.code.length - f.codeOffset
        && f.nameIdx < m.strings.length)
  && m.imports.all (fun i => i.moduleNameIdx < m.strings.length && i.functionNameIdx < m.strings.length)

/-- operand checks of one decoded instruction at function-relative offset `pos` -/
def verifyInstr (m : Module) (f : FnEntry) (pos : Nat) (i : Instr) : Bool :=
  let arg (k : Nat) : Nat := i.operands.getD k 0
  let jumpOk (rel : Nat) : Bool :=
    let target : Int := (pos : Int) + toI32' rel
    0 ≤ target && target ≤ (f.codeLength : Int)
  match Opc.ofByte i.opcode with
  | some .JMP | some .JMP_TRUE | some .JMP_FALSE => jumpOk (arg 0)
  | some .MATCH_TAG => jumpOk (arg 1)
  | some .CALL | some .CLOSURE_NEW => arg 0 < m.functions.length
  | some .PUSH_STR => arg 0 < m.strings.length
  | some .CALL_EXTERN => arg 0 < m.imports.length
  | some .LOAD_LOCAL | some .STORE_LOCAL => arg 0 < f.localCount
  | some .LOAD_UPVALUE | some .STORE_UPVALUE => arg 0 < f.upvalueCount
  | _ => true

/-- `verify_function`: linear decode sweep from offset 0 to `code_length` -/
def verifySweep (m : Module) (f : FnEntry) (code : Bytes) : Nat → Nat → Bool
  | 0, _ => true
  | fuel+1, pos =>
    if pos < f.codeLength then
      match decode ((code.drop pos).take (f.codeLength - pos)) with
      | none => false
      | some (i, n) => verifyInstr m f pos i && verifySweep m f code fuel (pos + n)
    else true

def verifyFunction (m : Module) (f : FnEntry) : Bool :=
  verifySweep m f (m.code.drop f.codeOffset) (f.codeLength + 1) 0

/-- `nvm_verify` -/
def verify (m : Module) : Bool :=
  verifyStructure m && m.functions.all (verifyFunction m)

end NanoVerif
