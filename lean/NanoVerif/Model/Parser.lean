/-
L8c — the recursive-descent parser (`parse_program` and what it calls, src/parser.c) on the modelled
fragment.  Error *recovery* is not modelled: every `parser_error` makes `parse_program` fail, so the
model stops at the first one (`reject`).  Constructs outside the fragment give `unsupported`.
`depth` mirrors `recursion_depth` (incremented by `parse_expression` and `parse_block`, limit
`maxRecursionDepth`); `fuel` only makes the Lean definitions structurally recursive.
-/
import NanoVerif.Model.Ast

namespace NanoVerif
open Gen

inductive PErr
  | reject            -- the C parser reports an error
  | tooDeep           -- recursion depth guard
  | unsupported       -- outside the modelled fragment
  | fuel              -- Lean fuel exhausted (never on a token list of the measured size)
deriving DecidableEq, Repr

abbrev PRes (α : Type) := Except PErr (α × List Tok)

def curTy (ts : List Tok) : TT := (ts.head?.map (·.ty)).getD .T_EOF
def curVal (ts : List Tok) : Bytes := (ts.head?.map (·.val)).getD []
/-- `advance`: never moves past the final EOF token -/
def adv (ts : List Tok) : List Tok :=
  match ts with
  | [] => []
  | [t] => [t]
  | _ :: r => r
def peekTy (ts : List Tok) (k : Nat) : TT :=
  match ts[k]? with
  | some t => t.ty
  | none => .T_EOF
def peekVal (ts : List Tok) (k : Nat) : Bytes :=
  match ts[k]? with
  | some t => t.val
  | none => []

def expectT (ts : List Tok) (t : TT) : Except PErr (List Tok) :=
  if curTy ts == t then .ok (adv ts) else .error .reject

def isUpperFirst (b : Bytes) : Bool :=
  match b with
  | c :: _ => 65 ≤ c && c ≤ 90
  | [] => false

def isOperatorTok (t : TT) : Bool := infixOps.contains t || t == .T_NOT

/-- `atoll` on token text (optional sign, digits; saturating like glibc `strtoll`) -/
def atoll (b : Bytes) : Int :=
  let neg := b.head? == some 45
  let ds := (if neg then b.tail else b).takeWhile isDigitB
  let v : Nat := ds.foldl (fun a c => a * 10 + (c.toNat - 48)) 0
  if neg then (if v > 9223372036854775808 then -9223372036854775808 else -(v : Int))
  else (if v > 9223372036854775807 then 9223372036854775807 else (v : Int))

/-- a type, on the supported forms -/
def parseType : Nat → List Tok → PRes Ty
  | 0, _ => .error .fuel
  | fuel+1, ts =>
    match curTy ts with
    | .T_TYPE_INT => .ok (.int, adv ts)
    | .T_TYPE_U8 => .ok (.u8, adv ts)
    | .T_TYPE_FLOAT => .ok (.float, adv ts)
    | .T_TYPE_BOOL => .ok (.bool, adv ts)
    | .T_TYPE_STRING => .ok (.string, adv ts)
    | .T_TYPE_VOID => .ok (.void, adv ts)
    | .T_ARRAY =>
      if peekTy ts 1 == .T_LT then
        match parseType fuel (adv (adv ts)) with
        | .ok (t, r) => if curTy r == .T_GT then .ok (.arr t, adv r) else .error .unsupported
        | .error e => .error e
      else .error .unsupported
    | .T_IDENTIFIER =>
      let n := bytesToString (curVal ts)
      let r := adv ts
      if n == "list_int" || n == "list_string" || n == "list_token" then .error .unsupported
      else if curTy r == .T_DOT || curTy r == .T_LT then .error .unsupported
      else .ok (.named n, r)
    | _ => .error .unsupported

mutual
/-- `parse_expression` -/
def parseExpr : Nat → Nat → List Tok → PRes Expr
  | 0, _, _ => .error .fuel
  | fuel+1, d, ts =>
    if d + 1 > maxRecursionDepth then .error .tooDeep
    else match curTy ts with
    | .T_IF => .error .unsupported
    | .T_MATCH => .error .unsupported
    | .T_COND => parseCond fuel (d + 1) ts
    | _ =>
      match parsePrimary fuel (d + 1) ts with
      | .error e => .error e
      | .ok (e, r) => exprLoop fuel (d + 1) e r

/-- the postfix chain (`parse_postfix_chain`): `.field`, `.N` -/
def postfixChain : Nat → Expr → List Tok → PRes Expr
  | 0, _, _ => .error .fuel
  | fuel+1, e, ts =>
    if curTy ts == .T_DOT then
      let r := adv ts
      match curTy r with
      | .T_NUMBER => postfixChain fuel (.tupleIdx e (atoll (curVal r))) (adv r)
      | .T_IDENTIFIER =>
        let name := curVal r
        let r2 := adv r
        let looksUnion := (match e with | .ident x => isUpperFirst (stringToBytes x) | _ => false) && isUpperFirst name
        if curTy r2 == .T_LBRACE && looksUnion then .error .unsupported
        else postfixChain fuel (.field e (bytesToString name)) r2
      | _ => .error .reject
    else .ok (e, ts)

/-- the outer loop of `parse_expression`: postfix chain on the expression so far, then one infix
    operator with its right operand (a primary with its own postfix chain), repeated -/
def exprLoop : Nat → Nat → Expr → List Tok → PRes Expr
  | 0, _, _, _ => .error .fuel
  | fuel+1, d, e, ts =>
    match postfixChain fuel e ts with
    | .error er => .error er
    | .ok (e1, r) =>
      let op := curTy r
      if infixOps.contains op then
        match parsePrimary fuel d (adv r) with
        | .error er => .error er
        | .ok (rhs, r2) =>
          match postfixChain fuel rhs r2 with
          | .error er => .error er
          | .ok (rhs', r3) => exprLoop fuel d (.prefixOp op [e1, rhs']) r3
      else .ok (e1, r)

/-- `parse_primary` -/
def parsePrimary : Nat → Nat → List Tok → PRes Expr
  | 0, _, _ => .error .fuel
  | fuel+1, d, ts =>
    match curTy ts with
    | .T_NOT | .T_MINUS =>
      match parsePrimary fuel d (adv ts) with
      | .error e => .error e
      | .ok (e, r) =>
        match postfixChain fuel e r with
        | .error er => .error er
        | .ok (e', r') => .ok (.prefixOp (curTy ts) [e'], r')
    | .T_NUMBER => .ok (.num (atoll (curVal ts)), adv ts)
    | .T_FLOAT => .ok (.flt (curVal ts), adv ts)
    | .T_STRING => .ok (.str (curVal ts), adv ts)
    | .T_TRUE => .ok (.bool true, adv ts)
    | .T_FALSE => .ok (.bool false, adv ts)
    | .T_LBRACKET => parseArrayElems fuel d (adv ts) []
    | .T_UNSAFE => .error .unsupported
    | .T_LBRACE => .error .unsupported
    | .T_IDENTIFIER | .T_SET =>
      let name := curVal ts
      let next := peekTy ts 1
      let isQualified := next == .T_DOT && peekTy ts 2 == .T_IDENTIFIER
      let looksStruct := if isQualified then isUpperFirst (peekVal ts 2) else isUpperFirst name
      let afterBrace := if isQualified then peekTy ts 3 else peekTy ts 2
      let looksCode := afterBrace == .T_IF || afterBrace == .T_RETURN || afterBrace == .T_LET ||
                       afterBrace == .T_WHILE || afterBrace == .T_FOR
      let hasLbrace := next == .T_LBRACE || (isQualified && peekTy ts 3 == .T_LBRACE)
      if hasLbrace && looksStruct && !looksCode then
        if isQualified then .error .unsupported
        else parseStructFields fuel d (adv (adv ts)) (bytesToString name) [] []
      else
        let r := adv ts
        if curTy r == .T_DOUBLE_COLON then .error .unsupported
        else if isUpperFirst name && curTy r == .T_LT then .error .unsupported
        else .ok (.ident (bytesToString name), r)
    | .T_LPAREN =>
      let next := peekTy ts 1
      if next == .T_RPAREN then .ok (.tuple [], adv (adv ts))
      else if isOperatorTok next then
        -- parse_prefix_op: ( op args... )
        match parseArgs fuel d (adv (adv ts)) [] with
        | .error e => .error e
        | .ok (args, r) => .ok (.prefixOp next args, r)
      else
        match parseExpr fuel d (adv ts) with
        | .error e => .error e
        | .ok (first, r) =>
          if curTy r == .T_COMMA then parseTupleRest fuel d r [first]
          else if curTy r == .T_RPAREN then
            match first with
            | .ident x => .ok (.call x [], adv r)
            | .field (.ident _) _ => .error .unsupported          -- Module.function call
            | e => .ok (e, adv r)
          else
            match first with
            | .ident x =>
              match parseArgs fuel d r [] with
              | .error e => .error e
              | .ok (args, r2) => .ok (.call x args, r2)
            | .field (.ident _) _ => .error .unsupported
            | .field _ _ => .error .reject
            | .call _ _ => .error .unsupported                    -- computed callee
            | _ => .error .reject
    | _ => .error .reject

/-- arguments up to the closing parenthesis (`while (!match(RPAREN) && !match(EOF))`) -/
def parseArgs : Nat → Nat → List Tok → List Expr → PRes (List Expr)
  | 0, _, _, _ => .error .fuel
  | fuel+1, d, ts, acc =>
    if curTy ts == .T_RPAREN then .ok (acc.reverse, adv ts)
    else if curTy ts == .T_EOF then .error .reject
    else match parseExpr fuel d ts with
      | .error e => .error e
      | .ok (e, r) => parseArgs fuel d r (e :: acc)

def parseArrayElems : Nat → Nat → List Tok → List Expr → PRes Expr
  | 0, _, _, _ => .error .fuel
  | fuel+1, d, ts, acc =>
    if curTy ts == .T_RBRACKET then .ok (.arrayLit acc.reverse, adv ts)
    else if curTy ts == .T_EOF then .error .reject
    else match parseExpr fuel d ts with
      | .error e => .error e
      | .ok (e, r) =>
        if curTy r == .T_COMMA then parseArrayElems fuel d (adv r) (e :: acc)
        else if curTy r == .T_RBRACKET then .ok (.arrayLit (e :: acc).reverse, adv r)
        else .error .reject

/-- the rest of a tuple literal; `ts` starts at a comma -/
def parseTupleRest : Nat → Nat → List Tok → List Expr → PRes Expr
  | 0, _, _, _ => .error .fuel
  | fuel+1, d, ts, acc =>
    if curTy ts == .T_COMMA then
      let r := adv ts
      if curTy r == .T_RPAREN then .ok (.tuple acc.reverse, adv r)
      else match parseExpr fuel d r with
        | .error e => .error e
        | .ok (e, r2) => parseTupleRest fuel d r2 (e :: acc)
    else if curTy ts == .T_RPAREN then .ok (.tuple acc.reverse, adv ts)
    else .error .reject

/-- fields of `Name { f: e, ... }`; `ts` is just after the brace -/
def parseStructFields : Nat → Nat → List Tok → String → List String → List Expr → PRes Expr
  | 0, _, _, _, _, _ => .error .fuel
  | fuel+1, d, ts, name, fs, acc =>
    if curTy ts == .T_RBRACE then .ok (.structLit name fs.reverse acc.reverse, adv ts)
    else if curTy ts == .T_EOF then .error .reject
    else if curTy ts != .T_IDENTIFIER then .error .reject
    else
      let f := bytesToString (curVal ts)
      match expectT (adv ts) .T_COLON with
      | .error e => .error e
      | .ok r =>
        match parseExpr fuel d r with
        | .error e => .error e
        | .ok (e, r2) =>
          let r3 := if curTy r2 == .T_COMMA then adv r2 else r2
          parseStructFields fuel d r3 name (f :: fs) (e :: acc)

/-- `parse_cond_expression`: (cond (c v) ... (else v)) -/
def parseCond : Nat → Nat → List Tok → PRes Expr
  | 0, _, _ => .error .fuel
  | _+1, _, _ => .error .unsupported
end

/-- Is this node one of `is_expression_node` (the nodes `inject_implicit_return` wraps)?  All `Expr`
    of the model are (match and if-expressions are outside the fragment). -/
def wrapTail : Nat → List Stmt → List Stmt
  | 0, ss => ss
  | fuel+1, ss =>
    match ss.reverse with
    | [] => ss
    | last :: revInit =>
      let init := revInit.reverse
      match last with
      | .exprS e => init ++ [.ret (some e)]
      | .ifS c t e isElif =>
        -- recurse into both branches; an `else if` branch is an AST_IF node, not a block: untouched
        let t' := wrapTail fuel t
        let e' := match e with
          | none => none
          | some es => if isElif then some es else some (wrapTail fuel es)
        init ++ [.ifS c t' e' isElif]
      | .block b => init ++ [.block (wrapTail fuel b)]
      | _ => ss

mutual
/-- `parse_statement` -/
def parseStmt : Nat → Nat → List Tok → PRes Stmt
  | 0, _, _ => .error .fuel
  | fuel+1, d, ts =>
    match curTy ts with
    | .T_LET =>
      let r := adv ts
      let (isMut, r) := if curTy r == .T_MUT then (true, adv r) else (false, r)
      if curTy r != .T_IDENTIFIER then .error .reject
      else
        let name := bytesToString (curVal r)
        match expectT (adv r) .T_COLON with
        | .error e => .error e
        | .ok r2 =>
          match parseType fuel r2 with
          | .error e => .error e
          | .ok (ty, r3) =>
            match expectT r3 .T_ASSIGN with
            | .error e => .error e
            | .ok r4 =>
              match parseExpr fuel d r4 with
              | .error e => .error e
              | .ok (e, r5) => .ok (.letS name isMut ty e, r5)
    | .T_SET =>
      let r := adv ts
      if curTy r != .T_IDENTIFIER then .error .reject
      else match parseExpr fuel d (adv r) with
        | .error e => .error e
        | .ok (e, r2) => .ok (.setS (bytesToString (curVal r)) e, r2)
    | .T_WHILE =>
      match parseExpr fuel d (adv ts) with
      | .error e => .error e
      | .ok (c, r) =>
        match parseBlock fuel d r with
        | .error e => .error e
        | .ok (b, r2) => .ok (.whileS c b, r2)
    | .T_FOR =>
      let r := adv ts
      if curTy r != .T_IDENTIFIER then .error .reject
      else match expectT (adv r) .T_IN with
        | .error e => .error e
        | .ok r2 =>
          match parseExpr fuel d r2 with
          | .error e => .error e
          | .ok (rg, r3) =>
            match parseBlock fuel d r3 with
            | .error e => .error e
            | .ok (b, r4) => .ok (.forS (bytesToString (curVal r)) rg b, r4)
    | .T_RETURN =>
      let r := adv ts
      if curTy r == .T_RBRACE then .ok (.ret none, r)
      else match parseExpr fuel d r with
        | .error e => .error e
        | .ok (e, r2) => .ok (.ret (some e), r2)
    | .T_BREAK => .ok (.breakS, adv ts)
    | .T_CONTINUE => .ok (.continueS, adv ts)
    | .T_ASSERT =>
      match parseExpr fuel d (adv ts) with
      | .error e => .error e
      | .ok (e, r) => .ok (.assertS e, r)
    | .T_UNSAFE => .error .unsupported
    | .T_IF => parseIf fuel d ts
    | .T_ELSE => .error .reject
    | .T_FN => .error .unsupported
    | _ =>
      if curTy ts == .T_IDENTIFIER && (curVal ts == stringToBytes "print" || curVal ts == stringToBytes "println") then
        match parseExpr fuel d (adv ts) with
        | .error e => .error e
        | .ok (e, r) => .ok (.printS (curVal ts == stringToBytes "println") e, r)
      else match parseExpr fuel d ts with
        | .error e => .error e
        | .ok (e, r) => .ok (.exprS e, r)

/-- `parse_if_expression` in statement position -/
def parseIf : Nat → Nat → List Tok → PRes Stmt
  | 0, _, _ => .error .fuel
  | fuel+1, d, ts =>
    match parseExpr fuel d (adv ts) with
    | .error e => .error e
    | .ok (c, r) =>
      match parseBlock fuel d r with
      | .error e => .error e
      | .ok (t, r2) =>
        if curTy r2 == .T_ELSE then
          let r3 := adv r2
          if curTy r3 == .T_IF then
            match parseIf fuel d r3 with
            | .error e => .error e
            | .ok (s, r4) => .ok (.ifS c t (some [s]) true, r4)
          else match parseBlock fuel d r3 with
            | .error e => .error e
            | .ok (eb, r4) => .ok (.ifS c t (some eb) false, r4)
        else .ok (.ifS c t none false, r2)

/-- `parse_block` -/
def parseBlock : Nat → Nat → List Tok → PRes (List Stmt)
  | 0, _, _ => .error .fuel
  | fuel+1, d, ts =>
    if d + 1 > maxRecursionDepth then .error .tooDeep
    else match expectT ts .T_LBRACE with
      | .error e => .error e
      | .ok r => parseStmts fuel (d + 1) r []

def parseStmts : Nat → Nat → List Tok → List Stmt → PRes (List Stmt)
  | 0, _, _, _ => .error .fuel
  | fuel+1, d, ts, acc =>
    if curTy ts == .T_RBRACE then .ok (acc.reverse, adv ts)
    else if curTy ts == .T_EOF then .error .reject
    else match parseStmt fuel d ts with
      | .error e => .error e
      | .ok (s, r) => parseStmts fuel d r (s :: acc)
end

/-- the `do { name : type } while (comma)` loop of `parse_parameters` -/
def parseParamLoop : Nat → List Tok → List Param → PRes (List Param)
  | 0, _, _ => .error .fuel
  | fuel+1, ts, acc =>
    if curTy ts != .T_IDENTIFIER then .error .reject
    else match expectT (adv ts) .T_COLON with
      | .error e => .error e
      | .ok r =>
        match parseType fuel r with
        | .error e => .error e
        | .ok (ty, r2) =>
          let p : Param := ⟨bytesToString (curVal ts), ty⟩
          if curTy r2 == .T_COMMA then parseParamLoop fuel (adv r2) (p :: acc)
          else .ok ((p :: acc).reverse, r2)

def parseParams (fuel : Nat) (ts : List Tok) : PRes (List Param) :=
  if curTy ts == .T_RPAREN then .ok ([], ts) else parseParamLoop fuel ts []

def parseStructDefFields : Nat → List Tok → List (String × Ty) → PRes (List (String × Ty))
  | 0, _, _ => .error .fuel
  | fuel+1, ts, acc =>
    if curTy ts == .T_RBRACE then .ok (acc.reverse, adv ts)
    else if curTy ts != .T_IDENTIFIER then .error .reject
    else match expectT (adv ts) .T_COLON with
      | .error e => .error e
      | .ok r =>
        match parseType fuel r with
        | .error e => .error e
        | .ok (ty, r2) =>
          let r3 := if curTy r2 == .T_COMMA then adv r2 else r2
          parseStructDefFields fuel r3 ((bytesToString (curVal ts), ty) :: acc)

def parseItem (fuel : Nat) (ts : List Tok) : PRes Item :=
  match curTy ts with
  | .T_FN =>
    let r := adv ts
    if !(curTy r == .T_IDENTIFIER || curTy r == .T_SET) then .error .reject
    else
      let name := bytesToString (curVal r)
      match expectT (adv r) .T_LPAREN with
      | .error e => .error e
      | .ok r2 =>
        match parseParams fuel r2 with
        | .error e => .error e
        | .ok (ps, r3) =>
          match expectT r3 .T_RPAREN with
          | .error e => .error e
          | .ok r4 =>
            match expectT r4 .T_ARROW with
            | .error e => .error e
            | .ok r5 =>
              match parseType fuel r5 with
              | .error e => .error e
              | .ok (rt, r6) =>
                if curTy r6 == .T_REQUIRES || curTy r6 == .T_ENSURES then .error .unsupported
                else match parseBlock fuel 0 r6 with
                  | .error e => .error e
                  | .ok (body, r7) =>
                    let body' := if rt == .void then body else wrapTail fuel body
                    .ok (.fn name ps rt body', r7)
  | .T_SHADOW =>
    let r := adv ts
    if curTy r != .T_IDENTIFIER then .error .reject
    else match parseBlock fuel 0 (adv r) with
      | .error e => .error e
      | .ok (b, r2) => .ok (.shadow (bytesToString (curVal r)) b, r2)
  | .T_LET =>
    match parseStmt fuel 0 ts with
    | .ok (.letS n m t e, r) => .ok (.glet n m t e, r)
    | .ok _ => .error .reject
    | .error e => .error e
  | .T_STRUCT =>
    let r := adv ts
    if curTy r != .T_IDENTIFIER then .error .reject
    else match expectT (adv r) .T_LBRACE with
      | .error e => .error e
      | .ok r2 =>
        match parseStructDefFields fuel r2 [] with
        | .error e => .error e
        | .ok (fs, r3) => .ok (.structDef (bytesToString (curVal r)) fs, r3)
  | .T_EOF => .error .reject
  | _ => .error .unsupported

def parseItems : Nat → List Tok → List Item → Except PErr Program
  | 0, _, _ => .error .fuel
  | fuel+1, ts, acc =>
    if curTy ts == .T_EOF then .ok acc.reverse
    else match parseItem fuel ts with
      | .error e => .error e
      | .ok (it, r) => parseItems fuel r (it :: acc)

def parseFuel (ts : List Tok) : Nat := 4 * ts.length + 64

def parseProgram (ts : List Tok) : Except PErr Program := parseItems (parseFuel ts) ts []

end NanoVerif
