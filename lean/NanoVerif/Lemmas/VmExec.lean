/-
Machine-level lemmas for the compiler-correctness proof: what one dispatch of `step` does when the bytes
at `ip` are the encoding of a known data instruction, and composition of runs.
-/
import NanoVerif.Model.Vm
import NanoVerif.Model.Compile
import NanoVerif.Props.C11

namespace NanoVerif
open Gen

/-- `n` dispatches, all of which leave the core `running` -/
def runN (m : Module) : Nat → VmState → Step
  | 0, s => (s, .running)
  | n+1, s =>
    match step m s with
    | (s', .running) => runN m n s'
    | r => r

theorem runN_add (m : Module) (a b : Nat) (s s1 : VmState) (h : runN m a s = (s1, .running)) :
    runN m (a + b) s = runN m b s1 := by
  induction a generalizing s with
  | zero => simp only [runN] at h; cases h; simp
  | succ a ih =>
    rw [Nat.add_right_comm]
    simp only [runN] at h ⊢
    cases hs : step m s with
    | mk s' o =>
      rw [hs] at h
      cases o with
      | running => simp only at h ⊢; exact ih s' h
      | _ => simp at h

/-- a run of `a` dispatches that stays `running` is a prefix of every longer `runLoop` -/
theorem runLoop_of_runN (m : Module) (a k : Nat) (s s1 : VmState) (h : runN m a s = (s1, .running)) :
    runLoop m (a + k) s = runLoop m k s1 := by
  induction a generalizing s with
  | zero => simp only [runN] at h; cases h; simp
  | succ a ih =>
    rw [Nat.add_right_comm]
    simp only [runN] at h
    simp only [runLoop]
    cases hs : step m s with
    | mk s' o =>
      rw [hs] at h
      cases o with
      | running => simp only at h ⊢; exact ih s' h
      | _ => simp at h

/-- function `curFn` of `m` spans `[lo, hi)` (no uint32 wrap, inside the code section, below 2 GiB) -/
def InFn (m : Module) (curFn lo hi : Nat) : Prop :=
  ∃ fn, m.functions[curFn]? = some fn ∧ fn.codeOffset ≤ lo ∧ hi ≤ fn.codeOffset + fn.codeLength ∧
    fn.codeOffset + fn.codeLength ≤ m.code.length ∧ m.code.length < 2147483648

/-- the bytes `bs` lie at `ip` inside function `curFn` -/
def CodeAt (m : Module) (curFn ip : Nat) (bs : Bytes) : Prop :=
  InFn m curFn ip (ip + bs.length) ∧ ∃ rest, m.code.drop ip = bs ++ rest

theorem CodeAt.left {m : Module} {f ip : Nat} {a b : Bytes} (h : CodeAt m f ip (a ++ b)) : CodeAt m f ip a := by
  obtain ⟨⟨fn, h1, h2, h3, h4, h5⟩, rest, hr⟩ := h
  refine ⟨⟨fn, h1, h2, ?_, h4, h5⟩, b ++ rest, by rw [hr, List.append_assoc]⟩
  simp only [List.length_append] at h3; omega

theorem CodeAt.right {m : Module} {f ip : Nat} {a b : Bytes} (h : CodeAt m f ip (a ++ b)) : CodeAt m f (ip + a.length) b := by
  obtain ⟨⟨fn, h1, h2, h3, h4, h5⟩, rest, hr⟩ := h
  refine ⟨⟨fn, h1, by omega, ?_, h4, h5⟩, rest, ?_⟩
  · simp only [List.length_append] at h3; omega
  · have : m.code.drop (ip + a.length) = (m.code.drop ip).drop a.length := by rw [List.drop_drop]
    rw [this, hr, List.append_assoc, List.drop_left]

theorem Opc.ofByte_toByte (op : Opc) : Opc.ofByte op.toByte = some op := by
  cases op <;> rfl

theorem Opc.toByte_lt (op : Opc) : op.toByte < 256 := by
  cases op <;> decide

/-- one dispatch on a known data instruction -/
theorem step_data {m : Module} {s : VmState} {fr : Frame} {frs : List Frame} {op : Opc} {args : List Nat} {bs : Bytes}
    (hfr : s.frames = fr :: frs) (hc : CodeAt m s.curFn s.ip bs)
    (he : encode ⟨op.toByte, args⟩ = some bs) (hwf : Instr.wf ⟨op.toByte, args⟩) (hctl : Opc.isControl op = false) :
    step m s =
      ({ s with toCore := (execData' m fr { s.toCore with ip := s.ip + bs.length } s.ip op args).1 },
       (execData' m fr { s.toCore with ip := s.ip + bs.length } s.ip op args).2.toOutcome) := by
  obtain ⟨⟨fn, h1, h2, h3, h4, h5⟩, rest, hr⟩ := hc
  have hlen : 0 < bs.length := by
    have := C11.decode_encode _ bs [] hwf he
    cases bs with
    | nil => simp [decode] at this
    | cons => simp
  unfold step
  simp only [h1, hfr, List.isEmpty_cons, Bool.false_eq_true, if_false]
  have hu : u32 (fn.codeOffset + fn.codeLength) = fn.codeOffset + fn.codeLength := by
    unfold u32; omega
  rw [hu]
  have hlt : s.ip < fn.codeOffset + fn.codeLength := by omega
  simp only [hlt, if_true]
  have hgt : ¬ (fn.codeOffset + fn.codeLength > m.code.length) := by omega
  simp only [hgt, if_false]
  rw [hr]
  have htk : (bs ++ rest).take (fn.codeOffset + fn.codeLength - s.ip) = bs ++ rest.take (fn.codeOffset + fn.codeLength - s.ip - bs.length) := by
    rw [List.take_append]
    have : List.take (fn.codeOffset + fn.codeLength - s.ip) bs = bs := List.take_of_length_le (by omega)
    rw [this]
  rw [htk, C11.decode_encode _ bs _ hwf he]
  simp only [Opc.ofByte_toByte]
  unfold execInstr execData
  simp only [hctl, hfr, List.headD_cons, Bool.false_eq_true, if_false]

end NanoVerif
